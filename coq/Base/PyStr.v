(* Python str operations used by bardic, over ASCII strings.
   Follows CPython semantics on the byte range 0..127 (the model's domain). *)
From Coq Require Import String Ascii List Bool Arith ZArith Lia.
Import ListNotations.
Local Open Scope string_scope.
Local Open Scope nat_scope.

Definition ascii_eqb (a b : ascii) : bool := Ascii.eqb a b.

(* str.isspace on ASCII: \t \n \v \f \r, 0x1c-0x1f, space *)
Definition is_space (c : ascii) : bool :=
  let n := nat_of_ascii c in
  ((9 <=? n) && (n <=? 13)) || ((28 <=? n) && (n <=? 32)).

Definition is_digit (c : ascii) : bool :=
  let n := nat_of_ascii c in (48 <=? n) && (n <=? 57).

Definition is_alpha (c : ascii) : bool :=
  let n := nat_of_ascii c in
  ((65 <=? n) && (n <=? 90)) || ((97 <=? n) && (n <=? 122)).

(* \w on ASCII *)
Definition is_word (c : ascii) : bool :=
  is_alpha c || is_digit c || ascii_eqb c "_"%char.

Fixpoint lstrip (s : string) : string :=
  match s with
  | EmptyString => EmptyString
  | String c r => if is_space c then lstrip r else s
  end.

(* rstrip: drop the trailing run of spaces *)
Fixpoint rstrip (s : string) : string :=
  match s with
  | EmptyString => EmptyString
  | String c r =>
      match rstrip r with
      | EmptyString => if is_space c then EmptyString else String c EmptyString
      | r' => String c r'
      end
  end.

Definition strip (s : string) : string := rstrip (lstrip s).

Fixpoint all_space (s : string) : bool :=
  match s with
  | EmptyString => true
  | String c r => is_space c && all_space r
  end.

Fixpoint startswith (s p : string) : bool :=
  match p with
  | EmptyString => true
  | String b p' =>
      match s with
      | EmptyString => false
      | String a s' => ascii_eqb a b && startswith s' p'
      end
  end.

Fixpoint drop (n : nat) (s : string) : string :=
  match n with
  | O => s
  | S n' => match s with EmptyString => EmptyString | String _ r => drop n' r end
  end.

Fixpoint take (n : nat) (s : string) : string :=
  match n with
  | O => EmptyString
  | S n' => match s with EmptyString => EmptyString | String c r => String c (take n' r) end
  end.

Definition endswith (s p : string) : bool :=
  let ls := String.length s in
  let lp := String.length p in
  (lp <=? ls) && String.eqb (drop (ls - lp) s) p.

(* str.find(sub): index of first occurrence, None for -1 *)
Fixpoint find_from (s sub : string) (i : nat) : option nat :=
  if startswith s sub then Some i else
  match s with
  | EmptyString => None
  | String _ r => find_from r sub (S i)
  end.
Definition str_find (s sub : string) : option nat := find_from s sub 0.
Definition str_contains (s sub : string) : bool :=
  match str_find s sub with Some _ => true | None => false end.

Fixpoint find_char_from (s : string) (c : ascii) (i : nat) : option nat :=
  match s with
  | EmptyString => None
  | String a r => if ascii_eqb a c then Some i else find_char_from r c (S i)
  end.
Definition find_char (s : string) (c : ascii) : option nat := find_char_from s c 0.

(* s.split(sep) for a single-character separator *)
Fixpoint split_char_aux (s : string) (c : ascii) (cur : string) : list string :=
  match s with
  | EmptyString => [cur]
  | String a r =>
      if ascii_eqb a c then cur :: split_char_aux r c EmptyString
      else split_char_aux r c (cur ++ String a EmptyString)
  end.
Definition split_char (s : string) (c : ascii) : list string := split_char_aux s c EmptyString.

(* s.split() : on runs of whitespace, no empty strings *)
Fixpoint split_ws_aux (s : string) (cur : string) : list string :=
  match s with
  | EmptyString => match cur with EmptyString => [] | _ => [cur] end
  | String a r =>
      if is_space a then
        match cur with
        | EmptyString => split_ws_aux r EmptyString
        | _ => cur :: split_ws_aux r EmptyString
        end
      else split_ws_aux r (cur ++ String a EmptyString)
  end.
Definition split_ws (s : string) : list string := split_ws_aux s EmptyString.

Fixpoint join (sep : string) (l : list string) : string :=
  match l with
  | [] => EmptyString
  | [x] => x
  | x :: r => x ++ sep ++ join sep r
  end.

Fixpoint concat_all (l : list string) : string :=
  match l with
  | [] => EmptyString
  | x :: r => x ++ concat_all r
  end.

(* decimal printing of integers: str(int) *)
Definition digit_char (n : nat) : ascii := ascii_of_nat (48 + n).

Fixpoint pos_digits_fuel (fuel : nat) (n : N) (acc : string) : string :=
  match fuel with
  | O => acc
  | S f =>
      let d := N.to_nat (N.modulo n 10) in
      let q := N.div n 10 in
      let acc' := String (digit_char d) acc in
      if N.eqb q 0 then acc' else pos_digits_fuel f q acc'
  end.

Definition str_of_N (n : N) : string :=
  pos_digits_fuel (S (N.to_nat (N.log2 n))) n EmptyString.

Definition str_of_Z (z : Z) : string :=
  match z with
  | Z0 => "0"
  | Zpos p => str_of_N (Npos p)
  | Zneg p => String "-"%char (str_of_N (Npos p))
  end.

(* parse a run of leading digits: returns (value, rest) or None if no digit *)
Fixpoint digits_val (s : string) (acc : N) : N * string :=
  match s with
  | String c r =>
      if is_digit c then digits_val r (acc * 10 + N.of_nat (nat_of_ascii c - 48))%N
      else (acc, s)
  | EmptyString => (acc, s)
  end.

Definition take_digits (s : string) : option (N * string) :=
  match s with
  | String c _ => if is_digit c then Some (digits_val s 0%N) else None
  | EmptyString => None
  end.

Fixpoint repeat_char (c : ascii) (n : nat) : string :=
  match n with O => EmptyString | S k => String c (repeat_char c k) end.

Fixpoint string_rev (s : string) : string :=
  match s with
  | EmptyString => EmptyString
  | String c r => string_rev r ++ String c EmptyString
  end.

Fixpoint str_in (x : string) (l : list string) : bool :=
  match l with [] => false | y :: r => String.eqb x y || str_in x r end.
