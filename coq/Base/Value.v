(* Python values kept in engine.state, environments with dict semantics, exceptions, results. *)
From Coq Require Import String Ascii List Bool ZArith.
From Bardic Require Import PyStr.
Import ListNotations.
Local Open Scope list_scope.
Local Open Scope string_scope.

Inductive value :=
| VNone
| VBool (b : bool)
| VInt (z : Z)
| VStr (s : string)
| VList (l : list value)
| VTuple (l : list value)
| VDict (d : list (string * value))            (* insertion-ordered, string keys *)
| VObj (cls : string) (attrs : list (string * value))   (* instance of class cls with __dict__ attrs *)
| VClass (name : string)                       (* a class object bound by an import line *)
| VModule (name : string)                      (* a module object bound by an import line *)
| VFunc (name : string).                       (* a function object bound by an import line *)

(* exception kinds (messages are not modelled) *)
Inductive exn :=
| NameError | TypeError | AttributeError | ZeroDivisionError | KeyError | IndexError
| ValueError | SyntaxError | RuntimeError | AssertionError | OtherError.

Definition exn_eqb (a b : exn) : bool :=
  match a, b with
  | NameError, NameError | TypeError, TypeError | AttributeError, AttributeError
  | ZeroDivisionError, ZeroDivisionError | KeyError, KeyError | IndexError, IndexError
  | ValueError, ValueError | SyntaxError, SyntaxError | RuntimeError, RuntimeError
  | AssertionError, AssertionError | OtherError, OtherError => true
  | _, _ => false
  end.

Inductive res (A : Type) := Ok (a : A) | Exc (e : exn).
Arguments Ok {A} a. Arguments Exc {A} e.

Definition env := list (string * value).

Fixpoint lookup {A} (k : string) (e : list (string * A)) : option A :=
  match e with
  | [] => None
  | (k', v) :: r => if String.eqb k k' then Some v else lookup k r
  end.

Definition has_key {A} (k : string) (e : list (string * A)) : bool :=
  match lookup k e with Some _ => true | None => false end.

(* d[k] = v : an existing key keeps its position, a new key goes last *)
Fixpoint set_key {A} (k : string) (v : A) (e : list (string * A)) : list (string * A) :=
  match e with
  | [] => [(k, v)]
  | (k', v') :: r => if String.eqb k k' then (k, v) :: r else (k', v') :: set_key k v r
  end.

Fixpoint del_key {A} (k : string) (e : list (string * A)) : list (string * A) :=
  match e with
  | [] => []
  | (k', v') :: r => if String.eqb k k' then r else (k', v') :: del_key k r
  end.

(* d.update(other) *)
Definition update {A} (e other : list (string * A)) : list (string * A) :=
  fold_left (fun acc kv => set_key (fst kv) (snd kv) acc) other e.

Definition keys {A} (e : list (string * A)) : list string := map fst e.

(* ---- boolean equality on values (dict equality is order-insensitive in Python; the model
        compares association lists in order, the harness canonicalises to insertion order) ---- *)
Fixpoint value_eqb (a b : value) {struct a} : bool :=
  let fix leq (x y : list value) {struct x} : bool :=
      match x, y with
      | [], [] => true
      | u :: r, v :: s => value_eqb u v && leq r s
      | _, _ => false
      end in
  let fix deq (x y : list (string * value)) {struct x} : bool :=
      match x, y with
      | [], [] => true
      | (k, u) :: r, (k', v) :: s => String.eqb k k' && value_eqb u v && deq r s
      | _, _ => false
      end in
  match a, b with
  | VNone, VNone => true
  | VBool x, VBool y => Bool.eqb x y
  | VInt x, VInt y => Z.eqb x y
  | VStr x, VStr y => String.eqb x y
  | VList x, VList y => leq x y
  | VTuple x, VTuple y => leq x y
  | VDict x, VDict y => deq x y
  | VObj c x, VObj c' y => String.eqb c c' && deq x y
  | VClass x, VClass y => String.eqb x y
  | VModule x, VModule y => String.eqb x y
  | VFunc x, VFunc y => String.eqb x y
  | _, _ => false
  end.

Fixpoint env_eqb (a b : env) : bool :=
  match a, b with
  | [], [] => true
  | (k, u) :: r, (k', v) :: s => String.eqb k k' && value_eqb u v && env_eqb r s
  | _, _ => false
  end.

(* bool(v) *)
Definition truthy (v : value) : bool :=
  match v with
  | VNone => false
  | VBool b => b
  | VInt z => negb (Z.eqb z 0)
  | VStr s => negb (String.eqb s "")
  | VList l | VTuple l => match l with [] => false | _ => true end
  | VDict d => match d with [] => false | _ => true end
  | _ => true
  end.

(* repr / str of the modelled subset.  Strings are repr'd with single quotes and no escapes:
   generated string values contain no quote, backslash or control character. *)
Fixpoint py_repr (v : value) : string :=
  let fix commas (l : list value) : string :=
      match l with
      | [] => ""
      | [x] => py_repr x
      | x :: r => py_repr x ++ ", " ++ commas r
      end in
  let fix items (d : list (string * value)) : string :=
      match d with
      | [] => ""
      | [(k, x)] => "'" ++ k ++ "': " ++ py_repr x
      | (k, x) :: r => "'" ++ k ++ "': " ++ py_repr x ++ ", " ++ items r
      end in
  match v with
  | VNone => "None"
  | VBool true => "True"
  | VBool false => "False"
  | VInt z => str_of_Z z
  | VStr s => "'" ++ s ++ "'"
  | VList l => "[" ++ commas l ++ "]"
  | VTuple [x] => "(" ++ py_repr x ++ ",)"
  | VTuple l => "(" ++ commas l ++ ")"
  | VDict d => "{" ++ items d ++ "}"
  | VObj c _ => "<" ++ c ++ " object>"
  | VClass c => "<class '" ++ c ++ "'>"
  | VModule m => "<module '" ++ m ++ "'>"
  | VFunc f => "<function " ++ f ++ ">"
  end.

Definition py_str (v : value) : string :=
  match v with
  | VStr s => s
  | _ => py_repr v
  end.

(* iter(v) as a list *)
Definition py_iter (v : value) : res (list value) :=
  match v with
  | VList l | VTuple l => Ok l
  | VStr s => Ok (map (fun c => VStr (String c EmptyString)) (list_ascii_of_string s))
  | VDict d => Ok (map (fun kv => VStr (fst kv)) d)
  | _ => Exc TypeError
  end.
