(* Aliasing model for C16: values whose mutable containers carry a cell identity.
   Two occurrences with the same identity are the same Python object: an in-place mutation changes both.
   save_state / load_state / the undo snapshot build their result from NEW cells (json round trip, list/dict
   comprehensions, deepcopy): modelled by `fresh`, which renumbers every container with identities >= a
   counter that is above every identity the running game uses. *)
From Coq Require Import String Ascii List Bool ZArith Arith Lia.
Import ListNotations.
Local Open Scope list_scope.

Inductive cval :=
| CAtom (a : Z)                                   (* immutable scalars: None, bool, int, str (coded) *)
| CList (id : nat) (l : list cval)
| CDict (id : nat) (d : list (string * cval)).

(* all container identities of a value *)
Fixpoint ids (v : cval) : list nat :=
  let fix idl (l : list cval) : list nat := match l with [] => [] | x :: r => ids x ++ idl r end in
  let fix idd (d : list (string * cval)) : list nat := match d with [] => [] | (_, x) :: r => ids x ++ idd r end in
  match v with
  | CAtom _ => []
  | CList i l => i :: idl l
  | CDict i d => i :: idd d
  end.

(* copy into fresh cells: returns the next free identity and the copy *)
Fixpoint fresh (n : nat) (v : cval) : nat * cval :=
  let fix frl (n : nat) (l : list cval) : nat * list cval :=
      match l with
      | [] => (n, [])
      | x :: r => let '(n1, x') := fresh n x in let '(n2, r') := frl n1 r in (n2, x' :: r')
      end in
  let fix frd (n : nat) (d : list (string * cval)) : nat * list (string * cval) :=
      match d with
      | [] => (n, [])
      | (k, x) :: r => let '(n1, x') := fresh n x in let '(n2, r') := frd n1 r in (n2, (k, x') :: r')
      end in
  match v with
  | CAtom a => (n, CAtom a)
  | CList _ l => let '(n1, l') := frl (S n) l in (n1, CList n l')
  | CDict _ d => let '(n1, d') := frd (S n) d in (n1, CDict n d')
  end.

(* an in-place mutation of the container with identity i: every occurrence of that cell changes *)
Fixpoint mutate (i : nat) (f : cval -> cval) (v : cval) : cval :=
  let fix mul (l : list cval) : list cval := match l with [] => [] | x :: r => mutate i f x :: mul r end in
  let fix mud (d : list (string * cval)) : list (string * cval) :=
      match d with [] => [] | (k, x) :: r => (k, mutate i f x) :: mud r end in
  match v with
  | CAtom a => CAtom a
  | CList j l => if Nat.eqb i j then f v else CList j (mul l)
  | CDict j d => if Nat.eqb i j then f v else CDict j (mud d)
  end.

(* the value denoted, forgetting identities (what == compares) *)
Fixpoint shape (v : cval) : cval :=
  let fix shl (l : list cval) : list cval := match l with [] => [] | x :: r => shape x :: shl r end in
  let fix shd (d : list (string * cval)) : list (string * cval) :=
      match d with [] => [] | (k, x) :: r => (k, shape x) :: shd r end in
  match v with
  | CAtom a => CAtom a
  | CList _ l => CList 0 (shl l)
  | CDict _ d => CDict 0 (shd d)
  end.
