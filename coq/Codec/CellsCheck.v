(* Correspondence helper for C16: the fresh-copy model evaluated on real object graphs (identities from id()). *)
From Coq Require Import String Ascii List Bool ZArith Arith.
From Bardic Require Import Cells.
Import ListNotations.

(* (live variables as a cell graph, first identity above the game's) *)
Definition ccase := (cval * nat)%type.
Definition ccase_bad (c : ccase) : bool :=
  let '(v, n) := c in
  negb (forallb (fun i => Nat.leb n i) (ids (snd (fresh n v)))) || negb (forallb (fun i => Nat.ltb i n) (ids v)).
Definition ccase_show (c : ccase) := let '(v, n) := c in (ids v, ids (snd (fresh n v))).
