(* C06 — the save/load codec of the runtime engine.

   Follows bardic/runtime/engine.py (and its fork bardic/templates/browser/engine_browser.py, whose
   codec functions are textually the same):
     _serialize_value  -> ser      (priority chain 0..5, same order)
     _deserialize_value -> deser   (priority chain, same order)
     _serialize_state / save_state()["state"]      -> save_doc
     _deserialize_state / the state part of load_state -> load_doc
     _is_import_binding -> is_import_binding
   The serialised form is a JSON tree (json); json.dumps/json.loads is json_rt.

   Three places of the codec were repaired by the candidate patches F06a, F06b, F06c
   (/verif/proposed_fixes).  The model carries both behaviours under a record of three switches
   (cfg); `fixed` is the code WITH the patches (the theorems of Props/C06.v are about `fixed`),
   `legacy` is the code before them (Props/C06.v keeps the `_refuted` witnesses for it).  The
   harness determines the switches of the tree under test by three probes and evaluates the model
   with exactly these, so the correspondence run is meaningful on either tree.  (When this file was
   written /repo did not have the patches yet: its probes give `legacy`, a scratch copy with
   F06a-c applied gives `fixed`; both runs had no mismatch.)
   Recursion through lists and dicts goes through the comprehension combinators below (their
   function argument is bound outside their `fix`, which is what the guard checker needs for the
   nested recursion on `value` / `json`).

   Modelling notes (also in Props/C06.v):
   * Python dicts are association lists in insertion order with pairwise distinct keys; the dict
     comprehensions of the code are `map`s over them.  `cls.__new__(cls).__dict__` is empty, so
     `obj.__dict__.update(d)` gives `d`.
   * The user's to_save_dict/from_save_dict are parameters of the class table: `ci_to_save` maps the
     attribute list of the object to the value the user returns, `ci_from_save` maps the value it is
     handed to the attribute list of the object it builds (None = it raised).
   * The dict returned by to_save_dict is an arbitrary value (it may again contain custom objects), so
     the recursion `_serialize_value(value.to_save_dict())` is not structural: `ser` takes fuel that is
     consumed ONLY at that call (one unit per nested to_save_dict); everything else is structural
     recursion on the value tree.  Running out of fuel (None) is Python's RecursionError.
   * `None` as the result of `ser` also stands for "the result is not JSON": the legacy code puts the
     user's dict into the document as it is, and json.dumps rejects it when it holds an object.
   * Modules and functions: VModule/VFunc carry only a name.  A function object has an empty __dict__
     (priority 4 gives {"_type":"function","_module":"builtins","_data":{}}); a module's attribute
     dump is abstracted to an empty "_data" (the harness canonicalises the dump the same way) - what
     matters for C06 is that the binding comes back as a dict and not as the module.
   * Priority 5 (string_repr) is reached only by Python values outside `value` (sets, built-in
     functions, slots objects); `deser` handles such documents. *)
From Coq Require Import String Ascii List Bool ZArith.
From Bardic Require Import PyStr Value.
Import ListNotations.
Local Open Scope list_scope.
Local Open Scope string_scope.

(* ---------------------------------------------------------------------------------------- *)
(* list / dict comprehensions whose body may fail (None = the exception propagates) *)

Section Comprehensions.
Context {A B : Type}.
Variable f : A -> option B.

(* [f x for x in l] *)
Fixpoint mapM (l : list A) : option (list B) :=
  match l with
  | [] => Some []
  | x :: r => match f x, mapM r with Some a, Some b => Some (a :: b) | _, _ => None end
  end.

(* {k: f x for k, x in d.items()} *)
Fixpoint mapMi (d : list (string * A)) : option (list (string * B)) :=
  match d with
  | [] => Some []
  | (k, x) :: r => match f x, mapMi r with Some a, Some b => Some ((k, a) :: b) | _, _ => None end
  end.

(* {k: f x for k, x in d.items() if keep k} *)
Variable keep : string -> bool.
Fixpoint filterMi (d : list (string * A)) : option (list (string * B)) :=
  match d with
  | [] => Some []
  | (k, x) :: r =>
      if keep k
      then match f x, filterMi r with Some a, Some b => Some ((k, a) :: b) | _, _ => None end
      else filterMi r
  end.
End Comprehensions.

(* {k: f x for k, x in d.items()} for a total f *)
Definition map_items {A B : Type} (f : A -> B) (d : list (string * A)) : list (string * B) :=
  map (fun kv => let '(k, x) := kv in (k, f x)) d.

(* g(d[key]) if key in d else dflt — g is applied to the stored element itself *)
Section AtKey.
Context {A R : Type}.
Variable g : A -> R.
Variable dflt : R.
Fixpoint at_key (key : string) (d : list (string * A)) : R :=
  match d with
  | [] => dflt
  | (k, x) :: r => if String.eqb key k then g x else at_key key r
  end.
End AtKey.

Section AllP.
Context {A : Type}.
Variable P : A -> Prop.
Fixpoint allP (l : list A) : Prop :=
  match l with [] => True | x :: r => P x /\ allP r end.
Fixpoint allPi (d : list (string * A)) : Prop :=
  match d with [] => True | (k, x) :: r => P x /\ allPi r end.
End AllP.

(* ---------------------------------------------------------------------------------------- *)
(* JSON trees *)

Inductive json :=
| JNull
| JBool (b : bool)
| JInt (z : Z)
| JStr (s : string)
| JList (l : list json)
| JObj (o : list (string * json)).      (* insertion-ordered, distinct keys *)

(* json.loads(json.dumps(j)): the text codec rebuilds the same tree (objects keep their key order,
   keys are strings already, there are no tuples in a json tree). *)
Fixpoint json_rt (j : json) : json :=
  match j with
  | JList l => JList (map json_rt l)
  | JObj o => JObj (map_items json_rt o)
  | _ => j
  end.

Fixpoint json_eqb (a b : json) {struct a} : bool :=
  let fix leq (x y : list json) {struct x} : bool :=
      match x, y with
      | [], [] => true
      | u :: r, v :: s => json_eqb u v && leq r s
      | _, _ => false
      end in
  let fix oeq (x y : list (string * json)) {struct x} : bool :=
      match x, y with
      | [], [] => true
      | (k, u) :: r, (k', v) :: s => String.eqb k k' && json_eqb u v && oeq r s
      | _, _ => false
      end in
  match a, b with
  | JNull, JNull => true
  | JBool x, JBool y => Bool.eqb x y
  | JInt x, JInt y => Z.eqb x y
  | JStr x, JStr y => String.eqb x y
  | JList x, JList y => leq x y
  | JObj x, JObj y => oeq x y
  | _, _ => false
  end.

(* a JSON tree read as plain Python data (what json.loads returns), nothing interpreted *)
Fixpoint raw (j : json) : value :=
  match j with
  | JNull => VNone
  | JBool b => VBool b
  | JInt z => VInt z
  | JStr s => VStr s
  | JList l => VList (map raw l)
  | JObj o => VDict (map_items raw o)
  end.

(* json.loads(json.dumps(v)) of a Python value: None = TypeError (an object, class, module or
   function somewhere inside); tuples are written as arrays *)
Fixpoint dump (v : value) : option json :=
  match v with
  | VNone => Some JNull
  | VBool b => Some (JBool b)
  | VInt z => Some (JInt z)
  | VStr s => Some (JStr s)
  | VList l | VTuple l => option_map JList (mapM dump l)
  | VDict d => option_map JObj (mapMi dump d)
  | VObj _ _ | VClass _ | VModule _ | VFunc _ => None
  end.

(* ---------------------------------------------------------------------------------------- *)
(* which code: the three repaired places *)

Record cfg := mkCfg {
  underscore_kept : bool;   (* F06b: priority 4 writes every key of __dict__ (legacy: skips "_..." keys) *)
  custom_recursed : bool;   (* F06c: to_save_dict's result is serialised recursively and "_data" is
                               deserialised before from_save_dict (legacy: both passed through as they are) *)
  imports_kept : bool       (* F06a: classes/modules/functions are not saved and keep their binding on load *)
}.
Definition fixed : cfg := mkCfg true true true.
Definition legacy : cfg := mkCfg false false false.

(* ---------------------------------------------------------------------------------------- *)
(* the class table *)

Record class_info := mkClass {
  ci_module : string;                                          (* type(obj).__module__ *)
  ci_registered : bool;                                        (* the class name is a key of engine.context *)
  ci_to_save : option (list (string * value) -> value);        (* to_save_dict, if the class defines it *)
  ci_from_save : option (value -> option (list (string * value)))   (* from_save_dict; None result = raised *)
}.
Definition ctx := list (string * class_info).

Definition class_of (cx : ctx) (c : string) : class_info :=
  match lookup c cx with
  | Some ci => ci
  | None => mkClass "" false None None
  end.

Definition wrap_obj (c m : string) (data : json) (custom : bool) : json :=
  JObj ([("_type", JStr c); ("_module", JStr m); ("_data", data)]
        ++ (if custom then [("_custom", JBool true)] else [])).

(* ---------------------------------------------------------------------------------------- *)
(* _serialize_value *)

Section SerGo.
Variable cf : cfg.
Variable cx : ctx.
(* how the value returned by to_save_dict is serialised (the recursive call with less fuel) *)
Variable ser_custom : value -> option json.

(* priority 4 writes {k: ser v for k, v in __dict__.items() [if not k.startswith("_")]} *)
Definition attr_kept (k : string) : bool := underscore_kept cf || negb (startswith k "_").

Fixpoint ser_go (v : value) {struct v} : option json :=
  match v with
  (* priority 0: a class object *)
  | VClass _ => Some JNull
  | VObj c attrs =>
      let ci := class_of cx c in
      match ci_to_save ci with
      | Some f =>
          (* priority 1: custom serialisation *)
          option_map (fun data => wrap_obj c (ci_module ci) data true)
                     (if custom_recursed cf then ser_custom (f attrs) else dump (f attrs))
      | None =>
          (* priority 2 fails (json.dumps raises TypeError); priority 3 does not apply; priority 4 *)
          option_map (fun o => wrap_obj c (ci_module ci) (JObj o) false)
                     (filterMi ser_go attr_kept attrs)
      end
  (* priority 2: json.loads(json.dumps(value)) *)
  | VNone | VBool _ | VInt _ | VStr _ => dump v
  (* priority 2, else priority 3 *)
  | VList l => match dump v with Some j => Some j | None => option_map JList (mapM ser_go l) end
  | VTuple l => match dump v with Some j => Some j | None => option_map JList (mapM ser_go l) end
  | VDict d => match dump v with Some j => Some j | None => option_map JObj (mapMi ser_go d) end
  (* priority 4: modules and functions have a __dict__ (see the header for the abstraction) *)
  | VModule _ => Some (wrap_obj "module" "builtins" (JObj []) false)
  | VFunc _ => Some (wrap_obj "function" "builtins" (JObj []) false)
  end.
End SerGo.

Fixpoint ser (fuel : nat) (cf : cfg) (cx : ctx) {struct fuel} : value -> option json :=
  ser_go cf cx (match fuel with 0 => fun _ => None | S n => ser n cf cx end).

(* ---------------------------------------------------------------------------------------- *)
(* _deserialize_value *)

(* `obj_type not in self.context` / `self.context[obj_type]`:
   Some (Some (c, ci)) = registered class, Some None = not in context, None = TypeError (unhashable) *)
Definition context_class (cx : ctx) (t : json) : option (option (string * class_info)) :=
  match t with
  | JStr c =>
      match lookup c cx with
      | Some ci => if ci_registered ci then Some (Some (c, ci)) else Some None
      | None => Some None
      end
  | JList _ | JObj _ => None
  | _ => Some None
  end.

Definition is_string_repr (t : json) : bool :=
  match t with JStr s => String.eqb s "string_repr" | _ => false end.

(* `value.get("_data", {})`, a JSON object expected: its items (None = AttributeError on .items()) *)
Definition obj_items (j : json) : option (list (string * json)) :=
  match j with JObj o => Some o | _ => None end.

Fixpoint deser (cf : cfg) (cx : ctx) (j : json) {struct j} : option value :=
  match j with
  (* priority 1 *)
  | JNull => Some VNone
  | JBool b => Some (VBool b)
  | JInt z => Some (VInt z)
  | JStr s => Some (VStr s)
  (* priority 2 *)
  | JList l => option_map VList (mapM (deser cf cx) l)
  | JObj o =>
      match lookup "_type" o with
      | None => option_map VDict (mapMi (deser cf cx) o)        (* plain dict *)
      | Some t =>
          (* {k: deser v for k, v in value.get("_data", {}).items()}; None = an exception *)
          let data_items :=
              at_key (fun x => match x with JObj o' => mapMi (deser cf cx) o' | _ => None end) (Some []) "_data" o in
          (* deser(value.get("_data", {})) *)
          let data_whole := at_key (deser cf cx) (Some (VDict [])) "_data" o in
          if is_string_repr t
          then Some (raw (match lookup "_value" o with Some x => x | None => JStr "" end))
          else
            match context_class cx t with
            | None => None
            | Some None => option_map VDict data_items          (* class not in context: dict of the data *)
            | Some (Some (c, ci)) =>
                (* priority 4: cls.__new__(cls) + __dict__.update *)
                let auto := option_map (VObj c) data_items in
                match ci_from_save ci with
                | Some g =>
                    (* priority 3; any exception falls through to priority 4 *)
                    let arg := if custom_recursed cf then data_whole
                               else Some (raw (match lookup "_data" o with Some x => x | None => JObj [] end)) in
                    match arg with
                    | Some a => match g a with Some attrs => Some (VObj c attrs) | None => auto end
                    | None => auto
                    end
                | None => auto
                end
            end
      end
  end.

(* ---------------------------------------------------------------------------------------- *)
(* the variable dictionary: save_state()["state"] and the state part of load_state *)

Definition is_import_binding (v : value) : bool :=
  match v with
  | VClass _ | VModule _ | VFunc _ => true
  | _ => false
  end.

Fixpoint save_doc (fuel : nat) (cf : cfg) (cx : ctx) (st : env) : option (list (string * json)) :=
  match st with
  | [] => Some []
  | (k, v) :: r =>
      if imports_kept cf && is_import_binding v then save_doc fuel cf cx r
      else match ser fuel cf cx v, save_doc fuel cf cx r with
           | Some j, Some o => Some ((k, j) :: o)
           | _, _ => None
           end
  end.

Definition deser_doc (cf : cfg) (cx : ctx) (o : list (string * json)) : option env :=
  mapMi (deser cf cx) o.

(* `cur` is engine.state at the time of the load (for a fresh engine: what the import lines and
   the first passage bound) *)
Definition load_doc (cf : cfg) (cx : ctx) (cur : env) (o : list (string * json)) : option env :=
  match deser_doc cf cx o with
  | None => None
  | Some loaded =>
      if imports_kept cf
      then Some (fold_left (fun acc kv => if has_key (fst kv) acc then acc else (acc ++ [kv])%list)
                           loaded (filter (fun kv => is_import_binding (snd kv)) cur))
      else Some loaded
  end.

(* ---------------------------------------------------------------------------------------- *)
(* the statement side: what comes back, and the supported domain *)

(* every tuple becomes a list (documented: JSON has no tuples) *)
Fixpoint t2l (v : value) : value :=
  match v with
  | VList l | VTuple l => VList (map t2l l)
  | VDict d => VDict (map_items t2l d)
  | VObj c a => VObj c (map_items t2l a)
  | _ => v
  end.

Definition t2l_items (d : list (string * value)) : list (string * value) := map_items t2l d.

Section SuppGo.
Variable cx : ctx.
(* what is required of the value returned by to_save_dict (the domain at the next lower depth) *)
Variable supp_custom : value -> Prop.

Fixpoint supp_go (v : value) {struct v} : Prop :=
  match v with
  | VNone | VBool _ | VInt _ | VStr _ => True
  | VList l | VTuple l => allP supp_go l
  (* a dict that has a "_type" key reads as a serialised object: outside the domain *)
  | VDict d => has_key "_type" d = false /\ allPi supp_go d
  | VObj c attrs =>
      match lookup c cx with
      | None => False
      | Some ci =>
          ci_registered ci = true /\ String.eqb c "string_repr" = false /\
          match ci_to_save ci, ci_from_save ci with
          | None, None => allPi supp_go attrs                   (* plain attribute object *)
          | Some f, Some g =>                                  (* to_save_dict/from_save_dict *)
              supp_custom (f attrs) /\ g (t2l (f attrs)) = Some (t2l_items attrs)
          | _, _ => False
          end
      end
  | VClass _ | VModule _ | VFunc _ => False
  end.
End SuppGo.

(* supp n: in the domain, with at most n nested to_save_dict calls.  supp 0 = no custom objects. *)
Fixpoint supp (n : nat) (cx : ctx) {struct n} : value -> Prop :=
  supp_go cx (match n with 0 => fun _ => False | S m => supp m cx end).

Definition supported (cx : ctx) (v : value) : Prop := exists n, supp n cx v.
