(* Executable comparison functions used by the generated cases of C06 (correspondence check), and the
   class table of the test classes that harness/c06.py writes to its temporary module `c06mod`
   (Plain, Secret, Box: plain attribute classes; Hero: to_save_dict/from_save_dict; Ghost: defined but
   not imported by the story, hence not in engine.context) plus bardic.stdlib's Wallet and Inventory. *)
From Coq Require Import String Ascii List Bool ZArith.
From Bardic Require Import PyStr Value Codec.
Import ListNotations.
Local Open Scope list_scope.
Local Open Scope string_scope.

Definition opt_eqb {A} (f : A -> A -> bool) (a b : option A) : bool :=
  match a, b with
  | Some x, Some y => f x y
  | None, None => true
  | _, _ => false
  end.

Fixpoint doc_eqb (a b : list (string * json)) : bool :=
  match a, b with
  | [], [] => true
  | (k, u) :: r, (k', v) :: s => String.eqb k k' && json_eqb u v && doc_eqb r s
  | _, _ => false
  end.

(* ---- class Hero of c06mod ----
   def __init__(self, name, hp, bag):
       if hp < 0: raise ValueError(...)
       self.name = name; self.hp = hp; self.bag = bag
   def to_save_dict(self): return {"n": self.name, "h": self.hp, "b": self.bag}
   @classmethod
   def from_save_dict(cls, d): return cls(d["n"], d["h"], d["b"])                                  *)
Definition attr (k : string) (attrs : list (string * value)) : value :=
  match lookup k attrs with Some v => v | None => VNone end.   (* generated objects have the attribute *)

Definition hero_to_save (attrs : list (string * value)) : value :=
  VDict [("n", attr "name" attrs); ("h", attr "hp" attrs); ("b", attr "bag" attrs)].

(* `hp < 0`: ints and bools compare, anything else raises TypeError *)
Definition hp_ok (v : value) : bool :=
  match v with
  | VInt z => negb (Z.ltb z 0)
  | VBool _ => true
  | _ => false
  end.

Definition hero_from_save (d : value) : option (list (string * value)) :=
  match d with
  | VDict o =>
      match lookup "n" o, lookup "h" o, lookup "b" o with
      | Some n, Some h, Some b => if hp_ok h then Some [("name", n); ("hp", h); ("bag", b)] else None
      | _, _, _ => None                                       (* KeyError *)
      end
  | _ => None                                                 (* TypeError: not subscriptable by str *)
  end.

Definition test_ctx : ctx :=
  [ ("Plain", mkClass "c06mod" true None None);
    ("Secret", mkClass "c06mod" true None None);
    ("Box", mkClass "c06mod" true None None);
    ("Hero", mkClass "c06mod" true (Some hero_to_save) (Some hero_from_save));
    ("Ghost", mkClass "c06mod" false None None);
    ("Wallet", mkClass "bardic.stdlib.economy" true None None);
    ("Inventory", mkClass "bardic.stdlib.inventory" true None None) ].

Definition check_fuel : nat := 40.

Definition flags := (bool * bool * bool)%type.
Definition cfg_of (f : flags) : cfg := let '(a, b, c) := f in mkCfg a b c.

(* a value case: switches, the value, json.loads(json.dumps(_serialize_value(v))) (None: an exception or
   not JSON), _deserialize_value of that in a fresh engine (None: an exception) *)
Definition vcase := (flags * value * option json * option value)%type.

Definition vcase_model (c : vcase) : option json * option value :=
  let '(f, v, _, _) := c in
  let j := ser check_fuel (cfg_of f) test_ctx v in
  (j, match j with Some x => deser (cfg_of f) test_ctx (json_rt x) | None => None end).

Definition vcase_bad (c : vcase) : bool :=
  let '(_, _, ej, ev) := c in
  let '(j, v') := vcase_model c in
  negb (opt_eqb json_eqb j ej && opt_eqb value_eqb v' ev).

Definition vcase_show (c : vcase) := vcase_model c.

(* a state case: switches, engine.state of the saving engine, save_state()["state"] after the text round
   trip, engine.state of the loading engine before the load, its engine.state afterwards *)
Definition dcase := (flags * env * option (list (string * json)) * env * option env)%type.

Definition dcase_model (c : dcase) : option (list (string * json)) * option env :=
  let '(f, st, _, cur, _) := c in
  let d := save_doc check_fuel (cfg_of f) test_ctx st in
  (d, match d with
      | Some o => load_doc (cfg_of f) test_ctx cur (map (fun kv => (fst kv, json_rt (snd kv))) o)
      | None => None
      end).

Definition dcase_bad (c : dcase) : bool :=
  let '(_, _, ed, _, est) := c in
  let '(d, st') := dcase_model c in
  negb (opt_eqb doc_eqb d ed && opt_eqb env_eqb st' est).

Definition dcase_show (c : dcase) := dcase_model c.
