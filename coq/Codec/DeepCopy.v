(* copy.deepcopy with ONE memo over cell-identified values (C04 "later play never alters an earlier restore
   point", sharing half of undo exactness; also serves C16).

   engine.py:  _copy_state(state) = copy.deepcopy(state, memo)            (one memo for the whole state dict)
               GameSnapshot.from_engine: state=_copy_state(engine.state)
               GameSnapshot.restore_to:  engine.state = self.state        (the popped snapshot's own objects)

   copy.deepcopy(x, memo):
       y = memo.get(id(x)); if y is not None: return y          -- an already-copied identity is REUSED
       atoms (None, bool, int, str, ...; also modules/classes/functions, which _copy_state pre-seeds into the
              memo as themselves)                               -- returned as they are: CAtom
       list:  y = []; memo[id(x)] = y; for a in x: y.append(deepcopy(a, memo))
       dict:  y = {}; memo[id(x)] = y; for k, v in x.items(): y[deepcopy(k, memo)] = deepcopy(v, memo)
   The new container is allocated BEFORE its children are copied (it gets the next free identity n, the children
   get S n ...), exactly as in Cells.fresh.  Python also registers it in the memo before the children; here it is
   registered after them, because the memo stores the finished copy.  The two orders differ only on cyclic
   objects, which a finite cval cannot denote (and a consistent state cannot contain: DeepCopyProofs.acyclic).
   Keys are strings (immutable, returned as they are).

   In a state the SAME cell may occur several times (an object reachable through two variables, or twice inside
   one).  Well-formedness of such a state is `consistent`: occurrences with the same identity are the same
   object, so they carry the same kind and the same content.

   Contrast: Cells.fresh renumbers EVERY occurrence independently (json round trip, comprehensions): it does not
   preserve sharing.  `copy_per_variable` below (a new memo for every top-level variable) is the behaviour of
   the seeded change C04_3; it preserves sharing inside a variable and loses it between variables. *)
From Coq Require Import String Ascii List Bool ZArith Arith Lia.
From Bardic Require Import Cells.
Import ListNotations.
Local Open Scope list_scope.

Definition state := list (string * cval).          (* engine.state: variable -> value, in dict order *)
Definition memo := list (nat * cval).              (* id(original) -> the copy already made *)

Fixpoint mlookup (i : nat) (m : memo) : option cval :=
  match m with
  | [] => None
  | (j, c) :: r => if Nat.eqb i j then Some c else mlookup i r
  end.

(* next free identity -> memo -> value -> (next free identity, memo, copy) *)
Fixpoint deepcopy_memo (n : nat) (m : memo) (v : cval) : nat * memo * cval :=
  let fix dcl (n : nat) (m : memo) (l : list cval) : nat * memo * list cval :=
      match l with
      | [] => (n, m, [])
      | x :: r => let '(n1, m1, x') := deepcopy_memo n m x in
                  let '(n2, m2, r') := dcl n1 m1 r in (n2, m2, x' :: r')
      end in
  let fix dcd (n : nat) (m : memo) (d : list (string * cval)) : nat * memo * list (string * cval) :=
      match d with
      | [] => (n, m, [])
      | (k, x) :: r => let '(n1, m1, x') := deepcopy_memo n m x in
                       let '(n2, m2, r') := dcd n1 m1 r in (n2, m2, (k, x') :: r')
      end in
  match v with
  | CAtom a => (n, m, CAtom a)
  | CList i l =>
      match mlookup i m with
      | Some c => (n, m, c)
      | None => let '(n1, m1, l') := dcl (S n) m l in (n1, (i, CList n l') :: m1, CList n l')
      end
  | CDict i d =>
      match mlookup i m with
      | Some c => (n, m, c)
      | None => let '(n1, m1, d') := dcd (S n) m d in (n1, (i, CDict n d') :: m1, CDict n d')
      end
  end.

(* the variables of a state, one after the other, with the memo threaded through *)
Fixpoint deepcopy_vars (n : nat) (m : memo) (s : state) : nat * memo * state :=
  match s with
  | [] => (n, m, [])
  | (k, x) :: r => let '(n1, m1, x') := deepcopy_memo n m x in
                   let '(n2, m2, r') := deepcopy_vars n1 m1 r in (n2, m2, (k, x') :: r')
  end.

(* _copy_state: the whole state with one (initially empty) memo *)
Definition deepcopy_state (n : nat) (s : state) : nat * memo * state := deepcopy_vars n [] s.
Definition snapshot (n : nat) (s : state) : state := snd (deepcopy_state n s).

(* the seeded change: {k: copy.deepcopy(v) for k, v in state.items()} - a new memo for every variable *)
Fixpoint copy_per_variable (n : nat) (s : state) : nat * state :=
  match s with
  | [] => (n, [])
  | (k, x) :: r => let '(n1, _, x') := deepcopy_memo n [] x in
                   let '(n2, r') := copy_per_variable n1 r in (n2, (k, x') :: r')
  end.
(* and Cells.fresh per variable (every occurrence renumbered) *)
Fixpoint fresh_per_variable (n : nat) (s : state) : nat * state :=
  match s with
  | [] => (n, [])
  | (k, x) :: r => let '(n1, x') := fresh n x in
                   let '(n2, r') := fresh_per_variable n1 r in (n2, (k, x') :: r')
  end.

(* ---- vocabulary for the statements ---- *)

(* identity of a container occurrence *)
Definition cid (v : cval) : nat := match v with CAtom _ => 0 | CList i _ => i | CDict i _ => i end.

(* the container occurrences of a value, in pre-order (ids v = map cid (occs v)) *)
Fixpoint occs (v : cval) : list cval :=
  match v with
  | CAtom _ => []
  | CList _ l => v :: flat_map occs l
  | CDict _ d => v :: flat_map (fun kv => occs (snd kv)) d
  end.

(* renaming of identities *)
Fixpoint rename (r : nat -> nat) (v : cval) : cval :=
  match v with
  | CAtom a => CAtom a
  | CList i l => CList (r i) (map (rename r) l)
  | CDict i d => CDict (r i) (map (fun kv => (fst kv, rename r (snd kv))) d)
  end.

Definition occs_state (s : state) : list cval := flat_map (fun kv => occs (snd kv)) s.
Definition ids_state (s : state) : list nat := flat_map (fun kv => ids (snd kv)) s.
Definition rename_state (r : nat -> nat) (s : state) : state := map (fun kv => (fst kv, rename r (snd kv))) s.
Definition mutate_state (i : nat) (f : cval -> cval) (s : state) : state :=
  map (fun kv => (fst kv, mutate i f (snd kv))) s.
Definition shape_state (s : state) : state := map (fun kv => (fst kv, shape (snd kv))) s.

(* occurrences with the same identity are one object: same kind, same content *)
Definition consistent (s : state) : Prop :=
  forall a b, In a (occs_state s) -> In b (occs_state s) -> cid a = cid b -> a = b.

(* the identity the memo gives to the copy of cell i (i itself where the memo is silent) *)
Definition mid (m : memo) (i : nat) : nat := match mlookup i m with Some c => cid c | None => i end.

(* a left inverse of r on a finite set of identities *)
Fixpoint inv_on (r : nat -> nat) (dom : list nat) (j : nat) : nat :=
  match dom with
  | [] => 0
  | k :: rest => if Nat.eqb (r k) j then k else inv_on r rest j
  end.

(* the mutation of the copy that corresponds to the mutation f of the original *)
Definition conj (r g : nat -> nat) (f : cval -> cval) (c : cval) : cval := rename r (f (rename g c)).

(* positions (in pre-order of container occurrences) that hold cell i *)
Fixpoint positions (i : nat) (p : nat) (l : list nat) : list nat :=
  match l with
  | [] => []
  | j :: r => if Nat.eqb i j then p :: positions i (S p) r else positions i (S p) r
  end.
(* canonical form of the sharing of a state: for every container occurrence, the positions of the occurrences
   that are the same cell.  Independent of the names of the identities. *)
Definition pattern (l : list nat) : list (list nat) := map (fun i => positions i 0 l) l.
Definition sharing_pattern (s : state) : list (list nat) := pattern (ids_state s).
