(* Boolean checkers over Codec/DeepCopy.v for generated correspondence cases (harness/deepcopy_tie.py):
   the model's deepcopy evaluated on real object graphs (identities from id(), renumbered in first-occurrence
   order) compared with the graph that the real copy produced. *)
From Coq Require Import String Ascii List Bool ZArith Arith.
From Bardic Require Import Cells DeepCopy.
Import ListNotations.
Local Open Scope list_scope.

Fixpoint cval_eqb (a b : cval) : bool :=
  match a, b with
  | CAtom x, CAtom y => Z.eqb x y
  | CList i l, CList j l' =>
      Nat.eqb i j &&
      (fix go (l l' : list cval) : bool :=
         match l, l' with
         | [], [] => true
         | x :: r, y :: r' => cval_eqb x y && go r r'
         | _, _ => false
         end) l l'
  | CDict i d, CDict j d' =>
      Nat.eqb i j &&
      (fix go (d d' : list (string * cval)) : bool :=
         match d, d' with
         | [], [] => true
         | (k, x) :: r, (k', y) :: r' => String.eqb k k' && cval_eqb x y && go r r'
         | _, _ => false
         end) d d'
  | _, _ => false
  end.

Fixpoint state_eqb (s s' : state) : bool :=
  match s, s' with
  | [], [] => true
  | (k, x) :: r, (k', y) :: r' => String.eqb k k' && cval_eqb x y && state_eqb r r'
  | _, _ => false
  end.

Fixpoint natlist_eqb (a b : list nat) : bool :=
  match a, b with
  | [], [] => true
  | x :: r, y :: r' => Nat.eqb x y && natlist_eqb r r'
  | _, _ => false
  end.
Fixpoint pattern_eqb (a b : list (list nat)) : bool :=
  match a, b with
  | [], [] => true
  | x :: r, y :: r' => natlist_eqb x y && pattern_eqb r r'
  | _, _ => false
  end.

(* occurrences with the same identity are equal (DeepCopy.consistent, decided) *)
Definition consU_b (U : list cval) : bool :=
  forallb (fun a => forallb (fun b => negb (Nat.eqb (cid a) (cid b)) || cval_eqb a b) U) U.
Definition consistentb (s : state) : bool := consU_b (occs_state s).

(* same sharing, same value *)
Definition same_sharing (s c : state) : bool := pattern_eqb (sharing_pattern s) (sharing_pattern c).
Definition same_value (s c : state) : bool := state_eqb (shape_state s) (shape_state c).

(* a case: (the live state with identities 0..k-1, k, what the real copy looked like with the identities of new
   objects numbered from k in first-occurrence order and those of reused objects keeping their number) *)
Definition dcase := (state * nat * state)%type.

(* the real copy is exactly the model's snapshot (the model allocates in first-occurrence order too) *)
Definition dcase_bad (c : dcase) : bool :=
  let '(s, k, real) := c in
  negb (consistentb s)
  || negb (forallb (fun i => Nat.ltb i k) (ids_state s))
  || negb (state_eqb (snapshot k s) real).

(* the properties themselves, judged on the real copy without the model's deepcopy: only new cells, same
   value, same sharing *)
Definition dcase_props_bad (c : dcase) : bool :=
  let '(s, k, real) := c in
  negb (forallb (fun i => Nat.leb k i) (ids_state real))
  || negb (same_value s real)
  || negb (same_sharing s real).

(* the per-variable copier (seeded change C04_3) is exactly copy_per_variable *)
Definition dcase_split_bad (c : dcase) : bool :=
  let '(s, k, real) := c in
  negb (consistentb s) || negb (state_eqb (snd (copy_per_variable k s)) real).

Definition dcase_show (c : dcase) :=
  let '(s, k, real) := c in (snapshot k s, sharing_pattern s, sharing_pattern real).
