(* The JSON TEXT codec: json.dumps / json.loads of CPython 3.12 on the model's JSON trees.

   Until now the model treated the text codec as the identity on JSON trees (Codec.json_rt) and the
   real json module was only exercised by the differential run.  This file brings the text into the
   model:

     dumps          json.dumps(obj)              (what engine_browser.save_to_storage and
                                                  engine._serialize_value's priority 2 call)
     dumps_indent2  json.dumps(obj, indent=2)    (= the text json.dump(result, f, indent=2) writes:
                                                  bardic/compiler/compiler.py:34 `bardic compile`,
                                                  cli/bundler.py:62, the web/nicegui save files)
     loads          json.loads(text)

   Characters are `ascii` (one byte); a byte is read as the code point of the same number, so the
   domain is all strings of code points < 256 (the rest of the development only uses < 128).

   json.dumps (json/encoder.py, ensure_ascii=True, the default; c_make_encoder gives the same text):
     * ESCAPE_ASCII / ESCAPE_DCT: `"` -> \"   `\` -> \\   LF -> \n   CR -> \r   TAB -> \t
       BS -> \b   FF -> \f ; every other character outside ' '..'~' (0x20..0x7e) -> \u00xx with
       LOWER-case hex.  NOTE 0x7f (DEL) IS escaped (\u007f): the class is [^\ -~].  `/` is not escaped.
     * int -> int.__repr__ (decimal, '-' sign);  True/False/None -> true/false/null
     * default separators: (', ', ': ') when indent is None, (',', ': ') when indent is given
     * indent=2: '[' NL indent*(level+1) item (',' NL indent*(level+1) item)* NL indent*level ']';
       empty containers print as [] and {} at every level.
   Both printers are instances of one printer `pr` over a `style` (the white space put after '[',
   after ',', before ']' and after ':'), written in continuation style: `pr st lvl j k` is the text
   of j followed by k.

   json.loads (json/decoder.py + json/scanner.py; the C scanner behaves the same on this domain):
     * decode(): skip white space (" \t\n\r"), one value, skip white space, end of text - anything
       left is "Extra data" (None here).
     * scan_once order: '"' string, '{' object, '[' array, null, true, false, number, (NaN, Infinity,
       -Infinity: floats, outside the domain).
     * number: -?(0|[1-9][0-9]* ) - a leading 0 ends the number ("01" is 0 followed by extra data);
       "-0" is the int 0.  A fraction or exponent makes a float in Python: OUTSIDE the domain,
       rejected here (the integer part is read and what follows can never continue a document, so the
       result is None in every context).  All other rejections coincide with json.loads raising
       JSONDecodeError.
     * strings (strict=True): a raw character < 0x20 is an error; escapes \" \\ \/ \b \f \n \r \t and
       \uXXXX with exactly four hex digits of either case; a \uXXXX whose code point is >= 256
       (including surrogate pairs) is outside the domain and rejected here.
     * JSONArray/JSONObject: white space is allowed after '[' '{' ',' ':' and after a value; a trailing
       comma is an error; object keys must be strings.
     * an object with a repeated key: Python builds dict(pairs) - the LAST value wins and the key
       keeps the position of its FIRST occurrence.  `loads_pairs` is the parser proper (it keeps every
       pair, like object_pairs_hook=list would); `normalize` applies dict(pairs) bottom-up
       (Value.update [] pairs = the fold of d[k] = v); loads = normalize after loads_pairs.

   The parser is recursive descent with fuel.  `pvalue n s` spends one unit of n per nesting level
   and the element loops spend one unit per element; loads uses n = length of the text, which is
   always enough (JsonTextProofs.pvalue_fuel_enough: every larger fuel gives the same result). *)
From Coq Require Import String Ascii List Bool NArith ZArith.
From Bardic Require Import PyStr Value Codec.
Import ListNotations.
Local Open Scope list_scope.
Local Open Scope string_scope.

(* ---------------------------------------------------------------------------------------- *)
(* json.dumps *)

Definition hex_digit (n : N) : ascii :=
  ascii_of_N (if (n <? 10)%N then 48 + n else 87 + n)%N.

(* ESCAPE_ASCII.sub(replace, s), one character; k is the text that follows *)
Definition esc_char (c : ascii) (k : string) : string :=
  let n := N_of_ascii c in
  if (n =? 34)%N then String "\" (String """" k)
  else if (n =? 92)%N then String "\" (String "\" k)
  else if (n =? 10)%N then String "\" (String "n" k)
  else if (n =? 13)%N then String "\" (String "r" k)
  else if (n =? 9)%N then String "\" (String "t" k)
  else if (n =? 8)%N then String "\" (String "b" k)
  else if (n =? 12)%N then String "\" (String "f" k)
  else if ((32 <=? n) && (n <=? 126))%N then String c k
  else String "\" (String "u" (String "0" (String "0"
         (String (hex_digit (n / 16)) (String (hex_digit (n mod 16)) k))))).

Fixpoint esc_str (s : string) (k : string) : string :=
  match s with
  | EmptyString => k
  | String c r => esc_char c (esc_str r k)
  end.

(* py_encode_basestring_ascii *)
Definition pr_str (s : string) (k : string) : string :=
  String """" (esc_str s (String """" k)).

(* the white space of a layout; `lvl` is the nesting level of the container being printed *)
Record style := mkStyle {
  st_open : nat -> string;      (* after '[' / '{' of a non-empty container *)
  st_sep : nat -> string;       (* after the ',' between two items *)
  st_close : nat -> string;     (* before ']' / '}' of a non-empty container *)
  st_colon : string             (* after ':' *)
}.

Section Items.
Variable prv : json -> string -> string.   (* the printer of the items (one level deeper) *)
Variable sep : string.                     (* ',' and what follows it *)
Variable colon : string.                   (* ':' and what follows it *)

(* the items after the first one, then `tail` *)
Fixpoint pr_elems (l : list json) (tail : string) : string :=
  match l with
  | [] => tail
  | y :: l' => sep ++ prv y (pr_elems l' tail)
  end.

Definition pr_member (key : string) (rest : string) : string :=
  pr_str key (colon ++ rest).

Fixpoint pr_members (o : list (string * json)) (tail : string) : string :=
  match o with
  | [] => tail
  | (key, y) :: o' => sep ++ pr_member key (prv y (pr_members o' tail))
  end.
End Items.

Section Printer.
Variable st : style.

(* _iterencode / _iterencode_list / _iterencode_dict *)
Fixpoint pr (lvl : nat) (j : json) (k : string) {struct j} : string :=
  match j with
  | JNull => "null" ++ k
  | JBool true => "true" ++ k
  | JBool false => "false" ++ k
  | JInt z => str_of_Z z ++ k
  | JStr s => pr_str s k
  | JList [] => "[]" ++ k
  | JList (x :: l) =>
      String "[" (st_open st lvl ++
        pr (S lvl) x
          (pr_elems (pr (S lvl)) (String "," (st_sep st lvl)) l
             (st_close st lvl ++ String "]" k)))
  | JObj [] => "{}" ++ k
  | JObj ((key, x) :: o) =>
      String "{" (st_open st lvl ++
        pr_member (String ":" (st_colon st)) key
          (pr (S lvl) x
             (pr_members (pr (S lvl)) (String "," (st_sep st lvl)) (String ":" (st_colon st)) o
                (st_close st lvl ++ String "}" k))))
  end.
End Printer.

(* json.dumps(obj): separators (', ', ': ') *)
Definition compact : style :=
  mkStyle (fun _ => "") (fun _ => " ") (fun _ => "") " ".

(* '\n' + ' ' * (2 * level) *)
Definition nl_indent (level : nat) : string :=
  String (ascii_of_N 10) (repeat_char " " (2 * level)).

(* json.dumps(obj, indent=2): separators (',', ': '), items on their own lines *)
Definition indent2 : style :=
  mkStyle (fun lvl => nl_indent (S lvl)) (fun lvl => nl_indent (S lvl)) (fun lvl => nl_indent lvl) " ".

Definition dumps (j : json) : string := pr compact 0 j "".
Definition dumps_indent2 (j : json) : string := pr indent2 0 j "".

(* ---------------------------------------------------------------------------------------- *)
(* json.loads *)

(* WHITESPACE = [ \t\n\r]* *)
Definition is_ws (c : ascii) : bool :=
  let n := N_of_ascii c in
  ((n =? 32) || (n =? 9) || (n =? 10) || (n =? 13))%N.

Fixpoint skip_ws (s : string) : string :=
  match s with
  | EmptyString => s
  | String c r => if is_ws c then skip_ws r else s
  end.

Fixpoint strip_prefix (p s : string) : option string :=
  match p with
  | EmptyString => Some s
  | String a p' =>
      match s with
      | EmptyString => None
      | String b s' => if Ascii.eqb a b then strip_prefix p' s' else None
      end
  end.

(* BACKSLASH *)
Definition unesc_simple (e : ascii) : option ascii :=
  let n := N_of_ascii e in
  if (n =? 34)%N then Some """"%char
  else if (n =? 92)%N then Some "\"%char
  else if (n =? 47)%N then Some "/"%char
  else if (n =? 98)%N then Some (ascii_of_N 8)
  else if (n =? 102)%N then Some (ascii_of_N 12)
  else if (n =? 110)%N then Some (ascii_of_N 10)
  else if (n =? 114)%N then Some (ascii_of_N 13)
  else if (n =? 116)%N then Some (ascii_of_N 9)
  else None.

Definition hex_val (c : ascii) : option N :=
  let n := N_of_ascii c in
  if ((48 <=? n) && (n <=? 57))%N then Some (n - 48)%N
  else if ((97 <=? n) && (n <=? 102))%N then Some (n - 87)%N
  else if ((65 <=? n) && (n <=? 70))%N then Some (n - 55)%N
  else None.

(* _decode_uXXXX *)
Definition hex4 (a b c d : ascii) : option N :=
  match hex_val a, hex_val b, hex_val c, hex_val d with
  | Some x, Some y, Some z, Some w => Some (((x * 16 + y) * 16 + z) * 16 + w)%N
  | _, _, _, _ => None
  end.

Definition cons_res (c : ascii) (r : option (string * string)) : option (string * string) :=
  match r with
  | Some (x, rest) => Some (String c x, rest)
  | None => None
  end.

(* scanstring, after the opening quote: (content, text after the closing quote) *)
Fixpoint pstring (s : string) : option (string * string) :=
  match s with
  | EmptyString => None                                         (* Unterminated string *)
  | String c r =>
      if Ascii.eqb c """" then Some ("", r)
      else if Ascii.eqb c "\" then
        match r with
        | EmptyString => None
        | String e r1 =>
            match unesc_simple e with
            | Some ch => cons_res ch (pstring r1)
            | None =>
                if Ascii.eqb e "u" then
                  match r1 with
                  | String h1 (String h2 (String h3 (String h4 r2))) =>
                      match hex4 h1 h2 h3 h4 with
                      | Some n => if (n <? 256)%N then cons_res (ascii_of_N n) (pstring r2)
                                  else None                     (* outside the domain *)
                      | None => None                            (* Invalid \uXXXX escape *)
                      end
                  | _ => None
                  end
                else None                                       (* Invalid \escape *)
            end
        end
      else if (N_of_ascii c <? 32)%N then None                  (* Invalid control character *)
      else cons_res c (pstring r)
  end.

(* NUMBER_RE without the sign: 0 | [1-9][0-9]* *)
Definition pnat (s : string) : option (Z * string) :=
  match s with
  | EmptyString => None
  | String c r =>
      if Ascii.eqb c "0" then Some (0%Z, r)
      else if is_digit c then let (n, r') := digits_val s 0%N in Some (Z.of_N n, r')
      else None
  end.

Section Loops.
Variable pv : string -> option (json * string).     (* a value, with the fuel of the level below *)

(* JSONArray's loop; s begins with a value *)
Fixpoint pelems (k : nat) (s : string) : option (list json * string) :=
  match k with
  | 0 => None
  | S k' =>
      match pv s with
      | None => None
      | Some (v, r) =>
          match skip_ws r with
          | EmptyString => None
          | String c r' =>
              if Ascii.eqb c "," then
                match pelems k' (skip_ws r') with
                | Some (l, r'') => Some (v :: l, r'')
                | None => None
                end
              else if Ascii.eqb c "]" then Some ([v], r')
              else None                                         (* Expecting ',' delimiter *)
          end
      end
  end.

(* JSONObject's loop; s must begin with the quote of a key *)
Fixpoint pmembers (k : nat) (s : string) : option (list (string * json) * string) :=
  match k with
  | 0 => None
  | S k' =>
      match s with
      | EmptyString => None
      | String q r0 =>
          if negb (Ascii.eqb q """") then None                  (* Expecting property name *)
          else
            match pstring r0 with
            | None => None
            | Some (key, r1) =>
                match skip_ws r1 with
                | EmptyString => None
                | String c r2 =>
                    if negb (Ascii.eqb c ":") then None         (* Expecting ':' delimiter *)
                    else
                      match pv (skip_ws r2) with
                      | None => None
                      | Some (v, r3) =>
                          match skip_ws r3 with
                          | EmptyString => None
                          | String d r4 =>
                              if Ascii.eqb d "," then
                                match pmembers k' (skip_ws r4) with
                                | Some (o, r5) => Some ((key, v) :: o, r5)
                                | None => None
                                end
                              else if Ascii.eqb d "}" then Some ([(key, v)], r4)
                              else None
                          end
                      end
                end
            end
      end
  end.
End Loops.

Definition tag_res {A} (f : A -> json) (r : option (A * string)) : option (json * string) :=
  match r with
  | Some (x, rest) => Some (f x, rest)
  | None => None
  end.

(* the rest of null / true / false *)
Definition keyword (p : string) (v : json) (r : string) : option (json * string) :=
  match strip_prefix p r with
  | Some r' => Some (v, r')
  | None => None
  end.

(* scan_once *)
Fixpoint pvalue (n : nat) (s : string) {struct n} : option (json * string) :=
  match n with
  | 0 => None
  | S n' =>
      match s with
      | EmptyString => None
      | String c r =>
          if Ascii.eqb c """" then tag_res JStr (pstring r)
          else if Ascii.eqb c "{" then
            match skip_ws r with
            | EmptyString => None
            | String c2 r2 =>
                if Ascii.eqb c2 "}" then Some (JObj [], r2)
                else tag_res JObj (pmembers (pvalue n') n' (String c2 r2))
            end
          else if Ascii.eqb c "[" then
            match skip_ws r with
            | EmptyString => None
            | String c2 r2 =>
                if Ascii.eqb c2 "]" then Some (JList [], r2)
                else tag_res JList (pelems (pvalue n') n' (String c2 r2))
            end
          else if Ascii.eqb c "n" then keyword "ull" JNull r
          else if Ascii.eqb c "t" then keyword "rue" (JBool true) r
          else if Ascii.eqb c "f" then keyword "alse" (JBool false) r
          else if Ascii.eqb c "-" then tag_res (fun z => JInt (- z)) (pnat r)
          else tag_res JInt (pnat s)
      end
  end.

(* JSONDecoder.decode with every pair of every object kept *)
Definition loads_pairs (s : string) : option json :=
  match pvalue (String.length s) (skip_ws s) with
  | Some (j, r) => match skip_ws r with EmptyString => Some j | _ => None end
  | None => None
  end.

(* dict(pairs) at every object, inside out: the last value of a repeated key, at the position of its
   first occurrence *)
Fixpoint normalize (j : json) : json :=
  match j with
  | JList l => JList (map normalize l)
  | JObj o => JObj (update [] (map_items normalize o))
  | _ => j
  end.

Definition loads (s : string) : option json := option_map normalize (loads_pairs s).

(* ---------------------------------------------------------------------------------------- *)
(* the statement side *)

(* Python dicts have pairwise distinct keys *)
Fixpoint keys_distinct (j : json) : Prop :=
  match j with
  | JList l => allP keys_distinct l
  | JObj o => NoDup (map fst o) /\ allPi keys_distinct o
  | _ => True
  end.

Definition ascii_char (c : ascii) : Prop := (N_of_ascii c < 128)%N.

Fixpoint ascii_str (s : string) : Prop :=
  match s with
  | EmptyString => True
  | String c r => ascii_char c /\ ascii_str r
  end.

(* every string and every key of the tree is ASCII *)
Fixpoint ascii_json (j : json) : Prop :=
  match j with
  | JStr s => ascii_str s
  | JList l => allP ascii_json l
  | JObj o => (fix keys (d : list (string * json)) : Prop :=
                 match d with [] => True | (k, _) :: r => ascii_str k /\ keys r end) o
              /\ allPi ascii_json o
  | _ => True
  end.

(* the number of nodes: the fuel the parser needs for the text of j *)
Fixpoint size (j : json) : nat :=
  match j with
  | JList l => S (list_sum (map size l))
  | JObj o => S (list_sum (map (fun kv => size (snd kv)) o))
  | _ => 1
  end.

(* Python values: the keys of a dict (the attribute names of an object) are pairwise distinct, at
   every depth.  Every real Python value is like this; the model type `value` also has other trees. *)
Fixpoint value_kd (v : value) : Prop :=
  match v with
  | VList l | VTuple l => allP value_kd l
  | VDict d => NoDup (map fst d) /\ allPi value_kd d
  | VObj _ a => NoDup (map fst a) /\ allPi value_kd a
  | _ => True
  end.

Definition env_kd (e : list (string * value)) : Prop := NoDup (map fst e) /\ allPi value_kd e.

(* the to_save_dict functions of the class table return Python values *)
Definition ctx_kd (cx : ctx) : Prop :=
  forall c f attrs, ci_to_save (class_of cx c) = Some f -> env_kd attrs -> value_kd (f attrs).
