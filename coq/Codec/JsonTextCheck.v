(* Boolean comparison helpers for the generated cases of harness/jsontext_tie.py: the model's
   dumps / dumps_indent2 / loads against the text CPython's json module produced for the same tree. *)
From Coq Require Import String Ascii List Bool ZArith.
From Bardic Require Import PyStr Value Codec JsonText.
Import ListNotations.
Local Open Scope list_scope.
Local Open Scope string_scope.

Definition opt_json_eqb (a b : option json) : bool :=
  match a, b with
  | Some x, Some y => json_eqb x y
  | None, None => true
  | _, _ => false
  end.

(* a Python value v in the domain as a tree, with json.dumps(v) and json.dumps(v, indent=2) *)
Record dcase := mkD { d_tree : json; d_compact : string; d_indent : string }.

Definition dumps_ok (c : dcase) : bool := String.eqb (dumps (d_tree c)) (d_compact c).
Definition indent_ok (c : dcase) : bool := String.eqb (dumps_indent2 (d_tree c)) (d_indent c).
Definition loads_compact_ok (c : dcase) : bool := opt_json_eqb (loads (d_compact c)) (Some (d_tree c)).
Definition loads_indent_ok (c : dcase) : bool := opt_json_eqb (loads (d_indent c)) (Some (d_tree c)).
Definition dcase_ok (c : dcase) : bool :=
  dumps_ok c && indent_ok c && loads_compact_ok c && loads_indent_ok c.

(* a text with what json.loads makes of it: None = JSONDecodeError, or a result outside the domain
   (a float, a code point >= 256) *)
Record lcase := mkL { l_text : string; l_expect : option json }.
Definition lcase_ok (c : lcase) : bool := opt_json_eqb (loads (l_text c)) (l_expect c).

Section Count.
Context {A : Type}.
Variable ok : A -> bool.
Fixpoint count_ok (l : list A) : nat :=
  match l with [] => 0 | c :: r => if ok c then S (count_ok r) else count_ok r end.
Fixpoint bad_idx (i : nat) (l : list A) : list nat :=
  match l with [] => [] | c :: r => if ok c then bad_idx (S i) r else i :: bad_idx (S i) r end.
End Count.

(* (cases, dumps equal, indent=2 equal, loads of the compact text, loads of the indented text, indices of bad cases) *)
Definition dsummary (l : list dcase) : nat * nat * nat * nat * nat * list nat :=
  (length l, count_ok dumps_ok l, count_ok indent_ok l, count_ok loads_compact_ok l,
   count_ok loads_indent_ok l, bad_idx dcase_ok 0 l).

(* (cases, agreeing, indices of bad cases) *)
Definition lsummary (l : list lcase) : nat * nat * list nat :=
  (length l, count_ok lcase_ok l, bad_idx lcase_ok 0 l).
