(* C14 — the location arithmetic of bardic/compiler/parsing/errors.py:format_error, and the
   vocabulary of the generated call-site table (harness/c14_sites.py).

   format_error(error_type, line_num, lines, message, ..., filename, line_map) builds a text; what this
   model keeps of it is what the text says about *where*: the file named in the header, the line number in
   the header, and the context block (each shown line with the number printed in front of it, whether the
   `^^^` pointer stands under it, and the `--- from file ---` boundary annotations).  error_type, message,
   suggestion and the pointer's column/length are passed through by the Python code and are not modelled.
   `lines=None` (a TypeError in Python) is not modelled either: the sites that could pass None are guarded
   by `if lines is not None and line_num > 0`, which the site table evaluates per calling context. *)
From Coq Require Import String Ascii List ZArith Bool Lia.
Import ListNotations.
Local Open Scope Z_scope.

(* SourceLocation(file_path, line_num): line_num is 0-indexed in the original file *)
Definition source_location := (string * Z)%type.

Inductive ctx_item :=
| CLine (num : Z) (text : string) (pointed : bool)   (* "  {num:4} | text", pointer under it or not *)
| CBoundary (file : string).                         (* "--- from file ---" *)

Record shown := mkShown {
  sh_file : option string;      (* " in <file>" — absent when display_filename is None or "" *)
  sh_line : Z;                  (* " on line <n>:" *)
  sh_ctx : list ctx_item }.

Inductive outcome := Shown (s : shown) | IndexError.

(* `line_map and ...`: None and [] are both falsy, and nothing else distinguishes them *)
Definition lm_list (lm : option (list source_location)) : list source_location :=
  match lm with Some m => m | None => [] end.

Definition is_nil {A} (l : list A) : bool := match l with [] => true | _ => false end.

(* Python's l[i] for an int i (negative indices count from the end) *)
Definition py_index {A} (l : list A) (i : Z) : option A :=
  let n := Z.of_nat (length l) in
  if (0 <=? i) && (i <? n) then nth_error l (Z.to_nat i)
  else if (i <? 0) && (- n <=? i) then nth_error l (Z.to_nat (n + i))
  else None.

(* `if display_filename:` *)
Definition shown_file (f : option string) : option string :=
  match f with
  | Some s => if String.eqb s "" then None else Some s
  | None => None
  end.

(* lines 42-49: Some (display_filename, display_line), None = IndexError *)
Definition display_location (line_num : Z) (filename : option string) (m : list source_location)
  : option (option string * Z) :=
  if negb (is_nil m) && (line_num <? Z.of_nat (length m)) then
    match py_index m line_num with
    | Some (f, n) => Some (Some f, n + 1)
    | None => None
    end
  else Some (filename, line_num + 1).

(* lines 66-95: the loop over range(start, end) *)
Fixpoint context_loop (idxs : list nat) (line_num : Z) (lines : list string) (m : list source_location)
         (last_file : option string) : list ctx_item :=
  match idxs with
  | [] => []
  | i :: rest =>
      match nth_error lines i with
      | None => []                                                  (* if i >= len(lines): break *)
      | Some text =>
          let pointed := Z.of_nat i =? line_num in
          match nth_error m i with                                  (* line_map and i < len(line_map) *)
          | Some (f, n) =>
              let b := match last_file with
                       | Some lf => if String.eqb lf f then [] else [CBoundary f]
                       | None => []
                       end in
              b ++ CLine (n + 1) text pointed :: context_loop rest line_num lines m (Some f)
          | None =>
              CLine (Z.of_nat i + 1) text pointed :: context_loop rest line_num lines m last_file
          end
      end
  end.

Definition context_range (line_num : Z) (nlines : nat) : list nat :=
  let start := Z.max 0 (line_num - 2) in
  let stop := Z.min (Z.of_nat nlines) (line_num + 3) in
  seq (Z.to_nat start) (Z.to_nat (stop - start)).

Definition format_error (line_num : Z) (lines : list string) (filename : option string)
           (line_map : option (list source_location)) : outcome :=
  let m := lm_list line_map in
  match display_location line_num filename m with
  | None => IndexError
  | Some (f, n) =>
      Shown (mkShown (shown_file f) n
                     (context_loop (context_range line_num (length lines)) line_num lines m None))
  end.

(* what a reader of the message is told: (file, line) of the header *)
Definition location (o : outcome) : option (option string * Z) :=
  match o with Shown s => Some (sh_file s, sh_line s) | IndexError => None end.

(* the line the pointer stands under, with the number printed in front of it *)
Fixpoint pointed_of (c : list ctx_item) : option (Z * string) :=
  match c with
  | [] => None
  | CLine n t true :: _ => Some (n, t)
  | _ :: r => pointed_of r
  end.
Definition pointed (o : outcome) : option (Z * string) :=
  match o with Shown s => pointed_of (sh_ctx s) | IndexError => None end.

(* ------------------------------------------------------------------------------------------------
   The call-site table.  One row per (raise site, way of reaching it): what the site hands to
   format_error as line_num, relative to the 0-based index i, in the list given as `lines`, of the
   offending line.  Rows are produced by harness/c14_sites.py from the source on every run.
   ------------------------------------------------------------------------------------------------ *)
Inductive site_class :=
| SIndex                    (* i *)
| SIndexPlus1               (* i + 1 *)
| SIndexOff (k : Z)         (* i + k, k not 0 or 1 *)
| SSliceIndex (k : Z)       (* base + j + k where lines[base + j] is the offending line (contiguous slice) *)
| SSubListIndex (k : Z)     (* j + k, an index into a dedented copy of part of the source, given as `lines` *)
| SZeroGuard (k : Z)        (* i + k with k <= 0 into a parameter guarded by `line_num > 0` *)
| SConst (c : Z)            (* a literal *)
| SNone                     (* no location reaches format_error: an un-located raise is taken instead *)
| SBare                     (* raise without format_error *)
| SNotRaised                (* in this context nothing is raised at all *)
| SDead                     (* not reachable from parse / parse_file / resolve_includes *)
| SExempt                   (* a stated exemption of the extractor (reason in the evidence) *)
| SUnknown.                 (* shape not recognised: fail closed *)

Record site := mkSite {
  s_file : string; s_fun : string; s_line : nat; s_key : string;
  s_class : site_class;
  s_lines_full : bool;        (* `lines` is the list the index refers to and is the full source list *)
  s_map : bool;               (* passes its caller's line_map on (otherwise: no line map) *)
  s_filename : bool }.        (* passes a filename *)

(* the value given as line_num when the offending line is lines[i]; None: no value with that meaning *)
Definition passed (c : site_class) (i : nat) : option Z :=
  match c with
  | SIndex => Some (Z.of_nat i)
  | SIndexPlus1 => Some (Z.of_nat i + 1)
  | SIndexOff k | SSliceIndex k | SZeroGuard k => Some (Z.of_nat i + k)
  | _ => None
  end.

(* does a row stand for a diagnostic that is actually produced? *)
Definition produces_diag (c : site_class) : bool :=
  match c with SNotRaised | SDead | SExempt => false | _ => true end.

Definition site_ok (s : site) : bool :=
  match s_class s with
  | SIndex => s_lines_full s && s_filename s
  | SSliceIndex k => (k =? 0) && s_lines_full s && s_filename s
  | SNotRaised | SDead | SExempt => true
  | _ => false
  end.

Definition site_map (s : site) (lm : option (list source_location)) :=
  if s_map s then lm else None.

(* rows recorded as known findings are dropped by position before the obligation is stated *)
Fixpoint drop_idx {A} (drop : list nat) (i : nat) (l : list A) : list A :=
  match l with
  | [] => []
  | x :: r => if existsb (Nat.eqb i) drop then drop_idx drop (S i) r else x :: drop_idx drop (S i) r
  end.

Definition site_filename (s : site) (filename : option string) :=
  if s_filename s then filename else None.

(* What "this row displays the true location" means.
   (1) a row that stands for a produced diagnostic hands format_error a value for every position, over the
       full list, with a file name;
   (2) whenever it hands over v for an offending line lines[i]: with a line map whose entry i is (f, n)
       the header names f and line n + 1 and the pointer stands under that very line, numbered n + 1;
       without a line map (None or []) the header names the given file name and line i + 1. *)
Definition site_displays_right (s : site) : Prop :=
  (produces_diag (s_class s) = true ->
     s_lines_full s = true /\ s_filename s = true /\ forall i, exists v, passed (s_class s) i = Some v) /\
  (forall (i : nat) (v : Z) (lines : list string) (filename : option string)
          (lm : option (list source_location)) (text : string),
     passed (s_class s) i = Some v -> nth_error lines i = Some text ->
     let o := format_error v lines (site_filename s filename) (site_map s lm) in
     (forall f n, nth_error (lm_list (site_map s lm)) i = Some (f, n) ->
        location o = Some (shown_file (Some f), n + 1) /\ pointed o = Some (n + 1, text)) /\
     (lm_list (site_map s lm) = [] ->
        location o = Some (shown_file (site_filename s filename), Z.of_nat i + 1) /\
        pointed o = Some (Z.of_nat i + 1, text))).

(* "line_map is a provenance map for lines" (the conclusion of C13, taken here as a hypothesis): entry i
   names a file of the author's file system and a 0-based line of it that holds the same text as
   concatenated line i. *)
Definition provenance_map (fs : string -> option (list string)) (m : list source_location)
           (lines : list string) : Prop :=
  length m = length lines /\
  forall i f n, nth_error m i = Some (f, n) ->
    0 <= n /\ f <> ""%string /\
    exists fl, fs f = Some fl /\ nth_error fl (Z.to_nat n) = nth_error lines i.
