(* Executable comparison functions used by the generated cases of C14 (correspondence of Compiler/Diag.v
   with bardic/compiler/parsing/errors.py:format_error) and by the generated site table. *)
From Coq Require Import String Ascii List ZArith Bool.
From Bardic Require Import Diag.
Import ListNotations.
Local Open Scope Z_scope.

Definition opt_eqb {A} (f : A -> A -> bool) (a b : option A) : bool :=
  match a, b with
  | Some x, Some y => f x y
  | None, None => true
  | _, _ => false
  end.

Fixpoint list_eqb {A} (f : A -> A -> bool) (a b : list A) : bool :=
  match a, b with
  | [], [] => true
  | x :: r, y :: s => f x y && list_eqb f r s
  | _, _ => false
  end.

Definition ctx_item_eqb (a b : ctx_item) : bool :=
  match a, b with
  | CLine n t p, CLine n' t' p' => Z.eqb n n' && String.eqb t t' && Bool.eqb p p'
  | CBoundary f, CBoundary f' => String.eqb f f'
  | _, _ => false
  end.

Definition shown_eqb (a b : shown) : bool :=
  opt_eqb String.eqb (sh_file a) (sh_file b) && Z.eqb (sh_line a) (sh_line b) &&
  list_eqb ctx_item_eqb (sh_ctx a) (sh_ctx b).

(* a case: format_error's arguments (line_num, lines, filename, line_map) and what the harness read back
   from the text the real function returned: None when it raised IndexError, else
   (file named in the header, line of the header, context block) *)
Definition fcase := (Z * list string * option string * option (list source_location) *
                     option (option string * Z * list ctx_item))%type.

Definition fcase_bad (c : fcase) : bool :=
  let '(ln, lines, fname, lm, expected) := c in
  match format_error ln lines fname lm, expected with
  | IndexError, None => false
  | Shown s, Some (f, n, ctx) => negb (shown_eqb s (mkShown f n ctx))
  | _, _ => true
  end.

Definition fcase_show (c : fcase) :=
  let '(ln, lines, fname, lm, expected) := c in format_error ln lines fname lm.

(* positions of the rows of a site table that do not satisfy site_ok *)
Fixpoint bad_sites (i : nat) (t : list site) : list nat :=
  match t with
  | [] => []
  | s :: r => if site_ok s then bad_sites (S i) r else i :: bad_sites (S i) r
  end.
