(* Model of bardic/compiler/parsing/preprocessing.py : resolve_includes (lines 170-276) and of the
   file read in bardic/compiler/parsing/io.py : parse_file, over an abstract file system.

   Paths are strings that are already normalised (what `str(Path(p).resolve())` returns).
     fs  : path -> option (list of lines)   None = the file does not exist (open raises FileNotFoundError);
                                            Some ls = `f.read().split("\n")`
                                            (so an empty file is Some [""], and "a\n" is Some ["a"; ""]).
     rel : including file -> include argument -> path
                                            `str((Path(base_path).parent / include_path).resolve())`
   The Python works on strings: an included file's resolved text is appended to `result` as ONE element and
   `"\n".join(result)` is returned.  Every element of `result` comes from one element of
   `source.split("\n")`, which is never empty, so `result` is never empty and
   `"\n".join(result).split("\n")` is the concatenation of the elements' own line lists.  The model therefore
   works on lists of lines: an include contributes the lines of the resolved file (an empty file contributes
   one empty line and one map entry), any other line contributes itself.

   The recursion of the real code follows the include tree and is bounded by the `seen` set; here it is
   bounded by explicit fuel, with an `OutOfFuel` outcome that Proofs/IncludeProofs.v shows unreachable. *)
From Coq Require Import String Ascii List Bool Arith.
From Bardic Require Import PyStr.
Import ListNotations.
Local Open Scope string_scope.

(* the two SyntaxErrors raised by resolve_includes *)
Inductive bad_kind :=
| MissingPath      (* "@include directive missing file path" *)
| MultipleFiles.   (* "@include can only include one file at a time" *)

(* SourceLocation(file_path, line_num): line_num is 0-based *)
Definition loc := (string * nat)%type.

Inductive outcome :=
| Ok (lines : list string) (line_map : list loc)
| Cycle (path : string)                                     (* ValueError("Circular include detected: path") *)
| Missing (path : string)                                   (* FileNotFoundError, "Looking for: path" *)
| BadDirective (k : bad_kind) (line_idx : nat) (file : string)  (* SyntaxError; line_idx is 0-based *)
| OutOfFuel.

(* `line.strip().startswith("@include")` *)
Definition is_include (line : string) : bool := startswith (strip line) "@include".

(* `line.strip()[8:].strip()` *)
Definition include_arg (line : string) : string := strip (drop 8 (strip line)).

Inductive line_class :=
| Plain                 (* not a directive: the line is kept *)
| Inc (arg : string)    (* a directive that passes both validations *)
| Bad (k : bad_kind).

Definition classify (line : string) : line_class :=
  if is_include line then
    let include_path := include_arg line in
    if String.eqb include_path "" then Bad MissingPath              (* `if not include_path` *)
    else if str_contains (strip include_path) " " then Bad MultipleFiles   (* `" " in include_path.strip()` *)
    else Inc include_path
  else Plain.

Section Resolve.
  Variable fs : string -> option (list string).
  Variable rel : string -> string -> string.

  (* the `for line_idx, line in enumerate(lines)` loop of one call; `rec full_path lines_of_it` is the
     recursive call `resolve_includes(included_content, str(full_path), seen.copy())` *)
  Section Loop.
    Variable rec : string -> list string -> outcome.
    Variable base_path : string.

    Fixpoint loop (line_idx : nat) (lines : list string) : outcome :=
      match lines with
      | [] => Ok [] []
      | line :: rest =>
          match classify line with
          | Bad k => BadDirective k line_idx base_path
          | Inc include_path =>
              let full_path := rel base_path include_path in
              match fs full_path with
              | None => Missing full_path                     (* open() raises, caught and re-raised *)
              | Some included =>
                  match rec full_path included with
                  | Ok resolved included_map =>
                      match loop (S line_idx) rest with
                      | Ok out m => Ok (resolved ++ out) (included_map ++ m)
                      | e => e
                      end
                  | Missing _ => Missing full_path            (* `except FileNotFoundError:` wraps the inner one *)
                  | e => e                                    (* ValueError / SyntaxError propagate *)
                  end
              end
          | Plain =>
              match loop (S line_idx) rest with
              | Ok out m => Ok (line :: out) ((base_path, line_idx) :: m)
              | e => e
              end
          end
      end.
  End Loop.

  (* resolve_includes(source, base_path, seen) with lines = source.split("\n").
     `seen.add(base_path)` then `seen.copy()` for every child: every child of one call receives
     base_path :: seen. *)
  Fixpoint resolve (fuel : nat) (seen : list string) (base_path : string) (lines : list string) : outcome :=
    if str_in base_path seen then Cycle base_path else
    match fuel with
    | O => OutOfFuel
    | S f => loop (resolve f (base_path :: seen)) base_path 0 lines
    end.

  (* parse_file(filepath): open + read (FileNotFoundError if absent), then resolve_includes(source, filepath)
     with seen = None *)
  Definition resolve_file (fuel : nat) (filepath : string) : outcome :=
    match fs filepath with
    | None => Missing filepath
    | Some lines => resolve fuel [] filepath lines
    end.
End Resolve.

(* ---- a finite file system: association list path -> lines ---- *)
Fixpoint fs_of (files : list (string * list string)) (p : string) : option (list string) :=
  match files with
  | [] => None
  | (q, ls) :: r => if String.eqb p q then Some ls else fs_of r p
  end.

(* the fuel-free entry point for a finite file system: S (number of files) is enough
   (IncludeProofs.resolve_includes_terminates) *)
Definition resolve_includes (files : list (string * list string)) (rel : string -> string -> string)
           (entry : string) : outcome :=
  resolve_file (fs_of files) rel (S (length files)) entry.

(* ---- a concrete `rel` for '/'-separated absolute paths without symlinks:
        str((Path(base_path).parent / include_path).resolve()) ---- *)
Fixpoint norm_parts (parts : list string) (stack : list string) : list string :=
  match parts with
  | [] => rev stack
  | c :: r =>
      if String.eqb c "" || String.eqb c "." then norm_parts r stack
      else if String.eqb c ".." then norm_parts r (tl stack)       (* ".." at the root stays at the root *)
      else norm_parts r (c :: stack)
  end.

Definition path_parts (p : string) : list string := norm_parts (split_char p "/"%char) [].

Definition path_of_parts (parts : list string) : string := "/" ++ join "/" parts.

(* Path(p).parent of a normalised path *)
Definition parent_parts (p : string) : list string := removelast (path_parts p).

Definition rel_posix (base_path include_path : string) : string :=
  if startswith include_path "/" then path_of_parts (path_parts include_path)   (* base_dir / "/abs" = "/abs" *)
  else path_of_parts (norm_parts (split_char include_path "/"%char) (rev (parent_parts base_path))).
