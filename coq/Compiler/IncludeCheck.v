(* Executable comparison functions used by the generated cases of C13 (correspondence check).
   A case is a finite file system (paths already made relative to the scratch root, as absolute
   '/'-separated strings), an entry path, and what the real resolve_includes / parse_file did. *)
From Coq Require Import String Ascii List Bool Arith.
From Bardic Require Import PyStr.
From Bardic Require Import Include.
Import ListNotations.
Local Open Scope string_scope.

(* what the implementation did *)
Inductive iexpect :=
| EOk (lines : list string) (line_map : list (string * nat))  (* resolved.split("\n"), [(file, line_num)] *)
| ECycle (path : option string)      (* ValueError; the path named in the message when it could be read *)
| EMissing (path : option string)    (* FileNotFoundError; the "Looking for:" path when it could be read *)
| EBad (k : option bad_kind)         (* SyntaxError; which of the two when it could be told *)
| EOther.                            (* anything else: always a disagreement *)

Definition icase := (list (string * list string) * string * iexpect)%type.

Fixpoint list_eqb {A} (f : A -> A -> bool) (a b : list A) : bool :=
  match a, b with
  | [], [] => true
  | x :: r, y :: s => f x y && list_eqb f r s
  | _, _ => false
  end.

Definition loc_eqb (a b : string * nat) : bool :=
  String.eqb (fst a) (fst b) && Nat.eqb (snd a) (snd b).

Definition bad_kind_eqb (a b : bad_kind) : bool :=
  match a, b with
  | MissingPath, MissingPath | MultipleFiles, MultipleFiles => true
  | _, _ => false
  end.

Definition opt_agrees {A} (f : A -> A -> bool) (model : A) (impl : option A) : bool :=
  match impl with None => true | Some x => f model x end.

Definition run_model (c : icase) : outcome :=
  let '(files, entry, _) := c in resolve_includes files rel_posix entry.

Definition agrees (o : outcome) (e : iexpect) : bool :=
  match o, e with
  | Ok ls m, EOk ls' m' => list_eqb String.eqb ls ls' && list_eqb loc_eqb m m'
  | Cycle p, ECycle p' => opt_agrees String.eqb p p'
  | Missing p, EMissing p' => opt_agrees String.eqb p p'
  | BadDirective k _ _, EBad k' => opt_agrees bad_kind_eqb k k'
  | _, _ => false
  end.

Definition icase_bad (c : icase) : bool :=
  let '(_, _, e) := c in negb (agrees (run_model c) e).

Definition icase_show (c : icase) : outcome := run_model c.

(* path cases: (base_path, include argument, what str((Path(base).parent / arg).resolve()) gave) *)
Definition pcase := (string * string * string)%type.
Definition pcase_bad (c : pcase) : bool :=
  let '(b, a, e) := c in negb (String.eqb (rel_posix b a) e).
Definition pcase_show (c : pcase) : string := let '(b, a, _) := c in rel_posix b a.

(* directive cases: a one-line source given to the real resolve_includes in an empty directory, and what it
   did: 0 the line was kept (plain), 1 FileNotFoundError (a well-formed include; with the include
   argument named in the message when it could be read), 2 SyntaxError "missing file path",
   3 SyntaxError "one file at a time", 4 SyntaxError of unknown kind *)
Definition dcase := (string * nat * option string)%type.
Definition class_code (c : line_class) : nat * string :=
  match c with
  | Plain => (0, "")
  | Inc a => (1, a)
  | Bad MissingPath => (2, "")
  | Bad MultipleFiles => (3, "")
  end.
Definition dcase_bad (c : dcase) : bool :=
  let '(l, n, a) := c in
  let '(n', a') := class_code (classify l) in
  negb ((Nat.eqb n n' || (Nat.eqb n 4 && (Nat.eqb n' 2 || Nat.eqb n' 3))) && opt_agrees String.eqb a' a).
Definition dcase_show (c : dcase) := let '(l, _, _) := c in class_code (classify l).
