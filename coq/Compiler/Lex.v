(* Pure string helpers of the bardic compiler (first instalment: the two that C17 needs).

   strip_inline_comment          follows bardic/compiler/parsing/preprocessing.py:117-167
   detect_and_strip_indentation  follows bardic/compiler/parsing/indentation.py:4-52

   Domain: ASCII strings (bytes < 128), as everywhere in the model. *)
From Coq Require Import String Ascii List Bool Arith.
From Bardic Require Import PyStr.
Import ListNotations.
Local Open Scope string_scope.
Local Open Scope nat_scope.

(* ------------------------------------------------------------------------------------------- *)
(* strip_inline_comment                                                                        *)
(* ------------------------------------------------------------------------------------------- *)

Definition is_slash (c : ascii) : bool := Ascii.eqb c "/"%char.
Definition is_bslash (c : ascii) : bool := Ascii.eqb c "\"%char.
Definition is_equals (c : ascii) : bool := Ascii.eqb c "="%char.

(* The Python function is a `while i < len(line)` loop that looks at line[i:i+3] and line[i:i+2].
   Its guards `i < len(line) - 2` / `i < len(line) - 1` say exactly "three / two characters are left"
   (a shorter slice could not be equal to the 3- or 2-character pattern anyway), so the end-of-string
   cases below are: three or more characters left (all three tests apply), exactly two left (only the
   `//` test applies), one left (regular character).  Case order as in the Python:
     1. `\//`  -> literal `//` appended to the content, i += 3
     2. `//=`  -> kept, i += 3
     3. `//`   -> the rest of the line (from i) is the comment, stop
     4. otherwise the character is content, i += 1
   Result: (content, comment). *)
Fixpoint strip_inline_comment (s : string) : string * string :=
  match s with
  | EmptyString => (EmptyString, EmptyString)
  | String a r =>
      match r with
      | String b (String c r') =>
          if is_bslash a && is_slash b && is_slash c then
            let (k, m) := strip_inline_comment r' in (String "/" (String "/" k), m)
          else if is_slash a && is_slash b && is_equals c then
            let (k, m) := strip_inline_comment r' in (String "/" (String "/" (String "=" k)), m)
          else if is_slash a && is_slash b then (EmptyString, s)
          else let (k, m) := strip_inline_comment r in (String a k, m)
      | String b EmptyString =>
          if is_slash a && is_slash b then (EmptyString, s)
          else let (k, m) := strip_inline_comment r in (String a k, m)
      | EmptyString =>
          let (k, m) := strip_inline_comment r in (String a k, m)
      end
  end.

(* ------------------------------------------------------------------------------------------- *)
(* detect_and_strip_indentation                                                                *)
(* ------------------------------------------------------------------------------------------- *)

(* `not line.strip()` : the line is empty or all whitespace *)
Definition is_blank (l : string) : bool := all_space l.

(* len(line) - len(line.lstrip()) *)
Definition indent_of (l : string) : nat := String.length l - String.length (lstrip l).

(* the first loop: base indentation from the first non-blank line; None when every line is blank *)
Fixpoint base_indent (ls : list string) : option nat :=
  match ls with
  | [] => None
  | l :: r => if is_blank l then base_indent r else Some (indent_of l)
  end.

(* body of the second loop *)
Definition dedent_line (base : nat) (l : string) : string :=
  if is_blank l then l                       (* empty line - preserved as is *)
  else if base <=? indent_of l then drop base l   (* line[base_indent:] *)
  else l.                                    (* less indentation than the base - left as is *)

Definition detect_and_strip_indentation (ls : list string) : list string :=
  match base_indent ls with
  | None => ls                               (* `if not lines` and `if base_indent is None` *)
  | Some base => map (dedent_line base) ls
  end.

(* ------------------------------------------------------------------------------------------- *)
(* vocabulary used by the statements about these two functions                                  *)
(* ------------------------------------------------------------------------------------------- *)

Fixpoint last_char (s : string) : option ascii :=
  match s with
  | EmptyString => None
  | String a EmptyString => Some a
  | String _ r => last_char r
  end.

(* the string does not end with one of the scanner's trigger characters `/` and `\` *)
Definition clean_end (s : string) : bool :=
  match last_char s with
  | Some c => negb (is_slash c || is_bslash c)
  | None => true
  end.

Definition starts_slash (s : string) : bool :=
  match s with String c _ => is_slash c | EmptyString => false end.

Definition starts_equals (s : string) : bool :=
  match s with String c _ => is_equals c | EmptyString => false end.

(* the scanner found no comment on this line *)
Definition no_comment (s : string) : Prop := snd (strip_inline_comment s) = EmptyString.

(* prefix `p` put in front of every non-blank line (blank lines stay as they are) ... *)
Definition indent_line (p l : string) : string := if is_blank l then l else p ++ l.
(* ... or in front of every line *)
Definition indent_any (p l : string) : string := p ++ l.

(* every non-blank line is at least as indented as the first non-blank one *)
Definition well_indented (ls : list string) : Prop :=
  forall base, base_indent ls = Some base ->
  forall l, In l ls -> is_blank l = false -> base <= indent_of l.
