(* Executable comparison functions used by the generated cases of C17 (correspondence check for
   Compiler/Lex.v): the harness prints (input, what the implementation returned) and Coq evaluates
   the model on the same input. *)
From Coq Require Import String Ascii List Bool.
From Bardic Require Import PyStr Lex.
Import ListNotations.
Local Open Scope list_scope.

Fixpoint str_list_eqb (a b : list string) : bool :=
  match a, b with
  | [], [] => true
  | x :: r, y :: s => String.eqb x y && str_list_eqb r s
  | _, _ => false
  end.

(* strip_inline_comment: (line, (content, comment)) *)
Definition sic_case := (string * (string * string))%type.

Definition sic_case_bad (c : sic_case) : bool :=
  let '(line, (content, comment)) := c in
  let (k, m) := strip_inline_comment line in
  negb (String.eqb k content && String.eqb m comment).

Definition sic_case_show (c : sic_case) : string * string := strip_inline_comment (fst c).

(* detect_and_strip_indentation: (lines, dedented lines) *)
Definition dedent_case := (list string * list string)%type.

Definition dedent_case_bad (c : dedent_case) : bool :=
  negb (str_list_eqb (detect_and_strip_indentation (fst c)) (snd c)).

Definition dedent_case_show (c : dedent_case) : list string := detect_and_strip_indentation (fst c).
