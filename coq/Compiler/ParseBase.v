(* Shared vocabulary of the parser model (C11/C12): outcomes, diagnostics, oracles for Python's own
   parser.  Imported by Compiler/ParseLine.v, Compiler/ParseMain.v (part A) and
   Compiler/ParseBlocks.v (part B).

   A model function that follows a Python function returns `pres A`:
     POk a          the Python function returned a
     PDiag d        it raised SyntaxError / ValueError (a human-readable diagnostic built by
                    format_error or an f-string); `site` is a short tag naming the raise site,
                    `idx` is the line index handed to format_error (0-based index into `lines`)
     PInternal i    it escaped with an internal error (what C11 forbids)
     POutOfFuel     the model's fuel ran out (proved unreachable for the fuel the model uses) *)
From Coq Require Import String Ascii List Bool Arith.
Import ListNotations.
Local Open Scope string_scope.

Inductive diag :=
| DSyntax (site : string) (idx : nat)
| DValue (site : string).

Inductive internal :=
| IUnboundLocal
| IIndex
| INoneAttr
| IKey
| IType
| IRecursion (tag : string).

Inductive pres (A : Type) :=
| POk (a : A)
| PDiag (d : diag)
| PInternal (i : internal)
| POutOfFuel.
Arguments POk {A} a.
Arguments PDiag {A} d.
Arguments PInternal {A} i.
Arguments POutOfFuel {A}.

Definition pbind {A B : Type} (m : pres A) (f : A -> pres B) : pres B :=
  match m with
  | POk a => f a
  | PDiag d => PDiag d
  | PInternal i => PInternal i
  | POutOfFuel => POutOfFuel
  end.

Definition pmap {A B : Type} (f : A -> B) (m : pres A) : pres B :=
  pbind m (fun a => POk (f a)).

Notation "'let*' x ':=' m 'in' k" := (pbind m (fun x => k))
  (at level 200, x pattern, m at level 100, k at level 200, right associativity).

(* outcome classes *)
Definition is_ok {A} (m : pres A) : bool := match m with POk _ => true | _ => false end.
Definition is_diag {A} (m : pres A) : bool := match m with PDiag _ => true | _ => false end.
Definition is_internal {A} (m : pres A) : bool := match m with PInternal _ => true | _ => false end.
Definition is_fuel {A} (m : pres A) : bool := match m with POutOfFuel => true | _ => false end.

(* "value or diagnostic": the outcome C11 allows *)
Definition ok_or_diag {A} (m : pres A) : Prop :=
  (exists a, m = POk a) \/ (exists d, m = PDiag d).

(* Oracles for Python's own parser (author code is not modelled as Python):
     py_stmt_ok code    ast.parse(code) succeeds (used for `~` statements)
     py_stmt_errline code   when ast.parse(code) raises SyntaxError e: `max(e.lineno - 1, 0) if e.lineno else 0`,
                        the 0-based offset of the line Python blames in the text it was given (0 when the
                        error carries no line: null bytes, or Python's parser gave up); only consulted when
                        py_stmt_ok code = false.  It can exceed the number of lines the compiler counts (CPython
                        takes a bare carriage return for a line break): core.py clamps it to the lines the
                        statement consumed before adding it to the index of the `~` line (fix F14c).
     py_call_shape args ast.parse("_temp_(" ++ args ++ ")") : number of positional arguments and
                        the keyword names ("**" for a **kwargs entry, and "*" added when a starred positional
                        argument is present; the names in the order written, a repeated keyword occurs as
                        often as it is written), None on SyntaxError *)
Record pyparse := mkPyparse {
  py_stmt_ok : string -> bool;
  py_call_shape : string -> option (nat * list string);
  py_stmt_errline : string -> nat }.
