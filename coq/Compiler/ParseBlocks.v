(* Block extractors of the bardic compiler (C11/C12, part B).

   Follows /repo/bardic/compiler/parsing/blocks.py function by function, case by case IN ORDER:

     _is_join_block_terminator      blocks.py:17-64
     extract_python_block           blocks.py:67-96    (+ _extract_py_new_syntax 99-150,
                                                          _extract_py_old_syntax 153-196)
     extract_conditional_block      blocks.py:199-~700
     extract_loop_block             blocks.py:~700-~1010
     extract_join_choice_block      blocks.py:~1010-end

   VERSION.  The unsuffixed names follow /repo as of commit 19fd338 plus the fixes F17j (both
   Python-block extractors take the opener line's own indentation off the body lines first:
   without_opener_indent) and F17m (extract_join_choice_block: comment lines at any indentation are
   collected with the block and take no part in the dedent nor in the parse: join_kept); these two
   are not parameterised (the `_cur` versions have them too), nor are the fixes F17n
   (_is_join_block_terminator also ends the block of a `-> @join` choice at the legacy forms of the block
   directives: legacy_markers) and F17o (_extract_py_old_syntax raises "<<py block not closed" when the `>>`
   is missing, as _extract_py_new_syntax does for @endpy: py_old_go).  Two parameters keep the
   earlier code expressible (for the `_refuted` witnesses of Props/C11b.v and for checking an
   unpatched copy):
     fixed = false : extract_conditional_block as of commit 45ce265:
                     * legacy `<<if x` / `<<elif x` headers whose regex does not match leave the Python
                       local `condition` unassigned (UnboundLocalError at the opener, silent reuse of the
                       previous branch's condition at `<<elif`);
                     * the text lines pending before a directive / block / jump / choice inside a branch
                       are flushed WITHOUT looking at the glue operator (only the flush at
                       @elif/@else/@endif honours `<>`).
                     * extract_loop_block dedents its raw body as collected (a leading comment line
                       decides the base indentation);
                     * whitespace-only lines of an @py: body are kept as written;
                     * continuation lines of a multi-line `~` statement inside an @if branch keep the
                       branch's indentation.
     fixed = true  : commits 2da11ec (= proposed_fixes/F11a-legacy-if-unclosed.diff: both header sites
                     raise SyntaxError), b0767bb (every flush goes through _append_text_lines, which
                     honours `<>`), 623c615 (comment lines at the head of a loop body are dropped
                     before the body is dedented), 3dd8bdc (whitespace-only lines of an @py: body become
                     empty) and 19fd338 (continuation lines of a `~` statement in a branch are dedented).
     cap = None      : no limit on block nesting (the interpreter's recursion limit, which is outside
                       the model, is what stops a 1000-deep input: RecursionError, F11b)
     cap = Some 100  : commit 179a3c4 (= proposed_fixes/F11b-block-depth-limit.diff: SyntaxError beyond
                       MAX_BLOCK_DEPTH = 100 levels)
   `extract_*` (no suffix) = (true, Some 100) = current /repo; `extract_*_cur` = (false, None) =
   45ce265; `extract_*_a` = (true, None) = current /repo without the nesting cap.

   Every partial Python operation is an explicit outcome (ParseBase.pres):
     lines[start_index]            -> PInternal IIndex when start >= len(lines)
     unassigned `condition`        -> PInternal IUnboundLocal
     match.group after `if match`  -> guarded in the Python, total here
     a sub-call that reports 0 consumed lines (only possible for the `extract_multiline_expression`
     parameter) makes the Python `while` spin on the same line for ever -> POutOfFuel.
   Outside the model (stated, not modelled): the interpreter's recursion limit (nesting depth is
   input-controlled: F11b), `re` on strings containing "\n" (lines never contain one: they come from
   text.split("\n")), non-ASCII text.

   Line-level functions (part A, Compiler/ParseLine.v) enter as the record `linefns`, so the model
   and every proof about it are independent of their definitions.

   Recursion.  The `while i < len(lines)` loops are structural recursions on the suffix of `lines`
   with a skip counter (a sub-extractor that consumed k lines makes the next k-1 lines be skipped:
   exactly `i += k`).  The mutual recursion between the conditional and the loop extractor (a loop
   re-parses a dedented COPY of its body, which is not a sub-term) uses explicit fuel, decremented
   once per nested extractor call; fuel = (len(lines) - start) + 1 is proved sufficient.

   `nesting_level` in extract_conditional_block is initialised to 0 and never incremented anywhere
   in the Python, so `nesting_level > 0` is always false and `nesting_level == 0` always true: the
   model inlines the constant. *)
From Coq Require Import String Ascii List Bool Arith ZArith.
From Bardic Require Import PyStr Value Compiled Lex ParseBase.
Import ListNotations.
Local Open Scope string_scope.
Local Open Scope nat_scope.
Local Open Scope list_scope.

(* ------------------------------------------------------------------------------------------- *)
(* the line-level functions this file is parameterised by                                       *)
(* ------------------------------------------------------------------------------------------- *)
Record linefns := mkLinefns {
  (* parse_content_line(line, ...): tokens or SyntaxError (the idx of the diagnostic is a placeholder) *)
  lf_content : string -> pres (list token);
  (* parse_choice_line(stripped, {}) : None when the line is not a well-formed choice *)
  lf_choice : string -> pres (option choice);
  (* parse_render_line(line) / parse_input_line(line) without line context: None instead of raising *)
  lf_render : string -> pres (option token);
  lf_input : string -> pres (option token);
  (* extract_multiline_expression(lines, start_index, initial_expr) *)
  lf_emx : list string -> nat -> string -> string * nat;
  (* extract_target_and_args(target_with_args) *)
  lf_eta : string -> string * string }.

(* ------------------------------------------------------------------------------------------- *)
(* string helpers local to this file                                                            *)
(* ------------------------------------------------------------------------------------------- *)
Definition nl : string := String (ascii_of_nat 10) EmptyString.
Definition tnl : token := TText nl.

Definition nonempty (s : string) : bool := match s with EmptyString => false | _ => true end.

(* number of leading whitespace characters: len(s) - len(s.lstrip()) *)
Definition ws_run (s : string) : nat := String.length s - String.length (lstrip s).

(* `line.rstrip().endswith("<>")` -> Some (line.rstrip()[:-2]) *)
Definition glue_split (line : string) : option string :=
  let r := rstrip line in
  if endswith r "<>" then Some (take (String.length r - 2) r) else None.

(* re.match(PREFIX ++ "\s+(.+):\s*$", s): the text between PREFIX and the final colon (group 1 is
   this text minus part of its leading whitespace; every caller strips it).  The only colon that can
   be followed by `\s*$` is the last character of s.rstrip(); `\s+` and `.+` need one character
   each, and the text must begin with whitespace. *)
Definition match_colon_tail (prefix s : string) : option string :=
  let r := rstrip s in
  if startswith s prefix && endswith r ":" then
    let body := drop (String.length prefix) (take (String.length r - 1) r) in
    match body with
    | String c _ => if is_space c && (2 <=? String.length body) then Some body else None
    | EmptyString => None
    end
  else None.

(* `(.+?)>>` started after a whitespace run of length `run` that `\s+` matched greedily.
   With the whole run taken by `\s+`: the first ">>" at offset >= 1.  Otherwise `\s+` gives back
   one whitespace character, which becomes the group, if ">>" follows at once.  Result stripped. *)
Definition lazy_close (run : nat) (after : string) : option string :=
  match after with
  | String _ r =>
      match str_find r ">>" with
      | Some k => Some (strip (take (S k) after))
      | None => if startswith after ">>" && (2 <=? run) then Some EmptyString else None
      end
  | EmptyString => None
  end.

(* re.match(PREFIX ++ "\s+(.+?)>>", s) -> group(1).strip() *)
Definition match_legacy (prefix s : string) : option string :=
  if startswith s prefix then
    let rest := drop (String.length prefix) s in
    let run := ws_run rest in
    if 1 <=? run then lazy_close run (lstrip rest) else None
  else None.

(* tails of the two `for` headers, tried at the position where group 1 ends *)
(* `\s+in\s+(.+)$`  (the `:\s*$` part was removed by match_colon_tail) *)
Definition for_tail_colon (t : string) : option string :=
  if 1 <=? ws_run t then
    let r := lstrip t in
    if startswith r "in" then
      let v := drop 2 r in
      match v with
      | String c _ => if is_space c && (2 <=? String.length v) then Some (strip v) else None
      | EmptyString => None
      end
    else None
  else None.

(* `\s+in\s+(.+?)>>` *)
Definition for_tail_legacy (t : string) : option string :=
  if 1 <=? ws_run t then
    let r := lstrip t in
    if startswith r "in" then
      let v := drop 2 r in
      let w := ws_run v in
      if 1 <=? w then lazy_close w (lstrip v) else None
    else None
  else None.

(* lazy group 1: shortest non-empty prefix `pre` after which the tail matches *)
Fixpoint for_scan (tail : string -> option string) (pre t : string) : option (string * string) :=
  match t with
  | EmptyString => None
  | String c t' =>
      match (if nonempty pre then tail t else None) with
      | Some coll => Some (pre, coll)
      | None => for_scan tail (pre ++ String c EmptyString)%string t'
      end
  end.

(* greedy leading `\s+`: whole run first, then one character less, ... down to one *)
Fixpoint for_starts (tail : string -> option string) (T : string) (a : nat) : option (string * string) :=
  match a with
  | O => None
  | S a1 =>
      match for_scan tail EmptyString (drop a T) with
      | Some r => Some r
      | None => for_starts tail T a1
      end
  end.

(* (variable, collection), both stripped *)
Definition for_match (tail : string -> option string) (T : string) : option (string * string) :=
  match for_starts tail T (ws_run T) with
  | Some (v, c) => Some (strip v, c)
  | None => None
  end.

Definition match_for_colon (s : string) : option (string * string) :=
  match match_colon_tail "@for" s with
  | Some T => for_match for_tail_colon T
  | None => None
  end.

Definition match_for_legacy (s : string) : option (string * string) :=
  if startswith s "<<for" then for_match for_tail_legacy (drop 5 s) else None.

(* re.match(r"->\s*(.+)", x) for x = jump_line.strip() : group(1) (already stripped) *)
Definition match_jump (x : string) : option string :=
  if startswith x "->" then
    let m := lstrip (drop 2 x) in
    if nonempty m then Some (strip m) else None
  else None.

(* `parts = stripped.split(); if len(parts) == 3: _, event, target = parts` *)
Definition hook_parts (stripped : string) : option (string * string) :=
  match split_ws stripped with
  | [_; e; t] => Some (e, t)
  | _ => None
  end.

(* re-tag the placeholder index of a diagnostic coming from a line-level function *)
Definition at_line {A} (idx : nat) (r : pres A) : pres A :=
  match r with
  | PDiag (DSyntax s _) => PDiag (DSyntax s idx)
  | _ => r
  end.

(* ------------------------------------------------------------------------------------------- *)
(* _is_join_block_terminator                                                                    *)
(* ------------------------------------------------------------------------------------------- *)
Definition block_markers : list string :=
  ["@if "; "@elif "; "@else:"; "@endif"; "@for "; "@endfor"; "@py:"; "@endpy"].

(* marker.rstrip(":") *)
Fixpoint rstrip_colons (s : string) : string :=
  match s with
  | EmptyString => EmptyString
  | String c r =>
      match rstrip_colons r with
      | EmptyString => if Ascii.eqb c ":"%char then EmptyString else String c EmptyString
      | r' => String c r'
      end
  end.

(* fix F17n: the same directives in the legacy <<...>> syntax, `stripped.startswith(marker)` *)
Definition legacy_markers : list string :=
  ["<<if "; "<<elif "; "<<else>>"; "<<endif>>"; "<<for "; "<<endfor>>"; "<<py"].

Definition is_join_block_terminator (line : string) : bool :=
  let stripped := strip line in
  if negb (nonempty stripped) then false
  else if startswith stripped "+ [" || startswith stripped "* [" then true
  else if startswith stripped "+ {" || startswith stripped "* {" then true
  else if String.eqb stripped "@join" then true
  else if startswith stripped ":: " then true
  else if existsb (fun m => startswith stripped m || String.eqb stripped (rstrip_colons m)) block_markers then true
  else existsb (fun m => startswith stripped m) legacy_markers.

(* ------------------------------------------------------------------------------------------- *)
(* extract_python_block                                                                         *)
(* ------------------------------------------------------------------------------------------- *)

(* _without_opener_indent (fix F17j): a body line that starts with the opener line's own leading
   whitespace loses it (that indentation belongs to the enclosing @if body, whose lines reach the
   extractor raw); nothing happens when the opener stands at column 0
     prefix = opener[: len(opener) - len(opener.lstrip())]
     if prefix and line.startswith(prefix): return line[len(prefix):] *)
Definition without_opener_indent (line opener : string) : string :=
  let prefix := take (ws_run opener) opener in
  if nonempty prefix && startswith line prefix then drop (String.length prefix) line else line.

(* _extract_py_new_syntax: the `while` from start_index + 1; k = lines consumed so far.
   fx = true: commit 3dd8bdc (whitespace-only lines of the dedented body become empty lines, as in the
   <<py form); fx = false: the body lines are joined as dedented.
   The test for @endpy reads the raw line; what is collected is the line without the opener's indent. *)
Definition blank_to_empty (l : string) : string := if nonempty (strip l) then l else EmptyString.

Fixpoint py_new_go (fx : bool) (opener : string) (start : nat) (rest : list string)
         (code_lines : list string) (k : nat) : pres (string * nat) :=
  match rest with
  | [] => PDiag (DSyntax "py-unclosed" start)
  | line :: rest' =>
      if String.eqb (strip line) "@endpy" then
        let ded := detect_and_strip_indentation code_lines in
        POk (join nl (if fx then map blank_to_empty ded else ded), S k)
      else py_new_go fx opener start rest' (code_lines ++ [without_opener_indent line opener]) (S k)
  end.

Definition extract_py_new_syntax_v (fx : bool) (lines : list string) (start : nat) : pres (string * nat) :=
  match nth_error lines start with
  | None => PInternal IIndex                                   (* lines[start_index] *)
  | Some line =>                                               (* opener = line *)
      if negb (String.eqb (strip line) "@py:") then PDiag (DSyntax "py-missing-colon" start)
      else py_new_go fx line start (skipn (S start) lines) [] 1
  end.

(* _extract_py_old_syntax.  Fix F17o: when the loop ends without having found `>>` it raises the
   "Unclosed Block Error ... <<py block not closed" diagnostic (format_error with line_num=start_index,
   like _extract_py_new_syntax; same site tag: the two messages differ only in the spelling of the
   opener); before the fix the block silently ran to the end of `lines`.
   The test for `>>` reads the raw line; everything after it reads the line without
   the opener's indent (`line = _without_opener_indent(line, opener)`).
   The third arm of the Python `if/elif/else` (append the line unchanged) is unreachable: a
   non-blank line has just set base_indent. *)
Fixpoint py_old_go (opener : string) (start : nat) (rest : list string) (base : option nat)
         (code_lines : list string) (k : nat) : pres (string * nat) :=
  match rest with
  | [] => PDiag (DSyntax "py-unclosed" start)                  (* not found_closer *)
  | raw :: rest' =>
      if String.eqb (strip raw) ">>" then POk (join nl code_lines, S k)
      else
        let line := without_opener_indent raw opener in
        let blank := negb (nonempty (strip line)) in
        let base' := match base with
                     | None => if blank then None else Some (ws_run line)
                     | Some b => Some b
                     end in
        let adjusted :=
          if blank then EmptyString
          else match base' with
               | Some b => if (b <=? String.length line) && all_space (take b line)
                           then drop b line else line
               | None => line
               end in
        py_old_go opener start rest' base' (code_lines ++ [adjusted]) (S k)
  end.

(* `opener = lines[start_index]`: extract_python_block, the only caller, has read that very element
   before (an index beyond the list is its PInternal IIndex); the default "" is never used *)
Definition extract_py_old_syntax (lines : list string) (start : nat) : pres (string * nat) :=
  py_old_go (nth start lines EmptyString) start (skipn (S start) lines) None [] 1.

Definition extract_python_block_v (fx : bool) (lines : list string) (start : nat) : pres (string * nat) :=
  match nth_error lines start with
  | None => PInternal IIndex                                   (* lines[start_index] *)
  | Some line =>
      let stripped := strip line in
      if startswith stripped "<<py" then extract_py_old_syntax lines start
      else if startswith stripped "@py" then extract_py_new_syntax_v fx lines start
      else PDiag (DValue "python-block-on-non-python-line")
  end.

(* current /repo, and the code before commit 3dd8bdc *)
Definition extract_py_new_syntax := extract_py_new_syntax_v true.
Definition extract_python_block := extract_python_block_v true.
Definition extract_python_block_cur := extract_python_block_v false.

(* ------------------------------------------------------------------------------------------- *)
(* shared pieces of the conditional and loop extractors                                         *)
(* ------------------------------------------------------------------------------------------- *)
Section WithLinefns.
Variable fixed : bool.            (* 2da11ec (F11a), b0767bb (glue on every flush), 623c615 applied *)
Variable cap : option nat.        (* F11b applied: Some MAX_BLOCK_DEPTH *)
Variable lf : linefns.

(* the flush used before directives/blocks/jumps/choices UNTIL commit b0767bb: every dedented line, newline after each,
   glue NOT looked at *)
Fixpoint flush_plain_lines (content : list token) (ded : list string) : pres (list token) :=
  match ded with
  | [] => POk content
  | l :: r =>
      let* toks := lf_content lf l in
      flush_plain_lines (content ++ toks ++ [tnl]) r
  end.

Definition flush_plain (content : list token) (ls : list string) : pres (list token) :=
  flush_plain_lines content (detect_and_strip_indentation ls).

(* _append_text_lines, and the inlined flush when a branch is finalised (@elif / @else / @endif);
   content_line_glue is also the treatment of loop content lines: glue honoured *)
Definition content_line_glue (content : list token) (l : string) : pres (list token) :=
  match glue_split l with
  | Some cl => let* toks := lf_content lf cl in POk (content ++ toks)
  | None => let* toks := lf_content lf l in POk (content ++ toks ++ [tnl])
  end.

Fixpoint flush_glue_lines (content : list token) (ded : list string) : pres (list token) :=
  match ded with
  | [] => POk content
  | l :: r =>
      let* c' := content_line_glue content l in
      flush_glue_lines c' r
  end.

Definition flush_glue (content : list token) (ls : list string) : pres (list token) :=
  flush_glue_lines content (detect_and_strip_indentation ls).

(* `~ code` : code is what follows the marker; (complete_code, lines_consumed) *)
Definition py_statement (lines : list string) (i : nat) (raw : string) : string * nat :=
  let code := fst (strip_inline_comment (strip raw)) in
  lf_emx lf lines i code.

(* the `~` statement of extract_conditional_block since commit 19fd338: when the statement spans
   several lines, the continuation lines lines[i+1 : i+consumed] lose the indentation of the `~` line
   (cont[indent:] if cont[:indent].strip() == "" else cont) and are joined to the first line's code;
   what extract_multiline_expression assembled is then only used for its consumed count *)
Definition dedent_cont (indent : nat) (cont : string) : string :=
  if all_space (take indent cont) then drop indent cont else cont.

Definition cond_py_statement (lines : list string) (i : nat) (line raw : string) : string * nat :=
  let ck := py_statement lines i raw in
  if fixed && (1 <? snd ck) then
    let code := fst (strip_inline_comment (strip raw)) in
    (join nl (code :: map (dedent_cont (ws_run line)) (firstn (snd ck - 1) (skipn (S i) lines))), snd ck)
  else ck.

(* jump line -> Some (target, args) when the regex matches *)
Definition jump_of (stripped : string) : option (string * string) :=
  let jump_line := fst (strip_inline_comment stripped) in
  match match_jump (strip jump_line) with
  | Some g => Some (lf_eta lf g)
  | None => None
  end.

Definition is_if_line (stripped : string) : bool :=
  startswith stripped "<<if " || startswith stripped "@if ".
Definition is_for_line (stripped : string) : bool :=
  startswith stripped "<<for " || startswith stripped "@for ".
Definition is_py_line (stripped : string) : bool :=
  startswith stripped "<<py" || startswith stripped "@py".
Definition is_choice_line (stripped : string) : bool :=
  startswith stripped "+" || startswith stripped "*".

Section Open.
(* the recursive calls, tied below with fuel *)
Variable rec_cond rec_loop : list string -> nat -> pres (token * nat).

(* ------------------------------------------------------------------------------------------- *)
(* extract_conditional_block                                                                    *)
(* ------------------------------------------------------------------------------------------- *)
Record cstate := mkCstate {
  cs_branches : list branch;                               (* conditional["branches"] *)
  cs_cur : option (string * list token * list choice);     (* current_branch *)
  cs_lines : list string;                                  (* current_branch_lines *)
  cs_condvar : option string }.                            (* the local `condition`; None = unbound *)

Inductive cstep :=
| CNext (st : cstate) (consumed : nat)                     (* i += consumed; continue *)
| CDone (branches : list branch).                          (* found_closer; i += 1; break *)

Definition has_cur (st : cstate) : bool :=
  match cs_cur st with Some _ => true | None => false end.

(* `if current_branch_lines: _append_text_lines(current_branch, current_branch_lines, filename);
   current_branch_lines = []` - _append_text_lines honours the glue operator (b0767bb); before that
   commit the ten inlined copies of this flush did not *)
Definition flush_cur (st : cstate) : pres cstate :=
  match cs_cur st with
  | Some (c, content, chs) =>
      let* content' := (if fixed then flush_glue content (cs_lines st)
                        else flush_plain content (cs_lines st)) in
      POk (mkCstate (cs_branches st) (Some (c, content', chs)) [] (cs_condvar st))
  | None => POk st
  end.

Definition push_tok (st : cstate) (t : token) : cstate :=
  match cs_cur st with
  | Some (c, content, chs) => mkCstate (cs_branches st) (Some (c, content ++ [t], chs)) (cs_lines st) (cs_condvar st)
  | None => st
  end.

Definition push_opt (st : cstate) (t : option token) : cstate :=
  match t with Some t => push_tok st t | None => st end.

Definition push_choice (st : cstate) (ch : option choice) : cstate :=
  match ch, cs_cur st with
  | Some ch, Some (c, content, chs) =>
      mkCstate (cs_branches st) (Some (c, content, chs ++ [ch])) (cs_lines st) (cs_condvar st)
  | _, _ => st
  end.

(* the finalisation shared by finalize_and_start_new_branch and the @endif arm: branches after
   appending the current branch (if any), its pending lines flushed with glue *)
Definition finalize (st : cstate) : pres (list branch) :=
  match cs_cur st with
  | Some (c, content, chs) =>
      let* content' := flush_glue content (cs_lines st) in
      POk (cs_branches st ++ [Branch c content' chs])
  | None => POk (cs_branches st)
  end.

Definition start_new_branch (st : cstate) (cond : string) (condvar : option string) : pres cstep :=
  let* brs := finalize st in
  POk (CNext (mkCstate brs (Some (cond, [], [])) [] condvar) 1).

(* value of `condition` after a legacy header: assigned only when the regex matched *)
Definition legacy_condition (prefix site : string) (i : nat) (s1 : string) (st : cstate)
  : pres string :=
  match match_legacy prefix s1 with
  | Some c => POk c
  | None =>
      if fixed then PDiag (DSyntax site i)
      else match cs_condvar st with
           | Some c => POk c                               (* stale value of an earlier header *)
           | None => PInternal IUnboundLocal
           end
  end.

Definition cond_step (lines : list string) (start i : nat) (line : string) (st : cstate)
  : pres cstep :=
  let stripped := strip line in
  let cur := has_cur st in
  (* comment lines *)
  if startswith stripped "#" then POk (CNext st 1)
  (* python block *)
  else if is_py_line stripped && cur then
    let* st1 := flush_cur st in
    let* ck := extract_python_block_v fixed lines i in
    POk (CNext (push_tok st1 (TPyBlock (fst ck))) (snd ck))
  (* @input *)
  else if startswith stripped "@input" && cur then
    let* st1 := flush_cur st in
    let* d := lf_input lf line in
    POk (CNext (push_opt st1 d) 1)
  (* @render *)
  else if startswith stripped "@render" && cur then
    let* st1 := flush_cur st in
    let* d := lf_render lf line in
    POk (CNext (push_opt st1 d) 1)
  (* @hook *)
  else if startswith stripped "@hook " && cur then
    let* st1 := flush_cur st in
    POk (CNext (push_opt st1 (option_map (fun et => THook true (fst et) (snd et)) (hook_parts stripped))) 1)
  (* @unhook *)
  else if startswith stripped "@unhook " && cur then
    let* st1 := flush_cur st in
    POk (CNext (push_opt st1 (option_map (fun et => THook false (fst et) (snd et)) (hook_parts stripped))) 1)
  (* ~ statement *)
  else if startswith stripped "~ " && cur then
    let* st1 := flush_cur st in
    let ck := cond_py_statement lines i line (drop 2 stripped) in
    POk (CNext (push_tok st1 (TPyStmt (fst ck))) (snd ck))
  (* nested conditional (when there is no current branch the Python falls through to the tests below,
     none of which can apply to such a line except the final "regular line" arm, a no-op then) *)
  else if is_if_line stripped && negb (i =? start) && cur then
    let* st1 := flush_cur st in
    let* tk := rec_cond lines i in
    POk (CNext (push_tok st1 (fst tk)) (snd tk))
  (* nested loop *)
  else if is_for_line stripped && cur then
    let* st1 := flush_cur st in
    let* tk := rec_loop lines i in
    POk (CNext (push_tok st1 (fst tk)) (snd tk))
  (* the opening line *)
  else if is_if_line stripped && (i =? start) then
    let s1 := fst (strip_inline_comment stripped) in
    let* c :=
      (if startswith stripped "@if " then
         match match_colon_tail "@if" s1 with
         | Some body => POk (strip body)
         | None => PDiag (DSyntax "if-missing-colon" i)
         end
       else legacy_condition "<<if" "if-missing-close" i s1 st) in
    POk (CNext (mkCstate (cs_branches st) (Some (c, [], [])) [] (Some c)) 1)
  (* @endif: *)
  else if String.eqb stripped "@endif:" then PDiag (DSyntax "endif-colon" i)
  (* <<endif>> / @endif (nesting_level is always 0) *)
  else if startswith stripped "<<endif>>" || String.eqb stripped "@endif" then
    let* brs := finalize st in
    POk (CDone brs)
  (* <<elif / @elif *)
  else if startswith stripped "<<elif " || startswith stripped "@elif " then
    let s1 := fst (strip_inline_comment stripped) in
    let* c :=
      (if startswith stripped "@elif " then
         match match_colon_tail "@elif" s1 with
         | Some body => POk (strip body)
         | None => PDiag (DSyntax "elif-missing-colon" i)
         end
       else legacy_condition "<<elif" "elif-missing-close" i s1 st) in
    start_new_branch st c (Some c)
  (* <<else>> / @else *)
  else if startswith stripped "<<else>>" || startswith stripped "@else" then
    if startswith stripped "@else"
       && negb (String.eqb (strip (fst (strip_inline_comment stripped))) "@else:")
    then PDiag (DSyntax "else-missing-colon" i)
    else start_new_branch st "True" (cs_condvar st)
  (* jump *)
  else if startswith stripped "->" then
    match jump_of stripped with
    | Some ta =>
        if cur then
          let* st1 := flush_cur st in
          POk (CNext (push_tok st1 (TJump (fst ta) (snd ta))) 1)
        else POk (CNext st 1)
    | None => POk (CNext st 1)
    end
  (* choice *)
  else if is_choice_line stripped && cur then
    let* st1 := flush_cur st in
    let* ch := lf_choice lf stripped in
    POk (CNext (push_choice st1 ch) 1)
  (* regular content line *)
  else
    POk (CNext (if cur
                then mkCstate (cs_branches st) (cs_cur st) (cs_lines st ++ [line]) (cs_condvar st)
                else st) 1).

(* the `while i < len(lines)` loop: `rest` is lines[i:], `skip` lines are still to be passed over *)
Fixpoint cond_go (lines : list string) (start : nat) (rest : list string) (i skip : nat)
         (st : cstate) : pres (token * nat) :=
  match rest with
  | [] => PDiag (DSyntax "if-unclosed" start)               (* not found_closer *)
  | line :: rest' =>
      match skip with
      | S k => cond_go lines start rest' (S i) k st
      | O =>
          match cond_step lines start i line st with
          | POk (CNext st' O) => POutOfFuel                 (* i += 0: the Python spins for ever *)
          | POk (CNext st' (S k)) => cond_go lines start rest' (S i) k st'
          | POk (CDone brs) => POk (TCond brs, S i - start) (* i += 1; break; consumed = i - start *)
          | PDiag d => PDiag d
          | PInternal e => PInternal e
          | POutOfFuel => POutOfFuel
          end
      end
  end.

Definition cstate0 : cstate := mkCstate [] None [] None.

Definition cond_body (lines : list string) (start : nat) : pres (token * nat) :=
  cond_go lines start (skipn start lines) start 0 cstate0.

(* ------------------------------------------------------------------------------------------- *)
(* extract_loop_block                                                                           *)
(* ------------------------------------------------------------------------------------------- *)

(* first `while`: header, nesting depth, raw body lines.
   Result: (found_closer, i after the loop, loop_raw_lines, variable, collection).
   loop["variable"]/["collection"] stay None when the line at start_index is not a `for` header (a
   call the parser never makes); the model writes "" for None, as harness/story2coq.py does. *)
Fixpoint loop_collect (start : nat) (rest : list string) (i : nat) (started : bool) (depth : Z)
         (raw : list string) (var coll : string)
  : pres (bool * nat * list string * string * string) :=
  match rest with
  | [] => POk (false, i, raw, var, coll)
  | line :: rest' =>
      let stripped := strip line in
      if is_for_line stripped && (i =? start) then
        let s1 := fst (strip_inline_comment stripped) in
        if startswith stripped "@for " then
          match match_for_colon s1 with
          | Some (v, c) => loop_collect start rest' (S i) true 1%Z raw v c
          | None => PDiag (DSyntax "for-missing-colon" i)
          end
        else
          match match_for_legacy s1 with
          | Some (v, c) => loop_collect start rest' (S i) true 1%Z raw v c
          | None => PDiag (DSyntax "for-invalid" i)
          end
      else if String.eqb stripped "@endfor:" then PDiag (DSyntax "endfor-colon" i)
      else if started && is_for_line stripped then
        loop_collect start rest' (S i) started (depth + 1)%Z (raw ++ [line]) var coll
      else if startswith stripped "<<endfor>>" || String.eqb stripped "@endfor" then
        let d := (depth - 1)%Z in
        if (d =? 0)%Z then POk (true, S i, raw, var, coll)
        else loop_collect start rest' (S i) started d (raw ++ [line]) var coll
      else
        loop_collect start rest' (S i) started depth (if started then raw ++ [line] else raw) var coll
  end.

(* one iteration of the second `while` (over the dedented lines): new content, new choices, j += n *)
Definition body_step (ded : list string) (j : nat) (line : string)
           (content : list token) (chs : list choice)
  : pres (list token * list choice * nat) :=
  let stripped := strip line in
  if startswith stripped "#" then POk (content, chs, 1)
  else if is_py_line stripped then
    let* ck := extract_python_block_v fixed ded j in
    POk (content ++ [TPyBlock (fst ck)], chs, snd ck)
  else if startswith stripped "@input" then
    let* d := lf_input lf line in
    POk (match d with Some t => content ++ [t] | None => content end, chs, 1)
  else if startswith stripped "@render" then
    let* d := lf_render lf line in
    POk (match d with Some t => content ++ [t] | None => content end, chs, 1)
  else if startswith stripped "@hook " then
    POk (match hook_parts stripped with
         | Some (e, t) => content ++ [THook true e t] | None => content end, chs, 1)
  else if startswith stripped "@unhook " then
    POk (match hook_parts stripped with
         | Some (e, t) => content ++ [THook false e t] | None => content end, chs, 1)
  else if startswith line "~ " then                          (* `line`, not `stripped` *)
    let ck := py_statement ded j (drop 2 line) in
    POk (content ++ [TPyStmt (fst ck)], chs, snd ck)
  else if is_for_line stripped then
    let* tk := rec_loop ded j in
    POk (content ++ [fst tk], chs, snd tk)
  else if is_if_line stripped then
    let* tk := rec_cond ded j in
    POk (content ++ [fst tk], chs, snd tk)
  else if startswith stripped "->" then
    POk (match jump_of stripped with
         | Some ta => content ++ [TJump (fst ta) (snd ta)] | None => content end, chs, 1)
  else if is_choice_line stripped then
    let* ch := lf_choice lf stripped in
    POk (content, match ch with Some c => chs ++ [c] | None => chs end, 1)
  else
    let* content' := content_line_glue content line in
    POk (content', chs, 1).

Fixpoint body_go (ded : list string) (rest : list string) (j skip : nat)
         (content : list token) (chs : list choice) : pres (list token * list choice) :=
  match rest with
  | [] => POk (content, chs)
  | line :: rest' =>
      match skip with
      | S k => body_go ded rest' (S j) k content chs
      | O =>
          match body_step ded j line content chs with
          | POk (_, _, O) => POutOfFuel
          | POk (content', chs', S k) => body_go ded rest' (S j) k content' chs'
          | PDiag d => PDiag d
          | PInternal e => PInternal e
          | POutOfFuel => POutOfFuel
          end
      end
  end.

(* commit 623c615: among the leading run of blank-or-comment lines of loop_raw_lines the comment lines
   are deleted (the blank ones stay), so that a comment cannot decide the base indentation:
     first = 0
     while first < len(raw): s = raw[first].strip()
        if s.startswith("#"): del raw[first]   elif not s: first += 1   else: break *)
Fixpoint drop_leading_comments (raw : list string) : list string :=
  match raw with
  | [] => []
  | l :: r =>
      let s := strip l in
      if startswith s "#" then drop_leading_comments r
      else if negb (nonempty s) then l :: drop_leading_comments r
      else raw
  end.

Definition loop_body (lines : list string) (start : nat) : pres (token * nat) :=
  let* r := loop_collect start (skipn start lines) start false 0%Z [] "" "" in
  let '(found, i, raw, var, coll) := r in
  (* `if loop_raw_lines:` - [] gives [] *)
  let ded := detect_and_strip_indentation (if fixed then drop_leading_comments raw else raw) in
  let* cc := body_go ded ded 0 0 [] [] in
  if found then POk (TLoop var coll (fst cc) (snd cc), i - start)
  else PDiag (DSyntax "for-unclosed" start).

End Open.

(* tying the knot: one unit of fuel per nested extractor call.
   `depth` is the Python keyword parameter `_depth` of proposed_fixes/F11b-block-depth-limit.diff
   (0 for the calls of the main loop, + 1 at each nested call); with cap = None (the unpatched
   code) it is carried and never looked at. *)
Definition too_deep (depth : nat) : bool :=
  match cap with Some m => m <=? depth | None => false end.

Fixpoint extract_conditional_block_f (n : nat) (depth : nat) (lines : list string) (start : nat)
  : pres (token * nat) :=
  match n with
  | O => POutOfFuel
  | S n' =>
      if too_deep depth then PDiag (DSyntax "nesting-too-deep" start)
      else cond_body (extract_conditional_block_f n' (S depth)) (extract_loop_block_f n' (S depth))
                     lines start
  end
with extract_loop_block_f (n : nat) (depth : nat) (lines : list string) (start : nat)
  : pres (token * nat) :=
  match n with
  | O => POutOfFuel
  | S n' =>
      if too_deep depth then PDiag (DSyntax "nesting-too-deep" start)
      else loop_body (extract_conditional_block_f n' (S depth)) (extract_loop_block_f n' (S depth))
                     lines start
  end.

Definition block_fuel (lines : list string) (start : nat) : nat := S (length lines - start).

Definition extract_conditional_block_v (lines : list string) (start : nat) : pres (token * nat) :=
  extract_conditional_block_f (block_fuel lines start) 0 lines start.

Definition extract_loop_block_v (lines : list string) (start : nat) : pres (token * nat) :=
  extract_loop_block_f (block_fuel lines start) 0 lines start.

(* ------------------------------------------------------------------------------------------- *)
(* extract_join_choice_block                                                                    *)
(* ------------------------------------------------------------------------------------------- *)

(* `line.strip().startswith("#")` *)
Definition is_comment_line (line : string) : bool := startswith (strip line) "#".

(* first loop: block_lines and the number of lines taken; blank lines and (fix F17m) comment lines
   at any indentation go into the block without looking at their indentation *)
Fixpoint join_collect (choice_indent : nat) (rest : list string) (block : list string) (k : nat)
  : list string * nat :=
  match rest with
  | [] => (block, k)
  | line :: rest' =>
      if is_join_block_terminator line then (block, k)
      else if negb (nonempty (strip line)) || is_comment_line line
      then join_collect choice_indent rest' (block ++ [line]) (S k)
      else if ws_run line <=? choice_indent then (block, k)
      else join_collect choice_indent rest' (block ++ [line]) (S k)
  end.

(* fix F17m: `kept = [(j, l) for j, l in enumerate(block_lines) if not l.strip().startswith("#")]` *)
Fixpoint join_kept (block : list string) (j : nat) : list (nat * string) :=
  match block with
  | [] => []
  | l :: r => if is_comment_line l then join_kept r (S j) else (j, l) :: join_kept r (S j)
  end.

(* second loop: `for (j, _), line in zip(kept, dedented)`; parse_content_line gets line_num
   start_index + j + 1, i.e. format_error is given index start_index + j.  The comment arm is still
   in the Python; no dedented line reaches it any more (comment lines are not in `kept`). *)
Fixpoint join_parse (start : nat) (items : list (nat * string)) (content exec : list token)
  : pres (list token * list token) :=
  match items with
  | [] => POk (content, exec)
  | (j, line) :: r =>
      let stripped := strip line in
      if negb (nonempty stripped) then join_parse start r (content ++ [tnl]) exec
      else if startswith stripped "#" then join_parse start r content exec
      else if startswith stripped "~" then
        let code := fst (strip_inline_comment (strip (drop 2 stripped))) in
        join_parse start r (content ++ [TPyStmt code]) (exec ++ [TPyStmt code])
      else if startswith stripped "@hook " then
        match hook_parts stripped with
        | Some (e, t) => join_parse start r (content ++ [THook true e t]) (exec ++ [THook true e t])
        | None => join_parse start r content exec
        end
      else if startswith stripped "@unhook " then
        match hook_parts stripped with
        | Some (e, t) => join_parse start r (content ++ [THook false e t]) (exec ++ [THook false e t])
        | None => join_parse start r content exec
        end
      else
        let* toks := at_line (start + j) (lf_content lf line) in
        join_parse start r (content ++ toks ++ [tnl]) exec
  end.

Definition extract_join_choice_block (lines : list string) (start choice_indent : nat)
  : pres (list token * list token * nat) :=
  let (block, k) := join_collect choice_indent (skipn start lines) [] 0 in
  match block with
  | [] => POk ([], [], 0)                                    (* `if not block_lines: return [], [], 0` *)
  | _ =>
      let kept := join_kept block 0 in
      let dedented := detect_and_strip_indentation (map snd kept) in
      let* ce := join_parse start (combine (map fst kept) dedented) [] [] in
      POk (fst ce, snd ce, k)
  end.

End WithLinefns.

(* the versions *)
Definition max_block_depth : nat := 100.
(* /repo as of 19fd338 : what this file's unsuffixed names stand for *)
Definition extract_conditional_block := extract_conditional_block_v true (Some max_block_depth).
Definition extract_loop_block := extract_loop_block_v true (Some max_block_depth).
(* /repo as of 19fd338 without the nesting cap of 179a3c4 *)
Definition extract_conditional_block_a := extract_conditional_block_v true None.
Definition extract_loop_block_a := extract_loop_block_v true None.
(* /repo as of 45ce265 *)
Definition extract_conditional_block_cur := extract_conditional_block_v false None.
Definition extract_loop_block_cur := extract_loop_block_v false None.
