(* Executable comparison functions used by the generated cases of harness/c11b.py (correspondence
   check for Compiler/ParseBlocks.v).

   A case carries the input of one extractor call, what the implementation did, and - for the
   line-level functions the model is parameterised by - finite tables (argument |-> result) that the
   harness recorded from the REAL functions during that very call.  A lookup that misses its table
   fails closed (a distinguished result that cannot equal anything the implementation returns). *)
From Coq Require Import String Ascii List Bool Arith.
From Bardic Require Import PyStr Value Compiled Lex ParseBase ParseBlocks.
Import ListNotations.
Local Open Scope string_scope.
Local Open Scope list_scope.

(* ---------------- boolean equality of tokens ---------------- *)
Definition list_eqb {A} (f : A -> A -> bool) : list A -> list A -> bool :=
  fix go (a b : list A) : bool :=
    match a, b with
    | [], [] => true
    | x :: r, y :: s => f x y && go r s
    | _, _ => false
    end.

Definition opt_eqb {A} (f : A -> A -> bool) (a b : option A) : bool :=
  match a, b with
  | None, None => true
  | Some x, Some y => f x y
  | _, _ => false
  end.

Definition pair_eqb (a b : string * string) : bool :=
  String.eqb (fst a) (fst b) && String.eqb (snd a) (snd b).

Fixpoint token_eqb (a b : token) : bool :=
  match a, b with
  | TText x, TText y => String.eqb x y
  | TExpr x, TExpr y => String.eqb x y
  | TInlineCond c t f, TInlineCond c' t' f' =>
      String.eqb c c' && list_eqb token_eqb t t' && list_eqb token_eqb f f'
  | TCond bs, TCond bs' => list_eqb branch_eqb bs bs'
  | TLoop v c ct chs, TLoop v' c' ct' chs' =>
      String.eqb v v' && String.eqb c c' && list_eqb token_eqb ct ct' && list_eqb choice_eqb chs chs'
  | TJump t a, TJump t' a' => String.eqb t t' && String.eqb a a'
  | TPyStmt x, TPyStmt y => String.eqb x y
  | TPyBlock x, TPyBlock y => String.eqb x y
  | THook ad e t, THook ad' e' t' => Bool.eqb ad ad' && String.eqb e e' && String.eqb t t'
  | TRender n a f, TRender n' a' f' => String.eqb n n' && String.eqb a a' && opt_eqb String.eqb f f'
  | TInput at1, TInput at2 => list_eqb pair_eqb at1 at2
  | TJoinMarker n, TJoinMarker m => Nat.eqb n m
  | _, _ => false
  end
with branch_eqb (a b : branch) : bool :=
  match a, b with
  | Branch c ct chs, Branch c' ct' chs' =>
      String.eqb c c' && list_eqb token_eqb ct ct' && list_eqb choice_eqb chs chs'
  end
with choice_eqb (a b : choice) : bool :=
  match a, b with
  | Choice tx tg ar cd st sc tgs bl, Choice tx' tg' ar' cd' st' sc' tgs' bl' =>
      list_eqb token_eqb tx tx' && String.eqb tg tg' && String.eqb ar ar'
      && opt_eqb String.eqb cd cd' && Bool.eqb st st' && Nat.eqb sc sc'
      && list_eqb String.eqb tgs tgs' && list_eqb token_eqb bl bl'
  end.

Definition tokens_eqb := list_eqb token_eqb.

(* ---------------- tables standing for the line-level functions ---------------- *)
Definition miss : string := "<TABLE-MISS>".

Fixpoint tlookup {A} (k : string) (t : list (string * A)) : option A :=
  match t with
  | [] => None
  | (k', v) :: r => if String.eqb k k' then Some v else tlookup k r
  end.

Definition tab_pres {A} (t : list (string * pres A)) (k : string) : pres A :=
  match tlookup k t with Some r => r | None => PDiag (DSyntax miss 0) end.

(* key of an extract_multiline_expression call: the code and the lines after the current one, given
   either explicitly or as "the case's own lines from index k on" *)
Inductive esuffix := SMain (k : nat) | SList (l : list string).

Definition suffix_eqb (main : list string) (s : esuffix) (l : list string) : bool :=
  match s with
  | SMain k => list_eqb String.eqb (skipn k main) l
  | SList l' => list_eqb String.eqb l' l
  end.

Fixpoint emx_lookup (main : list string) (t : list (string * esuffix * (string * nat)))
         (code : string) (suf : list string) : option (string * nat) :=
  match t with
  | [] => None
  | (c, s, r) :: rest =>
      if String.eqb c code && suffix_eqb main s suf then Some r else emx_lookup main rest code suf
  end.

Definition tab_emx (main : list string) (t : list (string * esuffix * (string * nat)))
           (lines : list string) (i : nat) (code : string) : string * nat :=
  match emx_lookup main t code (skipn (S i) lines) with
  | Some r => r
  | None => (miss, 1)
  end.

Definition tab_eta (t : list (string * (string * string))) (k : string) : string * string :=
  match tlookup k t with Some r => r | None => (miss, miss) end.

(* ---------------- cases ---------------- *)
Inductive expect :=
| EOkTok (t : token) (consumed : nat)
| EOkPy (code : string) (consumed : nat)
| EOkJoin (content exec : list token) (consumed : nat)
| ESyntax (site : string) (idx : option nat)
| EValue
| EInternal (kind : string).

Inductive ckind := KPy | KCond | KLoop | KJoin.

Record ccase := mkCase {
  c_kind : ckind;
  c_lines : list string;
  c_start : nat;
  c_indent : nat;
  c_content : list (string * pres (list token));
  c_choice : list (string * pres (option choice));
  c_render : list (string * pres (option token));
  c_input : list (string * pres (option token));
  c_emx : list (string * esuffix * (string * nat));
  c_eta : list (string * (string * string));
  c_expect : expect }.

Definition case_lf (c : ccase) : linefns :=
  mkLinefns (tab_pres (c_content c)) (tab_pres (c_choice c)) (tab_pres (c_render c))
            (tab_pres (c_input c)) (tab_emx (c_lines c) (c_emx c)) (tab_eta (c_eta c)).

(* what the model says, in the vocabulary of `expect` *)
Definition internal_name (i : internal) : string :=
  match i with
  | IUnboundLocal => "UnboundLocalError"
  | IIndex => "IndexError"
  | INoneAttr => "AttributeError"
  | IKey => "KeyError"
  | IType => "TypeError"
  | IRecursion _ => "RecursionError"
  end.

Definition of_pres {A} (f : A -> expect) (r : pres A) : expect :=
  match r with
  | POk a => f a
  | PDiag (DSyntax s i) => ESyntax s (Some i)
  | PDiag (DValue _) => EValue
  | PInternal i => EInternal (internal_name i)
  | POutOfFuel => EInternal "OutOfFuel"
  end.

Definition run_model (fixed : bool) (cap : option nat) (c : ccase) : expect :=
  let lf := case_lf c in
  match c_kind c with
  | KPy => of_pres (fun r => EOkPy (fst r) (snd r)) (extract_python_block_v fixed (c_lines c) (c_start c))
  | KCond => of_pres (fun r => EOkTok (fst r) (snd r))
                     (extract_conditional_block_v fixed cap lf (c_lines c) (c_start c))
  | KLoop => of_pres (fun r => EOkTok (fst r) (snd r))
                     (extract_loop_block_v fixed cap lf (c_lines c) (c_start c))
  | KJoin => of_pres (fun r => EOkJoin (fst (fst r)) (snd (fst r)) (snd r))
                     (extract_join_choice_block lf (c_lines c) (c_start c) (c_indent c))
  end.

(* the implementation's diagnostic carries a line only when it went through format_error; a
   SyntaxError(str(e)) without location (content lines inside @if/@for) compares on the site alone *)
Definition expect_eqb (m e : expect) : bool :=
  match m, e with
  | EOkTok t k, EOkTok t' k' => token_eqb t t' && Nat.eqb k k'
  | EOkPy s k, EOkPy s' k' => String.eqb s s' && Nat.eqb k k'
  | EOkJoin a b k, EOkJoin a' b' k' => tokens_eqb a a' && tokens_eqb b b' && Nat.eqb k k'
  | ESyntax s (Some i), ESyntax s' (Some i') => String.eqb s s' && Nat.eqb i i'
  | ESyntax s _, ESyntax s' None => String.eqb s s'
  | EValue, EValue => true
  | EInternal k, EInternal k' => String.eqb k k'
  | _, _ => false
  end.

(* fixed = /repo + F11a + F11b; a = /repo + F11a; cur = /repo unpatched *)
Definition case_bad_fixed (c : ccase) : bool :=
  negb (expect_eqb (run_model true (Some max_block_depth) c) (c_expect c)).
Definition case_bad_a (c : ccase) : bool := negb (expect_eqb (run_model true None c) (c_expect c)).
Definition case_bad_cur (c : ccase) : bool := negb (expect_eqb (run_model false None c) (c_expect c)).
Definition case_show_fixed (c : ccase) : expect := run_model true (Some max_block_depth) c.
Definition case_show_a (c : ccase) : expect := run_model true None c.
Definition case_show_cur (c : ccase) : expect := run_model false None c.

(* any version: the harness names the version it found in the tree under test *)
Definition case_bad_v (fixed : bool) (cap : option nat) (c : ccase) : bool :=
  negb (expect_eqb (run_model fixed cap c) (c_expect c)).
Definition case_show_v (fixed : bool) (cap : option nat) (c : ccase) : expect := run_model fixed cap c.
