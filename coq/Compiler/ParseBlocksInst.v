(* The block extractors of Compiler/ParseBlocks.v instantiated with the line-level functions of
   Compiler/ParseLine.v (part A), and the two facts that discharge the hypotheses of the theorems
   of Props/C11b.v for this instance (they are three-line consequences of part A's lemmas in
   Proofs/ParseProofs.v; kept here because this is the only file that sees both halves). *)
From Coq Require Import String List Bool Arith.
From Bardic Require Import PyStr Value Compiled Lex ParseBase ParseLine ParseBlocks.
From Bardic Require Import ParseProofs ParseBlocksProofs ParseBlocksCheck.
Import ListNotations.

Definition real_linefns : linefns :=
  mkLinefns ParseLine.parse_content_line
            ParseLine.parse_choice_line
            (ParseLine.parse_render_line false)          (* parse_render_line(line): no line context *)
            (ParseLine.parse_input_line false)           (* parse_input_line(line) *)
            ParseLine.extract_multiline_expression
            ParseLine.extract_target_and_args.

(* /repo + F11a + F11b *)
Definition extract_conditional_block_real := extract_conditional_block real_linefns.
Definition extract_loop_block_real := extract_loop_block real_linefns.
Definition extract_join_choice_block_real := extract_join_choice_block real_linefns.

Lemma ood_allowed : forall A (r : pres A), ok_or_diag r -> allowed false r.
Proof. intros A r [[a E]|[d E]]; subst; exact I. Qed.

Lemma real_linefns_total : lf_total real_linefns.
Proof.
  repeat split; intros s; apply ood_allowed; simpl.
  - apply parse_content_line_ood.
  - apply parse_choice_line_ood.
  - apply parse_render_line_ood.
  - apply parse_input_line_ood.
Qed.

Lemma real_linefns_progress : lf_progress real_linefns.
Proof. intros ls i c. simpl. apply extract_multiline_consumes. Qed.

(* totality and progress of the extractors as the parser runs them *)
Theorem real_extractors_total : forall lines start,
  (start < length lines -> ok_or_diag (extract_python_block lines start)) /\
  ok_or_diag (extract_conditional_block_real lines start) /\
  (header_at is_for_line lines start -> ok_or_diag (extract_loop_block_real lines start)) /\
  (forall indent, ok_or_diag (extract_join_choice_block_real lines start indent)).
Proof.
  intros lines start.
  exact (total_all (Some max_block_depth) real_linefns lines start real_linefns_total real_linefns_progress).
Qed.
Print Assumptions real_extractors_total.

(* second correspondence pass of harness/c11b.py: the same cases, the model run with part A's
   line-level functions instead of the recorded tables *)
Definition run_model_real (c : ccase) : expect :=
  let lf := real_linefns in
  match c_kind c with
  | KPy => of_pres (fun r => EOkPy (fst r) (snd r)) (extract_python_block (c_lines c) (c_start c))
  | KCond => of_pres (fun r => EOkTok (fst r) (snd r)) (extract_conditional_block lf (c_lines c) (c_start c))
  | KLoop => of_pres (fun r => EOkTok (fst r) (snd r)) (extract_loop_block lf (c_lines c) (c_start c))
  | KJoin => of_pres (fun r => EOkJoin (fst (fst r)) (snd (fst r)) (snd r))
                     (extract_join_choice_block lf (c_lines c) (c_start c) (c_indent c))
  end.
Definition case_bad_real (c : ccase) : bool := negb (expect_eqb (run_model_real c) (c_expect c)).
Definition case_show_real (c : ccase) : expect := run_model_real c.
