(* Executable comparison functions used by the generated cases of C11 (correspondence check for
   Compiler/ParseLine.v and Compiler/ParseMain.v): the harness prints (input, what the implementation
   did) and Coq evaluates the model on the same input. *)
From Coq Require Import String Ascii List Bool Arith.
From Bardic Require Import PyStr Value Compiled Lex ParseBase ParseLine.
Import ListNotations.
Local Open Scope string_scope.
Local Open Scope list_scope.

(* ---- boolean equalities ---- *)
Fixpoint list_eqb {A} (f : A -> A -> bool) (a b : list A) : bool :=
  match a, b with
  | [], [] => true
  | x :: r, y :: s => f x y && list_eqb f r s
  | _, _ => false
  end.

Definition opt_eqb {A} (f : A -> A -> bool) (a b : option A) : bool :=
  match a, b with
  | None, None => true
  | Some x, Some y => f x y
  | _, _ => false
  end.

Definition pair_eqb {A B} (f : A -> A -> bool) (g : B -> B -> bool) (a b : A * B) : bool :=
  f (fst a) (fst b) && g (snd a) (snd b).

Definition strs_eqb := list_eqb String.eqb.
Definition attrs_eqb := list_eqb (pair_eqb String.eqb String.eqb).

Fixpoint token_eqb (a b : token) {struct a} : bool :=
  let toks := fix toks (x y : list token) {struct x} : bool :=
      match x, y with
      | [], [] => true
      | p :: r, q :: s => token_eqb p q && toks r s
      | _, _ => false
      end in
  let chs := fix chs (x y : list choice) {struct x} : bool :=
      match x, y with
      | [], [] => true
      | c :: r, d :: s =>
          match c, d with
          | Choice t1 g1 a1 k1 s1 n1 tg1 b1, Choice t2 g2 a2 k2 s2 n2 tg2 b2 =>
              toks t1 t2 && String.eqb g1 g2 && String.eqb a1 a2 && opt_eqb String.eqb k1 k2 &&
              Bool.eqb s1 s2 && Nat.eqb n1 n2 && strs_eqb tg1 tg2 && toks b1 b2
          end && chs r s
      | _, _ => false
      end in
  let brs := fix brs (x y : list branch) {struct x} : bool :=
      match x, y with
      | [], [] => true
      | Branch c1 t1 h1 :: r, Branch c2 t2 h2 :: s =>
          String.eqb c1 c2 && toks t1 t2 && chs h1 h2 && brs r s
      | _, _ => false
      end in
  match a, b with
  | TText x, TText y => String.eqb x y
  | TExpr x, TExpr y => String.eqb x y
  | TInlineCond c1 t1 f1, TInlineCond c2 t2 f2 => String.eqb c1 c2 && toks t1 t2 && toks f1 f2
  | TCond b1, TCond b2 => brs b1 b2
  | TLoop v1 c1 t1 h1, TLoop v2 c2 t2 h2 => String.eqb v1 v2 && String.eqb c1 c2 && toks t1 t2 && chs h1 h2
  | TJump t1 a1, TJump t2 a2 => String.eqb t1 t2 && String.eqb a1 a2
  | TPyStmt x, TPyStmt y => String.eqb x y
  | TPyBlock x, TPyBlock y => String.eqb x y
  | THook a1 e1 t1, THook a2 e2 t2 => Bool.eqb a1 a2 && String.eqb e1 e2 && String.eqb t1 t2
  | TRender n1 a1 f1, TRender n2 a2 f2 => String.eqb n1 n2 && String.eqb a1 a2 && opt_eqb String.eqb f1 f2
  | TInput a1, TInput a2 => attrs_eqb a1 a2
  | TJoinMarker i, TJoinMarker j => Nat.eqb i j
  | _, _ => false
  end.

Definition tokens_eqb := list_eqb token_eqb.

Definition choice_eqb (c d : choice) : bool :=
  match c, d with
  | Choice t1 g1 a1 k1 s1 n1 tg1 b1, Choice t2 g2 a2 k2 s2 n2 tg2 b2 =>
      tokens_eqb t1 t2 && String.eqb g1 g2 && String.eqb a1 a2 && opt_eqb String.eqb k1 k2 &&
      Bool.eqb s1 s2 && Nat.eqb n1 n2 && strs_eqb tg1 tg2 && tokens_eqb b1 b2
  end.

Definition param_eqb (a b : param) : bool :=
  String.eqb (pname a) (pname b) && opt_eqb String.eqb (pdefault a) (pdefault b).

Definition passage_eqb (a b : passage) : bool :=
  String.eqb (pid a) (pid b) && list_eqb param_eqb (params a) (params b) &&
  tokens_eqb (content a) (content b) && list_eqb choice_eqb (choices a) (choices b) &&
  tokens_eqb (execute a) (execute b) && strs_eqb (ptags a) (ptags b) &&
  list_eqb attrs_eqb (input_directives a) (input_directives b).

Definition story_eqb (a b : story) : bool :=
  String.eqb (initial a) (initial b) &&
  list_eqb (pair_eqb String.eqb passage_eqb) (passages a) (passages b) &&
  strs_eqb (imports a) (imports b) &&
  attrs_eqb (metadata a) (metadata b).

(* ---- what the implementation did ---- *)
Inductive robs (A : Type) :=
| RVal (a : A)          (* returned a value *)
| RSyntax               (* raised SyntaxError *)
| RValue                (* raised ValueError *)
| ROther (k : string).  (* any other exception, by class name *)
Arguments RVal {A} a. Arguments RSyntax {A}. Arguments RValue {A}. Arguments ROther {A} k.

Definition internal_name (i : internal) : string :=
  match i with
  | IUnboundLocal => "UnboundLocalError"
  | IIndex => "IndexError"
  | INoneAttr => "AttributeError"
  | IKey => "KeyError"
  | IType => "TypeError"
  | IRecursion _ => "RecursionError"
  end.

Definition agrees {A} (eqb : A -> A -> bool) (m : pres A) (r : robs A) : bool :=
  match m, r with
  | POk a, RVal b => eqb a b
  | PDiag (DSyntax _ _), RSyntax => true
  | PDiag (DValue _), RValue => true
  | PInternal i, ROther k => String.eqb (internal_name i) k
  | _, _ => false
  end.

Definition unit_eqb (a b : unit) : bool := true.

(* ---- line-level cases ---- *)
Inductive lcase :=
| LTags (s : string) (r : string * list string)
| LContent (s : string) (r : robs (list token))
| LChoice (s : string) (r : robs (option choice))
| LRender (ctx : bool) (s : string) (r : robs (option token))
| LInput (ctx : bool) (s : string) (r : robs (option token))
| LMulti (ls : list string) (start : nat) (init : string) (r : string * nat)
| LTarget (s : string) (r : string * string)
| LHeaderParams (s : string) (r : string * string)
| LParams (s : string) (r : robs (list param))
| LCommas (s : string) (r : list string)
| LValChoice (s : string) (r : robs unit)
| LValName (s : string) (r : robs unit)
| LSplitExpr (s : string) (r : robs (list string))
| LPipe (s : string) (r : option nat)
| LInlineCond (s : string) (r : robs (option token)).

Definition lcase_bad (c : lcase) : bool :=
  negb match c with
  | LTags s r => pair_eqb String.eqb strs_eqb (parse_tags s) r
  | LContent s r => agrees tokens_eqb (parse_content_line s) r
  | LChoice s r => agrees (opt_eqb choice_eqb) (parse_choice_line s) r
  | LRender ctx s r => agrees (opt_eqb token_eqb) (parse_render_line ctx s) r
  | LInput ctx s r => agrees (opt_eqb token_eqb) (parse_input_line ctx s) r
  | LMulti ls st init r => pair_eqb String.eqb Nat.eqb (extract_multiline_expression ls st init) r
  | LTarget s r => pair_eqb String.eqb String.eqb (extract_target_and_args s) r
  | LHeaderParams s r => pair_eqb String.eqb String.eqb (extract_passage_params s) r
  | LParams s r => agrees (list_eqb param_eqb) (parse_passage_params s) r
  | LCommas s r => strs_eqb (split_on_commas s) r
  | LValChoice s r => agrees unit_eqb (validate_choice_syntax s 0) r
  | LValName s r => agrees unit_eqb (validate_passage_name s 0) r
  | LSplitExpr s r => agrees strs_eqb (split_expressions_with_depth s) r
  | LPipe s r => opt_eqb Nat.eqb (find_pipe_separator s) r
  | LInlineCond s r => agrees (opt_eqb token_eqb) (parse_inline_conditional s) r
  end.

Inductive lshow :=
| ShPair (a : string) (b : list string)
| ShPair2 (a b : string)
| ShMulti (a : string) (n : nat)
| ShToks (r : pres (list token))
| ShTok (r : pres (option token))
| ShChoice (r : pres (option choice))
| ShParams (r : pres (list param))
| ShStrs (r : pres (list string))
| ShUnit (r : pres unit)
| ShNat (r : option nat).

Definition lcase_show (c : lcase) : lshow :=
  match c with
  | LTags s _ => let (a, b) := parse_tags s in ShPair a b
  | LContent s _ => ShToks (parse_content_line s)
  | LChoice s _ => ShChoice (parse_choice_line s)
  | LRender ctx s _ => ShTok (parse_render_line ctx s)
  | LInput ctx s _ => ShTok (parse_input_line ctx s)
  | LMulti ls st init _ => let (a, n) := extract_multiline_expression ls st init in ShMulti a n
  | LTarget s _ => let (a, b) := extract_target_and_args s in ShPair2 a b
  | LHeaderParams s _ => let (a, b) := extract_passage_params s in ShPair2 a b
  | LParams s _ => ShParams (parse_passage_params s)
  | LCommas s _ => ShStrs (POk (split_on_commas s))
  | LValChoice s _ => ShUnit (validate_choice_syntax s 0)
  | LValName s _ => ShUnit (validate_passage_name s 0)
  | LSplitExpr s _ => ShStrs (split_expressions_with_depth s)
  | LPipe s _ => ShNat (find_pipe_separator s)
  | LInlineCond s _ => ShTok (parse_inline_conditional s)
  end.

(* ---- whole-parse cases ---- *)
From Bardic Require Import ParseMain.

(* The extractors the correspondence run links into the main loop.  Until part B
   (Compiler/ParseBlocks.v) is merged these are stubs and the harness only sends inputs on which the
   real compiler never called a block extractor (and extract_join_choice_block consumed nothing);
   the coordinator replaces this definition and widens harness/c11.py ALLOWED_CONSTRUCTS. *)
Definition check_extractors : extractors := no_extractors.

(* per-case oracle tables computed by the harness with the real `ast` for exactly the strings the
   real compiler handed to ast.parse during the case *)
Definition stmt_table := list (string * bool).
Definition call_table := list (string * (option (nat * list string) * bool)).
(* for the statements Python rejected: `e.lineno - 1 if e.lineno else 0` of the real SyntaxError (0 when Python's
   parser gave up: the compiler's replacement SyntaxError has no lineno) *)
Definition errline_table := list (string * nat).

(* `dflt` decides the answer for a string that is not in the tables; every case is evaluated with
   both defaults and must agree with the implementation under both, so a model that asks about a
   string the implementation never asked about is seen *)
(* the blamed-line oracle only decides the INDEX of a "stmt:python-syntax" diagnostic, which `agrees` (outcome
   classes) does not look at; harness/diag_index_tie.py, which compares indices, passes the recorded table.  A
   statement that is not in the table gets 0 under one default and 97 under the other: a model that blames a
   line of a statement the implementation never handed to ast.parse is seen. *)
Definition table_pyparse_e (st : stmt_table) (et : errline_table) (ct : call_table) (dflt : bool) : pyparse :=
  mkPyparse
    (fun code => match lookup code st with Some b => b | None => dflt end)
    (fun args => match lookup args ct with
                 | Some (shape, _) => shape
                 | None => if dflt then Some (0, []) else None
                 end)
    (fun code => match lookup code et with Some k => k | None => if dflt then 0 else 97 end).
Definition table_pyparse (st : stmt_table) (ct : call_table) (dflt : bool) : pyparse :=
  table_pyparse_e st [] ct dflt.
Definition table_is_call (ct : call_table) (args : string) : bool :=
  match lookup args ct with Some (_, b) => b | None => true end.

Definition pcase := (list string * stmt_table * call_table * robs story)%type.

(* parametric in the extractors, so that the harness can link part B's (see LINK_BLOCKS in
   harness/c11.py) without this file depending on Compiler/ParseBlocks.v *)
Definition pcase_model_x (xs : extractors) (dflt : bool) (c : pcase) : pres story :=
  let '(lines, st, ct, _) := c in
  parse (table_pyparse st ct dflt) (table_is_call ct) xs lines.

Definition pcase_bad_x (xs : extractors) (c : pcase) : bool :=
  let '(_, _, _, r) := c in
  negb (agrees story_eqb (pcase_model_x xs false c) r && agrees story_eqb (pcase_model_x xs true c) r).

Definition pcase_show_x (xs : extractors) (c : pcase) : pres story * bool :=
  (pcase_model_x xs false c, let '(_, _, _, r) := c in agrees story_eqb (pcase_model_x xs true c) r).

Definition pcase_bad := pcase_bad_x check_extractors.
Definition pcase_show := pcase_show_x check_extractors.
