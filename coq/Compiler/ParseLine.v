(* Line-level functions of the bardic compiler, function by function.

     parse_tags  extract_passage_params  parse_passage_params  _split_on_commas
     extract_target_and_args  parse_choice_line  find_pipe_separator
     split_expressions_with_depth  parse_inline_conditional  parse_content_line
                                                       bardic/compiler/parsing/content.py
     parse_render_line  parse_render_directive  extract_multiline_expression  parse_input_line
                                                       bardic/compiler/parsing/directives.py
     validate_choice_syntax  validate_passage_name     bardic/compiler/parsing/validation.py

   Conventions
   * Domain: ASCII strings (bytes < 128) WITHOUT "\n": a line is an element of source.split("\n").
     The regular expressions are implemented by hand-written matchers which are exact on that
     domain (`.` = any character, `$` = end of string, `\s` = str.isspace = PyStr.is_space,
     `\w` = PyStr.is_word).  Each matcher names the regex it implements.
   * Every partial Python operation is an explicit outcome: `s[0]` on a possibly empty string and
     `l[i]` on a possibly short list are PInternal IIndex, `.group()` on a possibly-None match is
     PInternal INoneAttr, a name read before assignment is PInternal IUnboundLocal.  `str.index`
     raises ValueError("substring not found") in Python; it is not a diagnostic, so the model counts
     it as PInternal IIndex too.  Where the code tests `c in s` and then calls `s.index(c)` on the
     same string the two are one `find_char` in the model (said at each place).
   * Diagnostics: DSyntax site idx / DValue site.  The line-level functions that call format_error
     with the caller's line number produce idx = 0; the main loop re-tags it (`retag`).
   * Token-level tags (`tokens[-1]["tags"] = tags`) are not represented in Story/Compiled.v's `token`
     (the engine ignores them; harness/story2coq.py drops them): parse_content_line computes the tags
     only to remove them from the text.
   * Nesting of inline conditionals: parse_content_line and parse_inline_conditional call each other
     once per nesting level of `{c ? .. | ..}`, carrying `_depth`; beyond MAX_INLINE_DEPTH = 50 levels
     parse_inline_conditional raises SyntaxError (fix f3adbc1, was F11e: RecursionError at about 495
     levels).  The model's fuel is that bound + 2 (proved sufficient in Proofs/ParseProofs.v). *)
From Coq Require Import String Ascii List Bool Arith ZArith.
From Bardic Require Import PyStr Value Compiled Lex ParseBase.
Import ListNotations.
Local Open Scope string_scope.
Local Open Scope nat_scope.

(* ------------------------------------------------------------------------------------------- *)
(* small string helpers (not in Base/PyStr.v)                                                   *)
(* ------------------------------------------------------------------------------------------- *)

Definition ch (c : ascii) (x : ascii) : bool := Ascii.eqb c x.
Definition str1 (c : ascii) : string := String c EmptyString.
Definition snoc (s : string) (c : ascii) : string := s ++ str1 c.

Definition nonempty (s : string) : bool := match s with EmptyString => false | _ => true end.

Definition peek (s : string) : option ascii :=
  match s with EmptyString => None | String c _ => Some c end.

(* s[a:b] for 0 <= a, 0 <= b *)
Definition slice (a b : nat) (s : string) : string := take (b - a) (drop a s).

(* s[1:-1] *)
Definition slice_1_m1 (s : string) : string := take (String.length s - 2) (drop 1 s).

(* s.replace(sub, '', 1) *)
Fixpoint remove_first (s sub : string) : string :=
  if startswith s sub then drop (String.length sub) s
  else match s with
       | EmptyString => EmptyString
       | String c r => String c (remove_first r sub)
       end.

(* s.replace(a, b) for single characters *)
Fixpoint replace_char (s : string) (a b : ascii) : string :=
  match s with
  | EmptyString => EmptyString
  | String c r => String (if ch c a then b else c) (replace_char r a b)
  end.

Definition is_upper (c : ascii) : bool := let n := nat_of_ascii c in (65 <=? n) && (n <=? 90).
Definition is_lower (c : ascii) : bool := let n := nat_of_ascii c in (97 <=? n) && (n <=? 122).
Definition to_upper (c : ascii) : ascii := if is_lower c then ascii_of_nat (nat_of_ascii c - 32) else c.
Definition to_lower (c : ascii) : ascii := if is_upper c then ascii_of_nat (nat_of_ascii c + 32) else c.

(* str.title() on ASCII: a letter is upper-cased when the previous character is not a letter *)
Fixpoint title_aux (s : string) (prev_cased : bool) : string :=
  match s with
  | EmptyString => EmptyString
  | String c r =>
      if is_alpha c then String (if prev_cased then to_lower c else to_upper c) (title_aux r true)
      else String c (title_aux r false)
  end.
Definition title (s : string) : string := title_aux s false.

Fixpoint last_of (s : string) (d : ascii) : ascii :=
  match s with
  | EmptyString => d
  | String c r => last_of r c
  end.

(* str.isspace() *)
Definition isspace (s : string) : bool := nonempty s && all_space s.

(* leading run of characters satisfying p, and the rest *)
Fixpoint span (p : ascii -> bool) (s : string) : string * string :=
  match s with
  | EmptyString => (EmptyString, EmptyString)
  | String c r => if p c then let (a, b) := span p r in (String c a, b) else (EmptyString, s)
  end.

Fixpoint all_chars (p : ascii -> bool) (s : string) : bool :=
  match s with
  | EmptyString => true
  | String c r => p c && all_chars p r
  end.

Definition dsyn {A} (site : string) (idx : nat) : pres A := PDiag (DSyntax site idx).

Definition retag {A} (i : nat) (m : pres A) : pres A :=
  match m with
  | PDiag (DSyntax site _) => PDiag (DSyntax site i)
  | other => other
  end.

(* ------------------------------------------------------------------------------------------- *)
(* parse_tags                                                                                   *)
(* ------------------------------------------------------------------------------------------- *)

(* re.findall(r'\^[\w]+(?::[\w-]+)?', line) as a transducer with one character of look-ahead.
   TName a : `^` and the word characters read so far (entered only when the character after `^` is
   a word character, so the name is non-empty when the tag is emitted); TParam a : after `:`. *)
Inductive tmode := TIdle | TName (acc : string) | TParam (acc : string).

Definition is_tagparam (c : ascii) : bool := is_word c || ch c "-".

Definition tag_idle_step (c : ascii) (nx : option ascii) : tmode :=
  if ch c "^" then
    match nx with
    | Some d => if is_word d then TName "^" else TIdle
    | None => TIdle
    end
  else TIdle.

Fixpoint find_tags (m : tmode) (s : string) : list string :=
  match s with
  | EmptyString => match m with TIdle => [] | TName a => [a] | TParam a => [a] end
  | String c r =>
      let nx := peek r in
      match m with
      | TIdle => find_tags (tag_idle_step c nx) r
      | TName a =>
          if is_word c then find_tags (TName (snoc a c)) r
          else if ch c ":" && match nx with Some d => is_tagparam d | None => false end
          then find_tags (TParam (snoc a c)) r
          else a :: find_tags (tag_idle_step c nx) r
      | TParam a =>
          if is_tagparam c then find_tags (TParam (snoc a c)) r
          else a :: find_tags (tag_idle_step c nx) r
      end
  end.

Definition parse_tags (line : string) : string * list string :=
  let tags := find_tags TIdle line in
  match tags with
  | [] => (line, [])
  | _ =>
      (* for tag in tags: line = line.replace(tag, '', 1);  then rstrip;  tag[1:] *)
      (rstrip (fold_left remove_first tags line), map (drop 1) tags)
  end.

(* ------------------------------------------------------------------------------------------- *)
(* matching parenthesis (the loop shared by extract_passage_params and extract_target_and_args)  *)
(* ------------------------------------------------------------------------------------------- *)

(* for i in range(paren_start, len(s)): `(` depth += 1; `)` depth -= 1, if depth == 0: paren_end = i.
   `s` is the text from paren_start on, `i` the absolute index of its first character.  The depth
   is an int in Python; it is never negative here because the scan starts on a `(`, but the model
   keeps it in Z as the code does. *)
Fixpoint match_paren (s : string) (i : nat) (depth : Z) : option nat :=
  match s with
  | EmptyString => None
  | String c r =>
      if ch c "(" then match_paren r (S i) (depth + 1)
      else if ch c ")" then
        let d := (depth - 1)%Z in
        if Z.eqb d 0 then Some i else match_paren r (S i) d
      else match_paren r (S i) depth
  end.

(* extract_passage_params: `'(' not in h` and `h.index('(')` are one find_char *)
Definition extract_passage_params (h : string) : string * string :=
  match find_char h "(" with
  | None => (h, "")
  | Some ps =>
      let before := take ps h in
      match match_paren (drop ps h) ps 0 with
      | None => (h, "")
      | Some pe =>
          let params_str := slice (S ps) pe h in
          let after := drop (S pe) h in
          (strip (before ++ after), strip params_str)
      end
  end.

(* extract_target_and_args: same remark *)
Definition extract_target_and_args (t : string) : string * string :=
  match find_char t "(" with
  | None => (t, "")
  | Some ps =>
      let name := take ps t in
      match match_paren (drop ps t) ps 0 with
      | None => (t, "")
      | Some pe => (name, slice (S ps) pe t)
      end
  end.

(* ------------------------------------------------------------------------------------------- *)
(* _split_on_commas                                                                             *)
(* ------------------------------------------------------------------------------------------- *)

Definition is_opener (c : ascii) : bool := ch c "(" || ch c "[" || ch c "{".
Definition is_closer (c : ascii) : bool := ch c ")" || ch c "]" || ch c "}".

(* parts are accumulated in reverse; depth may go negative (an unmatched closer), as in Python *)
Fixpoint split_on_commas_aux (s : string) (parts : list string) (cur : string) (depth : Z) : list string :=
  match s with
  | EmptyString => rev (if nonempty cur then cur :: parts else parts)
  | String c r =>
      if is_opener c then split_on_commas_aux r parts (snoc cur c) (depth + 1)
      else if is_closer c then split_on_commas_aux r parts (snoc cur c) (depth - 1)
      else if ch c "," && Z.eqb depth 0 then split_on_commas_aux r (cur :: parts) "" depth
      else split_on_commas_aux r parts (snoc cur c) depth
  end.
Definition split_on_commas (text : string) : list string := split_on_commas_aux text [] "" 0.

(* ------------------------------------------------------------------------------------------- *)
(* parse_passage_params                                                                         *)
(* ------------------------------------------------------------------------------------------- *)

(* str.isidentifier() on ASCII *)
Definition is_identifier (s : string) : bool :=
  match s with
  | EmptyString => false
  | String c r => (is_alpha c || ch c "_") && all_chars is_word r
  end.

(* keyword.kwlist of CPython 3.12 (soft keywords are not in it) *)
Definition py_keywords : list string :=
  ["False"; "None"; "True"; "and"; "as"; "assert"; "async"; "await"; "break"; "class"; "continue";
   "def"; "del"; "elif"; "else"; "except"; "finally"; "for"; "from"; "global"; "if"; "import"; "in";
   "is"; "lambda"; "nonlocal"; "not"; "or"; "pass"; "raise"; "return"; "try"; "while"; "with"; "yield"].
Definition is_keyword (s : string) : bool := str_in s py_keywords.

(* fix F07d: re.fullmatch(r"arg_\d+", name) on ASCII -- arg_0, arg_1, ... are the keys under which the engine files
   positional arguments (runtime/engine.py _parse_directive_args / _bind_arguments) *)
Definition is_positional_marker (s : string) : bool :=
  startswith s "arg_" && nonempty (drop 4 s) && all_chars is_digit (drop 4 s).

(* the body of `for part in param_parts`; state = (params so far (reversed), seen_optional, names) *)
Definition ppp_step (st : list param * bool * list string) (part0 : string)
  : pres (list param * bool * list string) :=
  let '(acc, seen_optional, names) := st in
  let part := strip part0 in
  if negb (nonempty part) then POk st else
  (* `'=' in part` and `part.index('=')` are one find_char *)
  let '(pname, pdef, seen') :=
    match find_char part "=" with
    | Some e => (strip (take e part), Some (strip (drop (S e) part)), true)
    | None => (part, None, seen_optional)
    end in
  match pdef with
  | None => if seen_optional then PDiag (DSyntax "params:required-after-optional" 0) else
      if negb (is_identifier pname) then PDiag (DSyntax "params:not-identifier" 0)
      else if is_keyword pname then PDiag (DSyntax "params:keyword" 0)
      else if is_positional_marker pname then PDiag (DSyntax "params:reserved-name" 0)
      else if str_in pname names then PDiag (DSyntax "params:duplicate" 0)
      else POk (mkParam pname pdef :: acc, seen', pname :: names)
  | Some _ =>
      if negb (is_identifier pname) then PDiag (DSyntax "params:not-identifier" 0)
      else if is_keyword pname then PDiag (DSyntax "params:keyword" 0)
      else if is_positional_marker pname then PDiag (DSyntax "params:reserved-name" 0)
      else if str_in pname names then PDiag (DSyntax "params:duplicate" 0)
      else POk (mkParam pname pdef :: acc, seen', pname :: names)
  end.

Fixpoint ppp_loop (parts : list string) (st : list param * bool * list string)
  : pres (list param * bool * list string) :=
  match parts with
  | [] => POk st
  | p :: r => let* st' := ppp_step st p in ppp_loop r st'
  end.

Definition parse_passage_params (params_str : string) : pres (list param) :=
  if negb (nonempty params_str) then POk [] else
  let* st := ppp_loop (split_on_commas params_str) ([], false, []) in
  let '(acc, _, _) := st in POk (rev acc).

(* ------------------------------------------------------------------------------------------- *)
(* find_pipe_separator, split_expressions_with_depth                                            *)
(* ------------------------------------------------------------------------------------------- *)

(* find_pipe_separator(text, 0): first `|` at depth 0; the depth may go negative.  None = -1 *)
Fixpoint find_top (sep : ascii) (s : string) (i : nat) (depth : Z) : option nat :=
  match s with
  | EmptyString => None
  | String c r =>
      if ch c "{" then find_top sep r (S i) (depth + 1)
      else if ch c "}" then find_top sep r (S i) (depth - 1)
      else if ch c sep && Z.eqb depth 0 then Some i
      else find_top sep r (S i) depth
  end.
Definition find_pipe_separator (text : string) : option nat := find_top "|" text 0 0.

(* split_expressions_with_depth: result accumulated in reverse; depth is a nat because the code
   raises as soon as it would become negative.  Returns the ValueError sites as DValue. *)
Fixpoint sewd_aux (s : string) (result : list string) (cur : string) (depth : nat)
  : pres (list string * string * nat) :=
  match s with
  | EmptyString => POk (result, cur, depth)
  | String c r =>
      if ch c "{" then
        match depth with
        | 0 => sewd_aux r (cur :: result) "{" 1
        | _ => sewd_aux r result (snoc cur c) (S depth)
        end
      else if ch c "}" then
        match depth with
        | 0 => PDiag (DValue "split:close-without-open")
        | 1 => sewd_aux r (snoc cur c :: result) "" 0
        | S d => sewd_aux r result (snoc cur c) d
        end
      else sewd_aux r result (snoc cur c) depth
  end.

Definition split_expressions_with_depth (text : string) : pres (list string) :=
  let* st := sewd_aux text [] "" 0 in
  let '(result, cur, depth) := st in
  if 0 <? depth then PDiag (DValue "split:unclosed") else
  (* if current or (result and not text.endswith('}')) *)
  if nonempty cur || (match result with [] => false | _ => true end && negb (endswith text "}"))
  then POk (rev (cur :: result)) else POk (rev result).

(* ------------------------------------------------------------------------------------------- *)
(* parse_inline_conditional, parse_content_line                                                 *)
(* ------------------------------------------------------------------------------------------- *)

Definition max_inline_depth : nat := 50.

(* parse_inline_conditional(expr, _depth) with the recursive call parse_content_line(.., _depth + 1)
   as a parameter *)
Definition parse_inline_conditional_with (depth : nat) (rec : string -> pres (list token)) (expr : string)
  : pres (option token) :=
  if negb (str_contains expr "?") then POk None else
  match find_top "?" expr 0 0 with
  | None => POk None
  | Some q =>
      let condition := strip (take q expr) in
      let rest := drop (S q) expr in
      match find_pipe_separator rest with
      | None => POk None
      | Some p =>
          let truthy_text := strip (take p rest) in
          let falsy_text := strip (drop (S p) rest) in
          if max_inline_depth <=? depth then dsyn "content:nesting-depth" 0 else
          let* tks := (if nonempty truthy_text then rec truthy_text else POk []) in
          let* fks := (if nonempty falsy_text then rec falsy_text else POk []) in
          POk (Some (TInlineCond condition tks fks))
      end
  end.

(* the loop `for part in parts` *)
Fixpoint content_parts (pic : string -> pres (option token)) (parts : list string) : pres (list token) :=
  match parts with
  | [] => POk []
  | part :: r =>
      if startswith part "{" && endswith part "}" then
        let expr := slice_1_m1 part in
        let* ic := pic expr in
        let* rest := content_parts pic r in
        POk (match ic with Some t => t | None => TExpr expr end :: rest)
      else if nonempty part then
        let* rest := content_parts pic r in POk (TText part :: rest)
      else content_parts pic r
  end.

(* parse_content_line(line, line_num, lines, ...): the ValueError of the splitter becomes a
   SyntaxError (through format_error with index line_num - 1 when the context is given, bare
   otherwise; both are DSyntax "content:braces", the caller re-tags the index). *)
Fixpoint parse_content_line_d (fuel depth : nat) (line : string) : pres (list token) :=
  match fuel with
  | 0 => POutOfFuel
  | S f =>
      let (line1, _) := strip_inline_comment line in
      let (line_without_tags, tags) := parse_tags line1 in
      match split_expressions_with_depth line_without_tags with
      | POk parts =>
          content_parts (parse_inline_conditional_with depth (parse_content_line_d f (S depth))) parts
      | PDiag _ => PDiag (DSyntax "content:braces" 0)
      | PInternal k => PInternal k
      | POutOfFuel => POutOfFuel
      end
  end.

(* _depth = 0; levels 0 .. 50 can be entered *)
Definition parse_content_line (line : string) : pres (list token) :=
  parse_content_line_d (S (S max_inline_depth)) 0 line.

Definition parse_inline_conditional (expr : string) : pres (option token) :=
  parse_inline_conditional_with 0 (parse_content_line_d (S max_inline_depth) 1) expr.

(* ------------------------------------------------------------------------------------------- *)
(* parse_choice_line                                                                            *)
(* ------------------------------------------------------------------------------------------- *)

(* the tail `\s*->\s*(.+)` of both choice regexes and of the jump regex r"->\s*(.+)":
   `\s*` is greedy but gives characters back: if only white space follows the arrow, `(.+)` takes
   its last character. *)
Definition arrow_rest (r2 : string) : option string :=
  let r3 := lstrip r2 in
  if nonempty r3 then Some r3
  else match r2 with
       | EmptyString => None
       | String c r => Some (str1 (last_of r c))
       end.

Definition arrow_tail (r : string) : option string :=
  let r1 := lstrip r in
  if startswith r1 "->" then arrow_rest (drop 2 r1) else None.

(* `(.*?)\]` followed by the tail: the first `]` after which the tail matches (lazy) *)
Fixpoint lazy_close (s acc : string) : option (string * string) :=
  match s with
  | EmptyString => None
  | String c r =>
      if ch c "]" then
        match arrow_tail r with
        | Some g => Some (acc, g)
        | None => lazy_close r (snoc acc c)
        end
      else lazy_close r (snoc acc c)
  end.

(* re.match(r"\[(.*?)\]\s*->\s*(.+)", s) : groups (choice_text, target_with_args) *)
Definition match_plain_choice (s : string) : option (string * string) :=
  match s with
  | String c r => if ch c "[" then lazy_close r "" else None
  | EmptyString => None
  end.

(* re.match(r"\{([^}]+)\}\s*\[(.*?)\]\s*->\s*(.+)", s) : groups (condition, text, target) *)
Definition match_cond_choice (s : string) : option (string * string * string) :=
  match s with
  | String c r =>
      if ch c "{" then
        match find_char r "}" with
        | Some (S k) =>
            let cond := take (S k) r in
            match match_plain_choice (lstrip (drop (S (S k)) r)) with
            | Some (t, g) => Some (cond, t, g)
            | None => None
            end
        | _ => None
        end
      else None
  | EmptyString => None
  end.

Definition parse_choice_line (line0 : string) : pres (option choice) :=
  let (line, _) := strip_inline_comment line0 in
  let (lwt, tags) := parse_tags line in
  let sticky_line :=
    if startswith lwt "+ " then Some (true, strip (drop 2 lwt))
    else if startswith lwt "* " then Some (false, strip (drop 2 lwt))
    else None in
  match sticky_line with
  | None => POk None
  | Some (sticky, choice_line) =>
      let m :=
        if startswith choice_line "{" then
          match match_cond_choice choice_line with
          | Some (c, t, g) => Some (Some c, t, g)
          | None => None
          end
        else
          match match_plain_choice choice_line with
          | Some (t, g) => Some (None, t, g)
          | None => None
          end in
      match m with
      | None => POk None
      | Some (condition, choice_text, target_with_args) =>
          let (target, args) := extract_target_and_args (strip target_with_args) in
          let* text := parse_content_line choice_text in
          POk (Some (Choice text target args condition sticky 0 tags []))
      end
  end.

(* ------------------------------------------------------------------------------------------- *)
(* validate_choice_syntax                                                                       *)
(* ------------------------------------------------------------------------------------------- *)

(* the depth-tracking loop of check 4, from first_brace: index of the matching `}` *)
Fixpoint match_brace (s : string) (i : nat) (depth : Z) : option nat :=
  match s with
  | EmptyString => None
  | String c r =>
      if ch c "{" then match_brace r (S i) (depth + 1)
      else if ch c "}" then
        let d := (depth - 1)%Z in
        if Z.eqb d 0 then Some i else match_brace r (S i) d
      else match_brace r (S i) depth
  end.

(* s.index(c) where the code does not test membership on the same line *)
Definition index_char (s : string) (c : ascii) : pres nat :=
  match find_char s c with Some i => POk i | None => PInternal IIndex end.

Definition validate_choice_syntax (line : string) (idx : nat) : pres unit :=
  let (clean_line, _) := strip_inline_comment (strip line) in
  let bad (site : string) : pres unit := dsyn site idx in
  (* check 1 *)
  if negb (str_contains clean_line " -> ") then bad "choice:missing-arrow" else
  (* parts = clean_line.split(" -> ", 1); parts[0]; parts[1].strip() if len(parts) > 1 else "" *)
  let '(choice_part, target_part) :=
    match str_find clean_line " -> " with
    | Some k => (take k clean_line, strip (drop (k + 4) clean_line))
    | None => (clean_line, "")
    end in
  (* checks 2, 3 *)
  if negb (str_contains choice_part "[") then bad "choice:missing-open-bracket" else
  if negb (str_contains choice_part "]") then bad "choice:missing-close-bracket" else
  (* check 4 *)
  let* cond_end :=
    (if str_contains choice_part "{" && str_contains choice_part "[" then
       let* first_brace := index_char choice_part "{" in
       let* first_bracket := index_char choice_part "[" in
       if first_brace <? first_bracket then
         match match_brace (drop first_brace choice_part) first_brace 0 with
         | Some e => POk (Some e)
         | None => dsyn "choice:unclosed-conditional" idx
         end
       else POk None
     else POk None) in
  (* check 5 *)
  if str_contains choice_part "}" && negb (str_contains choice_part "{")
  then bad "choice:close-brace-without-open" else
  (* check 6 *)
  let search_start := match cond_end with Some e => S e | None => 0 end in
  let remaining := drop search_start choice_part in
  if negb (str_contains remaining "[") then bad "choice:missing-open-bracket-after-conditional" else
  if negb (str_contains remaining "]") then bad "choice:missing-close-bracket-after-conditional" else
  (* check 7 *)
  let* bo := index_char remaining "[" in
  let* bc := index_char remaining "]" in
  let bracket_open := bo + search_start in
  let bracket_close := bc + search_start in
  if bracket_close <? bracket_open then bad "choice:bracket-order" else
  (* check 8 *)
  if negb (nonempty target_part) then bad "choice:missing-target" else
  (* target_name = target_part.split()[0] if target_part.split() else "" *)
  let target_name := match split_ws target_part with t :: _ => t | [] => "" end in
  (* check 9 *)
  if str_contains target_name " " then bad "choice:target-with-spaces" else
  (* check 10 *)
  let choice_text := strip (slice (S bracket_open) bracket_close choice_part) in
  if negb (nonempty choice_text) then bad "choice:empty-text" else
  POk tt.

(* ------------------------------------------------------------------------------------------- *)
(* validate_passage_name                                                                        *)
(* ------------------------------------------------------------------------------------------- *)

(* re.compile(r"^[a-zA-Z_][a-zA-Z0-9_.]*$").match(name) *)
Definition is_name_char (c : ascii) : bool := is_word c || ch c ".".
Definition valid_passage_pattern (s : string) : bool :=
  match s with
  | EmptyString => false
  | String c r => (is_alpha c || ch c "_") && all_chars is_name_char r
  end.

(* The suggestion text is not part of the model's diagnostic, but computing it contains a partial
   operation (`passage_name[0]`), kept explicit here. *)
Definition validate_passage_name (name : string) (idx : nat) : pres unit :=
  if negb (nonempty name) || isspace name then dsyn "passage-name:empty" idx else
  if valid_passage_pattern name then POk tt else
  let* _ :=
    (if str_contains name " " then POk tt
     else if str_contains name "-" then POk tt
     else match name with
          | EmptyString => PInternal IIndex          (* passage_name[0] *)
          | String _ _ => POk tt                     (* .isdigit() / the enumerate loop: total *)
          end) in
  dsyn "passage-name:invalid" idx.

(* ------------------------------------------------------------------------------------------- *)
(* parse_render_line, parse_render_directive                                                    *)
(* ------------------------------------------------------------------------------------------- *)

(* re.match(r"^(\w+)(?:\((.STAR)\))?$", s), STAR = Kleene star : (name, group 2 or None) *)
Definition match_render_directive (s : string) : option (string * option string) :=
  let (w, r) := span is_word s in
  if negb (nonempty w) then None else
  match r with
  | EmptyString => Some (w, None)
  | String c _ =>
      if ch c "(" && endswith r ")" && (2 <=? String.length r)
      then Some (w, Some (slice_1_m1 r)) else None
  end.

Definition parse_render_directive (directive_str : string) : option (string * string) :=
  match match_render_directive (strip directive_str) with
  | None => None
  | Some (name, g2) =>
      (* args = match.group(2) if match.group(2) else "" ; args.strip() *)
      Some (name, strip (match g2 with Some a => a | None => "" end))
  end.

(* re.match(r"^:(\w+)\s+(.+)$", s) : (framework, directive_str); `\s+` gives back its last
   character to `(.+)` when nothing else follows. *)
Definition match_framework (s : string) : option (string * string) :=
  match s with
  | String c r0 =>
      if ch c ":" then
        let (w, r1) := span is_word r0 in
        if negb (nonempty w) then None else
        let (sp, r2) := span is_space r1 in
        match sp with
        | EmptyString => None
        | String s0 sp' =>
            if nonempty r2 then Some (w, r2)
            else match sp' with
                 | EmptyString => None
                 | String s1 sp'' => Some (w, str1 (last_of sp'' s1))
                 end
        end
      else None
  | EmptyString => None
  end.

(* ctx = `lines is not None and line_num > 0` *)
Definition parse_render_line (ctx : bool) (line0 : string) : pres (option token) :=
  let (line, _) := strip_inline_comment line0 in
  if negb (startswith (strip line) "@render") then POk None else
  let after_render := drop 7 (strip line) in
  let finish (fw : option string) (directive_str : string) : pres (option token) :=
    match parse_render_directive directive_str with
    | None => POk None
    | Some (name, args) => POk (Some (TRender name args fw))
    end in
  if startswith after_render ":" then
    match match_framework after_render with
    | Some (fw, ds) => finish (Some fw) ds
    | None => if ctx then dsyn "render:framework-syntax" 0 else POk None
    end
  else if nonempty (strip after_render) then finish None (strip after_render)
  else if ctx then dsyn "render:missing-name" 0 else POk None.

(* ------------------------------------------------------------------------------------------- *)
(* extract_multiline_expression                                                                 *)
(* ------------------------------------------------------------------------------------------- *)

Definition closer_of (c : ascii) : option ascii :=
  if ch c "]" then Some "["%char else if ch c "}" then Some "{"%char
  else if ch c ")" then Some "("%char else None.

(* `for char in line` with its `break` on a mismatched closer; the stack's top is the head *)
Fixpoint scan_brackets (s : string) (stack : list ascii) : list ascii :=
  match s with
  | EmptyString => stack
  | String c r =>
      if is_opener c then scan_brackets r (c :: stack)
      else match closer_of c with
           | Some o =>
               match stack with
               | t :: st' => if ch t o then scan_brackets r st' else stack      (* break *)
               | [] => stack                                                      (* break *)
               end
           | None => scan_brackets r stack
           end
  end.

(* openers of the initial expression: `for char in stripped: if char in bracket_pairs: push` *)
Fixpoint initial_stack (s : string) (stack : list ascii) : list ascii :=
  match s with
  | EmptyString => stack
  | String c r => initial_stack r (if is_opener c then c :: stack else stack)
  end.

(* `while i < len(lines) and bracket_stack`: rest = lines[i:], acc = collected lines (reversed) *)
Fixpoint eme_loop (rest : list string) (stack : list ascii) (acc : list string) (n : nat)
  : list string * nat :=
  match rest with
  | [] => (acc, n)
  | l :: r =>
      match stack with
      | [] => (acc, n)
      | _ =>
          let stack' := scan_brackets l stack in
          match stack' with
          | [] => (l :: acc, S n)
          | _ => eme_loop r stack' (l :: acc) (S n)
          end
      end
  end.

Definition extract_multiline_expression (lines : list string) (start : nat) (initial_expr : string)
  : string * nat :=
  let stripped := strip initial_expr in
  if negb (endswith stripped "[" || endswith stripped "{" || endswith stripped "(")
  then (initial_expr, 1) else
  let stack := initial_stack stripped [] in
  let (acc, n) := eme_loop (skipn (S start) lines) stack [initial_expr] 0 in
  (join (String (ascii_of_nat 10) EmptyString) (rev acc), S n).

(* ------------------------------------------------------------------------------------------- *)
(* parse_input_line                                                                             *)
(* ------------------------------------------------------------------------------------------- *)

Definition dquote : ascii := ascii_of_nat 34.

(* re.findall of the pattern  (\w+)=Q([^Q]STAR)Q  where Q is the double quote character and STAR the
   Kleene star (the literal text cannot be written inside a Coq comment): acc = the word run read so
   far, skip = characters of an accepted match still to be passed over *)
Fixpoint find_attrs (s : string) (acc : string) (skip : nat) : list (string * string) :=
  match s with
  | EmptyString => []
  | String c r =>
      match skip with
      | S k => find_attrs r "" k
      | 0 =>
          if is_word c then find_attrs r (snoc acc c) 0
          else if ch c "=" && nonempty acc then
            match r with
            | String q r' =>
                if ch q dquote then
                  match find_char r' dquote with
                  | Some k => (acc, take k r') :: find_attrs r "" (k + 2)
                  | None => find_attrs r "" 0
                  end
                else find_attrs r "" 0
            | EmptyString => []
            end
          else find_attrs r "" 0
      end
  end.

(* returns input_spec minus its "type" key (insertion order), as harness/story2coq.py prints it *)
Definition parse_input_attrs (ctx : bool) (line0 : string) : pres (option (list (string * string))) :=
  let (line, _) := strip_inline_comment line0 in
  if negb (startswith (strip line) "@input") then POk None else
  let after_input := strip (drop 6 (strip line)) in
  if negb (nonempty after_input) then
    (if ctx then dsyn "input:missing-parameters" 0 else POk None) else
  let spec0 : list (string * string) := [("type", "input")] in
  (* `if key == "type": continue` (fix 74386b3) *)
  let spec1 := fold_left (fun d kv => if String.eqb (fst kv) "type" then d else set_key (fst kv) (snd kv) d)
                         (find_attrs after_input "" 0) spec0 in
  match lookup "name" spec1 with
  | None => if ctx then dsyn "input:missing-name" 0 else POk None
  | Some name =>
      let spec2 := if has_key "label" spec1 then spec1
                   else set_key "label" (title (replace_char name "_" " ")) spec1 in
      let spec3 := if has_key "placeholder" spec2 then spec2 else set_key "placeholder" "" spec2 in
      POk (Some (del_key "type" spec3))
  end.

(* the same as a token (what the block extractors put into branch content) *)
Definition parse_input_line (ctx : bool) (line0 : string) : pres (option token) :=
  let* r := parse_input_attrs ctx line0 in
  POk (match r with Some a => Some (TInput a) | None => None end).
