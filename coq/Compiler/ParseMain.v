(* The `parse` main loop of bardic/compiler/parsing/core.py and the post passes of
   bardic/compiler/parsing/validation.py.

   MODELLED HERE (function by function, same case order):
     core.py   _strip_comments_outside_python (story lines right-stripped: fix F17k), parse: imports
               section, @metadata block (blank and `#` comment lines skipped: fix F17l), @start,
               passage headers (params, tags, name validation, location list), `#` comment lines,
               @render, @input, @hook / @unhook, @join marker and section counting, `->` jumps,
               `~` statements with multi-line continuation (Python's parser is the oracle
               py_stmt_ok, and py_stmt_errline for the line it blames), choices (validate_choice_syntax, parse_choice_line, sections, `-> @join`),
               content lines with glue `<>`, blank lines; the final "Unrecognized directive" branch
               is dead code in core.py (every non-blank line of a passage has been consumed by the
               content-line branch before) and has no counterpart here.
     validation.py  _cleanup_whitespace, _trim_trailing_newlines, check_duplicate_passages,
               validate_passage_arguments (with the recursive walk into conditionals and loops),
               _validate_single_call (Python's parser is the oracle py_call_shape, plus
               py_body_is_call, below; a repeated keyword is rejected: fix F07e), _determine_initial_passage.
   BEHIND THE EXTRACTOR CONTRACT (part B, Compiler/ParseBlocks.v; here a record of functions):
     extract_python_block, extract_conditional_block, extract_loop_block : lines -> start ->
     pres (construct * lines_consumed); extract_join_choice_block : lines -> start -> choice_indent ->
     pres (block_content * block_execute * lines_consumed).  The loop only needs
     `1 <= lines_consumed` of the first three (extractors_ok).
   NOT MODELLED: the text of diagnostics (a diag carries a site tag and the index handed to
     format_error; for the `~` statement that is `i + min(max(py_offset, 0), lines_consumed - 1)` with
     py_offset = `e.lineno - 1 if e.lineno else 0` = the oracle py_stmt_errline: clamped to the lines the
     statement consumed since fix F14c); BlockStack (core.py creates one and only calls check_empty on
     it, nothing is ever pushed, so it is a no-op); the stderr warning of _determine_initial_passage;
     "version"; the bookkeeping keys `_join_count` / `current_section` that stay in the passage
     dict, `block_execute` of a @join choice and token-level "tags" (not in Story/Compiled.v).

   Oracle added to ParseBase.pyparse: in _validate_single_call the body of
   ast.parse(call_str, mode="eval") is not a Call node for an argument string such as  "(") + (")"
   (the depth scan of extract_target_and_args is fooled by parentheses inside string literals); the
   code rejects that as malformed arguments (fix a323daa; before it the read of `call_node.args`
   raised AttributeError).  `py_body_is_call args` says whether the body is a Call node.
   ast.parse giving up with RecursionError / MemoryError / ValueError is a SyntaxError for the
   compiler since fix 6f31489, so the oracles py_stmt_ok / py_call_shape answer false / None there.

   The passages dict: Python inserts the new passage dict at the header (`passages[name] = current`)
   and mutates it afterwards through `current_passage`; the model keeps the passage being built in
   st_current and stores it (set_key: an existing key keeps its position and gets the new value) when
   the next header or the end of input is reached.  The resulting insertion-ordered dict is the
   same: positions are decided by first insertion, the value of a re-defined name is the last
   definition, and the order of first insertions is the order of headers either way.  Lists that
   Python appends to are kept reversed while parsing and reversed once at the end. *)
From Coq Require Import String Ascii List Bool Arith ZArith.
From Bardic Require Import PyStr Value Compiled Lex ParseBase ParseLine.
Import ListNotations.
Local Open Scope string_scope.
Local Open Scope nat_scope.

Definition nl : string := String (ascii_of_nat 10) EmptyString.
Definition tok_nl : token := TText nl.

(* ------------------------------------------------------------------------------------------- *)
(* _strip_comments_outside_python                                                               *)
(* ------------------------------------------------------------------------------------------- *)

(* `skip` = continuation lines of a multi-line ~ statement still to be left untouched (the Python
   loop jumps over them with `i += consumed - 1`).  extract_multiline_expression(out, i, e) only
   reads out[i+1:], which the pre-pass has not rewritten yet, i.e. the rest of the input.
   Fix F17k: a story line is stored right-stripped (`out[i] = bare.rstrip()`), with or without a
   comment; the line that closes a Python block is stored as `bare` (`out[i] = bare`), as before. *)
Fixpoint strip_comments_outside_python (rest : list string) (closer : option string)
         (in_story : bool) (skip : nat) : list string :=
  match rest with
  | [] => []
  | l :: r =>
      match skip with
      | S k => l :: strip_comments_outside_python r closer in_story k
      | 0 =>
          let comment := snd (strip_inline_comment l) in
          let bare := if nonempty comment
                      then rstrip (take (String.length l - String.length comment) l) else l in
          let stripped := strip bare in
          match closer with
          | Some c =>
              if String.eqb stripped c then bare :: strip_comments_outside_python r None in_story 0
              else l :: strip_comments_outside_python r closer in_story 0
          | None =>
              if in_story || startswith l ":: " || startswith stripped "@start " then
                let in_story' := in_story || startswith l ":: " in
                let out := rstrip bare in                              (* out[i] = bare.rstrip() *)
                if startswith stripped "@py" then
                  out :: strip_comments_outside_python r (Some "@endpy") in_story' 0
                else if startswith stripped "<<py" then
                  out :: strip_comments_outside_python r (Some ">>") in_story' 0
                else if startswith stripped "~ " then
                  let n := snd (extract_multiline_expression (out :: r) 0 (drop 2 stripped)) in
                  out :: strip_comments_outside_python r None in_story' (n - 1)
                else out :: strip_comments_outside_python r None in_story' 0
              else l :: strip_comments_outside_python r None in_story 0
          end
      end
  end.

(* ------------------------------------------------------------------------------------------- *)
(* post passes (validation.py)                                                                  *)
(* ------------------------------------------------------------------------------------------- *)

Definition is_nl_tok (t : token) : bool :=
  match t with TText v => String.eqb v nl | _ => false end.
Definition is_cond_tok (t : token) : bool :=
  match t with TCond _ => true | _ => false end.
Definition head_is (p : token -> bool) (l : list token) : bool :=
  match l with t :: _ => p t | [] => false end.

(* _cleanup_whitespace: `cleaned` is kept reversed (its last element is the head) *)
Fixpoint cleanup_ws (content cleaned : list token) : list token :=
  match content with
  | [] => rev cleaned
  | t :: rest =>
      if is_nl_tok t && head_is is_cond_tok rest && head_is is_nl_tok cleaned
      then cleanup_ws rest cleaned
      else if is_nl_tok t && head_is is_cond_tok cleaned && head_is is_nl_tok rest
      then cleanup_ws rest cleaned
      else cleanup_ws rest (t :: cleaned)
  end.
Definition cleanup_whitespace (content : list token) : list token := cleanup_ws content [].

(* _trim_trailing_newlines, on the reversed content: drop the leading newline tokens but one *)
Fixpoint drop_nl (l : list token) : list token :=
  match l with
  | t :: r => if is_nl_tok t then drop_nl r else l
  | [] => []
  end.
Definition trim_trailing_newlines (content : list token) : list token :=
  match rev content with
  | t1 :: t2 :: r => if is_nl_tok t1 && is_nl_tok t2 then rev (t1 :: drop_nl r) else content
  | _ => content
  end.

(* check_duplicate_passages: passage_locations maps a name to the list of its definition lines *)
Definition check_duplicate_passages (locs : list (string * list nat)) : pres unit :=
  if existsb (fun kv => 1 <? List.length (snd kv)) locs
  then PDiag (DValue "duplicate-passages") else POk tt.

Section Oracles.
Variable pp : pyparse.
Variable py_body_is_call : string -> bool.

(* _validate_single_call *)
Fixpoint add_positional (n : nat) (param_names : list string) (i : nat) (acc : list string)
  : pres (list string) :=
  match n with
  | 0 => POk acc
  | S k =>
      match nth_error param_names i with
      | Some p => add_positional k param_names (S i) (p :: acc)
      | None => PInternal IIndex                            (* param_names[i] *)
      end
  end.

(* fix F07e: `len(keyword_args) != len(call_node.keywords)` -- the dict built from the keywords is shorter than
   the keyword list exactly when a name occurs twice in it *)
Fixpoint has_repeat (l : list string) : bool :=
  match l with
  | [] => false
  | x :: r => str_in x r || has_repeat r
  end.

Definition validate_single_call (passages : list (string * passage)) (target args_str : string)
  : pres unit :=
  if String.eqb target "@join" then POk tt else
  match lookup target passages with
  | None => dsyn "call:unknown-target" 0
  | Some tp =>
      let ps := params tp in
      match ps with
      | [] => if nonempty args_str then dsyn "call:arguments-to-parameterless" 0 else POk tt
      | _ =>
          match py_call_shape pp args_str with
          | None => dsyn "call:malformed-arguments" 0
          | Some (positional_count, keyword_args) =>
              (* `if not isinstance(call_node, ast.Call): raise SyntaxError` (fix a323daa; before it
                 `call_node.args` raised AttributeError here) *)
              if negb (py_body_is_call args_str) then dsyn "call:malformed-arguments" 0 else
              (* fix F12c: `*args` / `**kwargs` cannot be played; the oracle lists them as the keyword names "*" / "**" *)
              if str_in "*" keyword_args || str_in "**" keyword_args then dsyn "call:malformed-arguments" 0 else
              (* fix F07e: a repeated keyword, `T(a=1, a=2)` (ast.parse accepts it, CPython reports it only when
                 compiling; the engine would keep the last value): raised inside the same `try`, so it is the same
                 "Malformed arguments" diagnostic *)
              if has_repeat keyword_args then dsyn "call:malformed-arguments" 0 else
              let param_names := map pname ps in
              let required := filter (fun p => match pdefault p with None => true | Some _ => false end) ps in
              if List.length ps <? positional_count then dsyn "call:too-many-positional" 0 else
              if existsb (fun k => negb (str_in k param_names)) keyword_args
              then dsyn "call:unknown-keyword" 0 else
              let* pos := add_positional positional_count param_names 0 [] in
              let provided := (keyword_args ++ pos)%list in
              if existsb (fun p => negb (str_in (pname p) provided)) required
              then dsyn "call:missing-required" 0 else
              if existsb (fun p => str_in p keyword_args) pos
              then dsyn "call:positional-and-keyword" 0 else POk tt
          end
      end
  end.

(* the walk of validate_passage_arguments: check_choices / check_tokens *)
Fixpoint check_choices (passages : list (string * passage)) (cs : list choice) : pres unit :=
  match cs with
  | [] => POk tt
  | c :: r =>
      let* _ := validate_single_call passages (ch_target c) (ch_args c) in
      check_choices passages r
  end.

Fixpoint check_token (passages : list (string * passage)) (t : token) {struct t} : pres unit :=
  let toks := fix toks (l : list token) : pres unit :=
      match l with
      | [] => POk tt
      | x :: r => let* _ := check_token passages x in toks r
      end in
  let brs := fix brs (l : list branch) : pres unit :=
      match l with
      | [] => POk tt
      | Branch _ cont chs :: r =>
          let* _ := check_choices passages chs in
          let* _ := toks cont in
          brs r
      end in
  match t with
  | TJump target args =>
      (* fix 3c6eb71: only a choice can target @join *)
      if String.eqb target "@join" then dsyn "call:jump-to-join" 0
      else validate_single_call passages target args
  | TCond branches => brs branches
  | TLoop _ _ cont chs =>
      let* _ := check_choices passages chs in toks cont
  | _ => POk tt
  end.

Fixpoint check_tokens (passages : list (string * passage)) (l : list token) : pres unit :=
  match l with
  | [] => POk tt
  | x :: r => let* _ := check_token passages x in check_tokens passages r
  end.

Fixpoint validate_passages (passages : list (string * passage)) (todo : list (string * passage))
  : pres unit :=
  match todo with
  | [] => POk tt
  | (_, p) :: r =>
      let* _ := check_choices passages (choices p) in
      let* _ := check_tokens passages (content p) in
      validate_passages passages r
  end.
Definition validate_passage_arguments (passages : list (string * passage)) : pres unit :=
  validate_passages passages passages.

(* _determine_initial_passage: `list(passages.keys())[0]` comes after `if not passages: raise`; the
   two are one match on the list *)
(* fix 15f0a5b: the engine enters the initial passage without arguments *)
Definition startable (passages : list (string * passage)) (name : string) : pres string :=
  match lookup name passages with
  | Some p =>
      if existsb (fun q => match pdefault q with None => true | Some _ => false end) (params p)
      then PDiag (DValue "initial-requires-arguments") else POk name
  | None => PInternal IKey                                  (* passages[name]: name is always a key here *)
  end.

Definition determine_initial_passage (passages : list (string * passage)) (explicit_start : option string)
  : pres string :=
  match passages with
  | [] => PDiag (DValue "no-passages")
  | (first_passage, _) :: _ =>
      let fallback := if has_key "Start" passages then "Start" else first_passage in
      match explicit_start with
      | Some s =>
          if nonempty s then                                       (* `if explicit_start:` *)
            (if has_key s passages then startable passages s else PDiag (DValue "start-not-found"))
          else startable passages fallback
      | None => startable passages fallback
      end
  end.

(* ------------------------------------------------------------------------------------------- *)
(* the parser state                                                                             *)
(* ------------------------------------------------------------------------------------------- *)

(* current_passage; lists are reversed; option fields are keys that may be absent from the dict *)
Record ppassage := mkPP {
  pp_id : string;
  pp_params : list param;
  pp_content : list token;
  pp_choices : list choice;
  pp_execute : list token;
  pp_tags : list string;
  pp_inputs : list (list (string * string));
  pp_join_count : option nat;
  pp_section : option nat }.

Definition with_content (p : ppassage) (ts : list token) : ppassage :=
  mkPP (pp_id p) (pp_params p) (rev ts ++ pp_content p)%list (pp_choices p) (pp_execute p) (pp_tags p)
       (pp_inputs p) (pp_join_count p) (pp_section p).
Definition with_choice (p : ppassage) (c : choice) : ppassage :=
  mkPP (pp_id p) (pp_params p) (pp_content p) (c :: pp_choices p) (pp_execute p) (pp_tags p)
       (pp_inputs p) (pp_join_count p) (pp_section p).
Definition with_execute (p : ppassage) (t : token) : ppassage :=
  mkPP (pp_id p) (pp_params p) (pp_content p) (pp_choices p) (t :: pp_execute p) (pp_tags p)
       (pp_inputs p) (pp_join_count p) (pp_section p).
Definition with_input (p : ppassage) (a : list (string * string)) : ppassage :=
  mkPP (pp_id p) (pp_params p) (pp_content p) (pp_choices p) (pp_execute p) (pp_tags p)
       (a :: pp_inputs p) (pp_join_count p) (pp_section p).
Definition with_join (p : ppassage) (jc sec : nat) : ppassage :=
  mkPP (pp_id p) (pp_params p) (pp_content p) (pp_choices p) (pp_execute p) (pp_tags p)
       (pp_inputs p) (Some jc) (Some sec).
Definition with_section (p : ppassage) (sec : nat) : ppassage :=
  mkPP (pp_id p) (pp_params p) (pp_content p) (pp_choices p) (pp_execute p) (pp_tags p)
       (pp_inputs p) (pp_join_count p) (Some sec).

(* the finished passage, after _cleanup_whitespace and _trim_trailing_newlines *)
Definition finish_passage (p : ppassage) : passage :=
  mkPassage (pp_id p) (pp_params p)
            (trim_trailing_newlines (cleanup_whitespace (rev (pp_content p))))
            (rev (pp_choices p)) (rev (pp_execute p)) (pp_tags p) (rev (pp_inputs p)).

Record pstate := mkPS {
  st_imports : list string;                          (* reversed *)
  st_metadata : list (string * string);
  st_passages : list (string * ppassage);            (* the dict, without the current passage *)
  st_locations : list (string * list nat);           (* passage_locations; line lists reversed *)
  st_current : option ppassage;
  st_explicit_start : option string;
  st_in_imports : bool;
  st_in_metadata : bool }.

Definition init_state : pstate := mkPS [] [] [] [] None None true false.

Definition set_imports (s : pstate) (x : list string) : pstate :=
  mkPS x (st_metadata s) (st_passages s) (st_locations s) (st_current s) (st_explicit_start s)
       (st_in_imports s) (st_in_metadata s).
Definition set_metadata (s : pstate) (x : list (string * string)) : pstate :=
  mkPS (st_imports s) x (st_passages s) (st_locations s) (st_current s) (st_explicit_start s)
       (st_in_imports s) (st_in_metadata s).
Definition set_current (s : pstate) (x : ppassage) : pstate :=
  mkPS (st_imports s) (st_metadata s) (st_passages s) (st_locations s) (Some x) (st_explicit_start s)
       (st_in_imports s) (st_in_metadata s).
Definition set_start (s : pstate) (x : string) : pstate :=
  mkPS (st_imports s) (st_metadata s) (st_passages s) (st_locations s) (st_current s) (Some x)
       (st_in_imports s) (st_in_metadata s).
Definition set_in_imports (s : pstate) (b : bool) : pstate :=
  mkPS (st_imports s) (st_metadata s) (st_passages s) (st_locations s) (st_current s) (st_explicit_start s)
       b (st_in_metadata s).
Definition set_in_metadata (s : pstate) (b : bool) : pstate :=
  mkPS (st_imports s) (st_metadata s) (st_passages s) (st_locations s) (st_current s) (st_explicit_start s)
       (st_in_imports s) b.

(* store the passage being built into the dict (see the header of this file) *)
Definition flush_current (s : pstate) : list (string * ppassage) :=
  match st_current s with
  | Some p => set_key (pp_id p) p (st_passages s)
  | None => st_passages s
  end.

Definition new_passage (s : pstate) (name : string) (ps : list param) (tags : list string) (i : nat) : pstate :=
  let locs := match lookup name (st_locations s) with
              | Some l => set_key name (S i :: l) (st_locations s)
              | None => set_key name [S i] (st_locations s)
              end in
  mkPS (st_imports s) (st_metadata s) (flush_current s) locs
       (Some (mkPP name ps [] [] [] tags [] None None)) (st_explicit_start s)
       (st_in_imports s) (st_in_metadata s).

(* ------------------------------------------------------------------------------------------- *)
(* the block extractors (part B)                                                                *)
(* ------------------------------------------------------------------------------------------- *)

Record extractors := mkExtractors {
  x_python : list string -> nat -> pres (string * nat);
  x_conditional : list string -> nat -> pres (token * nat);
  x_loop : list string -> nat -> pres (token * nat);
  x_join : list string -> nat -> nat -> pres (list token * list token * nat) }.

Variable xs : extractors.

(* ------------------------------------------------------------------------------------------- *)
(* one iteration of `while i < len(lines)`                                                      *)
(* ------------------------------------------------------------------------------------------- *)

(* the part of the loop body after `if not current_passage: continue`, cp = current_passage *)
Definition body_step (lines : list string) (i : nat) (line : string) (st : pstate) (cp : ppassage)
  : pres (pstate * nat) :=
  let stripped := strip line in
  let next (cp' : ppassage) (i' : nat) : pres (pstate * nat) := POk (set_current st cp', i') in
  (* comment lines *)
  if startswith stripped "#" then POk (st, S i) else
  (* Python block *)
  if startswith stripped "<<py" || startswith stripped "@py" then
    let* r := x_python xs lines i in
    let (code, consumed) := r in next (with_execute cp (TPyBlock code)) (i + consumed) else
  (* conditional block *)
  if startswith stripped "<<if " || startswith stripped "@if " then
    let* r := x_conditional xs lines i in
    let (t, consumed) := r in next (with_content cp [t]) (i + consumed) else
  (* loop block *)
  if startswith stripped "<<for " || startswith stripped "@for " then
    let* r := x_loop xs lines i in
    let (t, consumed) := r in next (with_content cp [t]) (i + consumed) else
  (* @render *)
  if startswith stripped "@render" then
    let* d := retag i (parse_render_line true line) in
    match d with
    | Some t => next (with_content cp [t]) (S i)
    | None => POk (st, S i)
    end else
  (* @input *)
  if startswith stripped "@input" then
    let* d := retag i (parse_input_attrs true line) in
    match d with
    | Some a => next (with_input cp a) (S i)
    | None => POk (st, S i)
    end else
  (* @hook event passage *)
  if startswith stripped "@hook " then
    match split_ws stripped with
    | [_; event; target] => next (with_execute cp (THook true event target)) (S i)
    | _ => dsyn "hook:arity" i
    end else
  if startswith stripped "@unhook " then
    match split_ws stripped with
    | [_; event; target] => next (with_execute cp (THook false event target)) (S i)
    | _ => dsyn "unhook:arity" i
    end else
  (* @join marker *)
  if String.eqb stripped "@join" then
    let join_id := match pp_join_count cp with Some n => n | None => 0 end in
    let sec := match pp_section cp with Some n => n | None => 0 end in
    next (with_join (with_content cp [TJoinMarker join_id]) (S join_id) (S sec)) (S i) else
  (* immediate jump: re.match(r"->\s*(.+)", line.strip()) *)
  if startswith stripped "->" then
    match arrow_rest (drop 2 stripped) with
    | Some g =>
        let (target, args) := extract_target_and_args (strip g) in
        next (with_content cp [TJump target args]) (S i)
    | None => POk (st, S i)
    end else
  (* ~ statement *)
  if startswith line "~ " then
    let (code, _) := strip_inline_comment (strip (drop 2 line)) in
    let (complete_code, consumed) := extract_multiline_expression lines i code in
    if py_stmt_ok pp complete_code
    then next (with_execute cp (TPyStmt complete_code)) (i + consumed)
    else
      (* py_offset = e.lineno - 1 if e.lineno else 0
         error_line = i + min(max(py_offset, 0), lines_consumed - 1)        (fix F14c; consumed = lines_consumed) *)
      dsyn "stmt:python-syntax" (i + Nat.min (py_stmt_errline pp complete_code) (consumed - 1)) else
  (* choice *)
  if startswith line "+ " || startswith line "* " then
    let sec := match pp_section cp with Some n => n | None => 0 end in
    let cp := with_section cp sec in
    let* _ := validate_choice_syntax line i in
    let* oc := retag i (parse_choice_line line) in
    match oc with
    | Some (Choice text target args cond sticky _ tags _) =>
        if String.eqb target "@join" then
          let* r := x_join xs lines (S i) (indent_of line) in
          let '(block_content, _, consumed) := r in
          next (with_choice cp (Choice text target args cond sticky sec tags block_content)) (S (i + consumed))
        else next (with_choice cp (Choice text target args cond sticky sec tags [])) (S i)
    | None => dsyn "choice:validated-but-unparsed" i
    end else
  (* regular content line *)
  if nonempty stripped then
    if endswith (rstrip line) "<>" then
      let content_line := take (String.length (rstrip line) - 2) (rstrip line) in
      let* ts := retag i (parse_content_line content_line) in
      next (with_content cp ts) (S i)
    else
      let* ts := retag i (parse_content_line line) in
      next (with_content cp (ts ++ [tok_nl])%list) (S i)
  else
  (* empty line *)
    next (with_content cp [tok_nl]) (S i).

Definition parse_step (lines : list string) (i : nat) (line : string) (st0 : pstate)
  : pres (pstate * nat) :=
  let stripped := strip line in
  (* imports section *)
  let phase1 : pstate + (pstate * nat) :=
    if st_in_imports st0 then
      if negb (nonempty stripped) || startswith stripped "#" then inr (st0, S i)
      else if startswith stripped "import " || startswith stripped "from "
      then inr (set_imports st0 (line :: st_imports st0), S i)
      else inl (set_in_imports st0 false)
    else inl st0 in
  match phase1 with
  | inr r => POk r
  | inl st1 =>
      if String.eqb stripped "@metadata" then POk (set_in_metadata st1 true, S i) else
      (* metadata block content *)
      let phase2 : pstate + (pstate * nat) :=
        if st_in_metadata st1 then
          (* fix F17l: `if not stripped or stripped.startswith("#"): i += 1; continue` *)
          if negb (nonempty stripped) || startswith stripped "#" then inr (st1, S i)
          else if startswith line " " || startswith line (String (ascii_of_nat 9) EmptyString) then
            (* `":" in stripped` and `stripped.split(":", 1)` are one find_char *)
            match find_char stripped ":" with
            | Some k =>
                inr (set_metadata st1 (set_key (strip (take k stripped)) (strip (drop (S k) stripped))
                                               (st_metadata st1)), S i)
            | None => inl (set_in_metadata st1 false)
            end
          else inl (set_in_metadata st1 false)
        else inl st1 in
      match phase2 with
      | inr r => POk r
      | inl st =>
          (* @start *)
          if startswith stripped "@start " then POk (set_start st (strip (drop 7 stripped)), S i) else
          (* passage header *)
          if startswith line ":: " then
            let (passage_header, _) := strip_inline_comment (strip (drop 3 line)) in
            let (name_with_params, params_str) := extract_passage_params passage_header in
            let (passage_name, passage_tags) := parse_tags name_with_params in
            let* _ := validate_passage_name passage_name i in
            let* ps := (if nonempty params_str then retag i (parse_passage_params params_str) else POk []) in
            POk (new_passage st passage_name ps passage_tags i, S i)
          else
          match st_current st with
          | None => POk (st, S i)
          | Some cp => body_step lines i line st cp
          end
      end
  end.

(* `while i < len(lines)`: n = len(lines) *)
Fixpoint parse_loop (fuel : nat) (lines : list string) (n i : nat) (st : pstate) : pres pstate :=
  if n <=? i then POk st else
  match fuel with
  | 0 => POutOfFuel
  | S f =>
      match nth_error lines i with
      | None => PInternal IIndex                               (* lines[i] *)
      | Some line =>
          let* r := parse_step lines i line st in
          let (st', i') := r in parse_loop f lines n i' st'
      end
  end.

(* parse(source) with lines0 = source.split("\n") *)
Definition parse (lines0 : list string) : pres story :=
  let lines := strip_comments_outside_python lines0 None false 0 in
  let* st := parse_loop (S (List.length lines)) lines (List.length lines) 0 init_state in
  let passages := map (fun kv => (fst kv, finish_passage (snd kv))) (flush_current st) in
  let* _ := check_duplicate_passages (st_locations st) in
  let* _ := validate_passage_arguments passages in
  let* initial_passage := determine_initial_passage passages (st_explicit_start st) in
  POk (mkStory initial_passage passages (rev (st_imports st)) (st_metadata st)).

End Oracles.

(* what the main loop needs of the extractors: each consumes at least one line *)
Definition extractors_ok (xs : extractors) : Prop :=
  (forall ls i c n, x_python xs ls i = POk (c, n) -> 1 <= n) /\
  (forall ls i c n, x_conditional xs ls i = POk (c, n) -> 1 <= n) /\
  (forall ls i c n, x_loop xs ls i = POk (c, n) -> 1 <= n).

(* extractors that are never right: used where an input contains no block construct *)
Definition no_extractors : extractors :=
  mkExtractors (fun _ _ => PInternal (IRecursion "extractor not linked"))
               (fun _ _ => PInternal (IRecursion "extractor not linked"))
               (fun _ _ => PInternal (IRecursion "extractor not linked"))
               (fun _ _ _ => POk ([], [], 0)).
