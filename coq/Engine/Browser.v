(* The common feature subset of the browser bundle's engine (bardic/templates/browser/engine_browser.py).
   The fork is the main engine minus hooks and @join: it has no hook registry, skips hook tokens, has no
   join markers / sections and no '-> @join' choices.  A story is in the common subset when it uses none of
   these.  On such stories the main engine model never exercises the features the fork lacks (Props/C19.v),
   and the correspondence run compares BOTH real engines with the one model. *)
From Coq Require Import String Ascii List Bool ZArith Arith.
From Bardic Require Import PyStr Value Compiled Engine.
Import ListNotations.
Local Open Scope list_scope.

(* no hook command and no join marker at any depth *)
Fixpoint nohj_tok (t : token) : bool :=
  let chs := fix chs (l : list choice) : bool :=
      match l with
      | [] => true
      | Choice tx tg _ _ _ sec _ blk :: r =>
          forallb nohj_tok tx && forallb nohj_tok blk && negb (String.eqb tg "@join") && Nat.eqb sec 0 && chs r
      end in
  match t with
  | THook _ _ _ | TJoinMarker _ => false
  | TInlineCond _ tr fa => forallb nohj_tok tr && forallb nohj_tok fa
  | TCond brs =>
      (fix go (l : list branch) : bool :=
         match l with
         | [] => true
         | Branch _ cont ch :: r => forallb nohj_tok cont && chs ch && go r
         end) brs
  | TLoop _ _ cont ch => forallb nohj_tok cont && chs ch
  | _ => true
  end.

Definition common_choice (c : choice) : bool :=
  forallb nohj_tok (ch_text c) && forallb nohj_tok (ch_block c) &&
  negb (String.eqb (ch_target c) "@join") && Nat.eqb (ch_section c) 0.

Definition common_passage (p : passage) : bool :=
  forallb nohj_tok (content p) && forallb nohj_tok (execute p) && forallb common_choice (choices p).

Definition common_story (st : story) : bool := forallb (fun kp => common_passage (snd kp)) (passages st).
