(* Running the BROWSER engine model (Engine/BrowserEngine.v) on operation histories and comparing with what the real
   engine_browser.BardEngine did.  Same operations, observations and view record as Engine/EngineCheck.v (all of
   these operations exist in the fork: choose, undo, redo, goto, reset_one_time_choices, the read methods,
   submit_inputs, save_state / load_state - the fork's save document and load_state are the main engine's minus the
   "hooks" and "join_section_index" entries, so the same abstraction of save -> JSON -> load applies). *)
From Coq Require Import String Ascii List Bool ZArith Arith.
From Bardic Require Import PyStr Value Compiled Engine PyMini EngineCheck BrowserEngine.
Import ListNotations.
Local Open Scope list_scope.

(* the fork has neither a hook registry nor join progress: the harness reads both as empty *)
Definition view_of_b (e : estate) : view :=
  let c := ec e in
  let o := current_out e in
  mkView (match cur c with Some p => p | None => "" end) (vars c) (used c) [] []
         (o_content o)
         (map (fun rc => (rc_text rc, ch_target (rc_choice rc), ch_args (rc_choice rc))) (o_choices o))
         (o_pid o) (o_render o) (o_input o)
         (match undo_stack e with [] => false | _ => true end)
         (match redo_stack e with [] => false | _ => true end)
         (List.length (escopes e)).

Section Run.
Variable orc : pyorc.
Variable ctxkeys : list string.
Variable st : story.

Definition step_b (e : estate) (o : op) : estate * obs :=
  match o with
  | OpChoose i => match choose_b orc ctxkeys st e i with
                  | (e', Ok _) => (e', ObsOk)
                  | (e', Exc x) => (e', ObsExc x)
                  end
  | OpUndo => let '(e', b) := undo_b e in (e', ObsBool b)
  | OpRedo => let '(e', b) := redo_b e in (e', ObsBool b)
  | OpGoto spec => match goto_op_b orc ctxkeys st e spec with
                   | (e', Ok _) => (e', ObsOk)
                   | (e', Exc x) => (e', ObsExc x)
                   end
  | OpReset => (reset_one_time_b e, ObsOk)
  | OpRead => (e, ObsOk)
  | OpReload => (mkES (ec e) [] [] (escopes e) (elog e), ObsOk)
  | OpSave | OpLoad => (e, ObsOk)
  | OpBadLoad => (e, ObsExc ValueError)
  | OpInput k v =>
      let c := ec e in
      let d := match lookup "_inputs"%string (vars c) with Some (VDict d) => d | _ => [] end in
      (mkES (mkCore (cur c) (set_key "_inputs"%string (VDict (set_key k (VStr v) d)) (vars c)) (used c) (hooks c)
                    (joinidx c) (out c))
            (undo_stack e) (redo_stack e) (escopes e) (elog e), ObsOk)
  end.

(* load_state(slot) into the same engine: the saved situation (the four fields a fork document holds), empty stacks *)
Fixpoint run_slot_b (e : estate) (slot : option core) (ops : list op) : list (obs * view) :=
  match ops with
  | [] => []
  | OpSave :: r => (ObsOk, view_of_b e) :: run_slot_b e (Some (ec e)) r
  | OpLoad :: r =>
      match slot with
      | Some c => let e' := mkES (restore_b c (ec e)) [] [] (escopes e) (elog e) in
                  (ObsOk, view_of_b e') :: run_slot_b e' slot r
      | None => (ObsOk, view_of_b e) :: run_slot_b e slot r
      end
  | o :: r => let '(e', b) := step_b e o in (b, view_of_b e') :: run_slot_b e' slot r
  end.
Definition run_b (e : estate) (ops : list op) : list (obs * view) := run_slot_b e None ops.

Definition run_all_b (v0 : env) (ops : list op) : list (obs * view) :=
  match init_b orc ctxkeys st v0 with
  | (e0, Ok _) => (ObsOk, view_of_b e0) :: run_b e0 ops
  | (e0, Exc x) => [(ObsExc x, view_of_b e0)]
  end.
End Run.

(* what the refinement theorem compares: observation + view without the two fields the fork does not have *)
Definition forget_hj_step (x : obs * view) : obs * view := (fst x, forget_hj (snd x)).

(* a browser case: the real engine_browser.BardEngine vs the browser model; the full view comparison is used (the
   harness prints empty hooks / join for the fork, and so does view_of_b) *)
Definition ecase_model_b (c : ecase) : list (obs * view) :=
  let '(st, tb, v0, ops, _) := c in run_all_b (mini_orc tb) [] st v0 ops.

Definition ecase_bad_b (c : ecase) : bool :=
  let '(_, _, _, _, exp) := c in negb (list_eqb step_eqb (ecase_model_b c) exp).

Definition ecase_show_b (c : ecase) :=
  let '(_, _, _, _, exp) := c in
  let m := ecase_model_b c in
  match first_diff m exp 0 with
  | Some i =>
      (Some i,
       match nth_error m i, nth_error exp i with
       | Some a, Some b => diff_fields a b
       | _, _ => ["length"%string]
       end,
       nth_error m i)
  | None => (None, [], None)
  end.

(* the two MODELS on one case (story, tables, variables, operations): true when they differ somewhere outside
   hooks / join - by Proofs/BrowserSim.v never on a common-subset story; evaluated by the harness on the generated
   cases as a cross-check of the statement that is proved *)
Definition models_differ (c : ecase) : bool :=
  negb (list_eqb step_eqb (map forget_hj_step (ecase_model c)) (map forget_hj_step (ecase_model_b c))).

(* one pass over the generated browser cases: anything to look at?  (the harness then evaluates the three tests one by
   one on the flagged cases to say which it was) *)
Definition browser_case_bad (c : ecase) : bool := ecase_bad_b c || ecase_bad_browser c || models_differ c.
