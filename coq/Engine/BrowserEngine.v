(* Model of bardic/templates/browser/engine_browser.py (the BardEngine copied into browser bundles), function by
   function like Engine/Engine.v models bardic/runtime/engine.py.  The fork is a hand-maintained copy of the main
   engine: it has NO hook registry (no register_hook / unregister_hook / trigger_event, no "hook" branch in
   _execute_commands and _render_content: such tokens fall through the if/elif chains and are ignored), NO @join
   (no join_marker branch in _render_content - the marker is ignored and rendering goes on -, no section filter in
   _render_passage, no '-> @join' path and no _execute_join_choice in choose, no join progress in goto, snapshots
   and save documents), and choose() ends with goto() (no turn_end run).
   Types (core, estate, output, oracles) are those of Engine/Engine.v; the two fields [hooks] and [joinidx] of
   [core] correspond to attributes the fork does not have: NO function of this file reads or writes them (restoring
   a snapshot copies the four fields the fork's GameSnapshot has).  Functions of engine_browser.py whose source is
   identical to the main engine's and that touch neither hooks nor join sections are the Engine.v definitions
   (exec_statement, exec_block, render_expr, process_render, parse_args, bind_arguments, parse_spec, enter_scope,
   with_scope, the generic sequencer and block helpers that take the token renderer as a parameter); everything on
   the path of a hook or a join section has its own version here. *)
From Coq Require Import String Ascii List Bool ZArith Arith.
From Bardic Require Import PyStr Value Compiled Engine.
Import ListNotations.
Local Open Scope list_scope.
Local Open Scope string_scope.

Section WithOracle.
Variable orc : pyorc.
Variable ctxkeys : list string.
Variable st : story.

(* ---------------------------------------------------------------------------------------- *)
(* _execute_commands: python_statement | python_block (| set_var | expression_statement: deprecated kinds the
   compiler does not emit); any other command - a hook command included - matches no branch *)
Definition exec_command_b (t : token) : M unit :=
  match t with
  | TPyStmt c => exec_statement orc ctxkeys c
  | TPyBlock c => exec_block orc ctxkeys c
  | _ => ret tt
  end.
Fixpoint exec_commands_b (l : list token) : M unit :=
  match l with
  | [] => ret tt
  | t :: r => do _ <- exec_command_b t; exec_commands_b r
  end.

(* ---------------------------------------------------------------------------------------- *)
(* _render_content / _render_conditional / _render_loop.  The if/elif chain of the fork's _render_content has no
   branch for "hook" and none for "join_marker": both produce nothing and the loop goes on to the next token *)
Fixpoint render_tok_b (t : token) {struct t} : M tok_out :=
  match t with
  | TText v => ret (v, CNext, [])
  | TExpr code => do ctx <- ctx_now; ret (render_expr orc ctx code, CNext, [])
  | TInlineCond cond tr fa =>
      do ctx <- ctx_now;
      match o_eval orc ctx cond with
      | Exc _ => ret (ERR, CNext, [])
      | Ok b =>
          catch (do '(txt, _, _) <- seqr render_tok_b (if truthy b then tr else fa); ret (txt, CNext, []))
                (fun _ => ret (ERR, CNext, []))
      end
  | TCond brs => do ctx <- ctx_now; render_branches orc render_tok_b ctx brs
  | TLoop var coll cont chs =>
      if String.eqb var "" || String.eqb coll "" then ret (""%string, CNext, []) else
      do ctx <- ctx_now;
      match (match o_eval orc ctx coll with Ok c => py_iter c | Exc e => Exc e end) with
      | Exc _ => ret (ERR, CNext, [])
      | Ok items => render_loop_items render_tok_b (split_vars var) cont chs items
      end
  | TJump target args => ret (""%string, CJump (jump_spec target args), [])
  | TPyStmt code => do _ <- exec_statement orc ctxkeys code; ret (""%string, CNext, [])
  | TPyBlock code => do _ <- exec_block orc ctxkeys code; ret (""%string, CNext, [])
  | THook _ _ _ => ret (""%string, CNext, [])            (* no such branch: ignored *)
  | TRender name args fw => do ctx <- ctx_now; ret (""%string, CNext, [DRender (process_render orc ctx name args fw)])
  | TInput attrs => ret (""%string, CNext, [DInput attrs])
  | TJoinMarker _ => ret (""%string, CNext, [])          (* no such branch: ignored, rendering does NOT stop *)
  end.

Definition render_content_b : list token -> M seq_out := seqr render_tok_b.

(* _render_choice_text *)
Definition render_choice_text_b (c : choice) : M string :=
  do '(t, _, _) <- render_content_b (ch_text c); ret t.

Definition choice_text_b (c : choice) (dtext : option string) : M string :=
  match dtext with Some t => ret t | None => render_choice_text_b c end.

(* _is_choice_available *)
Definition is_choice_available_b (c : choice) (dtext : option string) : M bool :=
  do used_ok <-
     (if ch_sticky c then ret true else
        do t <- choice_text_b c dtext;
        fun s => (s, Ok (negb (str_in (choice_id (match cur (nc s) with Some p => p | None => "None" end)
                                                 t (ch_target c)) (used (nc s))))));
  if negb used_ok then ret false else
  match ch_cond c with
  | None => ret true
  | Some cond =>
      if String.eqb cond "" then ret true else
      do ctx <- ctx_now;
      match o_eval orc ctx cond with
      | Ok v => ret (truthy v)
      | Exc _ => ret false
      end
  end.

(* the filter loop of _render_passage: availability only, no section test *)
Fixpoint filter_choices_b (cands : list (choice * option string)) : M (list rchoice) :=
  match cands with
  | [] => ret []
  | (c, dt) :: r =>
      do av <- is_choice_available_b c dt;
      if av then
        do t <- choice_text_b c dt;
        do rs <- filter_choices_b r;
        ret (mkRC t c :: rs)
      else filter_choices_b r
  end.

(* _render_passage *)
Definition render_passage_b (pid : string) : M output :=
  match get_passage st pid with
  | None => raise ValueError
  | Some p =>
      do _ <- emit (EvRenderStart pid);
      do '(txt, j, ds) <- render_content_b (content p);
      let '(cds, ins, rds) := split_dirs ds in
      let cands := (map (fun c => (c, None)) (choices p) ++ cds)%list in
      do chs <- filter_choices_b cands;
      ret (mkOut txt chs pid rds (ins ++ input_directives p)%list j)
  end.

(* _execute_passage *)
Definition execute_passage_b (pid : string) : M unit :=
  match get_passage st pid with
  | None => raise ValueError
  | Some p => do _ <- emit (EvEnter pid); exec_commands_b (execute p)
  end.

(* goto: as in the main engine (argument binding, scope push/pop, shared visited list, chain output) without the
   join progress reset *)
Fixpoint goto_rec_b (fuel : nat) (spec : string) (visited : list string) : M output :=
  match fuel with
  | O => raise OtherError
  | S fuel' =>
      do '(pid, args) <- lift_res (parse_spec spec);
      match get_passage st pid with
      | None => raise ValueError
      | Some p =>
          with_scope orc p args
            (if str_in pid visited then raise RuntimeError else
             do _ <- set_cur pid;
             do _ <- execute_passage_b pid;
             do o <- render_passage_b pid;
             do o' <- match o_jump o with
                      | Some target =>
                          do jo <- goto_rec_b fuel' target (visited ++ [pid])%list;
                          ret (chain_output o jo)
                      | None => ret o
                      end;
             do _ <- set_out o';
             ret o')
      end
  end.

Definition goto_b (spec : string) : M output :=
  goto_rec_b (S (List.length (passages st))) spec [].

(* choose, after the snapshot: build the passage spec, mark a one-time choice, goto.  There is no '-> @join' test
   (such a target is handed to goto like any other name) and nothing runs after goto *)
Definition choose_nav_b (ch : rchoice) (o : output) : M output :=
  let spec := jump_spec (ch_target (rc_choice ch)) (ch_args (rc_choice ch)) in
  do _ <- (if ch_sticky (rc_choice ch) then ret tt else
             fun s => set_used (add_used (choice_id (o_pid o) (rc_text ch) (ch_target (rc_choice ch)))
                                         (used (nc s))) s);
  goto_b spec.

(* ---------------------------------------------------------------------------------------- *)
(* engine operations on the whole state *)

(* GameSnapshot.restore_to + the output line of undo/redo: the four fields the fork's snapshot has *)
Definition restore_b (snap c : core) : core :=
  mkCore (cur snap) (vars snap) (used snap) (hooks c) (joinidx c) (out snap).

Definition choose_b (e : estate) (i : Z) : estate * res output :=
  let o := current_out e in
  if (i <? 0)%Z || (Z.of_nat (List.length (o_choices o)) <=? i)%Z then (e, Exc IndexError) else
  match nth_error (o_choices o) (Z.to_nat i) with
  | None => (e, Exc IndexError)
  | Some ch =>
      let e1 := mkES (ec e) (push50 (ec e) (undo_stack e)) [] (escopes e) (elog e) in
      run_nav (choose_nav_b ch o) e1
  end.

Definition undo_b (e : estate) : estate * bool :=
  match undo_stack e with
  | [] => (e, false)
  | prev :: rest => (mkES (restore_b prev (ec e)) rest (ec e :: redo_stack e) (escopes e) (elog e), true)
  end.

Definition redo_b (e : estate) : estate * bool :=
  match redo_stack e with
  | [] => (e, false)
  | nxt :: rest => (mkES (restore_b nxt (ec e)) (push50 (ec e) (undo_stack e)) rest (escopes e) (elog e), true)
  end.

Definition goto_op_b (e : estate) (spec : string) : estate * res output := run_nav (goto_b spec) e.

Definition reset_one_time_b (e : estate) : estate :=
  let c := ec e in
  mkES (mkCore (cur c) (vars c) [] (hooks c) (joinidx c) (out c)) (undo_stack e) (redo_stack e) (escopes e) (elog e).

(* __init__ (the fork's import step differs from the main engine's; stories with import lines are outside the
   modelled domain of both models: v0 stands for what the imports bound) *)
Definition init_b (v0 : env) : estate * res output :=
  let e0 := mkES (empty_core (set_key "_inputs" (VDict []) v0)) [] [] [] [] in
  match get_passage st (initial st) with
  | None => (e0, Exc ValueError)
  | Some _ => goto_op_b e0 (initial st)
  end.

End WithOracle.
