(* Model of bardic/runtime/engine.py (BardEngine) as a state machine over compiled stories.
   Author code (eval/exec of Python text) is an oracle record: every definition and theorem here holds
   for any semantics of author code, including code that fails at any evaluation point. *)
From Coq Require Import String Ascii List Bool ZArith Arith.
From Bardic Require Import PyStr Value Compiled.
Import ListNotations.
Local Open Scope list_scope.
Local Open Scope string_scope.

(* ---------------------------------------------------------------------------------------- *)
(* Oracles for author code *)
Record pyorc := mkOrc {
  o_eval : env -> string -> res value;          (* eval(code, builtins, ctx); effect-free *)
  o_exec : env -> string -> res env;            (* exec(code, builtins, ctx); the ctx afterwards *)
  o_format : value -> string -> res string;     (* format(value, spec) *)
  o_args : env -> string -> res (list value * list (string * value))
                                                (* ast-parse "f(<args>)" and evaluate each argument *)
}.

(* ---------------------------------------------------------------------------------------- *)
(* Outputs *)
Record rchoice := mkRC { rc_text : string; rc_choice : choice }.

Inductive rdir :=
| RDEval (name : string) (data : list (string * value)) (framework : option string)
| RDError (name raw_args : string).

Record output := mkOut {
  o_content : string;
  o_choices : list rchoice;
  o_pid : string;
  o_render : list rdir;
  o_input : list (list (string * string));
  o_jump : option string }.

(* directives collected while rendering *)
Inductive directive :=
| DChoice (c : choice) (rendered : option string)   (* from a conditional (unrendered) or a loop (rendered) *)
| DInput (attrs : list (string * string))
| DRender (r : rdir).

(* ghost log: which command of which passage ran, in order (used only by theorems / C03, C09) *)
Inductive event :=
| EvStmt (code : string) | EvBlock (code : string) | EvHook (add : bool) (ev target : string)
| EvEnter (pid : string) | EvRenderStart (pid : string) | EvHookRun (pid : string).

Definition hookmap := list (string * list string).

(* what a snapshot holds *)
Record core := mkCore {
  cur : option string;
  vars : env;
  used : list string;
  hooks : hookmap;
  joinidx : list (string * nat);
  out : option output }.

(* navigation state: core + scope stack + ghost log *)
Record nstate := mkNS { nc : core; scopes : list env; log : list event }.

Record estate := mkES { ec : core; undo_stack : list core; redo_stack : list core;
                        escopes : list env; elog : list event }.

Definition M (A : Type) := nstate -> nstate * res A.
Definition ret {A} (a : A) : M A := fun s => (s, Ok a).
Definition raise {A} (e : exn) : M A := fun s => (s, Exc e).
Definition bind {A B} (m : M A) (f : A -> M B) : M B :=
  fun s => match m s with
           | (s1, Ok a) => f a s1
           | (s1, Exc e) => (s1, Exc e)
           end.
Notation "'do' x <- m ; f" := (bind m (fun x => f)) (at level 200, x name, m at level 100, f at level 200).
Notation "'do' ' p <- m ; f" := (bind m (fun x => let p := x in f)) (at level 200, p pattern, m at level 100, f at level 200).

Definition get : M nstate := fun s => (s, Ok s).
Definition put_core (c : core) : M unit := fun s => (mkNS c (scopes s) (log s), Ok tt).
Definition emit (e : event) : M unit := fun s => (mkNS (nc s) (scopes s) (log s ++ [e])%list, Ok tt).
Definition set_vars (v : env) : M unit :=
  fun s => let c := nc s in (mkNS (mkCore (cur c) v (used c) (hooks c) (joinidx c) (out c)) (scopes s) (log s), Ok tt).
Definition set_hooks (h : hookmap) : M unit :=
  fun s => let c := nc s in (mkNS (mkCore (cur c) (vars c) (used c) h (joinidx c) (out c)) (scopes s) (log s), Ok tt).
Definition set_cur (p : string) : M unit :=
  fun s => let c := nc s in (mkNS (mkCore (Some p) (vars c) (used c) (hooks c) (joinidx c) (out c)) (scopes s) (log s), Ok tt).
Definition set_joinidx (j : list (string * nat)) : M unit :=
  fun s => let c := nc s in (mkNS (mkCore (cur c) (vars c) (used c) (hooks c) j (out c)) (scopes s) (log s), Ok tt).
Definition set_out (o : output) : M unit :=
  fun s => let c := nc s in (mkNS (mkCore (cur c) (vars c) (used c) (hooks c) (joinidx c) (Some o)) (scopes s) (log s), Ok tt).
Definition set_used (u : list string) : M unit :=
  fun s => let c := nc s in (mkNS (mkCore (cur c) (vars c) u (hooks c) (joinidx c) (out c)) (scopes s) (log s), Ok tt).
Definition push_scope (e : env) : M unit := fun s => (mkNS (nc s) (e :: scopes s) (log s), Ok tt).
Definition pop_scope : M unit := fun s => (mkNS (nc s) (tl (scopes s)) (log s), Ok tt).

(* try m finally f: f runs whether m returns or raises *)
Definition finally {A} (m : M A) (f : M unit) : M A :=
  fun s => match m s with
           | (s1, r) => (fst (f s1), r)
           end.

(* try: m except Exception: h *)
Definition catch {A} (m : M A) (h : exn -> M A) : M A :=
  fun s => match m s with
           | (s1, Ok a) => (s1, Ok a)
           | (s1, Exc e) => h e s1
           end.

Definition lift_res {A} (r : res A) : M A := fun s => (s, r).

Section WithOracle.
Variable orc : pyorc.
Variable ctxkeys : list string.          (* names in engine.context (auto-registered classes): read-only *)
Variable st : story.

(* ---------------------------------------------------------------------------------------- *)
(* _get_eval_context *)
Definition local_of (sc : list env) : env := match sc with [] => [] | l :: _ => l end.
Definition dict_of (e : env) : value := VDict e.
Definition eval_context (v : env) (sc : list env) : env :=
  let l := local_of sc in
  update (set_key "_local" (dict_of l) (set_key "_state" (dict_of v) v)) l.

Definition ctx_now : M env := fun s => (s, Ok (eval_context (vars (nc s)) (scopes s))).

Definition is_private (k : string) : bool := startswith k "_".

(* sync the exec'd context back into state: skip private names, context names, parameter names *)
Definition sync_back (ctx' : env) (v : env) (skip : list string) : env :=
  fold_left (fun acc kv =>
               let k := fst kv in
               if is_private k || str_in k ctxkeys || str_in k skip then acc
               else set_key k (snd kv) acc) ctx' v.

(* _execute_python_statement *)
Definition exec_statement (code : string) : M unit :=
  do _ <- emit (EvStmt code);
  do ctx <- ctx_now;
  match o_exec orc ctx code with
  | Ok ctx' => fun s => set_vars (sync_back ctx' (vars (nc s)) (keys (local_of (scopes s)))) s
  | Exc _ => raise RuntimeError
  end.

(* _execute_python_block: sees parameters like statements do *)
Definition exec_block (code : string) : M unit :=
  do _ <- emit (EvBlock code);
  do ctx <- ctx_now;
  match o_exec orc ctx code with
  | Ok ctx' => fun s => set_vars (sync_back ctx' (vars (nc s)) (keys (local_of (scopes s)))) s
  | Exc _ => raise RuntimeError
  end.

(* register_hook / unregister_hook *)
Definition remove_first_str (x : string) : list string -> list string :=
  fix go l := match l with [] => [] | y :: r => if String.eqb x y then r else y :: go r end.

Definition register_hook (h : hookmap) (ev p : string) : hookmap :=
  match lookup ev h with
  | None => set_key ev [p] h
  | Some l => if str_in p l then h else set_key ev (l ++ [p])%list h
  end.
Definition unregister_hook (h : hookmap) (ev p : string) : hookmap :=
  match lookup ev h with
  | None => h
  | Some l => if str_in p l then set_key ev (remove_first_str p l) h else h
  end.

Definition exec_hook (add : bool) (ev p : string) : M unit :=
  do _ <- emit (EvHook add ev p);
  fun s => set_hooks (if add then register_hook (hooks (nc s)) ev p
                      else unregister_hook (hooks (nc s)) ev p) s.

(* _execute_commands *)
Definition exec_command (t : token) : M unit :=
  match t with
  | TPyStmt c => exec_statement c
  | TPyBlock c => exec_block c
  | THook a e p => exec_hook a e p
  | _ => ret tt
  end.
Fixpoint exec_commands (l : list token) : M unit :=
  match l with
  | [] => ret tt
  | t :: r => do _ <- exec_command t; exec_commands r
  end.

(* ---------------------------------------------------------------------------------------- *)
(* expression tokens *)
Definition ERR : string := "{ERROR}".

Definition has_cmp_op (code : string) : bool :=
  str_contains code "==" || str_contains code "!=" || str_contains code "<=" ||
  str_contains code ">=" || str_contains code "::".

(* _split_format_spec: index of the first colon outside brackets and string literals
   (quote: the open quote character, if any; depth may go negative as in the Python code) *)
Fixpoint spec_colon_from (s : string) (quote : option ascii) (depth : Z) (i : nat) : option nat :=
  match s with
  | EmptyString => None
  | String ch r =>
      match quote with
      | Some q =>
          if ascii_eqb ch "\"%char then
            match r with
            | String _ r2 => spec_colon_from r2 quote depth (S (S i))
            | EmptyString => None
            end
          else if ascii_eqb ch q then spec_colon_from r None depth (S i)
          else spec_colon_from r quote depth (S i)
      | None =>
          if ascii_eqb ch """"%char || ascii_eqb ch "'"%char then spec_colon_from r (Some ch) depth (S i)
          else if ascii_eqb ch "("%char || ascii_eqb ch "["%char || ascii_eqb ch "{"%char
               then spec_colon_from r None (depth + 1)%Z (S i)
          else if ascii_eqb ch ")"%char || ascii_eqb ch "]"%char || ascii_eqb ch "}"%char
               then spec_colon_from r None (depth - 1)%Z (S i)
          else if ascii_eqb ch ":"%char && Z.eqb depth 0 then Some i
          else spec_colon_from r None depth (S i)
      end
  end.
Definition spec_colon (code : string) : option nat := spec_colon_from code None 0%Z 0.

(* returns the text for an {expr} token; failures become the inline error marker *)
Definition render_expr (ctx : env) (code : string) : string :=
  match spec_colon code with
  | Some i =>
      let e := strip (take i code) in
      let spec := strip (drop (S i) code) in
      match o_eval orc ctx e with
      | Ok v => match o_format orc v spec with Ok s => s | Exc _ => ERR end
      | Exc _ => ERR
      end
  | None =>
      match o_eval orc ctx code with
      | Ok v => py_str v
      | Exc _ => ERR
      end
  end.

Fixpoint number_args (i : nat) (l : list value) : list (string * value) :=
  match l with
  | [] => []
  | v :: r => ("arg_" ++ str_of_N (N.of_nat i), v) :: number_args (S i) r
  end.

(* the dict _parse_directive_args fills: result["arg_<i>"] = value for the positional arguments, then
   result[keyword] = value for the keyword arguments IN THE SAME dict -- a keyword named like a marker
   (f(1, arg_0=2)) or written twice (f(a=1, a=2): ast.parse accepts it) overwrites the earlier entry and keeps
   its position *)
Definition args_dict (pos : list value) (kw : list (string * value)) : list (string * value) :=
  update (number_args 0 pos) kw.

(* _parse_directive_args: any failure is reported as ValueError *)
Definition parse_args (ctx : env) (args : string) : res (list (string * value)) :=
  if all_space args then Ok [] else
  match o_args orc ctx args with
  | Ok (pos, kw) => Ok (args_dict pos kw)
  | Exc _ => Exc ValueError
  end.

(* _process_render_directive (evaluate_directives = True) *)
Definition process_render (ctx : env) (name args : string) (fw : option string) : rdir :=
  if String.eqb args "" then RDEval name [] fw else
  match parse_args ctx args with
  | Ok d => RDEval name d fw
  | Exc _ => RDError name args
  end.

(* ---------------------------------------------------------------------------------------- *)
(* _render_content and friends.  One token at a time; the list sequencer is generic. *)
Inductive ctl := CNext | CJump (spec : string) | CBreak.
Definition tok_out := (string * ctl * list directive)%type.
Definition seq_out := (string * option string * list directive)%type.

Definition seqr (f : token -> M tok_out) : list token -> M seq_out :=
  fix go (l : list token) : M seq_out :=
    match l with
    | [] => ret (""%string, None, [])
    | t :: r =>
        do '(txt, c, ds) <- f t;
        match c with
        | CNext => do '(txt2, j, ds2) <- go r; ret ((txt ++ txt2)%string, j, (ds ++ ds2)%list)
        | CJump spec => ret (txt, Some spec, ds)
        | CBreak => ret (txt, None, ds)
        end
    end.

Definition jump_spec (target args : string) : string :=
  if String.eqb args "" then target else (target ++ "(" ++ args ++ ")")%string.

Definition split_vars (v : string) : list string := map strip (split_char v ","%char).

Definition nth_item (item : value) (i : nat) : value :=
  match item with
  | VList l | VTuple l => nth i l VNone
  | _ => VNone
  end.

(* bind the loop variable(s); returns the original values for the restore step *)
Definition loop_bind (vs : list string) (item : value) (v : env) : env * list (string * option value) :=
  match vs with
  | [x] => (set_key x item v, [(x, lookup x v)])
  | _ =>
      (fix go (i : nat) (l : list string) (v : env) (acc : list (string * option value)) :=
         match l with
         | [] => (v, acc)
         | x :: r => go (S i) r (set_key x (nth_item item i) v) (set_key x (lookup x v) acc)
         end) 0 vs v []
  end.

Definition is_none (v : value) : bool := match v with VNone => true | _ => false end.

Definition loop_restore (orig : list (string * option value)) (v : env) : env :=
  fold_left (fun acc kv =>
               match snd kv with
               | Some o => if is_none o then del_key (fst kv) acc else set_key (fst kv) o acc
               | None => del_key (fst kv) acc
               end) orig v.

(* the helpers below take the token renderer as a parameter (bound outside the fix), so that the
   renderer can be a structural Fixpoint on token *)
Definition render_branches (f : token -> M tok_out) (ctx : env) : list branch -> M tok_out :=
  fix go (l : list branch) : M tok_out :=
    match l with
    | [] => ret (""%string, CNext, [])
    | Branch cond cont chs :: r =>
        match o_eval orc ctx cond with
        | Exc _ => go r
        | Ok b =>
            if truthy b then
              do '(txt, j, ds) <- seqr f cont;
              let ds' := (ds ++ map (fun c => DChoice c None) chs)%list in
              ret (txt, match j with Some sp => CJump sp | None => CNext end, ds')
            else go r
        end
    end.

Definition render_loop_choices (f : token -> M tok_out) : list choice -> M (list directive) :=
  fix rch (l : list choice) : M (list directive) :=
    match l with
    | [] => ret []
    | c :: r =>
        do '(t, _, _) <- seqr f (ch_text c);
        do rs <- rch r; ret (DChoice c (Some t) :: rs)
    end.

Definition render_loop_items (f : token -> M tok_out) (vs : list string) (cont : list token)
           (chs : list choice) : list value -> M tok_out :=
  fix iter (its : list value) : M tok_out :=
    match its with
    | [] => ret (""%string, CNext, [])
    | item :: rest =>
        do s0 <- get;
        let '(v1, orig) := loop_bind vs item (vars (nc s0)) in
        do _ <- set_vars v1;
        do '(txt, j, ds) <- seqr f cont;
        do chds <- render_loop_choices f chs;
        do s1 <- get;
        do _ <- set_vars (loop_restore orig (vars (nc s1)));
        match j with
        | Some sp => ret (txt, CJump sp, (ds ++ chds)%list)
        | None =>
            do '(txt2, c2, ds2) <- iter rest;
            ret ((txt ++ txt2)%string, c2, (ds ++ chds ++ ds2)%list)
        end
    end.

Fixpoint render_tok (t : token) {struct t} : M tok_out :=
  match t with
  | TText v => ret (v, CNext, [])
  | TExpr code => do ctx <- ctx_now; ret (render_expr ctx code, CNext, [])
  | TInlineCond cond tr fa =>
      do ctx <- ctx_now;
      match o_eval orc ctx cond with
      | Exc _ => ret (ERR, CNext, [])
      | Ok b =>
          catch (do '(txt, _, _) <- seqr render_tok (if truthy b then tr else fa); ret (txt, CNext, []))
                (fun _ => ret (ERR, CNext, []))
      end
  | TCond brs => do ctx <- ctx_now; render_branches render_tok ctx brs
  | TLoop var coll cont chs =>
      if String.eqb var "" || String.eqb coll "" then ret (""%string, CNext, []) else
      (* only the collection is guarded: if it cannot be evaluated or iterated the loop becomes the inline
         marker; errors raised in the body propagate *)
      do ctx <- ctx_now;
      match (match o_eval orc ctx coll with Ok c => py_iter c | Exc e => Exc e end) with
      | Exc _ => ret (ERR, CNext, [])
      | Ok items => render_loop_items render_tok (split_vars var) cont chs items
      end
  | TJump target args => ret (""%string, CJump (jump_spec target args), [])
  | TPyStmt code => do _ <- exec_statement code; ret (""%string, CNext, [])
  | TPyBlock code => do _ <- exec_block code; ret (""%string, CNext, [])
  | THook a e p => do _ <- exec_hook a e p; ret (""%string, CNext, [])
  | TRender name args fw => do ctx <- ctx_now; ret (""%string, CNext, [DRender (process_render ctx name args fw)])
  | TInput attrs => ret (""%string, CNext, [DInput attrs])
  | TJoinMarker _ => ret (""%string, CBreak, [])
  end.

Definition render_content : list token -> M seq_out := seqr render_tok.

(* _render_choice_text *)
Definition render_choice_text (c : choice) : M string :=
  do '(t, _, _) <- render_content (ch_text c); ret t.

Definition choice_id (pid text target : string) : string := (pid ++ ":" ++ text ++ ":" ++ target)%string.

(* _is_choice_available; dtext = the already rendered text of a loop choice *)
Definition choice_text (c : choice) (dtext : option string) : M string :=
  match dtext with Some t => ret t | None => render_choice_text c end.

Definition is_choice_available (c : choice) (dtext : option string) : M bool :=
  do used_ok <-
     (if ch_sticky c then ret true else
        do t <- choice_text c dtext;
        fun s => (s, Ok (negb (str_in (choice_id (match cur (nc s) with Some p => p | None => "None" end)
                                                 t (ch_target c)) (used (nc s))))));
  if negb used_ok then ret false else
  match ch_cond c with
  | None => ret true
  | Some cond =>
      if String.eqb cond "" then ret true else
      do ctx <- ctx_now;
      match o_eval orc ctx cond with
      | Ok v => ret (truthy v)
      | Exc _ => ret false
      end
  end.

Fixpoint split_dirs (ds : list directive)
  : list (choice * option string) * list (list (string * string)) * list rdir :=
  match ds with
  | [] => ([], [], [])
  | d :: r =>
      let '(cs, ins, rs) := split_dirs r in
      match d with
      | DChoice c t => ((c, t) :: cs, ins, rs)
      | DInput a => (cs, a :: ins, rs)
      | DRender x => (cs, ins, x :: rs)
      end
  end.

(* choices merged from the passage and from blocks; block choices carry no section (0) *)
Definition dir_section (c : choice) (from_dir : bool) : nat := if from_dir then 0 else ch_section c.

Fixpoint filter_choices (cands : list (choice * option string * bool)) (section : nat) : M (list rchoice) :=
  match cands with
  | [] => ret []
  | (c, dt, fromdir) :: r =>
      do av <- is_choice_available c dt;
      if av && Nat.eqb (dir_section c fromdir) section then
        do t <- choice_text c dt;
        do rs <- filter_choices r section;
        ret (mkRC t c :: rs)
      else filter_choices r section
  end.

(* _render_passage *)
Definition render_passage (pid : string) : M output :=
  match get_passage st pid with
  | None => raise ValueError
  | Some p =>
      do _ <- emit (EvRenderStart pid);
      do '(txt, j, ds) <- render_content (content p);
      let '(cds, ins, rds) := split_dirs ds in
      do s <- get;
      let sec := match lookup pid (joinidx (nc s)) with Some n => n | None => 0 end in
      let cands := (map (fun c => (c, None, false)) (choices p) ++
                    map (fun ct => (fst ct, snd ct, true)) cds)%list in
      do chs <- filter_choices cands sec;
      ret (mkOut txt chs pid rds (ins ++ input_directives p)%list j)
  end.

(* _execute_passage *)
Definition execute_passage (pid : string) : M unit :=
  match get_passage st pid with
  | None => raise ValueError
  | Some p => do _ <- emit (EvEnter pid); exec_commands (execute p)
  end.

(* ---------------------------------------------------------------------------------------- *)
(* _bind_arguments *)
Fixpoint bind_arguments (ctx0 : env) (ps : list param) (ad : list (string * value))
         (pi : nat) (acc : env) : res env :=
  match ps with
  | [] => Ok acc
  | p :: r =>
      let key := ("arg_" ++ str_of_N (N.of_nat pi))%string in
      match lookup key ad with
      | Some v => bind_arguments ctx0 r ad (S pi) (set_key (pname p) v acc)
      | None =>
          match lookup (pname p) ad with
          | Some v =>
              if has_key (pname p) acc then Exc ValueError
              else bind_arguments ctx0 r ad pi (set_key (pname p) v acc)
          | None =>
              match pdefault p with
              | Some d =>
                  match o_eval orc (update ctx0 acc) d with
                  | Ok v => bind_arguments ctx0 r ad pi (set_key (pname p) v acc)
                  | Exc e => Exc e
                  end
              | None => Exc ValueError
              end
          end
      end
  end.

(* parse "Name(args)" : name up to the first "(", args up to its matching ")" *)
Fixpoint match_paren (s : string) (depth : nat) (acc : string) : option string :=
  match s with
  | EmptyString => None
  | String c r =>
      if ascii_eqb c "("%char then match_paren r (S depth) (acc ++ String c EmptyString)
      else if ascii_eqb c ")"%char then
        match depth with
        | O => Some acc
        | S d => match_paren r d (acc ++ String c EmptyString)
        end
      else match_paren r depth (acc ++ String c EmptyString)
  end.

Definition parse_spec (spec : string) : res (string * string) :=
  match find_char spec "("%char with
  | None => Ok (spec, ""%string)
  | Some i =>
      match match_paren (drop (S i) spec) 0 "" with
      | Some a => Ok (take i spec, a)
      | None => Exc ValueError
      end
  end.

(* goto: recursive along the jump chain, sharing the visited list; fuel bounds the recursion *)
Definition merge_content (a b : string) : string :=
  if String.eqb a "" then b else if String.eqb b "" then a else (a ++ String "010"%char (String "010"%char b))%string.

Definition has_scope (p : passage) (args : string) : bool :=
  negb (match params p with [] => true | _ => false end) || negb (String.eqb args "").

(* argument evaluation and binding; pushes the parameter scope *)
Definition enter_scope (p : passage) (args : string) : M unit :=
  if has_scope p args then
    do ctx <- ctx_now;
    do ad <- lift_res (if String.eqb args "" then Ok [] else parse_args ctx args);
    match bind_arguments ctx (params p) ad 0 [] with
    | Ok pv => push_scope pv
    | Exc _ => raise ValueError
    end
  else ret tt.

(* push the parameter scope, run the body, pop the scope whether the body returns or raises *)
Definition with_scope {A} (p : passage) (args : string) (body : M A) : M A :=
  do _ <- enter_scope p args;
  finally body (if has_scope p args then pop_scope else ret tt).

Definition chain_output (o jo : output) : output :=
  mkOut (merge_content (o_content o) (o_content jo)) (o_choices jo) (o_pid jo)
        (o_render o ++ o_render jo)%list (o_input jo) None.

Fixpoint goto_rec (fuel : nat) (spec : string) (visited : list string) : M output :=
  match fuel with
  | O => raise OtherError      (* never reached with fuel = #passages + 1: see goto_fuel_enough *)
  | S fuel' =>
      do '(pid, args) <- lift_res (parse_spec spec);
      match get_passage st pid with
      | None => raise ValueError
      | Some p =>
          with_scope p args
            (if str_in pid visited then raise RuntimeError else
             do _ <- set_cur pid;
             do s <- get;
             do _ <- set_joinidx (set_key pid 0 (joinidx (nc s)));
             do _ <- execute_passage pid;
             do o <- render_passage pid;
             do o' <- match o_jump o with
                      | Some target =>
                          do jo <- goto_rec fuel' target (visited ++ [pid])%list;
                          ret (chain_output o jo)
                      | None => ret o
                      end;
             do _ <- set_out o';
             ret o')
      end
  end.

Definition goto (spec : string) : M output :=
  goto_rec (S (List.length (passages st))) spec [].

(* trigger_event *)
Fixpoint run_hooks (l : list string) : M (list string) :=
  match l with
  | [] => ret []
  | p :: r =>
      match get_passage st p with
      | None => run_hooks r
      | Some _ =>
          do _ <- emit (EvHookRun p);
          do _ <- execute_passage p;
          do o <- render_passage p;
          do rest <- run_hooks r;
          ret (if all_space (o_content o) then rest else o_content o :: rest)
      end
  end.

Definition trigger_event (ev : string) : M string :=
  do s <- get;
  match lookup ev (hooks (nc s)) with
  | None => ret ""%string
  | Some active =>
      do outs <- run_hooks active;
      ret (join (String "010"%char EmptyString) outs)
  end.

Definition with_hook_output (o : output) (h : string) : output :=
  if String.eqb h "" then o else
  mkOut (if String.eqb (o_content o) "" then h
         else (o_content o ++ String "010"%char (String "010"%char h))%string)
        (o_choices o) (o_pid o) (o_render o) (o_input o) (o_jump o).

Definition after_hooks (o : output) : M output :=
  do h <- trigger_event "turn_end";
  if String.eqb h "" then ret o else
  let o' := with_hook_output o h in
  do _ <- set_out o'; ret o'.

(* _render_from_join_marker / _execute_join_choice *)
Fixpoint after_nth_marker (l : list token) (n : nat) : option (list token) :=
  match l with
  | [] => None
  | TJoinMarker _ :: r => match n with O => Some r | S k => after_nth_marker r k end
  | _ :: r => after_nth_marker r n
  end.

Fixpoint until_marker (l : list token) : list token :=
  match l with
  | [] => []
  | TJoinMarker _ :: _ => []
  | t :: r => t :: until_marker r
  end.

Definition render_from_join_marker (pid : string) (idx : nat) : M output :=
  match get_passage st pid with
  | None => raise OtherError
  | Some p =>
      do toks <- (match after_nth_marker (content p) idx with
                  | Some r => ret (until_marker r)
                  | None => match idx with
                            | O => ret (until_marker (content p))
                            | S _ => raise RuntimeError
                            end
                  end);
      do '(txt, j, ds) <- render_content toks;
      (* the same split as in render_passage *)
      let '(cds, ins, rds) := split_dirs ds in
      (* section_candidates: the passage-level choices written in section idx+1, then the choices that the
         @if/@for blocks of this section's text just produced.  The loop over them has NO section test (the
         passage-level ones were selected by their section just above, the block ones are taken as they come):
         flag true with section 0 is filter_choices without its section test (dir_section _ true = 0). *)
      let cands := (map (fun c => (c, None, true))
                        (filter (fun c => Nat.eqb (ch_section c) (S idx)) (choices p)) ++
                    map (fun ct => (fst ct, snd ct, true)) cds)%list in
      do chs <- filter_choices cands 0;
      (* no passage-level input_directives here, unlike render_passage *)
      ret (mkOut txt chs pid rds ins j)
  end.

Definition ends_with_newline (s : string) : bool := endswith s (String "010"%char EmptyString).

Definition execute_join_choice (c : rchoice) : M output :=
  do s <- get;
  let pid := match cur (nc s) with Some p => p | None => ""%string end in
  do '(btxt, bds) <-
     (match ch_block (rc_choice c) with
      | [] => ret (""%string, [])
      | blk => do '(t, _, ds) <- render_content blk; ret (t, ds)
      end);
  do s1 <- get;
  let idx := match lookup pid (joinidx (nc s1)) with Some n => n | None => 0 end in
  do post <- render_from_join_marker pid idx;
  do s2 <- get;
  do _ <- set_joinidx (set_key pid (S idx) (joinidx (nc s2)));
  let combined :=
      if String.eqb (o_content post) "" then btxt
      else if negb (String.eqb btxt "") && negb (ends_with_newline btxt)
           then (btxt ++ String "010"%char (o_content post))%string
           else (btxt ++ o_content post)%string in
  let bdirs := map (fun d => match d with
                             | DRender r => r
                             | DInput a => RDError "input"%string ""%string
                             | DChoice c _ => RDError "choice"%string ""%string
                             end) bds in
  let result := mkOut combined (o_choices post) pid (bdirs ++ o_render post)%list (o_input post) (o_jump post) in
  do _ <- set_out result;
  after_hooks result.

(* ---------------------------------------------------------------------------------------- *)
(* engine operations on the whole state *)
Definition run_nav {A} (m : M A) (e : estate) : estate * res A :=
  match m (mkNS (ec e) (escopes e) (elog e)) with
  | (s, r) => (mkES (nc s) (undo_stack e) (redo_stack e) (scopes s) (log s), r)
  end.

Definition MAXUNDO : nat := 50.
(* deque(maxlen=50).append: newest at the head here, the oldest falls off *)
Definition push50 (c : core) (l : list core) : list core := firstn MAXUNDO (c :: l).

Definition add_used (x : string) (u : list string) : list string := if str_in x u then u else (u ++ [x])%list.

Definition choose_nav (ch : rchoice) (o : output) : M output :=
  do _ <- (if ch_sticky (rc_choice ch) then ret tt else
             fun s => set_used (add_used (choice_id (o_pid o) (rc_text ch) (ch_target (rc_choice ch)))
                                         (used (nc s))) s);
  if String.eqb (ch_target (rc_choice ch)) "@join" then execute_join_choice ch
  else
    do r <- goto (jump_spec (ch_target (rc_choice ch)) (ch_args (rc_choice ch)));
    after_hooks r.

Definition current_out (e : estate) : output :=
  match out (ec e) with Some o => o | None => mkOut "" [] "" [] [] None end.

Definition choose (e : estate) (i : Z) : estate * res output :=
  let o := current_out e in
  if (i <? 0)%Z || (Z.of_nat (List.length (o_choices o)) <=? i)%Z then (e, Exc IndexError) else
  match nth_error (o_choices o) (Z.to_nat i) with
  | None => (e, Exc IndexError)
  | Some ch =>
      let e1 := mkES (ec e) (push50 (ec e) (undo_stack e)) [] (escopes e) (elog e) in
      run_nav (choose_nav ch o) e1
  end.

Definition undo (e : estate) : estate * bool :=
  match undo_stack e with
  | [] => (e, false)
  | prev :: rest => (mkES prev rest (ec e :: redo_stack e) (escopes e) (elog e), true)
  end.

Definition redo (e : estate) : estate * bool :=
  match redo_stack e with
  | [] => (e, false)
  | nxt :: rest => (mkES nxt (push50 (ec e) (undo_stack e)) rest (escopes e) (elog e), true)
  end.

Definition goto_op (e : estate) (spec : string) : estate * res output := run_nav (goto spec) e.

Definition reset_one_time (e : estate) : estate :=
  let c := ec e in
  mkES (mkCore (cur c) (vars c) [] (hooks c) (joinidx c) (out c)) (undo_stack e) (redo_stack e) (escopes e) (elog e).

Definition empty_core (v0 : env) : core := mkCore None v0 [] [] [] None.

(* __init__: imports give the initial variables v0 (oracle: executing import lines is outside the model) *)
Definition init (v0 : env) : estate * res output :=
  let e0 := mkES (empty_core (set_key "_inputs" (VDict []) v0)) [] [] [] [] in
  match get_passage st (initial st) with
  | None => (e0, Exc ValueError)
  | Some _ => goto_op e0 (initial st)
  end.

End WithOracle.
