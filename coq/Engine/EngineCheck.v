(* Running the engine model on operation histories and comparing with what the implementation did
   (used by the generated cases of the engine properties). *)
From Coq Require Import String Ascii List Bool ZArith Arith.
From Bardic Require Import PyStr Value Compiled Engine PyMini.
Import ListNotations.
Local Open Scope list_scope.

Inductive op :=
| OpChoose (i : Z) | OpUndo | OpRedo | OpGoto (spec : string) | OpReset | OpRead
| OpReload    (* save_state -> JSON -> load_state into a fresh engine, play continues there: by C05 (load_faithful)
                 the situation is unchanged and both stacks are empty *)
| OpInput (k v : string)   (* submit_inputs({k: v}): merged into the variable _inputs, nothing else happens *)
| OpBadLoad   (* load_state of a malformed document: ValueError, the running game untouched (C05 load_rejects_malformed) *)
| OpSave      (* keep save_state() (after a JSON round trip) in the one save slot: no effect on the game *)
| OpLoad.     (* load_state(slot) into the SAME engine: the saved situation, both stacks empty (no-op when the slot is
                 empty).  The slot lives in [run]; [step] alone treats OpSave/OpLoad as no-ops. *)

Inductive obs := ObsOk | ObsExc (e : exn) | ObsBool (b : bool).

Record view := mkView {
  v_cur : string;
  v_vars : env;
  v_used : list string;
  v_hooks : hookmap;
  v_join : list (string * nat);
  v_content : string;
  v_choices : list (string * string * string);      (* text, target, args *)
  v_pid : string;
  v_render : list rdir;
  v_input : list (list (string * string));
  v_can_undo : bool;
  v_can_redo : bool;
  v_depth : nat }.

Definition view_of (e : estate) : view :=
  let c := ec e in
  let o := current_out e in
  mkView (match cur c with Some p => p | None => "" end) (vars c) (used c) (hooks c) (joinidx c)
         (o_content o)
         (map (fun rc => (rc_text rc, ch_target (rc_choice rc), ch_args (rc_choice rc))) (o_choices o))
         (o_pid o) (o_render o) (o_input o)
         (match undo_stack e with [] => false | _ => true end)
         (match redo_stack e with [] => false | _ => true end)
         (List.length (escopes e)).

Section Run.
Variable orc : pyorc.
Variable ctxkeys : list string.
Variable st : story.

Definition step (e : estate) (o : op) : estate * obs :=
  match o with
  | OpChoose i => match choose orc ctxkeys st e i with
                  | (e', Ok _) => (e', ObsOk)
                  | (e', Exc x) => (e', ObsExc x)
                  end
  | OpUndo => let '(e', b) := undo e in (e', ObsBool b)
  | OpRedo => let '(e', b) := redo e in (e', ObsBool b)
  | OpGoto spec => match goto_op orc ctxkeys st e spec with
                   | (e', Ok _) => (e', ObsOk)
                   | (e', Exc x) => (e', ObsExc x)
                   end
  | OpReset => (reset_one_time e, ObsOk)
  | OpRead => (e, ObsOk)
  | OpReload => (mkES (ec e) [] [] (escopes e) (elog e), ObsOk)
  | OpSave | OpLoad => (e, ObsOk)
  | OpBadLoad => (e, ObsExc ValueError)
  | OpInput k v =>
      let c := ec e in
      let d := match lookup "_inputs"%string (vars c) with Some (VDict d) => d | _ => [] end in
      (mkES (mkCore (cur c) (set_key "_inputs"%string (VDict (set_key k (VStr v) d)) (vars c)) (used c) (hooks c)
                    (joinidx c) (out c))
            (undo_stack e) (redo_stack e) (escopes e) (elog e), ObsOk)
  end.

Fixpoint run_slot (e : estate) (slot : option core) (ops : list op) : list (obs * view) :=
  match ops with
  | [] => []
  | OpSave :: r => (ObsOk, view_of e) :: run_slot e (Some (ec e)) r
  | OpLoad :: r =>
      match slot with
      | Some c => let e' := mkES c [] [] (escopes e) (elog e) in (ObsOk, view_of e') :: run_slot e' slot r
      | None => (ObsOk, view_of e) :: run_slot e slot r
      end
  | o :: r => let '(e', b) := step e o in (b, view_of e') :: run_slot e' slot r
  end.
Definition run (e : estate) (ops : list op) : list (obs * view) := run_slot e None ops.

Definition run_all (v0 : env) (ops : list op) : list (obs * view) :=
  match init orc ctxkeys st v0 with
  | (e0, Ok _) => (ObsOk, view_of e0) :: run e0 ops
  | (e0, Exc x) => [(ObsExc x, view_of e0)]
  end.
End Run.

(* ---- comparison ---- *)
Fixpoint list_eqb {A} (f : A -> A -> bool) (a b : list A) : bool :=
  match a, b with
  | [], [] => true
  | x :: r, y :: s => f x y && list_eqb f r s
  | _, _ => false
  end.

Definition opt_eqb {A} (f : A -> A -> bool) (a b : option A) : bool :=
  match a, b with Some x, Some y => f x y | None, None => true | _, _ => false end.

(* dict equality: same keys, equal values, any order *)
Definition map_sub {A} (f : A -> A -> bool) (a b : list (string * A)) : bool :=
  forallb (fun kv => match lookup (fst kv) b with Some v => f (snd kv) v | None => false end) a.
Definition map_eqb {A} (f : A -> A -> bool) (a b : list (string * A)) : bool :=
  Nat.eqb (List.length a) (List.length b) && map_sub f a b && map_sub f b a.

Fixpoint subset (a b : list string) : bool :=
  match a with [] => true | x :: r => str_in x b && subset r b end.
Definition set_eqb (a b : list string) : bool := subset a b && subset b a.

Definition pair_eqb (a b : string * string) : bool := String.eqb (fst a) (fst b) && String.eqb (snd a) (snd b).

Definition rdir_eqb (a b : rdir) : bool :=
  match a, b with
  | RDEval n d f, RDEval n' d' f' =>
      String.eqb n n' && list_eqb (fun x y => String.eqb (fst x) (fst y) && value_eqb (snd x) (snd y)) d d'
      && opt_eqb String.eqb f f'
  | RDError n r, RDError n' r' => String.eqb n n' && String.eqb r r'
  | _, _ => false
  end.

Definition obs_eqb (a b : obs) : bool :=
  match a, b with
  | ObsOk, ObsOk => true
  | ObsExc x, ObsExc y => exn_eqb x y
  | ObsBool x, ObsBool y => Bool.eqb x y
  | _, _ => false
  end.

(* hook lists: an event with an empty list and an absent event are the same registration state *)
Definition hooks_norm (h : hookmap) : hookmap := filter (fun kv => match snd kv with [] => false | _ => true end) h.

(* variables whose names start with "_" other than _inputs are engine-private and not compared *)
Definition view_eqb (a b : view) : bool :=
  String.eqb (v_cur a) (v_cur b)
  && map_eqb value_eqb (v_vars a) (v_vars b)
  && set_eqb (v_used a) (v_used b)
  && map_eqb (list_eqb String.eqb) (hooks_norm (v_hooks a)) (hooks_norm (v_hooks b))
  && map_eqb Nat.eqb (v_join a) (v_join b)
  && String.eqb (v_content a) (v_content b)
  && list_eqb (fun x y => let '(t, g, r) := x in let '(t', g', r') := y in
                          String.eqb t t' && String.eqb g g' && String.eqb r r') (v_choices a) (v_choices b)
  && String.eqb (v_pid a) (v_pid b)
  && list_eqb rdir_eqb (v_render a) (v_render b)
  && list_eqb (list_eqb pair_eqb) (v_input a) (v_input b)
  && Bool.eqb (v_can_undo a) (v_can_undo b)
  && Bool.eqb (v_can_redo a) (v_can_redo b)
  && Nat.eqb (v_depth a) (v_depth b).

(* names of the view fields on which two steps differ (for the replay file / failing-input search) *)
Definition diff_fields (a b : obs * view) : list string :=
  let '(oa, va) := a in let '(ob, vb) := b in
  (if obs_eqb oa ob then [] else ["obs"%string]) ++
  (if String.eqb (v_cur va) (v_cur vb) then [] else ["cur"%string]) ++
  (if map_eqb value_eqb (v_vars va) (v_vars vb) then [] else ["vars"%string]) ++
  (if set_eqb (v_used va) (v_used vb) then [] else ["used"%string]) ++
  (if map_eqb (list_eqb String.eqb) (hooks_norm (v_hooks va)) (hooks_norm (v_hooks vb)) then [] else ["hooks"%string]) ++
  (if map_eqb Nat.eqb (v_join va) (v_join vb) then [] else ["join"%string]) ++
  (if String.eqb (v_content va) (v_content vb) then [] else ["content"%string]) ++
  (if list_eqb (fun x y => let '(t, g, r) := x in let '(t', g', r') := y in
                           String.eqb t t' && String.eqb g g' && String.eqb r r') (v_choices va) (v_choices vb)
   then [] else ["choices"%string]) ++
  (if String.eqb (v_pid va) (v_pid vb) then [] else ["pid"%string]) ++
  (if list_eqb rdir_eqb (v_render va) (v_render vb) then [] else ["render"%string]) ++
  (if list_eqb (list_eqb pair_eqb) (v_input va) (v_input vb) then [] else ["input"%string]) ++
  (if Bool.eqb (v_can_undo va) (v_can_undo vb) then [] else ["can_undo"%string]) ++
  (if Bool.eqb (v_can_redo va) (v_can_redo vb) then [] else ["can_redo"%string]) ++
  (if Nat.eqb (v_depth va) (v_depth vb) then [] else ["depth"%string]).

Definition step_eqb (a b : obs * view) : bool := obs_eqb (fst a) (fst b) && view_eqb (snd a) (snd b).

(* an engine case: story, code tables, initial variables, operations, what the implementation did *)
Definition ecase := (story * tables * env * list op * list (obs * view))%type.

Definition ecase_model (c : ecase) : list (obs * view) :=
  let '(st, tb, v0, ops, _) := c in run_all (mini_orc tb) [] st v0 ops.

Definition ecase_bad (c : ecase) : bool :=
  let '(_, _, _, _, exp) := c in negb (list_eqb step_eqb (ecase_model c) exp).

(* the browser fork has no hook registry and no @join progress: those two fields are not compared *)
Definition forget_hj (v : view) : view :=
  mkView (v_cur v) (v_vars v) (v_used v) [] [] (v_content v) (v_choices v) (v_pid v) (v_render v) (v_input v)
         (v_can_undo v) (v_can_redo v) (v_depth v).
Definition step_eqb_browser (a b : obs * view) : bool :=
  obs_eqb (fst a) (fst b) && view_eqb (forget_hj (snd a)) (forget_hj (snd b)).
Definition ecase_bad_browser (c : ecase) : bool :=
  let '(_, _, _, _, exp) := c in negb (list_eqb step_eqb_browser (ecase_model c) exp).

(* index of the first differing step, for the replay file *)
Fixpoint first_diff (a b : list (obs * view)) (i : nat) : option nat :=
  match a, b with
  | [], [] => None
  | x :: r, y :: s => if step_eqb x y then first_diff r s (S i) else Some i
  | _, _ => Some i
  end.

Definition ecase_show (c : ecase) :=
  let '(_, _, _, _, exp) := c in
  let m := ecase_model c in
  match first_diff m exp 0 with
  | Some i =>
      (Some i,
       match nth_error m i, nth_error exp i with
       | Some a, Some b => diff_fields a b
       | _, _ => ["length"%string]
       end,
       nth_error m i)
  | None => (None, [], None)
  end.
