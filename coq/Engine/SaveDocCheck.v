(* Correspondence helper for C05: the document of save_state() (Engine/SaveLoad.v save_json with the concrete encoder
   of the displayed output, Engine/SaveOutEnc.v) against the document the real engine returned after the same
   history: the 12 top-level keys and the 6 keys of current_output in order, and the values. *)
From Coq Require Import String Ascii List Bool ZArith Arith.
From Bardic Require Import PyStr Value Compiled Engine PyMini EngineCheck Codec SaveLoad SaveOutEnc.
Import ListNotations.
Local Open Scope string_scope.
Local Open Scope list_scope.

(* the state a history ends in: EngineCheck.run_slot, returning the state instead of the views *)
Fixpoint final_slot (orc : pyorc) (st : story) (e : estate) (slot : option core) (ops : list op) : estate :=
  match ops with
  | [] => e
  | OpSave :: r => final_slot orc st e (Some (ec e)) r
  | OpLoad :: r =>
      match slot with
      | Some c => final_slot orc st (mkES c [] [] (escopes e) (elog e)) slot r
      | None => final_slot orc st e slot r
      end
  | o :: r => final_slot orc st (fst (step orc [] st e o)) slot r
  end.

(* story, code tables, operations, the timestamp the implementation wrote, the implementation's document *)
Definition scase := (story * tables * list op * string * json)%type.
Definition save_fuel : nat := 50.

Definition model_doc (c : scase) : option json :=
  let '(st, tb, ops, now, _) := c in
  match init (mini_orc tb) [] st [] with
  | (e0, Ok _) =>
      save_json st [] save_fuel (out_enc_std [] save_fuel) now (final_slot (mini_orc tb) st e0 None ops)
  | _ => None
  end.

Definition ojeq (a b : option json) : bool :=
  match a, b with Some x, Some y => json_eqb x y | None, None => true | _, _ => false end.
Definition jkeys (j : json) : list string := match j with JObj o => map fst o | _ => [] end.
Definition drop_key (k : string) (j : json) : json :=
  match j with JObj o => JObj (filter (fun kv => negb (String.eqb (fst kv) k)) o) | x => x end.
Definition only_out (j : json) : json :=
  match j with JObj o => match lookup "current_output" o with Some x => x | None => JNull end | x => x end.
Definition jstrs (j : json) : list string :=
  match j with JList l => map (fun x => match x with JStr s => s | _ => "" end) l | _ => [] end.

(* used_choices: the engine keeps a set and writes sorted(...); the model keeps the order of use (the views compare
   it as a set too, EngineCheck.view_eqb): same strings, same number *)
Definition same_used (m e : json) : bool :=
  match m, e with
  | JObj mo, JObj eo =>
      match lookup "used_choices" mo, lookup "used_choices" eo with
      | Some a, Some b => set_eqb (jstrs a) (jstrs b) && Nat.eqb (List.length (jstrs a)) (List.length (jstrs b))
      | _, _ => false
      end
  | _, _ => false
  end.

(* (1) key order, top level and current_output; (2) every top-level value except used_choices (as a set) and
   current_output; (3) current_output except the compiled choice dicts (whose optional keys SaveOutEnc does not model) *)
Definition scase_keys_ok (m e : json) : bool :=
  list_eqb String.eqb (jkeys m) (jkeys e) && list_eqb String.eqb (jkeys (only_out m)) (jkeys (only_out e)).
Definition scase_top_ok (m e : json) : bool :=
  json_eqb (drop_key "used_choices" (drop_key "current_output" m))
           (drop_key "used_choices" (drop_key "current_output" e)) && same_used m e.
Definition scase_out_ok (m e : json) : bool :=
  json_eqb (drop_key "choices" (only_out m)) (drop_key "choices" (only_out e)).

Definition scase_bad (c : scase) : bool :=
  let '(_, _, _, _, e) := c in
  match model_doc c with
  | Some m => negb (scase_keys_ok m e && scase_top_ok m e && scase_out_ok m e)
  | None => true
  end.
Definition scase_show (c : scase) :=
  let '(_, _, _, _, e) := c in
  match model_doc c with
  | Some m => (scase_keys_ok m e, scase_top_ok m e, scase_out_ok m e, Some (drop_key "choices" (only_out m)), Some (drop_key "current_output" m))
  | None => (false, false, false, None, None)
  end.
