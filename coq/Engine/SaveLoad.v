(* Model of BardEngine.save_state / load_state (the document as a JSON tree). *)
From Coq Require Import String Ascii List Bool ZArith Arith.
From Bardic Require Import PyStr Value Compiled Engine Codec.
Import ListNotations.
Local Open Scope list_scope.
Local Open Scope string_scope.

Section WithOracle.
Variable orc : pyorc.
Variable ctxkeys : list string.
Variable st : story.
Variable cx : ctx.                         (* classes known to the engine (for the value codec, C06) *)
Variable fuel : nat.                       (* nesting budget of to_save_dict calls, see Codec.ser *)
(* the displayed output as JSON: choices carry their whole compiled dict; encoding and decoding it is a
   plain data copy in the implementation; here an abstract pair, constrained only in the theorems *)
Variable out_enc : output -> json.
Variable out_dec : json -> option output.

Definition jget (k : string) (j : json) : option json :=
  match j with JObj o => lookup k o | _ => None end.

Definition enc_strs (l : list string) : json := JList (map JStr l).
Definition enc_hooks (h : hookmap) : json := JObj (map (fun kv => (fst kv, enc_strs (snd kv))) h).
Definition enc_join (j : list (string * nat)) : json :=
  JObj (map (fun kv => (fst kv, JInt (Z.of_nat (snd kv)))) j).

(* story_metadata.get(key, "unknown"): the values of a compiled story's @metadata block are strings *)
Definition meta_or_unknown (k : string) : json :=
  match lookup k (metadata st) with Some s => JStr s | None => JStr "unknown" end.

(* the "metadata" entry of the document *)
Definition enc_save_meta : json :=
  JObj [("passage_count", JInt (Z.of_nat (List.length (passages st))));
        ("initial_passage", JStr (initial st))].

(* save_state(): a function of the state, the story and the clock only (nothing is changed); None = a variable is
   not serialisable.  All 12 keys of the real document, in its order.  now = self._get_timestamp()
   (datetime.now().isoformat()), abstract.  load_state reads story_name / story_id only to print a warning and
   never looks at story_version, timestamp or metadata: decode_doc / load below ignore the five of them. *)
Definition save_json (now : string) (e : estate) : option json :=
  let c := ec e in
  match save_doc fuel fixed cx (vars c) with
  | None => None
  | Some sd =>
      Some (JObj [("version", JStr "0.1.0");
                  ("story_version", meta_or_unknown "version");
                  ("story_name", meta_or_unknown "title");
                  ("story_id", meta_or_unknown "story_id");
                  ("timestamp", JStr now);
                  ("current_passage_id", match cur c with Some p => JStr p | None => JNull end);
                  ("state", JObj sd);
                  ("used_choices", enc_strs (used c));
                  ("metadata", enc_save_meta);
                  ("hooks", enc_hooks (hooks c));
                  ("join_section_index", enc_join (joinidx c));
                  ("current_output", match out c with Some o => out_enc o | None => JNull end)])
  end.

(* ---- decoding with validation ---- *)
Definition dec_str (j : json) : option string := match j with JStr s => Some s | _ => None end.
Definition dec_strs (j : json) : option (list string) :=
  match j with JList l => mapM dec_str l | _ => None end.
Definition dec_hooks (j : json) : option hookmap :=
  match j with JObj o => mapMi dec_strs o | _ => None end.
Definition dec_nat (j : json) : option nat :=
  match j with JInt z => if (0 <=? z)%Z then Some (Z.to_nat z) else None | _ => None end.
Definition dec_join (j : json) : option (list (string * nat)) :=
  match j with JObj o => mapMi dec_nat o | _ => None end.

Definition is_obj (j : json) : bool := match j with JObj _ => true | _ => false end.
Definition is_str (j : json) : bool := match j with JStr _ => true | _ => false end.
Definition choice_shape (j : json) : bool :=
  match jget "text" j, jget "target" j with
  | Some (JStr _), Some (JStr _) => true
  | _, _ => false
  end.
Definition list_of (p : json -> bool) (j : option json) : bool :=
  match j with
  | None => true                                   (* .get(key, []) *)
  | Some (JList l) => forallb p l
  | Some _ => false
  end.

(* _deserialize_output's shape test *)
Definition output_shape (j : json) : bool :=
  is_obj j &&
  match jget "content" j with Some (JStr _) => true | _ => false end &&
  match jget "passage_id" j with Some (JStr p) => has_key p (passages st) | _ => false end &&
  match jget "choices" j with Some (JList l) => forallb choice_shape l | _ => false end &&
  list_of is_obj (jget "render_directives" j) &&
  list_of is_obj (jget "input_directives" j) &&
  match jget "jump_target" j with None | Some JNull | Some (JStr _) => true | _ => false end.

Record decoded := mkDec {
  dc_target : string;
  dc_state : list (string * json);
  dc_used : list string;
  dc_hooks : hookmap;
  dc_join : list (string * nat);
  dc_output : option json }.

(* the validation part of load_state: None = ValueError, nothing touched *)
Definition decode_doc (j : json) : option decoded :=
  match j with
  | JObj o =>
      match lookup "version" o with
      | None => None
      | Some _ =>
          match (match lookup "current_passage_id" o with
                 | None => Some "Start" | Some (JStr s) => Some s | Some _ => None end) with
          | None => None
          | Some target =>
              if negb (has_key target (passages st)) then None else
              match (match lookup "state" o with None => Some [] | Some (JObj sd) => Some sd | Some _ => None end),
                    (match lookup "used_choices" o with None => Some [] | Some u => dec_strs u end),
                    (match lookup "hooks" o with None => Some [] | Some h => dec_hooks h end),
                    (match lookup "join_section_index" o with None => Some [] | Some x => dec_join x end) with
              | Some sd, Some u, Some h, Some jn =>
                  match lookup "current_output" o with
                  | None | Some JNull => Some (mkDec target sd u h jn None)
                  | Some oj => if output_shape oj then Some (mkDec target sd u h jn (Some oj)) else None
                  end
              | _, _, _, _ => None
              end
          end
      end
  | _ => None
  end.

Definition valid_doc (j : json) : bool := match decode_doc j with Some _ => true | None => false end.

(* load_state *)
Definition load (e0 : estate) (j : json) : estate * res unit :=
  match decode_doc j with
  | None => (e0, Exc ValueError)
  | Some d =>
      match load_doc fixed cx (vars (ec e0)) (dc_state d),
            (match dc_output d with None => Some None
                                  | Some oj => match out_dec oj with Some o => Some (Some o) | None => None end end) with
      | Some vars', Some outp =>
          match outp with
          | Some o =>
              (mkES (mkCore (Some (dc_target d)) vars' (dc_used d) (dc_hooks d) (dc_join d) (Some o))
                    [] [] (escopes e0) (elog e0), Ok tt)
          | None =>
              (* a save without the displayed output (older format): re-enter the passage *)
              let e1 := mkES (mkCore (cur (ec e0)) vars' (dc_used d) (dc_hooks d) (joinidx (ec e0)) (out (ec e0)))
                             [] [] (escopes e0) (elog e0) in
              match goto_op orc ctxkeys st e1 (dc_target d) with
              | (e2, Ok _) => (e2, Ok tt)
              | (_, Exc _) => (e0, Exc ValueError)      (* the running game is put back *)
              end
          end
      | _, _ => (e0, Exc ValueError)
      end
  end.

End WithOracle.
