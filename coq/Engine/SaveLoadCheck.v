(* Correspondence helper for C05: load_state's shape test on real (mutated) save documents. *)
From Coq Require Import String Ascii List Bool ZArith Arith.
From Bardic Require Import PyStr Value Compiled Engine Codec SaveLoad.
Import ListNotations.

(* only the passage names of the story matter to the shape test *)
Definition stub_story (names : list string) : story :=
  mkStory "" (map (fun n => (n, mkPassage n [] [] [] [] [] [])) names) [] [].

(* (passage names, document, did the implementation accept it) *)
Definition vcase := (list string * json * bool)%type.
Definition vcase_bad (c : vcase) : bool :=
  let '(names, j, accepted) := c in negb (Bool.eqb (valid_doc (stub_story names) j) accepted).
Definition vcase_show (c : vcase) := let '(names, j, _) := c in valid_doc (stub_story names) j.
