(* The displayed output as save data: BardEngine._serialize_output (engine.py).  PassageOutput's fields are plain
   Python data - choices are the compiled choice dicts with "text" replaced by the rendered text
   ({**choice, "text": rendered}), render directives are the dicts built by _process_render_directive, input
   directives are the compiled input dicts - and each list goes through _serialize_value (Codec.ser).
   The dict layouts follow the compiler's token dicts (the keys read by harness/story2coq.py).  A list of pairs that
   the model reads out of a Python dict (input attributes) is written back with dict construction, so a repeated
   key - impossible in Python - keeps its first position and its last value.
   Not modelled: the text of a failed directive's error message ("error": ""), the framework processor's entry of a
   directive with a framework hint (only "framework" is written), optional keys that the compiler leaves out. *)
From Coq Require Import String Ascii List Bool ZArith.
From Bardic Require Import PyStr Value Compiled Engine Codec.
Import ListNotations.
Local Open Scope list_scope.
Local Open Scope string_scope.

Definition vopt (o : option string) : value := match o with Some s => VStr s | None => VNone end.

(* {"type": ty, **attrs} *)
Definition attrs_value (ty : string) (a : list (string * string)) : value :=
  VDict (update [("type", VStr ty)] (map (fun kv => (fst kv, VStr (snd kv))) a)).

Definition choice_fields (f : token -> value) (c : choice) : list (string * value) :=
  match c with
  | Choice tx tg ar cd stk sec tgs blk =>
      [("text", VList (map f tx)); ("target", VStr tg); ("args", VStr ar); ("condition", vopt cd);
       ("sticky", VBool stk); ("tags", VList (map VStr tgs)); ("section", VInt (Z.of_nat sec));
       ("block_content", VList (map f blk))]
  end.

Fixpoint tok_value (t : token) : value :=
  match t with
  | TText v => VDict [("type", VStr "text"); ("value", VStr v)]
  | TExpr c => VDict [("type", VStr "expression"); ("code", VStr c)]
  | TInlineCond c tr fa =>
      VDict [("type", VStr "inline_conditional"); ("condition", VStr c);
             ("truthy", VList (map tok_value tr)); ("falsy", VList (map tok_value fa))]
  | TCond brs =>
      VDict [("type", VStr "conditional");
             ("branches",
              VList (map (fun b => match b with
                                   | Branch c cont chs =>
                                       VDict [("condition", VStr c); ("content", VList (map tok_value cont));
                                              ("choices", VList (map (fun ch => VDict (choice_fields tok_value ch)) chs))]
                                   end) brs))]
  | TLoop v c cont chs =>
      VDict [("type", VStr "for_loop"); ("variable", VStr v); ("collection", VStr c);
             ("content", VList (map tok_value cont));
             ("choices", VList (map (fun ch => VDict (choice_fields tok_value ch)) chs))]
  | TJump tg ar => VDict [("type", VStr "jump"); ("target", VStr tg); ("args", VStr ar)]
  | TPyStmt c => VDict [("type", VStr "python_statement"); ("code", VStr c)]
  | TPyBlock c => VDict [("type", VStr "python_block"); ("code", VStr c)]
  | THook a ev tg =>
      VDict [("type", VStr "hook"); ("action", VStr (if a then "add" else "remove")); ("event", VStr ev);
             ("target", VStr tg)]
  | TRender n ar fw =>
      VDict [("type", VStr "render_directive"); ("name", VStr n); ("args", VStr ar); ("framework_hint", vopt fw)]
  | TInput a => attrs_value "input" a
  | TJoinMarker i => VDict [("type", VStr "join_marker"); ("id", VInt (Z.of_nat i))]
  end.

(* {**choice, "text": rendered_text} *)
Definition rchoice_value (rc : rchoice) : value :=
  VDict (set_key "text" (VStr (rc_text rc)) (choice_fields tok_value (rc_choice rc))).

Definition rdir_value (r : rdir) : value :=
  match r with
  | RDEval n data fw =>
      VDict ([("type", VStr "render_directive"); ("name", VStr n); ("mode", VStr "evaluated"); ("data", VDict data)]
             ++ match fw with Some f => [("framework", VStr f)] | None => [] end)
  | RDError n raw =>
      VDict [("type", VStr "render_directive"); ("name", VStr n); ("mode", VStr "error"); ("error", VStr "");
             ("raw_args", VStr raw)]
  end.

Section Enc.
Variable cx : ctx.
Variable fuel : nat.

(* _serialize_value on one field; where the real call raises (an object nested deeper than the budget) the
   model of the field is null - save_json is then not the document of a completed save_state() *)
Definition ser_field (v : value) : json :=
  match ser fuel fixed cx v with Some j => j | None => JNull end.

Definition out_enc_std (o : output) : json :=
  JObj [("content", JStr (o_content o));
        ("choices", ser_field (VList (map rchoice_value (o_choices o))));
        ("passage_id", JStr (o_pid o));
        ("render_directives", ser_field (VList (map rdir_value (o_render o))));
        ("input_directives", ser_field (VList (map (attrs_value "input") (o_input o))));
        ("jump_target", match o_jump o with Some s => JStr s | None => JNull end)].
End Enc.
