(* Model of bardic/cli/graph.py: extract_connections (the static walk of a compiled story that the
   `bardic graph` command draws) and the `missing = referenced - defined` set of generate_graph.
   Everything up to, and not including, graphviz rendering.

   The model follows the tree AFTER the candidate fix F18a (proposed_fixes/F18a-join-not-missing.diff):
   the reserved choice target "@join" is not a passage reference (no edge, not in `referenced`).
   The walk is parameterised by the "is this target a passage reference" test so that the behaviour
   of the tree before the fix (`target` merely non-empty) can still be evaluated: see the *_unpatched
   definitions at the end and the refutation witness in Props/C18.v.

   Python                                   here
   ------                                   ----
   connections[passage_id] : list of        list (string * ekind); the label and is_jump fields are
     (target, label, is_jump)                 a function of where the edge was found (ekind)
   for choice in passage["choices"]         choice_edges KChoice (choices p)
   extract_jumps_from_content               content_edges = flat tok_edges
     "jump"                                   TJump
     "conditional": per branch,               branch_edges: choices of the branch first, then its content
        choices then content
     "for_loop": choices then content         TLoop
     every other kind: nothing                _ => []   (inline conditionals, choice texts and the
                                                block_content of "-> @join" choices are not visited)
   referenced_passages / defined_passages   referenced / defined (lists standing for sets)
   missing = referenced - defined           missing *)
From Coq Require Import String Ascii List Bool.
From Bardic Require Import PyStr Value Compiled.
Import ListNotations.
Local Open Scope string_scope.
Local Open Scope list_scope.

(* where an edge was found; determines the (label, is_jump) pair of the Python tuple:
   KChoice ("[choice]", False)  KCond ("[conditional]", False)  KLoop ("[loop]", False)  KJump ("->", True) *)
Inductive ekind := KChoice | KCond | KLoop | KJump.

Definition ekind_eqb (a b : ekind) : bool :=
  match a, b with
  | KChoice, KChoice | KCond, KCond | KLoop, KLoop | KJump, KJump => true
  | _, _ => false
  end.

Definition is_jump (k : ekind) : bool := match k with KJump => true | _ => false end.

Definition JOIN_TARGET : string := "@join".

(* `if target and target != JOIN_TARGET:` *)
Definition is_ref (t : string) : bool := negb (String.eqb t "") && negb (String.eqb t JOIN_TARGET).

Section Walk.
Variable isref : string -> bool.

(* for choice in <list>: target = choice.get("target"); if <isref target>: add *)
Definition choice_edges (k : ekind) : list choice -> list (string * ekind) :=
  fix go (l : list choice) : list (string * ekind) :=
    match l with
    | [] => []
    | c :: r => if isref (ch_target c) then (ch_target c, k) :: go r else go r
    end.

(* for token in content_tokens: ... (the per-token function is a parameter so that tok_edges below is a
   structural Fixpoint on token, as in Engine.v) *)
Definition flat (f : token -> list (string * ekind)) : list token -> list (string * ekind) :=
  fix go (l : list token) : list (string * ekind) :=
    match l with
    | [] => []
    | t :: r => f t ++ go r
    end.

Definition branch_edges (f : token -> list (string * ekind)) : list branch -> list (string * ekind) :=
  fix go (l : list branch) : list (string * ekind) :=
    match l with
    | [] => []
    | Branch _ cont chs :: r => choice_edges KCond chs ++ flat f cont ++ go r
    end.

Fixpoint tok_edges (t : token) {struct t} : list (string * ekind) :=
  match t with
  | TJump target _ => if isref target then [(target, KJump)] else []
  | TCond brs => branch_edges tok_edges brs
  | TLoop _ _ cont chs => choice_edges KLoop chs ++ flat tok_edges cont
  | TText _ | TExpr _ | TInlineCond _ _ _ | TPyStmt _ | TPyBlock _ | THook _ _ _
  | TRender _ _ _ | TInput _ | TJoinMarker _ => []
  end.

(* extract_jumps_from_content *)
Definition content_edges : list token -> list (string * ekind) := flat tok_edges.

(* the body of `for passage_id, passage_data in passages.items()` *)
Definition passage_edges (p : passage) : list (string * ekind) :=
  choice_edges KChoice (choices p) ++ content_edges (content p).

(* connections: passage id -> edges, in dict order *)
Definition connections_with (st : story) : list (string * list (string * ekind)) :=
  map (fun kv => (fst kv, passage_edges (snd kv))) (passages st).

End Walk.

Definition extract_connections (st : story) : list (string * list (string * ekind)) :=
  connections_with is_ref st.

(* defined_passages: the dict keys *)
Definition defined (st : story) : list string := map fst (passages st).

(* referenced_passages: a target is added exactly when an edge to it is appended *)
Definition referenced_of (conns : list (string * list (string * ekind))) : list string :=
  flat_map (fun kv => map fst (snd kv)) conns.
Definition referenced (st : story) : list string := referenced_of (extract_connections st).

(* all (source, target, kind) triples *)
Definition edges_of (conns : list (string * list (string * ekind))) : list (string * string * ekind) :=
  flat_map (fun kv => map (fun tk => (fst kv, fst tk, snd tk)) (snd kv)) conns.
Definition edges (st : story) : list (string * string * ekind) := edges_of (extract_connections st).

(* generate_graph: missing = referenced - defined *)
Definition missing_of (refd defd : list string) : list string :=
  filter (fun t => negb (str_in t defd)) refd.
Definition missing (st : story) : list string := missing_of (referenced st) (defined st).

(* what the compiler guarantees about names and what the theorems of C18 assume (checked on every
   generated story by the correspondence run): targets carry no "(" (arguments are kept apart), and no
   passage is called "" or "@join" *)
Definition plain (t : string) : bool := match find_char t "("%char with None => true | Some _ => false end.
Definition wf_graphb (st : story) : bool :=
  forallb plain (referenced st) && forallb is_ref (defined st).

(* ---------------------------------------------------------------------------------------- *)
(* the tree before F18a: `if target:` only *)
Definition is_ref_unpatched (t : string) : bool := negb (String.eqb t "").
Definition extract_connections_unpatched (st : story) := connections_with is_ref_unpatched st.
Definition referenced_unpatched (st : story) := referenced_of (extract_connections_unpatched st).
Definition missing_unpatched (st : story) := missing_of (referenced_unpatched st) (defined st).
