(* Executable comparison functions used by the generated cases of C18 (correspondence check):
   the real bardic.cli.graph.extract_connections against Graph/Graph.v on the same compiled story. *)
From Coq Require Import String Ascii List Bool.
From Bardic Require Import PyStr Value Compiled Graph.
Import ListNotations.
Local Open Scope string_scope.
Local Open Scope list_scope.

Definition edge_eqb (a b : string * ekind) : bool :=
  String.eqb (fst a) (fst b) && ekind_eqb (snd a) (snd b).
Definition subset_e (a b : list (string * ekind)) : bool :=
  forallb (fun e => existsb (edge_eqb e) b) a.
Definition set_eq_e (a b : list (string * ekind)) : bool := subset_e a b && subset_e b a.

Definition subset_s (a b : list string) : bool := forallb (fun x => str_in x b) a.
Definition set_eq_s (a b : list string) : bool := subset_s a b && subset_s b a.

(* connections: the same passage ids in the same (dict) order, the edges of each passage as sets *)
Fixpoint conns_eq (a b : list (string * list (string * ekind))) : bool :=
  match a, b with
  | [], [] => true
  | (p, ea) :: ra, (q, eb) :: rb => String.eqb p q && set_eq_e ea eb && conns_eq ra rb
  | _, _ => false
  end.

(* a case: the compiled story; what the implementation returned (connections, referenced, defined),
   referenced - defined as generate_graph computes it; whether the story came out of the compiler
   unedited (then the naming conditions the theorems assume must hold) *)
Definition gcase :=
  (story * list (string * list (string * ekind)) * list string * list string * list string * bool)%type.

Definition gcase_flags (c : gcase) : bool * bool * bool * bool * bool :=
  let '(st, conns, refd, defd, miss, compiled) := c in
  (conns_eq (extract_connections st) conns,
   set_eq_s (referenced st) refd,
   set_eq_s (defined st) defd,
   set_eq_s (missing st) miss,
   if compiled then wf_graphb st else true).

Definition gcase_bad (c : gcase) : bool :=
  let '(a, b, d, e, f) := gcase_flags c in negb (a && b && d && e && f).

(* for the replay file: which comparison failed, what the model says, and whether the implementation
   behaves like the tree before F18a *)
Definition gcase_show (c : gcase) :=
  let '(st, conns, refd, defd, miss, compiled) := c in
  (gcase_flags c, extract_connections st, missing st,
   conns_eq (extract_connections_unpatched st) conns && set_eq_s (missing_unpatched st) miss).

(* does the implementation behave like the tree before F18a on this case?  (used only to name the
   finding when gcase_bad holds) *)
Definition gcase_bad_unpatched (c : gcase) : bool :=
  let '(st, conns, refd, defd, miss, compiled) := c in
  negb (conns_eq (extract_connections_unpatched st) conns && set_eq_s (referenced_unpatched st) refd &&
        set_eq_s (defined st) defd && set_eq_s (missing_unpatched st) miss).
