(* A mini-Python: the concrete instance of the author-code oracles used by the correspondence
   check and by Examples.  No property theorem depends on it (they hold for arbitrary oracles).
   Code strings are looked up in per-case tables filled by the harness with Python's own `ast`. *)
From Coq Require Import String Ascii List Bool ZArith Arith.
From Bardic Require Import PyStr Value Compiled Engine.
Import ListNotations.
Local Open Scope list_scope.
Local Open Scope string_scope.

Inductive binop := Add | Sub | Mul | FloorDiv | Mod.
Inductive cmpop := Eq | Ne | Lt | Le | Gt | Ge | In | NotIn.

Inductive expr :=
| ENone | EBool (b : bool) | EInt (z : Z) | EStr (s : string) | EName (x : string)
| EBin (o : binop) (a b : expr)
| ECmp (o : cmpop) (a b : expr)
| EAnd (a b : expr) | EOr (a b : expr) | ENot (a : expr) | ENeg (a : expr)
| EList (l : list expr) | ETuple (l : list expr) | EDict (d : list (string * expr))
| EIndex (a i : expr)
| ESlice (a lo hi : expr)                     (* a[lo:hi]; a missing bound is ENone (a[None:None] = a[:]) *)
| EAttr (a : expr) (name : string)
| ECall (f : string) (args : list expr)
| EMeth (a : expr) (m : string) (args : list expr)
| EIfExp (c a b : expr).

Inductive stmt :=
| SAssign (x : string) (e : expr)
| SAug (x : string) (o : binop) (e : expr)
| SExpr (e : expr)
| SAppend (x : string) (e : expr)              (* x.append(e) *)
| SSetItem (x : string) (k e : expr)           (* x[k] = e *)
| SSetAttr (x attr : string) (e : expr)        (* x.attr = e *)
| SAugAttr (x attr : string) (o : binop) (e : expr)
| SPass.

Definition as_int (v : value) : option Z :=
  match v with
  | VInt z => Some z
  | VBool true => Some 1%Z
  | VBool false => Some 0%Z
  | _ => None
  end.

(* == : bool is an int in Python *)
Definition py_eq (a b : value) : bool :=
  match as_int a, as_int b with
  | Some x, Some y => Z.eqb x y
  | Some _, None | None, Some _ => false
  | None, None => value_eqb a b
  end.

Definition builtin_names : list string :=
  ["len"; "str"; "int"; "bool"; "range"; "abs"; "min"; "max"; "sum"; "list"; "dict"; "tuple"; "set";
   "float"; "enumerate"; "zip"; "round"; "sorted"; "reversed"; "any"; "all"; "type"; "isinstance"; "print"].

Fixpoint range_list (start : Z) (n : nat) : list value :=
  match n with O => [] | S k => VInt start :: range_list (start + 1) k end.

Definition binop_eval (o : binop) (a b : value) : res value :=
  match as_int a, as_int b with
  | Some x, Some y =>
      match o with
      | Add => Ok (VInt (x + y))
      | Sub => Ok (VInt (x - y))
      | Mul => Ok (VInt (x * y))
      | FloorDiv => if Z.eqb y 0 then Exc ZeroDivisionError else Ok (VInt (Z.div x y))
      | Mod => if Z.eqb y 0 then Exc ZeroDivisionError else Ok (VInt (Z.modulo x y))
      end
  | _, _ =>
      match o, a, b with
      | Add, VStr x, VStr y => Ok (VStr (x ++ y))
      | Add, VList x, VList y => Ok (VList (x ++ y)%list)
      | _, _, _ => Exc TypeError
      end
  end.

Definition cmp_eval (o : cmpop) (a b : value) : res bool :=
  match o with
  | Eq => Ok (py_eq a b)
  | Ne => Ok (negb (py_eq a b))
  | In | NotIn =>
      let r := match b with
               | VList l | VTuple l => Ok (existsb (py_eq a) l)
               | VStr s => match a with VStr x => Ok (str_contains s x) | _ => Exc TypeError end
               | VDict d => match a with VStr k => Ok (has_key k d) | _ => Ok false end
               | _ => Exc TypeError
               end in
      match o, r with
      | In, _ => r
      | _, Ok x => Ok (negb x)
      | _, Exc e => Exc e
      end
  | _ =>
      match as_int a, as_int b with
      | Some x, Some y =>
          Ok (match o with
              | Lt => Z.ltb x y | Le => Z.leb x y | Gt => Z.gtb x y | _ => Z.geb x y
              end)
      | _, _ => Exc TypeError
      end
  end.

Definition index_eval (a i : value) : res value :=
  match a with
  | VList l | VTuple l =>
      match as_int i with
      | Some z =>
          let n := Z.of_nat (List.length l) in
          let z' := if (z <? 0)%Z then (z + n)%Z else z in
          if (z' <? 0)%Z || (n <=? z')%Z then Exc IndexError
          else Ok (nth (Z.to_nat z') l VNone)
      | None => Exc TypeError
      end
  | VStr s =>
      match as_int i with
      | Some z =>
          let n := Z.of_nat (String.length s) in
          let z' := if (z <? 0)%Z then (z + n)%Z else z in
          if (z' <? 0)%Z || (n <=? z')%Z then Exc IndexError
          else Ok (VStr (take 1 (drop (Z.to_nat z') s)))
      | None => Exc TypeError
      end
  | VDict d =>
      match i with
      | VStr k => match lookup k d with Some v => Ok v | None => Exc KeyError end
      | _ => Exc KeyError
      end
  | _ => Exc TypeError
  end.

(* a[lo:hi] with Python's clamping; a bound is None or an int (bools are ints) *)
Definition slice_bound (v : value) (n dflt : Z) : res Z :=
  match v with
  | VNone => Ok dflt
  | _ => match as_int v with
         | Some z => let z' := if (z <? 0)%Z then (z + n)%Z else z in
                     Ok (if (z' <? 0)%Z then 0%Z else if (n <? z')%Z then n else z')
         | None => Exc TypeError
         end
  end.
Definition slice_eval (a lo hi : value) : res value :=
  let go (n : Z) (k : nat -> nat -> value) : res value :=
    match slice_bound lo n 0%Z with
    | Exc e => Exc e
    | Ok l => match slice_bound hi n n with
              | Exc e => Exc e
              | Ok h => Ok (k (Z.to_nat l) (Z.to_nat (h - l)))
              end
    end in
  match a with
  | VList l => go (Z.of_nat (List.length l)) (fun i n => VList (firstn n (skipn i l)))
  | VTuple l => go (Z.of_nat (List.length l)) (fun i n => VTuple (firstn n (skipn i l)))
  | VStr s => go (Z.of_nat (String.length s)) (fun i n => VStr (take n (drop i s)))
  | _ => Exc TypeError
  end.

Definition sum_ints (l : list value) : res value :=
  fold_left (fun acc v => match acc, as_int v with
                          | Ok (VInt a), Some z => Ok (VInt (a + z))
                          | Exc e, _ => Exc e
                          | _, _ => Exc TypeError
                          end) l (Ok (VInt 0)).

(* classes known to a case: name -> positional constructor fields *)
Definition classtab := list (string * list string).

Fixpoint zip_fields (fs : list string) (vs : list value) : option (list (string * value)) :=
  match fs, vs with
  | [], [] => Some []
  | f :: fr, v :: vr => match zip_fields fr vr with Some r => Some ((f, v) :: r) | None => None end
  | _, _ => None
  end.

Definition call_eval (cls : classtab) (ctx : env) (f : string) (args : list value) : res value :=
  match lookup f ctx with
  | Some (VClass c) =>
      match lookup c cls with
      | Some fs => match zip_fields fs args with Some a => Ok (VObj c a) | None => Exc TypeError end
      | None => Exc TypeError
      end
  | Some _ => Exc TypeError
  | None =>
      if String.eqb f "len" then
        match args with
        | [VList l] | [VTuple l] => Ok (VInt (Z.of_nat (List.length l)))
        | [VStr s] => Ok (VInt (Z.of_nat (String.length s)))
        | [VDict d] => Ok (VInt (Z.of_nat (List.length d)))
        | _ => Exc TypeError
        end
      else if String.eqb f "str" then
        match args with [v] => Ok (VStr (py_str v)) | _ => Exc TypeError end
      else if String.eqb f "int" then
        match args with
        | [v] => match as_int v with Some z => Ok (VInt z) | None => Exc TypeError end
        | _ => Exc TypeError end
      else if String.eqb f "bool" then
        match args with [v] => Ok (VBool (truthy v)) | _ => Exc TypeError end
      else if String.eqb f "abs" then
        match args with
        | [v] => match as_int v with Some z => Ok (VInt (Z.abs z)) | None => Exc TypeError end
        | _ => Exc TypeError end
      else if String.eqb f "min" then
        match args with
        | [a; b] => match as_int a, as_int b with
                    | Some x, Some y => Ok (if (y <? x)%Z then b else a) | _, _ => Exc TypeError end
        | _ => Exc TypeError end
      else if String.eqb f "max" then
        match args with
        | [a; b] => match as_int a, as_int b with
                    | Some x, Some y => Ok (if (x <? y)%Z then b else a) | _, _ => Exc TypeError end
        | _ => Exc TypeError end
      else if String.eqb f "sum" then
        match args with [VList l] => sum_ints l | _ => Exc TypeError end
      else if String.eqb f "list" then
        match args with
        | [v] => match py_iter v with Ok l => Ok (VList l) | Exc e => Exc e end
        | _ => Exc TypeError end
      else if String.eqb f "range" then
        match args with
        | [a] => match as_int a with
                 | Some n => Ok (VList (range_list 0 (Z.to_nat n))) | None => Exc TypeError end
        | [a; b] => match as_int a, as_int b with
                    | Some x, Some y => Ok (VList (range_list x (Z.to_nat (y - x))))
                    | _, _ => Exc TypeError end
        | _ => Exc TypeError end
      else if str_in f builtin_names then Exc TypeError else Exc NameError
  end.

Definition upper_char (c : ascii) : ascii :=
  let n := nat_of_ascii c in
  if ((97 <=? n) && (n <=? 122))%nat then ascii_of_nat (n - 32) else c.

Definition meth_eval (a : value) (m : string) (args : list value) : res value :=
  match a with
  | VDict d =>
      if String.eqb m "get" then
        match args with
        | [VStr k] => Ok (match lookup k d with Some v => v | None => VNone end)
        | [VStr k; dflt] => Ok (match lookup k d with Some v => v | None => dflt end)
        | [_] => Ok VNone
        | [_; dflt] => Ok dflt
        | _ => Exc TypeError
        end
      else Exc AttributeError
  | VList l =>
      if String.eqb m "count" then
        match args with
        | [v] => Ok (VInt (Z.of_nat (List.length (filter (py_eq v) l))))
        | _ => Exc TypeError end
      else Exc AttributeError
  | VStr s =>
      if String.eqb m "upper" then
        match args with
        | [] => Ok (VStr (string_of_list_ascii (map upper_char (list_ascii_of_string s))))
        | _ => Exc TypeError end
      else Exc AttributeError
  | _ => Exc AttributeError
  end.

Section Eval.
Variable cls : classtab.

Fixpoint eval (ctx : env) (e : expr) {struct e} : res value :=
  let fix evals (l : list expr) : res (list value) :=
      match l with
      | [] => Ok []
      | x :: r => match eval ctx x with
                  | Ok v => match evals r with Ok vs => Ok (v :: vs) | Exc e => Exc e end
                  | Exc e => Exc e
                  end
      end in
  let fix evald (l : list (string * expr)) : res (list (string * value)) :=
      match l with
      | [] => Ok []
      | (k, x) :: r => match eval ctx x with
                       | Ok v => match evald r with Ok vs => Ok ((k, v) :: vs) | Exc e => Exc e end
                       | Exc e => Exc e
                       end
      end in
  match e with
  | ENone => Ok VNone
  | EBool b => Ok (VBool b)
  | EInt z => Ok (VInt z)
  | EStr s => Ok (VStr s)
  | EName x =>
      match lookup x ctx with
      | Some v => Ok v
      | None => if str_in x builtin_names then Ok (VFunc x) else Exc NameError
      end
  | EBin o a b =>
      match eval ctx a with
      | Ok va => match eval ctx b with Ok vb => binop_eval o va vb | Exc e => Exc e end
      | Exc e => Exc e
      end
  | ECmp o a b =>
      match eval ctx a with
      | Ok va => match eval ctx b with
                 | Ok vb => match cmp_eval o va vb with Ok r => Ok (VBool r) | Exc e => Exc e end
                 | Exc e => Exc e end
      | Exc e => Exc e
      end
  | EAnd a b =>
      match eval ctx a with
      | Ok va => if truthy va then eval ctx b else Ok va
      | Exc e => Exc e
      end
  | EOr a b =>
      match eval ctx a with
      | Ok va => if truthy va then Ok va else eval ctx b
      | Exc e => Exc e
      end
  | ENot a => match eval ctx a with Ok va => Ok (VBool (negb (truthy va))) | Exc e => Exc e end
  | ENeg a => match eval ctx a with
              | Ok va => match as_int va with Some z => Ok (VInt (- z)) | None => Exc TypeError end
              | Exc e => Exc e end
  | EList l => match evals l with Ok vs => Ok (VList vs) | Exc e => Exc e end
  | ETuple l => match evals l with Ok vs => Ok (VTuple vs) | Exc e => Exc e end
  | EDict d => match evald d with Ok vs => Ok (VDict (update [] vs)) | Exc e => Exc e end
  | EIndex a i =>
      match eval ctx a with
      | Ok va => match eval ctx i with Ok vi => index_eval va vi | Exc e => Exc e end
      | Exc e => Exc e
      end
  | ESlice a lo hi =>
      match eval ctx a with
      | Ok va => match eval ctx lo with
                 | Ok vl => match eval ctx hi with Ok vh => slice_eval va vl vh | Exc e => Exc e end
                 | Exc e => Exc e end
      | Exc e => Exc e
      end
  | EAttr a name =>
      match eval ctx a with
      | Ok (VObj _ attrs) => match lookup name attrs with Some v => Ok v | None => Exc AttributeError end
      | Ok _ => Exc AttributeError
      | Exc e => Exc e
      end
  | ECall f args =>
      (* the callee name is resolved first: an unknown name fails before its arguments are evaluated *)
      match lookup f ctx with
      | None => if str_in f builtin_names
                then match evals args with Ok vs => call_eval cls ctx f vs | Exc e => Exc e end
                else Exc NameError
      | Some _ => match evals args with Ok vs => call_eval cls ctx f vs | Exc e => Exc e end
      end
  | EMeth a m args =>
      match eval ctx a with
      | Ok va => match evals args with Ok vs => meth_eval va m vs | Exc e => Exc e end
      | Exc e => Exc e
      end
  | EIfExp c a b =>
      match eval ctx c with
      | Ok vc => if truthy vc then eval ctx a else eval ctx b
      | Exc e => Exc e
      end
  end.

Fixpoint evals (ctx : env) (l : list expr) : res (list value) :=
  match l with
  | [] => Ok []
  | x :: r => match eval ctx x with
              | Ok v => match evals ctx r with Ok vs => Ok (v :: vs) | Exc e => Exc e end
              | Exc e => Exc e
              end
  end.

Fixpoint set_nth (l : list value) (n : nat) (v : value) : list value :=
  match l, n with
  | [], _ => []
  | _ :: r, O => v :: r
  | x :: r, S k => x :: set_nth r k v
  end.

Definition exec1 (ctx : env) (s : stmt) : res env :=
  match s with
  | SPass => Ok ctx
  | SAssign x e => match eval ctx e with Ok v => Ok (set_key x v ctx) | Exc er => Exc er end
  | SAug x o e =>
      match lookup x ctx with
      | None => Exc NameError
      | Some old =>
          match eval ctx e with
          | Ok v => match binop_eval o old v with Ok r => Ok (set_key x r ctx) | Exc er => Exc er end
          | Exc er => Exc er
          end
      end
  | SExpr e => match eval ctx e with Ok _ => Ok ctx | Exc er => Exc er end
  | SAppend x e =>
      match lookup x ctx with
      | None => Exc NameError
      | Some (VList l) => match eval ctx e with Ok v => Ok (set_key x (VList (l ++ [v])%list) ctx) | Exc er => Exc er end
      | Some _ => Exc AttributeError
      end
  | SSetItem x k e =>
      match lookup x ctx with
      | None => Exc NameError
      | Some c =>
          match eval ctx e with
          | Exc er => Exc er
          | Ok v =>
              match eval ctx k with
              | Exc er => Exc er
              | Ok kv =>
                  match c, kv with
                  | VDict d, VStr ks => Ok (set_key x (VDict (set_key ks v d)) ctx)
                  | VList l, _ =>
                      match as_int kv with
                      | Some z =>
                          let n := Z.of_nat (List.length l) in
                          let z' := if (z <? 0)%Z then (z + n)%Z else z in
                          if (z' <? 0)%Z || (n <=? z')%Z then Exc IndexError
                          else Ok (set_key x (VList (set_nth l (Z.to_nat z') v)) ctx)
                      | None => Exc TypeError
                      end
                  | _, _ => Exc TypeError
                  end
              end
          end
      end
  | SSetAttr x attr e =>
      match lookup x ctx with
      | None => Exc NameError
      | Some (VObj c attrs) =>
          match eval ctx e with Ok v => Ok (set_key x (VObj c (set_key attr v attrs)) ctx) | Exc er => Exc er end
      | Some _ => Exc AttributeError
      end
  | SAugAttr x attr o e =>
      match lookup x ctx with
      | None => Exc NameError
      | Some (VObj c attrs) =>
          match lookup attr attrs with
          | None => Exc AttributeError
          | Some old =>
              match eval ctx e with
              | Ok v => match binop_eval o old v with
                        | Ok r => Ok (set_key x (VObj c (set_key attr r attrs)) ctx)
                        | Exc er => Exc er end
              | Exc er => Exc er
              end
          end
      | Some _ => Exc AttributeError
      end
  end.

Fixpoint exec_all (ctx : env) (l : list stmt) : res env :=
  match l with
  | [] => Ok ctx
  | s :: r => match exec1 ctx s with Ok c => exec_all c r | Exc e => Exc e end
  end.

End Eval.

(* ---- format(value, spec) for the specs the generators use ---- *)
Definition pad (s : string) (width : nat) (align : ascii) (fill : ascii) : string :=
  let n := String.length s in
  if (width <=? n)%nat then s else
  let k := (width - n)%nat in
  if ascii_eqb align "<"%char then s ++ repeat_char fill k
  else if ascii_eqb align "^"%char then repeat_char fill (k / 2)%nat ++ s ++ repeat_char fill (k - k / 2)%nat
  else repeat_char fill k ++ s.

Definition is_align (c : ascii) : bool :=
  ascii_eqb c "<"%char || ascii_eqb c ">"%char || ascii_eqb c "^"%char.

Definition py_format (v : value) (spec : string) : res string :=
  if String.eqb spec "" then Ok (py_str v) else
  let '(align, rest) :=
      match spec with
      | String c r => if is_align c then (Some c, r) else (None, spec)
      | EmptyString => (None, spec)
      end in
  let '(zero, rest) :=
      match rest with
      | String "0"%char r => (true, r)
      | _ => (false, rest)
      end in
  let '(width, rest) :=
      match take_digits rest with
      | Some (w, r) => (N.to_nat w, r)
      | None => (0, rest)
      end in
  match v with
  | VInt _ | VBool _ =>
      if String.eqb rest "" || String.eqb rest "d" then
        match as_int v with
        | Some z =>
            match v, rest with
            | VBool _, "" => (* bool with empty type formats as str *)
                Ok (pad (py_str v) width (match align with Some a => a | None => "<"%char end) " "%char)
            | _, _ =>
                let digits := str_of_Z (Z.abs z) in
                let sign := if (z <? 0)%Z then "-" else "" in
                match align, zero with
                | None, true => Ok (sign ++ pad digits (width - String.length sign)%nat ">"%char "0"%char)
                | Some a, _ => Ok (pad (sign ++ digits) width a (if zero then "0"%char else " "%char))
                | None, false => Ok (pad (sign ++ digits) width ">"%char " "%char)
                end
            end
        | None => Exc ValueError
        end
      else Exc ValueError
  | VStr s =>
      if zero then Exc ValueError else
      if String.eqb rest "" || String.eqb rest "s" then
        Ok (pad s width (match align with Some a => a | None => "<"%char end) " "%char)
      else Exc ValueError
  | _ => Exc TypeError
  end.

(* ---- the oracle instance: code strings are resolved through per-case tables ---- *)
Record tables := mkTables {
  t_expr : list (string * option expr);                (* None: SyntaxError *)
  t_stmt : list (string * option (list stmt));
  t_args : list (string * option (list expr * list (string * expr)));
  t_cls : classtab }.

Definition mini_eval (tb : tables) (ctx : env) (code : string) : res value :=
  match lookup code (t_expr tb) with
  | Some (Some e) => eval (t_cls tb) ctx e
  | Some None => Exc SyntaxError
  | None => Exc OtherError          (* a string the harness did not anticipate: fails closed *)
  end.

Definition mini_exec (tb : tables) (ctx : env) (code : string) : res env :=
  match lookup code (t_stmt tb) with
  | Some (Some l) => exec_all (t_cls tb) ctx l
  | Some None => Exc SyntaxError
  | None => Exc OtherError
  end.

Fixpoint eval_kw (tb : tables) (ctx : env) (l : list (string * expr)) : res (list (string * value)) :=
  match l with
  | [] => Ok []
  | (k, x) :: r =>
      match eval (t_cls tb) ctx x with
      | Ok v => match eval_kw tb ctx r with Ok vs => Ok ((k, v) :: vs) | Exc e => Exc e end
      | Exc e => Exc e
      end
  end.

Definition mini_args (tb : tables) (ctx : env) (args : string) : res (list value * list (string * value)) :=
  match lookup args (t_args tb) with
  | Some (Some (pos, kw)) =>
      match evals (t_cls tb) ctx pos with
      | Ok vs => match eval_kw tb ctx kw with Ok ks => Ok (vs, ks) | Exc e => Exc e end
      | Exc e => Exc e
      end
  | Some None => Exc SyntaxError
  | None => Exc OtherError
  end.

Definition mini_orc (tb : tables) : pyorc :=
  mkOrc (mini_eval tb) (mini_exec tb) py_format (mini_args tb).
