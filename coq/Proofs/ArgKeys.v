(* Keys of the engine's argument dictionary (used by C05 SaveTextReach and C07 CallBindProofs).

   _parse_directive_args files positional argument number i under "arg_<i>" and then assigns the keyword arguments
   into the SAME dict (Engine.args_dict = update (number_args 0 pos) kws).  Here: decimal printing is injective, so
   the markers arg_0, arg_1, ... are distinct keys and each is recognised by is_positional_marker; what a lookup in
   args_dict finds; when args_dict is the plain concatenation. *)
From Coq Require Import String Ascii List Bool ZArith NArith Nnat Arith Lia.
From Bardic Require Import PyStr Value Compiled Engine EngineParams ParseLine.
Import ListNotations.
Local Open Scope string_scope.
Local Open Scope list_scope.

Lemma cb_sapp_cons : forall a c b, ((a ++ String c "") ++ b)%string = (a ++ String c b)%string.
Proof. induction a as [|d r IH]; intros c b; simpl; [reflexivity|rewrite IH; reflexivity]. Qed.

Lemma lookup_keys_in {A} k (l : list (string * A)) : In k (keys l) -> lookup k l <> None.
Proof.
  induction l as [|[k1 v1] r IH]; simpl; [tauto|]. intros [H|H].
  - subst. rewrite String.eqb_refl. discriminate.
  - destruct (String.eqb k k1); [discriminate|auto].
Qed.

(* ---- 6a: decimal printing is injective, arg_<i> is recognised by is_positional_marker ---- *)

Lemma digit_char_is_digit d : d < 10 -> is_digit (digit_char d) = true.
Proof.
  intros H. unfold is_digit, digit_char. rewrite nat_ascii_embedding by lia.
  apply andb_true_intro. split; apply Nat.leb_le; lia.
Qed.

Lemma digit_char_inj a b : a < 10 -> b < 10 -> digit_char a = digit_char b -> a = b.
Proof.
  intros Ha Hb H. unfold digit_char in H. apply (f_equal nat_of_ascii) in H.
  rewrite !nat_ascii_embedding in H by lia. lia.
Qed.

Lemma mod10_lt n : N.to_nat (n mod 10) < 10.
Proof. pose proof (N.mod_lt n 10 ltac:(discriminate)) as H. lia. Qed.

Lemma pdf_unfold f n acc :
  pos_digits_fuel (S f) n acc =
  if N.eqb (n / 10) 0 then String (digit_char (N.to_nat (n mod 10))) acc
  else pos_digits_fuel f (n / 10) (String (digit_char (N.to_nat (n mod 10))) acc).
Proof. reflexivity. Qed.

Lemma pdf_digits : forall f n acc,
  all_chars is_digit acc = true -> all_chars is_digit (pos_digits_fuel f n acc) = true.
Proof.
  induction f as [|f IH]; intros n acc H; [exact H|]. rewrite pdf_unfold.
  assert (Hd : all_chars is_digit (String (digit_char (N.to_nat (n mod 10))) acc) = true).
  { cbn [all_chars]. rewrite H, (digit_char_is_digit _ (mod10_lt n)). reflexivity. }
  destruct (N.eqb (n / 10) 0); [exact Hd|apply IH; exact Hd].
Qed.

Lemma pdf_acc : forall f n acc, pos_digits_fuel f n acc = (pos_digits_fuel f n "" ++ acc)%string.
Proof.
  induction f as [|f IH]; intros n acc; [reflexivity|]. rewrite !pdf_unfold.
  destruct (N.eqb (n / 10) 0); [reflexivity|].
  rewrite (IH _ (String _ acc)), (IH _ (String _ "")). rewrite cb_sapp_cons. reflexivity.
Qed.

Lemma pdf_S_nonempty f n acc : pos_digits_fuel (S f) n acc <> ""%string.
Proof.
  rewrite pdf_unfold. destruct (N.eqb (n / 10) 0); [discriminate|].
  rewrite pdf_acc. destruct (pos_digits_fuel f (n / 10) ""); discriminate.
Qed.

Lemma suff_step f n : (n < 2 ^ N.of_nat (S f))%N -> (n / 10 < 2 ^ N.of_nat f)%N.
Proof.
  intros H. rewrite Nat2N.inj_succ, N.pow_succ_r' in H. apply N.div_lt_upper_bound; [discriminate|].
  set (x := (2 ^ N.of_nat f)%N) in *. lia.
Qed.

Lemma snoc_inj : forall a b c d, (a ++ String c "")%string = (b ++ String d "")%string -> a = b /\ c = d.
Proof.
  induction a as [|x a IH]; intros [|y b] c d H; simpl in H.
  - injection H as ->. auto.
  - injection H as _ H. destruct b; discriminate.
  - injection H as _ H. destruct a; discriminate.
  - injection H as -> H. destruct (IH _ _ _ H) as [-> ->]. auto.
Qed.

Lemma pdf_inj : forall f1 n1 f2 n2,
  (n1 < 2 ^ N.of_nat f1)%N -> (n2 < 2 ^ N.of_nat f2)%N ->
  pos_digits_fuel f1 n1 "" = pos_digits_fuel f2 n2 "" -> n1 = n2.
Proof.
  induction f1 as [|f1 IH]; intros n1 f2 n2 H1 H2 E.
  - destruct f2 as [|f2]; [simpl in H1, H2; lia|].
    exfalso. symmetry in E. exact (pdf_S_nonempty _ _ _ E).
  - destruct f2 as [|f2]; [exfalso; exact (pdf_S_nonempty _ _ _ E)|].
    pose proof (suff_step _ _ H1) as Q1. pose proof (suff_step _ _ H2) as Q2.
    pose proof (mod10_lt n1) as M1. pose proof (mod10_lt n2) as M2.
    pose proof (N.div_mod n1 10 ltac:(discriminate)) as D1. pose proof (N.div_mod n2 10 ltac:(discriminate)) as D2.
    rewrite !pdf_unfold in E.
    destruct (N.eqb (n1 / 10) 0) eqn:E1; destruct (N.eqb (n2 / 10) 0) eqn:E2.
    + injection E as E. apply digit_char_inj in E; try assumption. apply N2Nat.inj in E.
      apply N.eqb_eq in E1, E2. rewrite D1, D2, E1, E2, E. reflexivity.
    + exfalso. rewrite (pdf_acc f2) in E.
      change (String (digit_char (N.to_nat (n1 mod 10))) "") with ("" ++ String (digit_char (N.to_nat (n1 mod 10))) "")%string in E.
      apply snoc_inj in E. destruct E as [E _]. apply N.eqb_neq in E2.
      destruct f2 as [|f2]; [simpl in Q2; lia|]. symmetry in E. exact (pdf_S_nonempty _ _ _ E).
    + exfalso. rewrite (pdf_acc f1) in E.
      change (String (digit_char (N.to_nat (n2 mod 10))) "") with ("" ++ String (digit_char (N.to_nat (n2 mod 10))) "")%string in E.
      apply snoc_inj in E. destruct E as [E _]. apply N.eqb_neq in E1.
      destruct f1 as [|f1]; [simpl in Q1; lia|]. exact (pdf_S_nonempty _ _ _ E).
    + rewrite (pdf_acc f1), (pdf_acc f2) in E. apply snoc_inj in E. destruct E as [E Ed].
      apply IH in E; try assumption. apply digit_char_inj in Ed; try assumption. apply N2Nat.inj in Ed.
      rewrite D1, D2, E, Ed. reflexivity.
Qed.

Lemma str_of_N_suff n : (n < 2 ^ N.of_nat (S (N.to_nat (N.log2 n))))%N.
Proof.
  rewrite Nat2N.inj_succ, N2Nat.id. destruct n as [|p]; [reflexivity|]. apply N.log2_spec. reflexivity.
Qed.

Lemma str_of_N_inj a b : str_of_N a = str_of_N b -> a = b.
Proof. unfold str_of_N. apply pdf_inj; apply str_of_N_suff. Qed.

Lemma arg_key_inj i j : arg_key i = arg_key j -> i = j.
Proof.
  unfold arg_key. intros H. cbn [append] in H. injection H as H. apply str_of_N_inj in H. apply Nat2N.inj. exact H.
Qed.

Lemma marker_arg x : is_positional_marker ("arg_" ++ x) = nonempty x && all_chars is_digit x.
Proof. destruct x; reflexivity. Qed.

Lemma arg_key_is_marker j : is_positional_marker (arg_key j) = true.
Proof.
  unfold arg_key. rewrite marker_arg. unfold str_of_N. rewrite pdf_digits by reflexivity.
  destruct (pos_digits_fuel _ _ _) eqn:E; [exfalso; exact (pdf_S_nonempty _ _ _ E)|reflexivity].
Qed.

Lemma number_args_lookup : forall pos b j, lookup (arg_key (b + j)) (number_args b pos) = nth_error pos j.
Proof.
  induction pos as [|v r IH]; intros b j; [destruct j; reflexivity|].
  cbn [number_args lookup]. change ("arg_" ++ str_of_N (N.of_nat b))%string with (arg_key b).
  destruct (String.eqb (arg_key (b + j)) (arg_key b)) eqn:E.
  - apply String.eqb_eq, arg_key_inj in E. assert (j = 0) by lia. subst j. reflexivity.
  - destruct j as [|j]; [rewrite Nat.add_0_r, String.eqb_refl in E; discriminate|].
    replace (b + S j) with (S b + j) by lia. cbn [nth_error]. apply IH.
Qed.

Lemma number_args_keys_markers : forall pos b k, In k (keys (number_args b pos)) -> is_positional_marker k = true.
Proof.
  induction pos as [|v r IH]; intros b k H; [destruct H|]. cbn [number_args keys map fst] in H.
  destruct H as [<-|H]; [exact (arg_key_is_marker b)|]. eapply IH. exact H.
Qed.

Lemma number_args_nodup : forall pos b, NoDup (keys (number_args b pos)).
Proof.
  induction pos as [|v r IH]; intros b; [constructor|]. cbn [number_args keys map fst].
  constructor; [|apply IH]. change ("arg_" ++ str_of_N (N.of_nat b))%string with (arg_key b).
  intros Hin. assert (Hl : lookup (arg_key b) (number_args (S b) r) <> None) by (apply lookup_keys_in; exact Hin).
  clear -Hl. assert (G : forall pos c, b < c -> lookup (arg_key b) (number_args c pos) = None).
  { induction pos as [|v' r' IH']; intros c Hc; [reflexivity|]. cbn [number_args lookup].
    change ("arg_" ++ str_of_N (N.of_nat c))%string with (arg_key c).
    destruct (String.eqb (arg_key b) (arg_key c)) eqn:E; [apply String.eqb_eq, arg_key_inj in E; lia|].
    apply IH'. lia. }
  apply Hl, G. lia.
Qed.

(* ---- the dict the engine builds: update (number_args 0 pos) kws ---- *)

(* a lookup finds the LAST keyword entry of that name, else the positional entry *)
Lemma args_dict_lookup pos kws k :
  lookup k (args_dict pos kws) =
  match lookup k (rev kws) with Some v => Some v | None => lookup k (number_args 0 pos) end.
Proof. unfold args_dict. apply lookup_update. Qed.

Lemma set_key_keys_in {A} k (v : A) : forall e k', In k' (keys e) -> In k' (keys (set_key k v e)).
Proof.
  induction e as [|[k1 v1] r IH]; intros k' H; [destruct H|]. cbn [set_key].
  destruct (String.eqb k k1) eqn:E.
  - apply String.eqb_eq in E. subst k1. exact H.
  - destruct H as [H|H]; [left; exact H|right; apply IH; exact H].
Qed.

Lemma set_key_keys {A} k (v : A) : forall e k', In k' (keys (set_key k v e)) -> k' = k \/ In k' (keys e).
Proof.
  induction e as [|[k1 v1] r IH]; intros k' H; cbn [set_key] in H.
  - destruct H as [H|[]]. left. symmetry. exact H.
  - destruct (String.eqb k k1) eqn:E.
    + apply String.eqb_eq in E. subst k1. right. exact H.
    + destruct H as [H|H]; [right; left; exact H|]. destruct (IH _ H) as [G|G]; [left; exact G|right; right; exact G].
Qed.

Lemma set_key_nodup {A} k (v : A) : forall e, NoDup (keys e) -> NoDup (keys (set_key k v e)).
Proof.
  induction e as [|[k1 v1] r IH]; intros H; cbn [set_key]; [repeat constructor; intros []|].
  inversion H as [|? ? Hn Hr]; subst. destruct (String.eqb k k1) eqn:E.
  - apply String.eqb_eq in E. subst k1. constructor; assumption.
  - cbn [keys map fst]. constructor; [|apply IH; exact Hr]. intros Hin. apply set_key_keys in Hin.
    destruct Hin as [G|G]; [subst k1; rewrite String.eqb_refl in E; discriminate|exact (Hn G)].
Qed.

Lemma update_nodup {A} (o : list (string * A)) : forall e, NoDup (keys e) -> NoDup (keys (update e o)).
Proof.
  unfold update. induction o as [|[k v] r IH]; intros e H; [exact H|]. cbn [fold_left fst snd].
  apply IH. apply set_key_nodup. exact H.
Qed.

(* it is a dict: no key occurs twice, whatever the keywords are (f(1, arg_0=2), f(a=1, a=2)) *)
Lemma args_dict_nodup pos kws : NoDup (keys (args_dict pos kws)).
Proof. unfold args_dict. apply update_nodup. apply number_args_nodup. Qed.

Lemma set_key_fresh {A} k (v : A) : forall e, ~ In k (keys e) -> set_key k v e = e ++ [(k, v)].
Proof.
  induction e as [|[k1 v1] r IH]; intros H; [reflexivity|]. cbn [set_key].
  destruct (String.eqb k k1) eqn:E; [apply String.eqb_eq in E; subst k1; exfalso; apply H; left; reflexivity|].
  cbn [app]. rewrite IH; [reflexivity|]. intros G. apply H. right. exact G.
Qed.

Lemma update_fresh {A} (o : list (string * A)) : forall e,
  NoDup (keys o) -> (forall k, In k (keys o) -> ~ In k (keys e)) -> update e o = e ++ o.
Proof.
  unfold update. induction o as [|[k v] r IH]; intros e Hnd Hf; [rewrite app_nil_r; reflexivity|].
  cbn [fold_left fst snd]. inversion Hnd as [|? ? Hn Hr]; subst.
  rewrite (set_key_fresh k v e) by (apply Hf; left; reflexivity).
  rewrite IH; [rewrite <- app_assoc; reflexivity|exact Hr|].
  intros k' Hk' Hin. unfold keys in Hin. rewrite map_app in Hin. apply in_app_or in Hin. destruct Hin as [Hin|Hin].
  - apply (Hf k'); [right; exact Hk'|exact Hin].
  - destruct Hin as [<-|[]]. exact (Hn Hk').
Qed.

(* for the calls a compiled story can make (keywords distinct, none named like a marker: fixes F07d, F07e) the dict
   is the numbered values followed by the keyword pairs *)
Lemma args_dict_app pos kws :
  NoDup (map fst kws) -> (forall k, In k (map fst kws) -> is_positional_marker k = false) ->
  args_dict pos kws = number_args 0 pos ++ kws.
Proof.
  intros Hnd Hu. unfold args_dict. apply update_fresh; [exact Hnd|].
  intros k Hk Hin. apply number_args_keys_markers in Hin. rewrite (Hu k Hk) in Hin. discriminate.
Qed.
