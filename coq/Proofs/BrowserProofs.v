(* Lemmas for C19: on stories of the common subset the main engine model never exercises what the browser
   fork lacks (hooks, @join sections, '-> @join' choices). *)
From Coq Require Import String Ascii List Bool ZArith Arith Lia.
From Bardic Require Import PyStr Value Compiled Engine EngineBase EngineNav EngineParams EngineSem EngineJump
     EngineUndo EngineHooks EngineChoice Browser Graph GraphProofs.
Import ListNotations.
Local Open Scope list_scope.

Definition plain_choice (c : choice) : Prop := String.eqb (ch_target c) "@join" = false /\ ch_section c = 0.

Definition nohj_choice (c : choice) : bool :=
  forallb nohj_tok (ch_text c) && forallb nohj_tok (ch_block c) &&
  negb (String.eqb (ch_target c) "@join") && Nat.eqb (ch_section c) 0.
Definition nohj_branch (b : branch) : bool :=
  match b with Branch _ cont chs => forallb nohj_tok cont && forallb nohj_choice chs end.

Lemma nohj_chs_eq (l : list choice) :
  (fix chs (l : list choice) : bool :=
     match l with
     | [] => true
     | Choice tx tg _ _ _ sec _ blk :: r =>
         forallb nohj_tok tx && forallb nohj_tok blk && negb (String.eqb tg "@join") && Nat.eqb sec 0 && chs r
     end) l = forallb nohj_choice l.
Proof.
  induction l as [|[tx tg ar cd sk sec tgs blk] r IH]; [reflexivity|]. rewrite IH. reflexivity.
Qed.

Lemma nohj_tok_cond brs : nohj_tok (TCond brs) = forallb nohj_branch brs.
Proof.
  induction brs as [|[cond cont chs] r IH]; [reflexivity|].
  simpl in *. rewrite IH. rewrite (nohj_chs_eq chs). reflexivity.
Qed.

Lemma nohj_tok_loop v c cont chs : nohj_tok (TLoop v c cont chs) = forallb nohj_tok cont && forallb nohj_choice chs.
Proof. simpl. rewrite (nohj_chs_eq chs). reflexivity. Qed.

Lemma nohj_choice_plain c : nohj_choice c = true -> plain_choice c.
Proof.
  unfold nohj_choice. intros H. repeat (apply andb_true_iff in H; destruct H as [H ?]).
  split; [apply negb_true_iff; assumption|apply Nat.eqb_eq; assumption].
Qed.

(* every choice nested in a token of the common subset is an ordinary section-0 choice *)
Lemma nohj_tok_choices t : nohj_tok t = true -> forall c k, In (c, k) (tok_choices t) -> plain_choice c.
Proof.
  induction t using token_ind'; intros Hn c0 k Hin; try (simpl in Hin; contradiction).
  - (* TCond *)
    rewrite nohj_tok_cond in Hn. rewrite forallb_forall in Hn.
    change (In (c0, k) (br_choices tok_choices brs)) in Hin.
    apply br_choices_in in Hin. destruct Hin as (cond & cont & chs & Hb & Hin).
    pose proof (Hn _ Hb) as Hnb. simpl in Hnb. apply andb_true_iff in Hnb. destruct Hnb as [Hc Hch].
    rewrite Forall_forall in H. pose proof (H _ Hb) as [Hcont _].
    destruct Hin as [Hin|Hin].
    + apply in_map_iff in Hin. destruct Hin as (c1 & E & Hc1). inversion E; subst.
      apply nohj_choice_plain. rewrite forallb_forall in Hch. auto.
    + apply flatl_in in Hin. destruct Hin as (t & Ht & Hin).
      unfold PL in Hcont. rewrite Forall_forall in Hcont. eapply Hcont; eauto.
      rewrite forallb_forall in Hc. auto.
  - (* TLoop *)
    rewrite nohj_tok_loop in Hn. apply andb_true_iff in Hn. destruct Hn as [Hc Hch].
    simpl in Hin. apply in_app_or in Hin. destruct Hin as [Hin|Hin].
    + apply in_map_iff in Hin. destruct Hin as (c1 & E & Hc1). inversion E; subst.
      apply nohj_choice_plain. rewrite forallb_forall in Hch. auto.
    + apply flatl_in in Hin. destruct Hin as (t & Ht & Hin).
      unfold PL in H. rewrite Forall_forall in H. eapply H; eauto. rewrite forallb_forall in Hc. auto.
Qed.

Lemma common_passage_choices p c k : common_passage p = true -> passage_choice p c k -> plain_choice c.
Proof.
  unfold common_passage. intros H. apply andb_true_iff in H. destruct H as [H Hchs].
  apply andb_true_iff in H. destruct H as [Hcont _].
  intros [[Hin _]|Hin].
  - rewrite forallb_forall in Hchs. specialize (Hchs _ Hin). apply nohj_choice_plain. exact Hchs.
  - unfold content_choices in Hin. apply flatl_in in Hin. destruct Hin as (t & Ht & Hin).
    rewrite forallb_forall in Hcont. eapply nohj_tok_choices; eauto.
Qed.

Lemma common_story_passage st pid p : common_story st = true -> get_passage st pid = Some p -> common_passage p = true.
Proof.
  unfold common_story, get_passage. intros H Hp. rewrite forallb_forall in H.
  induction (passages st) as [|[k v] r IH]; simpl in *; [discriminate|].
  destruct (String.eqb pid k).
  - inversion Hp; subst. apply (H (k, p)). left. reflexivity.
  - apply IH; auto; intros x Hx; apply H; right; exact Hx.
Qed.

Section WithOracle.
Variable orc : pyorc.
Variable ctxkeys : list string.
Variable st : story.

(* whatever a passage of a common-subset story offers is an ordinary choice of section 0: the '-> @join' path of
   choose() is never taken and the section filter of _render_passage never hides anything *)
Lemma common_offers_plain pid s s' o :
  common_story st = true -> render_passage orc ctxkeys st pid s = (s', Ok o) ->
  forall rc, In rc (o_choices o) -> plain_choice (rc_choice rc).
Proof.
  intros Hc H rc Hin. destruct (render_passage_positions orc ctxkeys st pid s s' o H) as (p & Hp & _ & _ & Hch).
  destruct (Hch rc Hin) as (k & Hk). eapply common_passage_choices; eauto. eapply common_story_passage; eauto.
Qed.

(* while nothing is registered the hook machinery is inert: the turn_end run returns the output unchanged and
   touches nothing *)
Lemma after_hooks_inert o s :
  lookup "turn_end"%string (hooks (nc s)) = None -> after_hooks orc ctxkeys st o s = (s, Ok o).
Proof.
  intros H. unfold after_hooks, trigger_event, bind, get. rewrite H. reflexivity.
Qed.

End WithOracle.

(* hook registrations change only through hook commands (the frame lemmas: HooksStep), which a common-subset
   story does not contain; section numbers: a section-0 choice passes the section test whenever the passage's
   progress is 0, which is what goto sets and only a '-> @join' choice changes *)
Lemma section_test_vacuous c fd : ch_section c = 0 -> dir_section c fd = 0.
Proof. intros H. unfold dir_section. destruct fd; auto. Qed.
