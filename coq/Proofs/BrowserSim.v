(* C19: the model of the browser fork (Engine/BrowserEngine.v) refines the model of the main engine
   (Engine/Engine.v) on stories of the common subset (Browser.common_story), for every oracle and every operation
   list: a step-by-step simulation.

   Relation between a main state and a browser state: same position, variables, used choices, shown output, scope
   stack and ghost log; on the MAIN side no hook is registered, every join index is 0 and no '-> @join' choice is on
   offer (the invariant of reachable main states on common stories); the browser side's hooks / joinidx fields are
   unconstrained - the browser model never looks at them. *)
From Coq Require Import String Ascii List Bool ZArith Arith Lia.
From Bardic Require Import PyStr Value Compiled Engine PyMini EngineCheck EngineBase Browser BrowserProofs
     BrowserEngine BrowserCheck.
Import ListNotations.
Local Open Scope list_scope.

(* ---------------------------------------------------------------------------------------- *)
(* the relation *)
Definition all_zero (j : list (string * nat)) : Prop := Forall (fun kv => snd kv = 0) j.

Definition plain_output (o : output) : Prop :=
  Forall (fun rc => String.eqb (ch_target (rc_choice rc)) "@join" = false) (o_choices o).
Definition plain_opt (o : option output) : Prop := match o with Some x => plain_output x | None => True end.

Record simc (cm cb : core) : Prop := mkSimc {
  sc_cur : cur cm = cur cb;
  sc_vars : vars cm = vars cb;
  sc_used : used cm = used cb;
  sc_out : out cm = out cb;
  sc_hooks : hooks cm = [];
  sc_join : all_zero (joinidx cm);
  sc_plain : plain_opt (out cm) }.

Record sim_ns (s sb : nstate) : Prop := mkSimNs {
  sn_core : simc (nc s) (nc sb);
  sn_scopes : scopes s = scopes sb;
  sn_log : log s = log sb }.

Record sim_es (e eb : estate) : Prop := mkSimEs {
  se_core : simc (ec e) (ec eb);
  se_undo : Forall2 simc (undo_stack e) (undo_stack eb);
  se_redo : Forall2 simc (redo_stack e) (redo_stack eb);
  se_scopes : escopes e = escopes eb;
  se_log : elog e = elog eb }.

Lemma all_zero_set_key k j : all_zero j -> all_zero (set_key k 0 j).
Proof.
  unfold all_zero. induction j as [|[k' v] r IH]; simpl; intros H.
  - constructor; [reflexivity|constructor].
  - inversion H; subst. destruct (String.eqb k k'); constructor; auto.
Qed.

Lemma all_zero_lookup k j n : all_zero j -> lookup k j = Some n -> n = 0.
Proof.
  unfold all_zero. induction j as [|[k' v] r IH]; simpl; intros H E; [discriminate|].
  inversion H; subst. destruct (String.eqb k k'); [inversion E; subst; assumption|auto].
Qed.

(* ---------------------------------------------------------------------------------------- *)
(* simulation of monadic computations *)
Definition res_rel {A B} (R : A -> B -> Prop) (r : res A) (rb : res B) : Prop :=
  match r, rb with
  | Ok a, Ok b => R a b
  | Exc e, Exc e' => e = e'
  | _, _ => False
  end.

Definition SimM {A B} (R : A -> B -> Prop) (m : M A) (mb : M B) : Prop :=
  forall s sb, sim_ns s sb -> sim_ns (fst (m s)) (fst (mb sb)) /\ res_rel R (snd (m s)) (snd (mb sb)).

Lemma SimM_ret {A B} (R : A -> B -> Prop) a b : R a b -> SimM R (ret a) (ret b).
Proof. intros H s sb Hs. split; [exact Hs|exact H]. Qed.

Lemma SimM_raise {A B} (R : A -> B -> Prop) e : SimM R (raise e) (raise e).
Proof. intros s sb Hs. split; [exact Hs|reflexivity]. Qed.

Lemma SimM_bind {A B A' B'} (R : A -> B -> Prop) (R' : A' -> B' -> Prop) m mb (f : A -> M A') (fb : B -> M B') :
  SimM R m mb -> (forall a b, R a b -> SimM R' (f a) (fb b)) -> SimM R' (bind m f) (bind mb fb).
Proof.
  intros Hm Hf s sb Hs. destruct (Hm s sb Hs) as [H1 H2]. unfold bind.
  destruct (m s) as [s1 [a|e]], (mb sb) as [sb1 [b|e']]; simpl in *; try contradiction.
  - apply Hf; assumption.
  - split; assumption.
Qed.

Lemma SimM_bind_eq {A A' B'} (R' : A' -> B' -> Prop) (m mb : M A) (f : A -> M A') (fb : A -> M B') :
  SimM eq m mb -> (forall a, SimM R' (f a) (fb a)) -> SimM R' (bind m f) (bind mb fb).
Proof. intros Hm Hf. eapply SimM_bind; [exact Hm|]. intros a b <-. apply Hf. Qed.

Lemma SimM_catch {A B} (R : A -> B -> Prop) m mb (h : exn -> M A) (hb : exn -> M B) :
  SimM R m mb -> (forall e, SimM R (h e) (hb e)) -> SimM R (catch m h) (catch mb hb).
Proof.
  intros Hm Hh s sb Hs. destruct (Hm s sb Hs) as [H1 H2]. unfold catch.
  destruct (m s) as [s1 [a|e]], (mb sb) as [sb1 [b|e']]; simpl in *; try contradiction.
  - split; assumption.
  - subst e'. apply Hh; assumption.
Qed.

Lemma SimM_finally {A B C D} (R : A -> B -> Prop) (R' : C -> D -> Prop) m mb (f : M unit) (fb : M unit) :
  SimM R m mb -> SimM (fun _ _ => True) f fb -> SimM R (finally m f) (finally mb fb).
Proof.
  intros Hm Hf s sb Hs. destruct (Hm s sb Hs) as [H1 H2]. unfold finally.
  destruct (m s) as [s1 r], (mb sb) as [sb1 rb]; simpl in *.
  split; [apply Hf; assumption|assumption].
Qed.

Lemma SimM_weaken {A B} (R R' : A -> B -> Prop) m mb :
  (forall a b, R a b -> R' a b) -> SimM R m mb -> SimM R' m mb.
Proof.
  intros HR Hm s sb Hs. destruct (Hm s sb Hs) as [H1 H2]. split; [assumption|].
  destruct (snd (m s)), (snd (mb sb)); simpl in *; auto.
Qed.

(* a fact about every value the main computation can return may be added to the relation *)
Lemma SimM_post {A B} (R : A -> B -> Prop) (Q : A -> Prop) m mb :
  SimM R m mb -> (forall s s' a, m s = (s', Ok a) -> Q a) -> SimM (fun a b => R a b /\ Q a) m mb.
Proof.
  intros Hm HQ s sb Hs. destruct (Hm s sb Hs) as [H1 H2]. split; [assumption|].
  destruct (m s) as [s1 [a|e]] eqn:E, (mb sb) as [sb1 [b|e']]; simpl in *; try contradiction; auto.
  split; [assumption|]. eapply HQ; eauto.
Qed.

Lemma SimM_get : SimM sim_ns get get.
Proof. intros s sb Hs. split; exact Hs. Qed.

(* the main side looks at its own state where the browser side does not *)
Lemma SimM_get_left {A B} (R : A -> B -> Prop) (f : nstate -> M A) (mb : M B) :
  (forall s0, all_zero (joinidx (nc s0)) -> SimM R (f s0) mb) -> SimM R (bind get f) mb.
Proof.
  intros H s sb Hs. unfold bind, get. apply H; [|exact Hs]. apply (sc_join _ _ (sn_core _ _ Hs)).
Qed.

Lemma SimM_lift {A} (r : res A) : SimM eq (lift_res r) (lift_res r).
Proof. intros s sb Hs. split; [exact Hs|]. destruct r; reflexivity. Qed.

Lemma SimM_ctx_now : SimM eq ctx_now ctx_now.
Proof.
  intros s sb Hs. split; [exact Hs|]. simpl.
  rewrite (sc_vars _ _ (sn_core _ _ Hs)), (sn_scopes _ _ Hs). reflexivity.
Qed.

Lemma SimM_emit e : SimM eq (emit e) (emit e).
Proof.
  intros s sb [Hc Hsc Hl]. split; [|reflexivity]. simpl. constructor; simpl; [assumption|assumption|].
  rewrite Hl. reflexivity.
Qed.

Lemma SimM_reader {A} (F : nstate -> A) :
  (forall s sb, sim_ns s sb -> F s = F sb) ->
  SimM eq (fun s => (s, Ok (F s))) (fun s => (s, Ok (F s))).
Proof. intros H s sb Hs. split; [exact Hs|]. simpl. apply H. exact Hs. Qed.

Lemma SimM_set_vars_fun (F : nstate -> env) :
  (forall s sb, sim_ns s sb -> F s = F sb) ->
  SimM eq (fun s => set_vars (F s) s) (fun s => set_vars (F s) s).
Proof.
  intros H s sb Hs. rewrite (H s sb Hs). destruct Hs as [[H1 H2 H3 H4 H5 H6 H7] Hsc Hl].
  split; [|reflexivity]. simpl. constructor; simpl; auto. constructor; simpl; auto.
Qed.

Lemma SimM_set_vars v : SimM eq (set_vars v) (set_vars v).
Proof. apply (SimM_set_vars_fun (fun _ => v)). reflexivity. Qed.

Lemma SimM_set_used_fun (F : nstate -> list string) :
  (forall s sb, sim_ns s sb -> F s = F sb) ->
  SimM eq (fun s => set_used (F s) s) (fun s => set_used (F s) s).
Proof.
  intros H s sb Hs. rewrite (H s sb Hs). destruct Hs as [[H1 H2 H3 H4 H5 H6 H7] Hsc Hl].
  split; [|reflexivity]. simpl. constructor; simpl; auto. constructor; simpl; auto.
Qed.

Lemma SimM_set_cur p : SimM eq (set_cur p) (set_cur p).
Proof.
  intros s sb [[H1 H2 H3 H4 H5 H6 H7] Hsc Hl]. split; [|reflexivity]. simpl.
  constructor; simpl; auto. constructor; simpl; auto.
Qed.

Lemma SimM_set_out o : plain_output o -> SimM eq (set_out o) (set_out o).
Proof.
  intros Hp s sb [[H1 H2 H3 H4 H5 H6 H7] Hsc Hl]. split; [|reflexivity]. simpl.
  constructor; simpl; auto. constructor; simpl; auto.
Qed.

Lemma SimM_push_scope e : SimM eq (push_scope e) (push_scope e).
Proof.
  intros s sb [Hc Hsc Hl]. split; [|reflexivity]. simpl. constructor; simpl; auto. rewrite Hsc. reflexivity.
Qed.

Lemma SimM_pop_scope : SimM eq pop_scope pop_scope.
Proof.
  intros s sb [Hc Hsc Hl]. split; [|reflexivity]. simpl. constructor; simpl; auto. rewrite Hsc. reflexivity.
Qed.

(* goto's join progress reset exists on the main side only *)
Lemma SimM_join_reset {A B} (R : A -> B -> Prop) pid (f : M A) (fb : M B) :
  SimM R f fb ->
  SimM R (bind get (fun s => bind (set_joinidx (set_key pid 0 (joinidx (nc s)))) (fun _ => f))) fb.
Proof.
  intros H s sb Hs. unfold bind at 1 2, get, set_joinidx. apply H.
  destruct Hs as [[H1 H2 H3 H4 H5 H6 H7] Hsc Hl]. constructor; simpl; auto.
  constructor; simpl; auto. apply all_zero_set_key. exact H6.
Qed.

Section WithOracle.
Variable orc : pyorc.
Variable ctxkeys : list string.
Variable st : story.

(* while no hook is registered, the turn_end run after a navigation is the identity *)
Lemma SimM_after_hooks {B} (R : output -> B -> Prop) m (mb : M B) :
  SimM R m mb -> SimM R (bind m (after_hooks orc ctxkeys st)) mb.
Proof.
  intros H s sb Hs. destruct (H s sb Hs) as [H1 H2]. unfold bind.
  destruct (m s) as [s1 [a|e]]; simpl in *; [|split; assumption].
  rewrite after_hooks_inert; [split; assumption|].
  rewrite (sc_hooks _ _ (sn_core _ _ H1)). reflexivity.
Qed.

(* ---------------------------------------------------------------------------------------- *)
(* author code: the same function on both sides *)
Lemma SimM_exec_statement c : SimM eq (exec_statement orc ctxkeys c) (exec_statement orc ctxkeys c).
Proof.
  unfold exec_statement. apply SimM_bind_eq; [apply SimM_emit|]. intros _.
  apply SimM_bind_eq; [apply SimM_ctx_now|]. intros ctx.
  destruct (o_exec orc ctx c) as [ctx'|e]; [|apply SimM_raise].
  apply (SimM_set_vars_fun (fun s => sync_back ctxkeys ctx' (vars (nc s)) (keys (local_of (scopes s))))).
  intros s sb Hs. rewrite (sc_vars _ _ (sn_core _ _ Hs)), (sn_scopes _ _ Hs). reflexivity.
Qed.

Lemma SimM_exec_block c : SimM eq (exec_block orc ctxkeys c) (exec_block orc ctxkeys c).
Proof.
  unfold exec_block. apply SimM_bind_eq; [apply SimM_emit|]. intros _.
  apply SimM_bind_eq; [apply SimM_ctx_now|]. intros ctx.
  destruct (o_exec orc ctx c) as [ctx'|e]; [|apply SimM_raise].
  apply (SimM_set_vars_fun (fun s => sync_back ctxkeys ctx' (vars (nc s)) (keys (local_of (scopes s))))).
  intros s sb Hs. rewrite (sc_vars _ _ (sn_core _ _ Hs)), (sn_scopes _ _ Hs). reflexivity.
Qed.

Lemma SimM_exec_command t :
  nohj_tok t = true -> SimM eq (exec_command orc ctxkeys t) (exec_command_b orc ctxkeys t).
Proof.
  destruct t; simpl; intros Hn; try discriminate; try (apply SimM_ret; reflexivity).
  - apply SimM_exec_statement.
  - apply SimM_exec_block.
Qed.

Lemma SimM_exec_commands l :
  forallb nohj_tok l = true -> SimM eq (exec_commands orc ctxkeys l) (exec_commands_b orc ctxkeys l).
Proof.
  induction l as [|t l IH]; simpl; intros Hn; [apply SimM_ret; reflexivity|].
  apply andb_true_iff in Hn. destruct Hn as [Ht Hl].
  apply SimM_bind_eq; [apply SimM_exec_command; exact Ht|]. intros _. apply IH. exact Hl.
Qed.

(* ---------------------------------------------------------------------------------------- *)
(* rendering: equal results, and every choice handed up as a directive is a common-subset choice *)
Definition dir_ok (d : directive) : Prop :=
  match d with DChoice c _ => nohj_choice c = true | _ => True end.
Definition Rtok (a b : tok_out) : Prop := a = b /\ Forall dir_ok (snd a).
Definition Rseq (a b : seq_out) : Prop := a = b /\ Forall dir_ok (snd a).
Definition Rdirs (a b : list directive) : Prop := a = b /\ Forall dir_ok a.

Definition ST (f fb : token -> M tok_out) (l : list token) : Prop := Forall (fun t => SimM Rtok (f t) (fb t)) l.
Definition SC (f fb : token -> M tok_out) (c : choice) : Prop := ST f fb (ch_text c) /\ nohj_choice c = true.
Definition SB (f fb : token -> M tok_out) (b : branch) : Prop :=
  match b with Branch _ cont chs => ST f fb cont /\ Forall (fun c => nohj_choice c = true) chs end.

Lemma sim_seqr f fb l : ST f fb l -> SimM Rseq (seqr f l) (seqr fb l).
Proof.
  induction 1 as [|t l Ht Hl IH]; simpl.
  - apply SimM_ret. split; [reflexivity|constructor].
  - eapply SimM_bind; [exact Ht|]. intros [[txt c] ds] b [<- Hd]. simpl in Hd.
    destruct c.
    + eapply SimM_bind; [exact IH|]. intros [[txt2 j] ds2] b2 [<- Hd2]. simpl in Hd2.
      apply SimM_ret. split; [reflexivity|]. simpl. apply Forall_app. split; assumption.
    + apply SimM_ret. split; [reflexivity|exact Hd].
    + apply SimM_ret. split; [reflexivity|exact Hd].
Qed.

Lemma sim_render_branches f fb ctx brs :
  Forall (SB f fb) brs -> SimM Rtok (render_branches orc f ctx brs) (render_branches orc fb ctx brs).
Proof.
  induction 1 as [|b l Hb Hl IH]; simpl.
  - apply SimM_ret. split; [reflexivity|constructor].
  - destruct b as [cond cont chs]. destruct Hb as [Hc Hch].
    destruct (o_eval orc ctx cond) as [v|e]; [|exact IH].
    destruct (truthy v); [|exact IH].
    eapply SimM_bind; [apply sim_seqr; exact Hc|]. intros [[txt j] ds] b [<- Hd]. simpl in Hd.
    apply SimM_ret. split; [reflexivity|]. simpl. apply Forall_app. split; [assumption|].
    apply Forall_forall. intros d Hin. apply in_map_iff in Hin. destruct Hin as (c & <- & Hc0).
    simpl. rewrite Forall_forall in Hch. apply Hch. exact Hc0.
Qed.

Lemma sim_render_loop_choices f fb chs :
  Forall (SC f fb) chs -> SimM Rdirs (render_loop_choices f chs) (render_loop_choices fb chs).
Proof.
  induction 1 as [|c l Hc Hl IH]; simpl.
  - apply SimM_ret. split; [reflexivity|constructor].
  - destruct Hc as [Ht Hn].
    eapply SimM_bind; [apply sim_seqr; exact Ht|]. intros [[t j] ds] b [<- _].
    eapply SimM_bind; [exact IH|]. intros rs rsb [<- Hrs].
    apply SimM_ret. split; [reflexivity|]. constructor; [exact Hn|exact Hrs].
Qed.

Lemma sim_render_loop_items f fb vs cont chs items :
  ST f fb cont -> Forall (SC f fb) chs ->
  SimM Rtok (render_loop_items f vs cont chs items) (render_loop_items fb vs cont chs items).
Proof.
  intros Hc Hch. induction items as [|it rest IH]; simpl.
  - apply SimM_ret. split; [reflexivity|constructor].
  - eapply SimM_bind; [apply SimM_get|]. intros s0 sb0 Hs0.
    rewrite <- (sc_vars _ _ (sn_core _ _ Hs0)).
    destruct (loop_bind vs it (vars (nc s0))) as [v1 orig].
    apply SimM_bind_eq; [apply SimM_set_vars|]. intros _.
    eapply SimM_bind; [apply sim_seqr; exact Hc|]. intros [[txt j] ds] b [<- Hd]. simpl in Hd.
    eapply SimM_bind; [apply sim_render_loop_choices; exact Hch|]. intros chds chdsb [<- Hcd].
    eapply SimM_bind; [apply SimM_get|]. intros s1 sb1 Hs1.
    rewrite <- (sc_vars _ _ (sn_core _ _ Hs1)).
    apply SimM_bind_eq; [apply SimM_set_vars|]. intros _.
    destruct j.
    + apply SimM_ret. split; [reflexivity|]. simpl. apply Forall_app. split; assumption.
    + eapply SimM_bind; [exact IH|]. intros [[txt2 c2] ds2] b2 [<- Hd2]. simpl in Hd2.
      apply SimM_ret. split; [reflexivity|]. simpl. apply Forall_app. split; [assumption|].
      apply Forall_app. split; assumption.
Qed.

Definition PSim (t : token) : Prop :=
  nohj_tok t = true -> SimM Rtok (render_tok orc ctxkeys t) (render_tok_b orc ctxkeys t).

Lemma PL_ST l : PL PSim l -> forallb nohj_tok l = true -> ST (render_tok orc ctxkeys) (render_tok_b orc ctxkeys) l.
Proof.
  unfold PL, ST. induction 1 as [|t l Ht Hl IH]; simpl; intros Hn; [constructor|].
  apply andb_true_iff in Hn. destruct Hn as [Hn1 Hn2]. constructor; [apply Ht; exact Hn1|apply IH; exact Hn2].
Qed.

Lemma nohj_choice_text c : nohj_choice c = true -> forallb nohj_tok (ch_text c) = true.
Proof.
  unfold nohj_choice. intros H. repeat (apply andb_true_iff in H; destruct H as [H ?]). exact H.
Qed.

Lemma PC_SC l :
  Forall (PC PSim) l -> forallb nohj_choice l = true ->
  Forall (SC (render_tok orc ctxkeys) (render_tok_b orc ctxkeys)) l.
Proof.
  induction 1 as [|c l Hc Hl IH]; simpl; intros Hn; [constructor|].
  apply andb_true_iff in Hn. destruct Hn as [Hn1 Hn2]. constructor; [|apply IH; exact Hn2].
  destruct Hc as [Ht _]. split; [|exact Hn1]. apply PL_ST; [exact Ht|]. apply nohj_choice_text. exact Hn1.
Qed.

Lemma PB_SB l :
  Forall (PB PSim) l -> forallb nohj_branch l = true ->
  Forall (SB (render_tok orc ctxkeys) (render_tok_b orc ctxkeys)) l.
Proof.
  induction 1 as [|b l Hb Hl IH]; simpl; intros Hn; [constructor|].
  apply andb_true_iff in Hn. destruct Hn as [Hn1 Hn2]. constructor; [|apply IH; exact Hn2].
  destruct b as [cond cont chs]. destruct Hb as [Hc _]. simpl in Hn1.
  apply andb_true_iff in Hn1. destruct Hn1 as [Hn1 Hn3]. split; [apply PL_ST; assumption|].
  apply Forall_forall. intros c Hin. rewrite forallb_forall in Hn3. apply Hn3. exact Hin.
Qed.

Ltac ok_nil := split; [reflexivity|simpl; repeat constructor].

(* the two token renderers agree on every token of the common subset *)
Lemma sim_render_tok t : PSim t.
Proof.
  induction t using token_ind'; intros Hn.
  - simpl. apply SimM_ret. ok_nil.
  - simpl. apply SimM_bind_eq; [apply SimM_ctx_now|]. intros ctx. apply SimM_ret. ok_nil.
  - (* inline conditional *)
    simpl in Hn. apply andb_true_iff in Hn. destruct Hn as [Hn1 Hn2]. simpl.
    apply SimM_bind_eq; [apply SimM_ctx_now|]. intros ctx.
    destruct (o_eval orc ctx c) as [b|e]; [|apply SimM_ret; ok_nil].
    apply SimM_catch; [|intros _; apply SimM_ret; ok_nil].
    eapply SimM_bind.
    + apply sim_seqr. destruct (truthy b); apply PL_ST; assumption.
    + intros [[txt j] ds] b0 [<- _]. apply SimM_ret. ok_nil.
  - (* conditional block *)
    rewrite nohj_tok_cond in Hn. simpl.
    apply SimM_bind_eq; [apply SimM_ctx_now|]. intros ctx.
    apply sim_render_branches. apply PB_SB; assumption.
  - (* loop *)
    rewrite nohj_tok_loop in Hn. apply andb_true_iff in Hn. destruct Hn as [Hn1 Hn2]. simpl.
    destruct (String.eqb v "" || String.eqb c ""); [apply SimM_ret; ok_nil|].
    apply SimM_bind_eq; [apply SimM_ctx_now|]. intros ctx.
    destruct (match o_eval orc ctx c with Ok c0 => py_iter c0 | Exc e => Exc e end) as [items|e];
      [|apply SimM_ret; ok_nil].
    apply sim_render_loop_items; [apply PL_ST; assumption|apply PC_SC; assumption].
  - simpl. apply SimM_ret. ok_nil.
  - simpl. apply SimM_bind_eq; [apply SimM_exec_statement|]. intros _. apply SimM_ret. ok_nil.
  - simpl. apply SimM_bind_eq; [apply SimM_exec_block|]. intros _. apply SimM_ret. ok_nil.
  - discriminate Hn.
  - simpl. apply SimM_bind_eq; [apply SimM_ctx_now|]. intros ctx. apply SimM_ret. ok_nil.
  - simpl. apply SimM_ret. ok_nil.
  - discriminate Hn.
Qed.

Lemma sim_render_content l :
  forallb nohj_tok l = true -> SimM Rseq (render_content orc ctxkeys l) (render_content_b orc ctxkeys l).
Proof.
  intros Hn. unfold render_content, render_content_b. apply sim_seqr. apply PL_ST; [|exact Hn].
  unfold PL. apply Forall_forall. intros t _. apply sim_render_tok.
Qed.

Lemma sim_render_choice_text c :
  nohj_choice c = true -> SimM eq (render_choice_text orc ctxkeys c) (render_choice_text_b orc ctxkeys c).
Proof.
  intros Hn. unfold render_choice_text, render_choice_text_b.
  eapply SimM_bind; [apply sim_render_content; apply nohj_choice_text; exact Hn|].
  intros [[t j] ds] b [<- _]. apply SimM_ret. reflexivity.
Qed.

Lemma sim_choice_text c dt :
  nohj_choice c = true -> SimM eq (choice_text orc ctxkeys c dt) (choice_text_b orc ctxkeys c dt).
Proof.
  intros Hn. destruct dt; simpl; [apply SimM_ret; reflexivity|apply sim_render_choice_text; exact Hn].
Qed.

Lemma sim_is_choice_available c dt :
  nohj_choice c = true -> SimM eq (is_choice_available orc ctxkeys c dt) (is_choice_available_b orc ctxkeys c dt).
Proof.
  intros Hn. unfold is_choice_available, is_choice_available_b. apply SimM_bind_eq.
  - destruct (ch_sticky c); [apply SimM_ret; reflexivity|].
    apply SimM_bind_eq; [apply sim_choice_text; exact Hn|]. intros t.
    apply (SimM_reader (fun s => negb (str_in (choice_id (match cur (nc s) with Some p => p | None => "None"%string end)
                                                         t (ch_target c)) (used (nc s))))).
    intros s sb Hs. rewrite (sc_cur _ _ (sn_core _ _ Hs)), (sc_used _ _ (sn_core _ _ Hs)). reflexivity.
  - intros u. destruct (negb u); [apply SimM_ret; reflexivity|].
    destruct (ch_cond c) as [cond|]; [|apply SimM_ret; reflexivity].
    destruct (String.eqb cond ""); [apply SimM_ret; reflexivity|].
    apply SimM_bind_eq; [apply SimM_ctx_now|]. intros ctx.
    destruct (o_eval orc ctx cond); apply SimM_ret; reflexivity.
Qed.

Lemma nohj_choice_section c : nohj_choice c = true -> ch_section c = 0.
Proof. intros H. apply nohj_choice_plain in H. destruct H as [_ H]. exact H. Qed.

Lemma nohj_choice_target c : nohj_choice c = true -> String.eqb (ch_target c) "@join" = false.
Proof. intros H. apply nohj_choice_plain in H. destruct H as [H _]. exact H. Qed.

Definition Rchs (a b : list rchoice) : Prop :=
  a = b /\ Forall (fun rc => String.eqb (ch_target (rc_choice rc)) "@join" = false) a.

(* the section filter of the main engine hides nothing: every candidate is a section-0 choice and the passage's
   progress is 0 *)
Lemma sim_filter_choices (cands : list (choice * option string * bool)) :
  Forall (fun x => nohj_choice (fst (fst x)) = true) cands ->
  SimM Rchs (filter_choices orc ctxkeys cands 0)
            (filter_choices_b orc ctxkeys (map (fun x => (fst (fst x), snd (fst x))) cands)).
Proof.
  induction 1 as [|[[c dt] fd] r Hc Hr IH]; simpl.
  - apply SimM_ret. split; [reflexivity|constructor].
  - simpl in Hc. apply SimM_bind_eq; [apply sim_is_choice_available; exact Hc|]. intros av.
    assert (E : Nat.eqb (dir_section c fd) 0 = true).
    { unfold dir_section. destruct fd; [reflexivity|]. rewrite (nohj_choice_section c Hc). reflexivity. }
    rewrite E, andb_true_r. destruct av; [|exact IH].
    apply SimM_bind_eq; [apply sim_choice_text; exact Hc|]. intros t.
    eapply SimM_bind; [exact IH|]. intros rs rsb [<- Hrs].
    apply SimM_ret. split; [reflexivity|]. constructor; [|exact Hrs]. simpl. apply nohj_choice_target. exact Hc.
Qed.

Lemma split_dirs_ok ds : forall cds ins rds,
  Forall dir_ok ds -> split_dirs ds = (cds, ins, rds) -> Forall (fun ct => nohj_choice (fst ct) = true) cds.
Proof.
  induction ds as [|d r IH]; simpl; intros cds ins rds Hd E.
  - inversion E; subst. constructor.
  - inversion Hd; subst. destruct (split_dirs r) as [[cs i0] rs] eqn:Er.
    specialize (IH _ _ _ H2 eq_refl).
    destruct d; inversion E; subst; auto.
Qed.

Definition Rout (o ob : output) : Prop := o = ob /\ plain_output o.

Lemma sim_render_passage pid p :
  get_passage st pid = Some p -> common_passage p = true ->
  SimM Rout (render_passage orc ctxkeys st pid) (render_passage_b orc ctxkeys st pid).
Proof.
  intros Hp Hc. unfold render_passage, render_passage_b. rewrite Hp.
  unfold common_passage in Hc. apply andb_true_iff in Hc. destruct Hc as [Hc Hchs].
  apply andb_true_iff in Hc. destruct Hc as [Hcont _].
  apply SimM_bind_eq; [apply SimM_emit|]. intros _.
  eapply SimM_bind; [apply sim_render_content; exact Hcont|]. intros [[txt j] ds] b [<- Hd]. simpl in Hd.
  destruct (split_dirs ds) as [[cds ins] rds] eqn:Es.
  pose proof (split_dirs_ok _ _ _ _ Hd Es) as Hcds.
  apply SimM_get_left. intros s0 Hz.
  assert (Esec : match lookup pid (joinidx (nc s0)) with Some n => n | None => 0 end = 0).
  { destruct (lookup pid (joinidx (nc s0))) as [n|] eqn:El; [|reflexivity]. eapply all_zero_lookup; eauto. }
  rewrite Esec.
  set (cands := map (fun c => (c, @None string, false)) (choices p) ++ map (fun ct => (fst ct, snd ct, true)) cds).
  assert (Emap : map (fun x => (fst (fst x), snd (fst x))) cands = map (fun c => (c, None)) (choices p) ++ cds).
  { unfold cands. rewrite map_app, !map_map. simpl. f_equal.
    clear. induction cds as [|[c t] r IH]; simpl; [reflexivity|]. rewrite IH. reflexivity. }
  rewrite <- Emap.
  eapply SimM_bind.
  - apply sim_filter_choices. unfold cands. apply Forall_app. split.
    + apply Forall_forall. intros x Hin. apply in_map_iff in Hin. destruct Hin as (c & <- & Hin). simpl.
      rewrite forallb_forall in Hchs. apply (Hchs c Hin).
    + apply Forall_forall. intros x Hin. apply in_map_iff in Hin. destruct Hin as (ct & <- & Hin). simpl.
      rewrite Forall_forall in Hcds. apply Hcds. exact Hin.
  - intros chs chsb [<- Hpl]. apply SimM_ret. split; [reflexivity|exact Hpl].
Qed.

Lemma sim_execute_passage pid p :
  get_passage st pid = Some p -> common_passage p = true ->
  SimM eq (execute_passage orc ctxkeys st pid) (execute_passage_b orc ctxkeys st pid).
Proof.
  intros Hp Hc. unfold execute_passage, execute_passage_b. rewrite Hp.
  unfold common_passage in Hc. apply andb_true_iff in Hc. destruct Hc as [Hc _].
  apply andb_true_iff in Hc. destruct Hc as [_ Hex].
  apply SimM_bind_eq; [apply SimM_emit|]. intros _. apply SimM_exec_commands. exact Hex.
Qed.

(* ---------------------------------------------------------------------------------------- *)
(* navigation *)
Lemma sim_enter_scope p args : SimM eq (enter_scope orc p args) (enter_scope orc p args).
Proof.
  unfold enter_scope. destruct (has_scope p args); [|apply SimM_ret; reflexivity].
  apply SimM_bind_eq; [apply SimM_ctx_now|]. intros ctx.
  apply SimM_bind_eq; [apply SimM_lift|]. intros ad.
  destruct (bind_arguments orc ctx (params p) ad 0 []); [apply SimM_push_scope|apply SimM_raise].
Qed.

Lemma sim_with_scope {A B} (R : A -> B -> Prop) p args (body : M A) (bodyb : M B) :
  SimM R body bodyb -> SimM R (with_scope orc p args body) (with_scope orc p args bodyb).
Proof.
  intros H. unfold with_scope. apply SimM_bind_eq; [apply sim_enter_scope|]. intros _.
  apply (SimM_finally R (fun (_ _ : unit) => True)); [exact H|].
  destruct (has_scope p args).
  - eapply SimM_weaken; [|apply SimM_pop_scope]. intros; exact I.
  - apply SimM_ret. exact I.
Qed.

Hypothesis Hcommon : common_story st = true.

Lemma sim_goto_rec fuel : forall spec visited,
  SimM Rout (goto_rec orc ctxkeys st fuel spec visited) (goto_rec_b orc ctxkeys st fuel spec visited).
Proof.
  induction fuel as [|fuel IH]; intros spec visited; simpl; [apply SimM_raise|].
  apply SimM_bind_eq; [apply SimM_lift|]. intros [pid args].
  destruct (get_passage st pid) as [p|] eqn:Hp; [|apply SimM_raise].
  pose proof (common_story_passage st pid p Hcommon Hp) as Hc.
  apply sim_with_scope.
  destruct (str_in pid visited); [apply SimM_raise|].
  apply SimM_bind_eq; [apply SimM_set_cur|]. intros _.
  apply SimM_join_reset.
  apply SimM_bind_eq; [eapply sim_execute_passage; eauto|]. intros _.
  eapply SimM_bind; [eapply sim_render_passage; eauto|]. intros o ob [<- Hpl].
  eapply SimM_bind with (R := Rout).
  - destruct (o_jump o) as [target|].
    + eapply SimM_bind; [apply IH|]. intros jo job [<- Hj]. apply SimM_ret. split; [reflexivity|exact Hj].
    + apply SimM_ret. split; [reflexivity|exact Hpl].
  - intros o' ob' [<- Hpl']. apply SimM_bind_eq; [apply SimM_set_out; exact Hpl'|]. intros _.
    apply SimM_ret. split; [reflexivity|exact Hpl'].
Qed.

Lemma sim_goto spec : SimM Rout (goto orc ctxkeys st spec) (goto_b orc ctxkeys st spec).
Proof. unfold goto, goto_b. apply sim_goto_rec. Qed.

(* choose, after the snapshot: an offered choice of a common story is never '-> @join', and the turn_end run is inert *)
Lemma sim_choose_nav ch o :
  String.eqb (ch_target (rc_choice ch)) "@join" = false ->
  SimM Rout (choose_nav orc ctxkeys st ch o) (choose_nav_b orc ctxkeys st ch o).
Proof.
  intros Hj. unfold choose_nav, choose_nav_b. rewrite Hj. apply SimM_bind_eq.
  - destruct (ch_sticky (rc_choice ch)); [apply SimM_ret; reflexivity|].
    apply (SimM_set_used_fun (fun s => add_used (choice_id (o_pid o) (rc_text ch) (ch_target (rc_choice ch)))
                                                (used (nc s)))).
    intros s sb Hs. rewrite (sc_used _ _ (sn_core _ _ Hs)). reflexivity.
  - intros _. apply SimM_after_hooks. apply sim_goto.
Qed.

(* ---------------------------------------------------------------------------------------- *)
(* whole-engine operations *)
Lemma sim_run_nav {A B} (R : A -> B -> Prop) m mb e eb :
  SimM R m mb -> sim_es e eb ->
  sim_es (fst (run_nav m e)) (fst (run_nav mb eb)) /\ res_rel R (snd (run_nav m e)) (snd (run_nav mb eb)).
Proof.
  intros Hm [Hc Hu Hr Hsc Hl]. unfold run_nav.
  assert (Hs : sim_ns (mkNS (ec e) (escopes e) (elog e)) (mkNS (ec eb) (escopes eb) (elog eb))).
  { constructor; simpl; assumption. }
  destruct (Hm _ _ Hs) as [H1 H2].
  destruct (m (mkNS (ec e) (escopes e) (elog e))) as [s1 r].
  destruct (mb (mkNS (ec eb) (escopes eb) (elog eb))) as [sb1 rb]. simpl in *.
  split; [|exact H2]. destruct H1 as [Hc1 Hsc1 Hl1]. constructor; simpl; assumption.
Qed.

Lemma sim_current_out e eb : sim_es e eb -> current_out e = current_out eb.
Proof. intros H. unfold current_out. rewrite (sc_out _ _ (se_core _ _ H)). reflexivity. Qed.

Lemma plain_current_out e eb : sim_es e eb -> plain_output (current_out e).
Proof.
  intros H. unfold current_out. pose proof (sc_plain _ _ (se_core _ _ H)) as Hp.
  destruct (out (ec e)); [exact Hp|constructor].
Qed.

Lemma Forall2_firstn {A B} (R : A -> B -> Prop) n : forall l lb, Forall2 R l lb -> Forall2 R (firstn n l) (firstn n lb).
Proof.
  induction n as [|n IH]; intros l lb H; simpl; [constructor|].
  destruct H; [constructor|]. constructor; auto.
Qed.

Lemma sim_push50 c cb l lb : simc c cb -> Forall2 simc l lb -> Forall2 simc (push50 c l) (push50 cb lb).
Proof. intros Hc Hl. unfold push50. apply Forall2_firstn. constructor; assumption. Qed.

Lemma sim_choose e eb i :
  sim_es e eb ->
  sim_es (fst (choose orc ctxkeys st e i)) (fst (choose_b orc ctxkeys st eb i)) /\
  res_rel Rout (snd (choose orc ctxkeys st e i)) (snd (choose_b orc ctxkeys st eb i)).
Proof.
  intros H. unfold choose, choose_b. rewrite <- (sim_current_out e eb H).
  destruct ((i <? 0)%Z || (Z.of_nat (length (o_choices (current_out e))) <=? i)%Z); [split; [exact H|reflexivity]|].
  destruct (nth_error (o_choices (current_out e)) (Z.to_nat i)) as [ch|] eqn:En; [|split; [exact H|reflexivity]].
  apply sim_run_nav.
  - apply sim_choose_nav. pose proof (plain_current_out e eb H) as Hp. unfold plain_output in Hp.
    rewrite Forall_forall in Hp. apply Hp. eapply nth_error_In; eauto.
  - destruct H as [Hc Hu Hr Hsc Hl]. constructor; simpl; auto. apply sim_push50; assumption.
Qed.

Lemma sim_goto_op e eb spec :
  sim_es e eb ->
  sim_es (fst (goto_op orc ctxkeys st e spec)) (fst (goto_op_b orc ctxkeys st eb spec)) /\
  res_rel Rout (snd (goto_op orc ctxkeys st e spec)) (snd (goto_op_b orc ctxkeys st eb spec)).
Proof. intros H. unfold goto_op, goto_op_b. apply sim_run_nav; [apply sim_goto|exact H]. Qed.

Lemma simc_restore c cb x : simc c cb -> simc c (restore_b cb x).
Proof. intros [H1 H2 H3 H4 H5 H6 H7]. constructor; simpl; auto. Qed.

Lemma sim_undo e eb :
  sim_es e eb -> sim_es (fst (undo e)) (fst (undo_b eb)) /\ snd (undo e) = snd (undo_b eb).
Proof.
  destruct e as [c u r sc l], eb as [cb ub rb scb lb]. intros [Hc Hu Hr Hsc Hl]. unfold undo, undo_b. simpl in *.
  destruct Hu as [|p pb u' ub' Hp Hrest]; simpl.
  - split; [constructor; simpl; auto|reflexivity].
  - split; [|reflexivity]. constructor; simpl; auto. apply simc_restore. exact Hp.
Qed.

Lemma sim_redo e eb :
  sim_es e eb -> sim_es (fst (redo e)) (fst (redo_b eb)) /\ snd (redo e) = snd (redo_b eb).
Proof.
  destruct e as [c u r sc l], eb as [cb ub rb scb lb]. intros [Hc Hu Hr Hsc Hl]. unfold redo, redo_b. simpl in *.
  destruct Hr as [|p pb r' rb' Hp Hrest]; simpl.
  - split; [constructor; simpl; auto|reflexivity].
  - split; [|reflexivity]. constructor; simpl; auto; [apply simc_restore; exact Hp|apply sim_push50; assumption].
Qed.

Lemma sim_reset e eb : sim_es e eb -> sim_es (reset_one_time e) (reset_one_time_b eb).
Proof.
  intros [[H1 H2 H3 H4 H5 H6 H7] Hu Hr Hsc Hl]. unfold reset_one_time, reset_one_time_b.
  constructor; simpl; auto. constructor; simpl; auto.
Qed.

Definition obs_of {A} (r : res A) : obs := match r with Ok _ => ObsOk | Exc x => ObsExc x end.

Lemma res_rel_obs {A B} (R : A -> B -> Prop) r rb : res_rel R r rb -> obs_of r = obs_of rb.
Proof. destruct r, rb; simpl; intros H; try contradiction; [reflexivity|subst; reflexivity]. Qed.

Lemma sim_step e eb o :
  sim_es e eb ->
  sim_es (fst (step orc ctxkeys st e o)) (fst (step_b orc ctxkeys st eb o)) /\
  snd (step orc ctxkeys st e o) = snd (step_b orc ctxkeys st eb o).
Proof.
  intros H. destruct o; simpl.
  - destruct (sim_choose e eb i H) as [H1 H2]. apply res_rel_obs in H2.
    destruct (choose orc ctxkeys st e i) as [e1 [a|x]], (choose_b orc ctxkeys st eb i) as [eb1 [b|y]];
      simpl in *; try discriminate; split; auto.
  - destruct (sim_undo e eb H) as [H1 H2]. destruct (undo e) as [e1 b], (undo_b eb) as [eb1 bb]. simpl in *.
    subst. split; auto.
  - destruct (sim_redo e eb H) as [H1 H2]. destruct (redo e) as [e1 b], (redo_b eb) as [eb1 bb]. simpl in *.
    subst. split; auto.
  - destruct (sim_goto_op e eb spec H) as [H1 H2]. apply res_rel_obs in H2.
    destruct (goto_op orc ctxkeys st e spec) as [e1 [a|x]], (goto_op_b orc ctxkeys st eb spec) as [eb1 [b|y]];
      simpl in *; try discriminate; split; auto.
  - split; [apply sim_reset; exact H|reflexivity].
  - split; [exact H|reflexivity].
  - split; [|reflexivity]. destruct H as [Hc Hu Hr Hsc Hl]. constructor; simpl; auto.
  - split; [|reflexivity]. destruct H as [[H1 H2 H3 H4 H5 H6 H7] Hu Hr Hsc Hl].
    constructor; simpl; auto. constructor; simpl; auto. rewrite H2. reflexivity.
  - split; [exact H|reflexivity].
  - split; [exact H|reflexivity].
  - split; [exact H|reflexivity].
Qed.

(* what an observer sees of two related states, the fork's two missing fields aside *)
Lemma sim_view e eb : sim_es e eb -> forget_hj (view_of e) = forget_hj (view_of_b eb).
Proof.
  intros H. unfold view_of, view_of_b, forget_hj. simpl. rewrite <- (sim_current_out e eb H).
  destruct e as [c u r sc l], eb as [cb ub rb scb lb].
  destruct H as [[H1 H2 H3 H4 H5 H6 H7] Hu Hr Hsc Hl]. simpl in *. rewrite H1, H2, H3, Hsc.
  f_equal.
  - destruct Hu; reflexivity.
  - destruct Hr; reflexivity.
Qed.

Definition sim_slot (a b : option core) : Prop :=
  match a, b with Some c, Some cb => simc c cb | None, None => True | _, _ => False end.

Lemma fhs_cons b v l : map forget_hj_step ((b, v) :: l) = (b, forget_hj v) :: map forget_hj_step l.
Proof. reflexivity. Qed.

Lemma sim_run_slot ops : forall e eb slot slotb,
  sim_es e eb -> sim_slot slot slotb ->
  map forget_hj_step (run_slot orc ctxkeys st e slot ops) = map forget_hj_step (run_slot_b orc ctxkeys st eb slotb ops).
Proof.
  induction ops as [|o ops IH]; intros e eb slot slotb H Hsl; [reflexivity|].
  assert (Hgen : forall e' eb' b,
             sim_es e' eb' ->
             map forget_hj_step ((b, view_of e') :: run_slot orc ctxkeys st e' slot ops) =
             map forget_hj_step ((b, view_of_b eb') :: run_slot_b orc ctxkeys st eb' slotb ops)).
  { intros e' eb' b H'. rewrite !fhs_cons. rewrite (sim_view e' eb' H'). f_equal. apply IH; assumption. }
  assert (Hstep : forall o,
             map forget_hj_step (let '(e', b) := step orc ctxkeys st e o in
                                 (b, view_of e') :: run_slot orc ctxkeys st e' slot ops) =
             map forget_hj_step (let '(e', b) := step_b orc ctxkeys st eb o in
                                 (b, view_of_b e') :: run_slot_b orc ctxkeys st e' slotb ops)).
  { intros o0. destruct (sim_step e eb o0 H) as [Hst1 Hst2].
    destruct (step orc ctxkeys st e o0) as [e1 b1], (step_b orc ctxkeys st eb o0) as [eb1 bb1].
    simpl in Hst1, Hst2. subst bb1. apply Hgen. exact Hst1. }
  destruct o;
    try (match goal with |- context [run_slot _ _ _ _ _ (?o1 :: _)] => exact (Hstep o1) end).
  - (* OpSave *)
    cbn [run_slot run_slot_b]. rewrite !fhs_cons. rewrite (sim_view e eb H). f_equal.
    apply IH; [exact H|]. simpl. apply (se_core _ _ H).
  - (* OpLoad *)
    cbn [run_slot run_slot_b]. destruct slot as [c|], slotb as [cb|]; simpl in Hsl; try contradiction.
    + assert (H' : sim_es (mkES c [] [] (escopes e) (elog e))
                          (mkES (restore_b cb (ec eb)) [] [] (escopes eb) (elog eb))).
      { destruct H as [Hc Hu Hr Hsc Hl]. constructor; simpl; auto. apply simc_restore. exact Hsl. }
      cbv zeta. rewrite !fhs_cons. rewrite (sim_view _ _ H'). f_equal. apply IH; [exact H'|exact Hsl].
    + rewrite !fhs_cons. rewrite (sim_view e eb H). f_equal. apply IH; [exact H|exact I].
Qed.

Lemma sim_init v0 :
  sim_es (fst (init orc ctxkeys st v0)) (fst (init_b orc ctxkeys st v0)) /\
  obs_of (snd (init orc ctxkeys st v0)) = obs_of (snd (init_b orc ctxkeys st v0)).
Proof.
  unfold init, init_b.
  assert (H0 : sim_es (mkES (empty_core (set_key "_inputs" (VDict []) v0)) [] [] [] [])
                      (mkES (empty_core (set_key "_inputs" (VDict []) v0)) [] [] [] [])).
  { constructor; simpl; auto. constructor; simpl; auto. constructor. }
  destruct (get_passage st (initial st)); [|split; [exact H0|reflexivity]].
  destruct (sim_goto_op _ _ (initial st) H0) as [H1 H2]. split; [exact H1|]. eapply res_rel_obs; eauto.
Qed.

(* THE REFINEMENT: for every oracle, every story of the common subset, all initial variables and EVERY operation
   list, the browser model and the main model produce the same observations and the same views step by step,
   the hook registry and the join index (which the fork does not have) aside *)
Theorem browser_sim v0 ops :
  map forget_hj_step (run_all orc ctxkeys st v0 ops) = map forget_hj_step (run_all_b orc ctxkeys st v0 ops).
Proof.
  unfold run_all, run_all_b. destruct (sim_init v0) as [H1 H2].
  destruct (init orc ctxkeys st v0) as [e0 [a|x]], (init_b orc ctxkeys st v0) as [eb0 [b|y]];
    simpl in H1, H2; try discriminate; cbv beta iota.
  - rewrite !fhs_cons. rewrite (sim_view _ _ H1). f_equal.
    unfold run, run_b. apply sim_run_slot; [exact H1|exact I].
  - inversion H2; subst. rewrite !fhs_cons. rewrite (sim_view _ _ H1). reflexivity.
Qed.

(* the invariant by itself: on a common story NO reachable state of the MAIN model has a hook registered or a non-zero
   join index - what the fork lacks is never used *)
Definition hj_idle (x : obs * view) : Prop := v_hooks (snd x) = [] /\ all_zero (v_join (snd x)).

Lemma sim_hj_idle e eb b : sim_es e eb -> hj_idle (b, view_of e).
Proof. intros [Hc _ _ _ _]. split; simpl; [apply (sc_hooks _ _ Hc)|apply (sc_join _ _ Hc)]. Qed.

Lemma idle_run_slot ops : forall e eb slot slotb,
  sim_es e eb -> sim_slot slot slotb -> Forall hj_idle (run_slot orc ctxkeys st e slot ops).
Proof.
  induction ops as [|o ops IH]; intros e eb slot slotb H Hsl; [constructor|].
  assert (Hstep : forall o,
             Forall hj_idle (let '(e', b) := step orc ctxkeys st e o in
                             (b, view_of e') :: run_slot orc ctxkeys st e' slot ops)).
  { intros o0. destruct (sim_step e eb o0 H) as [Hst1 _].
    destruct (step orc ctxkeys st e o0) as [e1 b1]. simpl in Hst1.
    constructor; [eapply sim_hj_idle; exact Hst1|eapply IH; eauto]. }
  destruct o;
    try (match goal with |- context [run_slot _ _ _ _ _ (?o1 :: _)] => exact (Hstep o1) end).
  - cbn [run_slot]. constructor; [eapply sim_hj_idle; exact H|].
    apply (IH e eb (Some (ec e)) (Some (ec eb))); [exact H|]. simpl. apply (se_core _ _ H).
  - cbn [run_slot]. destruct slot as [c|], slotb as [cb|]; simpl in Hsl; try contradiction.
    + assert (H' : sim_es (mkES c [] [] (escopes e) (elog e))
                          (mkES (restore_b cb (ec eb)) [] [] (escopes eb) (elog eb))).
      { destruct H as [Hc Hu Hr Hsc Hl]. constructor; simpl; auto. apply simc_restore. exact Hsl. }
      cbv zeta. constructor; [eapply sim_hj_idle; exact H'|].
      eapply IH with (slotb := Some cb); [exact H'|exact Hsl].
    + constructor; [eapply sim_hj_idle; exact H|]. apply (IH e eb None None); [exact H|exact I].
Qed.

Theorem main_hooks_join_idle v0 ops : Forall hj_idle (run_all orc ctxkeys st v0 ops).
Proof.
  unfold run_all. destruct (sim_init v0) as [H1 _].
  destruct (init orc ctxkeys st v0) as [e0 [a|x]]; simpl in H1.
  - constructor; [eapply sim_hj_idle; exact H1|]. unfold run. eapply idle_run_slot with (slotb := None); [exact H1|exact I].
  - constructor; [eapply sim_hj_idle; exact H1|constructor].
Qed.

End WithOracle.

(* the browser views already carry empty hooks / join: forgetting them changes nothing *)
Lemma forget_view_of_b e : forget_hj (view_of_b e) = view_of_b e.
Proof. reflexivity. Qed.

Lemma forget_run_slot_b orc ctxkeys st ops : forall e slot,
  map forget_hj_step (run_slot_b orc ctxkeys st e slot ops) = run_slot_b orc ctxkeys st e slot ops.
Proof.
  induction ops as [|o ops IH]; intros e slot; [reflexivity|].
  assert (Hstep : forall o,
             map forget_hj_step (let '(e', b) := step_b orc ctxkeys st e o in
                                 (b, view_of_b e') :: run_slot_b orc ctxkeys st e' slot ops) =
             (let '(e', b) := step_b orc ctxkeys st e o in
              (b, view_of_b e') :: run_slot_b orc ctxkeys st e' slot ops)).
  { intros o0. destruct (step_b orc ctxkeys st e o0) as [e1 b1]. rewrite fhs_cons, forget_view_of_b, IH. reflexivity. }
  destruct o;
    try (match goal with |- context [run_slot_b _ _ _ _ _ (?o1 :: _)] => exact (Hstep o1) end).
  - cbn [run_slot_b]. rewrite fhs_cons, forget_view_of_b, IH. reflexivity.
  - cbn [run_slot_b]. destruct slot as [c|]; cbv zeta; rewrite fhs_cons, forget_view_of_b, IH; reflexivity.
Qed.

Lemma forget_run_all_b orc ctxkeys st v0 ops :
  map forget_hj_step (run_all_b orc ctxkeys st v0 ops) = run_all_b orc ctxkeys st v0 ops.
Proof.
  unfold run_all_b. destruct (init_b orc ctxkeys st v0) as [e0 [a|x]].
  - rewrite fhs_cons, forget_view_of_b. unfold run_b. rewrite forget_run_slot_b. reflexivity.
  - reflexivity.
Qed.

(* the same refinement, read as: the browser model's run IS the main model's run with hooks / join erased *)
Theorem browser_sim_erased orc ctxkeys st :
  common_story st = true ->
  forall v0 ops, run_all_b orc ctxkeys st v0 ops = map forget_hj_step (run_all orc ctxkeys st v0 ops).
Proof. intros H v0 ops. rewrite (browser_sim orc ctxkeys st H). symmetry. apply forget_run_all_b. Qed.
