(* C07, last clause: "A story that compiles never fails at run time for a missing, surplus, unknown or doubly
   supplied argument" -- the link between the compiler's argument validation (Compiler/ParseMain.v
   validate_single_call, model of validation.py _validate_single_call) and the engine's binding
   (Engine/Engine.v bind_arguments, model of engine.py _bind_arguments).

   The two models ask Python's own parser about an argument string through two oracles:
     py_call_shape pp args      (compiler)  number of positional arguments and the keyword names
     o_args orc ctx args        (engine)    the evaluated positional values and (keyword, value) pairs
   `shape_agrees pp orc` says that they describe the same call; in the correspondence runs both are filled from
   the same `ast.parse("f(" + args + ")")`, and the call-shape phase of harness/engine_props.py exercises exactly
   this agreement on the real code.  Everything else is proved here.

   What "fails structurally" means in the model.  _bind_arguments has exactly two structural raise sites:
     "Required parameter ... not provided"                         (missing)
     "Parameter ... provided multiple times (positional+keyword)"  (doubly supplied)
   and NO site for a surplus positional argument or an unknown keyword: the real function walks the parameter
   list and never looks at what is left over in the argument dict, so those are silently ignored.  The model's
   exceptions carry a kind, not a message (both sites are ValueError, and so is a failing default, re-raised as
   ValueError by enter_scope), so, as in Proofs/StoryWfProofs.v, `bind_arguments_g dup missing` is bind_arguments
   with an ARBITRARY result put at the two sites (bind_arguments_is_g: bind_arguments is the instance
   `Exc ValueError`), and the theorems say that the result does not depend on what is put there: the sites are
   never reached.  For surplus / unknown the statement is that a validated call supplies nothing that has no
   parameter to go to (validated_call_no_surplus_no_unknown).

   Part 1  one call site            validated_call_binds, validated_call_fails_only_in_a_default, ...
   Part 2  the validator's walk     every jump / choice at a position the renderer can report (GraphProofs
                                    passage_jump / passage_choice) of a compiled story is a validated call, and
                                    parameter names of a compiled story are duplicate free and never a positional
                                    marker arg_<digits> (sig_ok)
   Part 3  the engine               enter_scope / goto_rec / choose / goto / init / step / run_all with the two
                                    sites made parameters (`…_b`), equal to the real functions in every state a
                                    history can reach.
   Part 6  (fixes F07d, F07e)       the compiler refuses a parameter named arg_<digits> and a call that repeats a
                                    keyword, so for every validated call of a compiled story the keyword names are
                                    distinct, positional_prefix holds of the engine's argument dict, and
                                    bind_arguments = py_bind = py_call (Python's call rule stated on the call
                                    itself) with no side condition: validated_call_binds_like_python_lemma,
                                    parse_ok_jump_site_binds_like_python_lemma, parse_ok_offered_choice_..._lemma. *)
From Coq Require Import String Ascii List Bool ZArith NArith Nnat Arith Lia.
From Bardic Require Import PyStr Value Compiled Engine EngineBase EngineNav EngineUndo EngineHooks EngineReach
     EngineCheck EngineParams Graph GraphProofs StoryWfProofs.
From Bardic Require Export ArgKeys.
From Bardic Require Import Lex ParseBase ParseLine ParseMain ParseProofs ParseAllProofs StoryWfChoose.
Import ListNotations.
Local Open Scope string_scope.
Local Open Scope list_scope.

(* ---------------------------------------------------------------------------------------- *)
(* Part 1a: bind_arguments with its two structural raise sites made parameters *)

Fixpoint bind_arguments_g (orc : pyorc) (dup missing : res env) (ctx0 : env) (ps : list param)
         (ad : list (string * value)) (pi : nat) (acc : env) : res env :=
  match ps with
  | [] => Ok acc
  | p :: r =>
      match lookup (arg_key pi) ad with
      | Some v => bind_arguments_g orc dup missing ctx0 r ad (S pi) (set_key (pname p) v acc)
      | None =>
          match lookup (pname p) ad with
          | Some v =>
              if has_key (pname p) acc then dup          (* "provided multiple times (both positional and keyword)" *)
              else bind_arguments_g orc dup missing ctx0 r ad pi (set_key (pname p) v acc)
          | None =>
              match pdefault p with
              | Some d =>
                  match o_eval orc (update ctx0 acc) d with
                  | Ok v => bind_arguments_g orc dup missing ctx0 r ad pi (set_key (pname p) v acc)
                  | Exc e => Exc e                       (* author code: the default expression failed *)
                  end
              | None => missing                          (* "Required parameter ... not provided" *)
              end
          end
      end
  end.

(* the real function is the instance with the real raises *)
Lemma bind_arguments_is_g orc ctx0 ad : forall ps pi acc,
  bind_arguments orc ctx0 ps ad pi acc =
  bind_arguments_g orc (Exc ValueError) (Exc ValueError) ctx0 ps ad pi acc.
Proof.
  induction ps as [|p r IH]; intros pi acc; [reflexivity|].
  rewrite bind_arguments_cons. cbn [bind_arguments_g].
  destruct (lookup (arg_key pi) ad); [apply IH|].
  destruct (lookup (pname p) ad); [destruct (has_key (pname p) acc); [reflexivity|apply IH]|].
  destruct (pdefault p); [|reflexivity]. destruct (o_eval orc (update ctx0 acc) s); [apply IH|reflexivity].
Qed.

(* with results that are not failures at the two sites, a failure can only be a failing default expression
   of the signature, evaluated with the earlier parameters in view *)
Lemma bind_g_fails_in_default orc a b ctx0 ad : forall ps pi acc e,
  bind_arguments_g orc (Ok a) (Ok b) ctx0 ps ad pi acc = Exc e ->
  exists q d acc', In q ps /\ pdefault q = Some d /\ o_eval orc (update ctx0 acc') d = Exc e.
Proof.
  induction ps as [|p r IH]; intros pi acc e H; [discriminate|]. cbn [bind_arguments_g] in H.
  assert (Hr : forall pi' acc', bind_arguments_g orc (Ok a) (Ok b) ctx0 r ad pi' acc' = Exc e ->
                 exists q d acc'', In q (p :: r) /\ pdefault q = Some d /\ o_eval orc (update ctx0 acc'') d = Exc e).
  { intros pi' acc' H'. destruct (IH _ _ _ H') as (q & d & acc'' & Hq & Hd & He).
    exists q, d, acc''. split; [right; exact Hq|]. split; assumption. }
  destruct (lookup (arg_key pi) ad); [eapply Hr; eauto|].
  destruct (lookup (pname p) ad); [destruct (has_key (pname p) acc); [discriminate|eapply Hr; eauto]|].
  destruct (pdefault p) as [d|] eqn:Ed; [|discriminate].
  destruct (o_eval orc (update ctx0 acc) d) as [v|e'] eqn:Ev; [eapply Hr; eauto|].
  inversion H; subst. exists p, d, acc. split; [left; reflexivity|]. split; assumption.
Qed.

(* ---------------------------------------------------------------------------------------- *)
(* Part 1b: when the two sites are not reached *)

Lemma str_in_In x l : str_in x l = true <-> In x l.
Proof.
  induction l as [|y r IH]; simpl; [split; [discriminate|tauto]|].
  rewrite orb_true_iff, IH, String.eqb_eq. split; intros [H|H]; auto.
Qed.

Lemma str_in_not_In x l : str_in x l = false <-> ~ In x l.
Proof. rewrite <- str_in_In. destruct (str_in x l); split; congruence. Qed.

Lemma has_key_set_key {A} k k' (v : A) e : has_key k (set_key k' v e) = true -> k = k' \/ has_key k e = true.
Proof.
  unfold has_key. destruct (String.eqb k k') eqn:E.
  - left. apply String.eqb_eq. exact E.
  - rewrite (lookup_set_key_other k' k v e E). auto.
Qed.

Lemma lookup_keys_some {A} k (l : list (string * A)) : In k (keys l) -> lookup k l <> None.
Proof.
  induction l as [|[k1 v1] r IH]; simpl; [tauto|]. intros [H|H].
  - subst. rewrite String.eqb_refl. discriminate.
  - destruct (String.eqb k k1); [discriminate|auto].
Qed.

(* the argument dict has the positional markers arg_0 .. arg_{n-1} *)
Definition covers (ad : list (string * value)) (n : nat) : Prop :=
  forall j, j < n -> lookup (arg_key j) ad <> None.

Lemma number_args_covers : forall pos b j, j < List.length pos ->
  lookup (arg_key (b + j)) (number_args b pos) <> None.
Proof.
  induction pos as [|v r IH]; intros b j Hj; simpl in *; [lia|].
  fold (arg_key b).
  match goal with |- context [String.eqb ?x ?y] => destruct (String.eqb x y) eqn:E end; [discriminate|].
  destruct j as [|j]; [rewrite Nat.add_0_r in E; unfold arg_key in E; rewrite String.eqb_refl in E; discriminate|].
  replace (b + S j) with (S b + j) by lia. apply IH. lia.
Qed.

Lemma engine_dict_covers pos kws : covers (args_dict pos kws) (List.length pos).
Proof.
  intros j Hj. rewrite args_dict_lookup.
  pose proof (number_args_covers pos 0 j Hj) as H. simpl in H.
  destruct (lookup (arg_key j) (rev kws)); [discriminate|exact H].
Qed.

Lemma engine_dict_keywords pos kws k : In k (map fst kws) -> lookup k (args_dict pos kws) <> None.
Proof.
  intros H. rewrite args_dict_lookup.
  assert (Hr : lookup k (rev kws) <> None).
  { apply lookup_keys_some. unfold keys. rewrite map_rev. apply -> in_rev. exact H. }
  destruct (lookup k (rev kws)); [discriminate|contradiction].
Qed.

Lemma firstn_nth_error {A} (l : list A) : forall n x, In x (firstn n l) -> exists j, j < n /\ nth_error l j = Some x.
Proof.
  induction l as [|y r IH]; intros n x H; destruct n; simpl in H; try contradiction.
  destruct H as [H|H].
  - subst. exists 0. split; [lia|reflexivity].
  - destruct (IH _ _ H) as (j & Hj & E). exists (S j). split; [lia|exact E].
Qed.

Section BindSites.
Variable orc : pyorc.
Variables dup missing : res env.
Variable ctx0 : env.
Variable ad : list (string * value).
Variable n : nat.
Hypothesis Hcov : covers ad n.

(* rest = the parameters still to bind, i = how many were bound, pi <= i the positional index, acc binds only
   earlier parameters.  A required parameter among `rest` is within the first n or has a keyword entry. *)
Lemma bind_sites_gen : forall rest i pi acc,
  pi <= i ->
  (forall k, has_key k acc = true -> ~ In k (map pname rest)) ->
  NoDup (map pname rest) ->
  (forall j q, nth_error rest j = Some q -> pdefault q = None -> i + j < n \/ lookup (pname q) ad <> None) ->
  bind_arguments_g orc dup missing ctx0 rest ad pi acc = bind_arguments orc ctx0 rest ad pi acc.
Proof.
  induction rest as [|p r IH]; intros i pi acc Hpi Hacc Hnd Hreq; [reflexivity|].
  rewrite bind_arguments_cons. cbn [bind_arguments_g].
  inversion Hnd as [|? ? Hp Hr]; subst.
  assert (Hacc' : forall v k, has_key k (set_key (pname p) v acc) = true -> ~ In k (map pname r)).
  { intros v k Hk. apply has_key_set_key in Hk. destruct Hk as [->|Hk]; [exact Hp|].
    intros Hin. apply (Hacc k Hk). right. exact Hin. }
  assert (Hreq' : forall j q, nth_error r j = Some q -> pdefault q = None ->
                    S i + j < n \/ lookup (pname q) ad <> None).
  { intros j q Hq Hd. destruct (Hreq (S j) q Hq Hd) as [H|H]; [left; lia|right; exact H]. }
  destruct (lookup (arg_key pi) ad) as [v|] eqn:Ea.
  - apply (IH (S i)); [lia|apply Hacc'|exact Hr|exact Hreq'].
  - destruct (lookup (pname p) ad) as [v|] eqn:Ek.
    + destruct (has_key (pname p) acc) eqn:Eh.
      * exfalso. apply (Hacc _ Eh). left. reflexivity.
      * apply (IH (S i)); [lia|apply Hacc'|exact Hr|exact Hreq'].
    + destruct (pdefault p) as [d|] eqn:Ed.
      * destruct (o_eval orc (update ctx0 acc) d); [|reflexivity].
        apply (IH (S i)); [lia|apply Hacc'|exact Hr|exact Hreq'].
      * exfalso. destruct (Hreq 0 p eq_refl Ed) as [H|H]; [|contradiction].
        apply (Hcov pi); [lia|exact Ea].
Qed.

(* the call fits the signature: names are distinct, and every required parameter is among the first n (supplied
   positionally) or among the keywords ks, all of which have an entry in the dict *)
Lemma bind_sites_not_reached ps ks :
  NoDup (map pname ps) ->
  (forall k, In k ks -> lookup k ad <> None) ->
  (forall q, In q ps -> pdefault q = None -> In (pname q) ks \/ In (pname q) (firstn n (map pname ps))) ->
  bind_arguments_g orc dup missing ctx0 ps ad 0 [] = bind_arguments orc ctx0 ps ad 0 [].
Proof.
  intros Hnd Hks Hreq. apply (bind_sites_gen ps 0 0 []); auto.
  - intros k Hk. discriminate.
  - intros j q Hq Hd. destruct (Hreq q (nth_error_In _ _ Hq) Hd) as [H|H]; [right; apply Hks; exact H|].
    left. simpl. apply firstn_nth_error in H. destruct H as (j' & Hj' & E).
    assert (Ej : nth_error (map pname ps) j = Some (pname q)) by (apply map_nth_error; exact Hq).
    assert (j = j'); [|subst; exact Hj'].
    eapply (proj1 (NoDup_nth_error (map pname ps)) Hnd); [|congruence].
    apply nth_error_Some. congruence.
Qed.

End BindSites.

(* ---------------------------------------------------------------------------------------- *)
(* Part 1c: what the validator's acceptance means *)

(* the two oracles describe the same call *)
Definition shape_agrees (pp : pyparse) (orc : pyorc) : Prop :=
  forall ctx args pos kws, o_args orc ctx args = Ok (pos, kws) ->
    py_call_shape pp args = Some (List.length pos, map fst kws).

(* ... and a blank argument string, which the engine does not hand to Python at all (`if not args_str.strip():
   return {}`), is an empty argument list for the compiler: ast.parse("_temp_(  )") has no arguments *)
Definition blank_shape (pp : pyparse) : Prop :=
  forall args n ks, all_space args = true -> py_call_shape pp args = Some (n, ks) -> n = 0 /\ ks = [].

Lemma add_positional_spec : forall n names i acc r,
  add_positional n names i acc = POk r -> r = rev (firstn n (skipn i names)) ++ acc.
Proof.
  induction n as [|n IH]; intros names i acc r H; simpl in H.
  - inversion H. reflexivity.
  - destruct (nth_error names i) as [p|] eqn:E; [|discriminate].
    apply IH in H. subst r.
    assert (Es : skipn i names = p :: skipn (S i) names).
    { clear -E. revert i E. induction names as [|x l IH]; intros [|i] E; simpl in *; try discriminate.
      - inversion E; reflexivity.
      - apply IH. exact E. }
    rewrite Es. simpl. rewrite <- app_assoc. reflexivity.
Qed.

Lemma existsb_false {A} (f : A -> bool) l : existsb f l = false -> forall x, In x l -> f x = false.
Proof.
  intros H x Hin. destruct (f x) eqn:E; [|reflexivity].
  assert (existsb f l = true) by (apply existsb_exists; eauto). congruence.
Qed.

(* the shape facts behind an accepted call to a passage with parameters *)
Record fits (ps : list param) (n : nat) (ks : list string) : Prop := mkFits {
  fits_count : n <= List.length ps;                                               (* no surplus positional *)
  fits_known : forall k, In k ks -> In k (map pname ps);                          (* no unknown keyword *)
  fits_required : forall q, In q ps -> pdefault q = None ->
                    In (pname q) ks \/ In (pname q) (firstn n (map pname ps));      (* nothing missing *)
  fits_once : forall k, In k (firstn n (map pname ps)) -> ~ In k ks;              (* nothing supplied twice *)
  fits_plain : ~ In "*" ks /\ ~ In "**" ks;
  fits_norepeat : NoDup ks }.                                                     (* no keyword written twice (F07e) *)

Lemma has_repeat_false_NoDup : forall l, has_repeat l = false -> NoDup l.
Proof.
  induction l as [|x r IH]; intros H; [constructor|]. simpl in H. apply orb_false_iff in H. destruct H as [H1 H2].
  constructor; [apply str_in_not_In; exact H1|apply IH; exact H2].
Qed.

Section Validator.
Variable pp : pyparse.
Variable is_call : string -> bool.
Variable passages : list (string * passage).

Lemma validate_single_call_inv tg args tp :
  validate_single_call pp is_call passages tg args = POk tt ->
  String.eqb tg "@join" = false -> lookup tg passages = Some tp ->
  (params tp = [] /\ args = "") \/
  (params tp <> [] /\ exists n ks, py_call_shape pp args = Some (n, ks) /\ fits (params tp) n ks).
Proof.
  intros H Hj Hl. unfold validate_single_call in H. rewrite Hj, Hl in H.
  destruct (params tp) as [|p0 pr] eqn:Eps.
  - left. split; [reflexivity|]. destruct args; [reflexivity|discriminate].
  - right. split; [discriminate|].
    destruct (py_call_shape pp args) as [[n ks]|]; [|discriminate]. exists n, ks. split; [reflexivity|].
    destruct (negb (is_call args)); [discriminate|].
    destruct (str_in "*" ks || str_in "**" ks) eqn:Estar; [discriminate|].
    destruct (has_repeat ks) eqn:Erep; [discriminate|].
    destruct (Nat.ltb (List.length (p0 :: pr)) n) eqn:Elen; [discriminate|].
    destruct (existsb (fun k => negb (str_in k (map pname (p0 :: pr)))) ks) eqn:Eunk; [discriminate|].
    unfold pbind in H.
    destruct (add_positional n (map pname (p0 :: pr)) 0 []) as [pos| | |] eqn:Epos; try discriminate.
    apply add_positional_spec in Epos. rewrite app_nil_r in Epos. simpl skipn in Epos.
    destruct (existsb _ (filter _ (p0 :: pr))) eqn:Emiss; [discriminate|].
    destruct (existsb (fun p => str_in p ks) pos) eqn:Edup; [discriminate|].
    apply orb_false_iff in Estar. destruct Estar as [Es1 Es2].
    constructor.
    + apply Nat.ltb_ge in Elen. exact Elen.
    + intros k Hk. pose proof (existsb_false _ _ Eunk k Hk) as Hf. apply negb_false_iff in Hf.
      apply str_in_In. exact Hf.
    + intros q Hq Hd.
      assert (Hqf : In q (filter (fun p => match pdefault p with None => true | Some _ => false end) (p0 :: pr))).
      { apply filter_In. split; [exact Hq|]. rewrite Hd. reflexivity. }
      pose proof (existsb_false _ _ Emiss q Hqf) as Hf. apply negb_false_iff in Hf.
      apply str_in_In in Hf. apply in_app_or in Hf. destruct Hf as [Hf|Hf]; [left; exact Hf|].
      right. subst pos. apply in_rev in Hf. exact Hf.
    + intros k Hk Hin. subst pos. apply in_rev in Hk.
      pose proof (existsb_false _ _ Edup k Hk) as Hf. apply str_in_not_In in Hf. contradiction.
    + split; apply str_in_not_In; assumption.
    + apply has_repeat_false_NoDup. exact Erep.
Qed.

End Validator.

(* ---------------------------------------------------------------------------------------- *)
(* Part 1d: one call site *)

(* the argument dict as goto builds it: `arg_dict = _parse_directive_args(args_str, ...) if args_str else {}` *)
Definition engine_arg_dict (orc : pyorc) (ctx : env) (args : string) : res (list (string * value)) :=
  if String.eqb args "" then Ok [] else parse_args orc ctx args.

Section CallSite.
Variable pp : pyparse.
Variable is_call : string -> bool.
Variable orc : pyorc.
Variable passages : list (string * passage).
Hypothesis Hsh : shape_agrees pp orc.

Section OneCall.
Variables tg args : string.
Variable tp : passage.
Hypothesis Hval : validate_single_call pp is_call passages tg args = POk tt.
Hypothesis Hj : String.eqb tg "@join" = false.
Hypothesis Hl : lookup tg passages = Some tp.
Hypothesis Hnd : NoDup (map pname (params tp)).

(* the validator accepted the call and Python evaluated its arguments: neither structural raise site of
   _bind_arguments is reached, whatever the context and the values *)
Lemma validated_call_binds_lemma ctx pos kws dup missing :
  o_args orc ctx args = Ok (pos, kws) ->
  bind_arguments_g orc dup missing ctx (params tp) (args_dict pos kws) 0 [] =
  bind_arguments orc ctx (params tp) (args_dict pos kws) 0 [].
Proof.
  intros Ho. destruct (validate_single_call_inv pp is_call passages tg args tp Hval Hj Hl)
    as [[Hp _]|[_ (n & ks & Hs & Hf)]].
  - rewrite Hp. reflexivity.
  - rewrite (Hsh _ _ _ _ Ho) in Hs. inversion Hs; subst n ks. clear Hs.
    apply (bind_sites_not_reached orc dup missing ctx _ (List.length pos) (engine_dict_covers pos kws)
                                  (params tp) (map fst kws)).
    + exact Hnd.
    + intros k Hk. apply engine_dict_keywords. exact Hk.
    + apply (fits_required _ _ _ Hf).
Qed.

(* the same for a blank argument string, which the engine turns into the empty dict without asking Python *)
Lemma validated_blank_call_binds_lemma ctx dup missing :
  blank_shape pp -> all_space args = true ->
  bind_arguments_g orc dup missing ctx (params tp) [] 0 [] = bind_arguments orc ctx (params tp) [] 0 [].
Proof.
  intros Hb Hsp. destruct (validate_single_call_inv pp is_call passages tg args tp Hval Hj Hl)
    as [[Hp _]|[_ (n & ks & Hs & Hf)]].
  - rewrite Hp. reflexivity.
  - destruct (Hb _ _ _ Hsp Hs) as [-> ->].
    apply (bind_sites_not_reached orc dup missing ctx [] 0) with (ks := []).
    + intros j Hj0. lia.
    + exact Hnd.
    + intros k [].
    + apply (fits_required _ _ _ Hf).
Qed.

(* ... hence for the dict that goto builds, in every case *)
Lemma validated_engine_dict_binds_lemma ctx ad dup missing :
  blank_shape pp -> engine_arg_dict orc ctx args = Ok ad ->
  bind_arguments_g orc dup missing ctx (params tp) ad 0 [] = bind_arguments orc ctx (params tp) ad 0 [].
Proof.
  intros Hb Hd. unfold engine_arg_dict in Hd. destruct (String.eqb args "") eqn:Ee.
  - apply String.eqb_eq in Ee. inversion Hd; subst ad. apply validated_blank_call_binds_lemma; auto.
    rewrite Ee. reflexivity.
  - unfold parse_args in Hd. destruct (all_space args) eqn:Esp.
    + inversion Hd; subst ad. apply validated_blank_call_binds_lemma; auto.
    + destruct (o_args orc ctx args) as [[pos kws]|e] eqn:Eo; [|discriminate].
      inversion Hd; subst ad. apply validated_call_binds_lemma. exact Eo.
Qed.

(* said without the parameterised variant: if binding fails, a default expression of the signature failed *)
Lemma validated_call_fails_only_in_a_default_lemma ctx pos kws e :
  o_args orc ctx args = Ok (pos, kws) ->
  bind_arguments orc ctx (params tp) (args_dict pos kws) 0 [] = Exc e ->
  exists q d acc, In q (params tp) /\ pdefault q = Some d /\ o_eval orc (update ctx acc) d = Exc e.
Proof.
  intros Ho H. rewrite <- (validated_call_binds_lemma ctx pos kws (Ok []) (Ok []) Ho) in H.
  eapply bind_g_fails_in_default. exact H.
Qed.

(* ... and when the defaults evaluate, binding succeeds *)
Lemma validated_call_binds_when_defaults_evaluate_lemma ctx pos kws :
  o_args orc ctx args = Ok (pos, kws) ->
  (forall q d acc, In q (params tp) -> pdefault q = Some d -> exists v, o_eval orc (update ctx acc) d = Ok v) ->
  exists pv, bind_arguments orc ctx (params tp) (args_dict pos kws) 0 [] = Ok pv.
Proof.
  intros Ho Hdef.
  destruct (bind_arguments orc ctx (params tp) (args_dict pos kws) 0 []) as [pv|e] eqn:E; [eauto|].
  destruct (validated_call_fails_only_in_a_default_lemma ctx pos kws e Ho E) as (q & d & acc & Hq & Hd & He).
  destruct (Hdef q d acc Hq Hd) as [v Hv]. congruence.
Qed.

(* surplus and unknown arguments: the engine has no raise site for them (what is left over in the dict is
   ignored); a validated call has nothing left over -- every positional value has a parameter, every keyword
   names a parameter, and no parameter gets both.  (With no argument text the engine does not consult Python.) *)
Lemma validated_call_no_surplus_no_unknown_lemma ctx pos kws :
  args <> "" -> o_args orc ctx args = Ok (pos, kws) ->
  List.length pos <= List.length (params tp) /\
  (forall k, In k (map fst kws) -> In k (map pname (params tp))) /\
  (forall k, In k (firstn (List.length pos) (map pname (params tp))) -> ~ In k (map fst kws)).
Proof.
  intros Hne Ho. destruct (validate_single_call_inv pp is_call passages tg args tp Hval Hj Hl)
    as [[_ Ha]|[_ (n & ks & Hs & Hf)]]; [contradiction|].
  rewrite (Hsh _ _ _ _ Ho) in Hs. inversion Hs; subst n ks.
  split; [apply (fits_count _ _ _ Hf)|]. split; [apply (fits_known _ _ _ Hf)|apply (fits_once _ _ _ Hf)].
Qed.

End OneCall.
End CallSite.

(* the hypothesis "parameter names are distinct" is needed (the compiler guarantees it: parse_passage_params
   rejects a repeated name, see params_nodup below): with a signature T(a, a) the validator counts the second
   `a` as supplied by the first positional argument, and binding stops at the "missing" site *)
Definition dup_sig_passages : list (string * passage) :=
  [("T", mkPassage "T" [mkParam "a" None; mkParam "a" None] [] [] [] [] [])].
Definition one_arg_pp : pyparse := mkPyparse (fun _ => true) (fun _ => Some (1, [])) (fun _ => 0).
Definition one_arg_orc : pyorc :=
  mkOrc (fun _ _ => Exc NameError) (fun e _ => Ok e) (fun _ _ => Exc ValueError) (fun _ _ => Ok ([VInt 1], [])).

Lemma distinct_names_needed :
  validate_single_call one_arg_pp (fun _ => true) dup_sig_passages "T" "1" = POk tt /\
  shape_agrees one_arg_pp one_arg_orc /\
  bind_arguments one_arg_orc [] [mkParam "a" None; mkParam "a" None] (args_dict [VInt 1] []) 0 []
  = Exc ValueError.
Proof.
  split; [vm_compute; reflexivity|]. split; [|vm_compute; reflexivity].
  intros ctx args pos kws H. inversion H; subst. reflexivity.
Qed.

(* ---------------------------------------------------------------------------------------- *)
(* Part 2a: the validator's walk reaches every position the renderer can report a jump or a choice from *)

Section Walk.
Variable pp : pyparse.
Variable is_call : string -> bool.
Variable ps : list (string * passage).

Definition call_ok (tg a : string) : Prop := validate_single_call pp is_call ps tg a = POk tt.
(* a jump cannot target @join (fix 3c6eb71), so a validated jump is a validated call of a passage *)
Definition jump_ok (ja : string * string) : Prop :=
  String.eqb (fst ja) "@join" = false /\ call_ok (fst ja) (snd ja).
(* a choice can: `-> @join` is accepted as it stands, and the engine does not navigate for it *)
Definition choice_ok (c : choice) : Prop := call_ok (ch_target c) (ch_args c).

Definition tok_ok (t : token) : Prop :=
  (forall ja, In ja (tok_jumps t) -> jump_ok ja) /\ (forall c k, In (c, k) (tok_choices t) -> choice_ok c).

Lemma check_choices_ok : forall cs, check_choices pp is_call ps cs = POk tt -> Forall choice_ok cs.
Proof.
  induction cs as [|c r IH]; intros H; [constructor|]. simpl in H.
  apply pbind_ok in H. destruct H as [[] [H1 H2]]. constructor; [exact H1|apply IH; exact H2].
Qed.

Lemma check_tokens_each : forall l, check_tokens pp is_call ps l = POk tt ->
  forall t, In t l -> check_token pp is_call ps t = POk tt.
Proof.
  induction l as [|x r IH]; intros H t Hin; [destruct Hin|]. simpl in H.
  apply pbind_ok in H. destruct H as [[] [H1 H2]]. destruct Hin as [<-|Hin]; [exact H1|apply IH; assumption].
Qed.

Lemma check_token_cond : forall brs, check_token pp is_call ps (TCond brs) = POk tt ->
  Forall (fun b => match b with
                   | Branch _ cont chs => check_choices pp is_call ps chs = POk tt /\
                                          check_tokens pp is_call ps cont = POk tt
                   end) brs.
Proof.
  induction brs as [|[c cont chs] r IH]; intros E; constructor.
  - simpl in E. apply pbind_ok in E. destruct E as [[] [E1 E]].
    apply pbind_ok in E. destruct E as [[] [E2 _]]. split; [exact E1|].
    rewrite <- (toks_fix_eq pp is_call ps). exact E2.
  - apply IH. simpl in E. apply pbind_ok in E. destruct E as [[] [_ E]].
    apply pbind_ok in E. destruct E as [[] [_ E3]]. exact E3.
Qed.

Lemma check_token_loop : forall v c cont chs, check_token pp is_call ps (TLoop v c cont chs) = POk tt ->
  check_choices pp is_call ps chs = POk tt /\ check_tokens pp is_call ps cont = POk tt.
Proof.
  intros v c cont chs E. simpl in E. apply pbind_ok in E. destruct E as [[] [E1 E2]]. split; [exact E1|].
  rewrite <- (toks_fix_eq pp is_call ps). exact E2.
Qed.

Lemma check_token_ok : forall t, check_token pp is_call ps t = POk tt -> tok_ok t.
Proof.
  induction t using token_ind'; intros E;
    try (split; [intros ja Hx; exact (False_ind _ Hx)|intros c0 k0 Hx; exact (False_ind _ Hx)]).
  - (* TCond *)
    apply check_token_cond in E. rewrite Forall_forall in E, H. split.
    + intros ja Hin. simpl in Hin. apply br_jumps_in in Hin. destruct Hin as (cond & cont & chs & Hb & Hin).
      apply flatl_in in Hin. destruct Hin as (t & Ht & Hin).
      destruct (E _ Hb) as [_ Ec]. destruct (H _ Hb) as [Hcont _]. unfold PL in Hcont. rewrite Forall_forall in Hcont.
      apply (Hcont t Ht (check_tokens_each _ Ec t Ht)). exact Hin.
    + intros c0 k0 Hin. simpl in Hin. apply br_choices_in in Hin.
      destruct Hin as (cond & cont & chs & Hb & [Hin|Hin]).
      * destruct (E _ Hb) as [Ech _]. apply check_choices_ok in Ech. rewrite Forall_forall in Ech.
        apply in_map_iff in Hin. destruct Hin as (c1 & E1 & Hc1). inversion E1; subst. apply Ech. exact Hc1.
      * apply flatl_in in Hin. destruct Hin as (t & Ht & Hin).
        destruct (E _ Hb) as [_ Ec]. destruct (H _ Hb) as [Hcont _]. unfold PL in Hcont. rewrite Forall_forall in Hcont.
        eapply (Hcont t Ht (check_tokens_each _ Ec t Ht)). exact Hin.
  - (* TLoop *)
    apply check_token_loop in E. destruct E as [Ech Ec]. unfold PL in H. rewrite Forall_forall in H. split.
    + intros ja Hin. simpl in Hin. apply flatl_in in Hin. destruct Hin as (t & Ht & Hin).
      apply (H t Ht (check_tokens_each _ Ec t Ht)). exact Hin.
    + intros c0 k0 Hin. simpl in Hin. apply in_app_or in Hin. destruct Hin as [Hin|Hin].
      * apply check_choices_ok in Ech. rewrite Forall_forall in Ech.
        apply in_map_iff in Hin. destruct Hin as (c1 & E1 & Hc1). inversion E1; subst. apply Ech. exact Hc1.
      * apply flatl_in in Hin. destruct Hin as (t & Ht & Hin).
        eapply (H t Ht (check_tokens_each _ Ec t Ht)). exact Hin.
  - (* TJump *)
    split; [|intros c0 k0 []]. intros ja [<-|[]]. simpl in E. unfold jump_ok. simpl.
    destruct (String.eqb t "@join"); [discriminate|]. split; [reflexivity|exact E].
Qed.

(* every passage the validator has walked: its own choices, the choices of its conditionals and loops at any
   depth, and its jump tokens at any depth are validated calls *)
Definition passage_calls_ok (p : passage) : Prop :=
  (forall c kd, passage_choice p c kd -> choice_ok c) /\ (forall tg a, passage_jump p tg a -> jump_ok (tg, a)).

Lemma validate_passages_sites : forall todo, validate_passages pp is_call ps todo = POk tt ->
  forall k p, In (k, p) todo -> passage_calls_ok p.
Proof.
  induction todo as [|[k0 p0] r IH]; intros H k p Hin; [destruct Hin|]. simpl in H.
  apply pbind_ok in H. destruct H as [[] [H1 H]]. apply pbind_ok in H. destruct H as [[] [H2 H3]].
  destruct Hin as [Hin|Hin]; [|eapply IH; eauto]. inversion Hin; subst. split.
  - intros c kd [[Hc _]|Hc].
    + apply check_choices_ok in H1. rewrite Forall_forall in H1. apply H1. exact Hc.
    + unfold content_choices in Hc. apply flatl_in in Hc. destruct Hc as (t & Ht & Hc).
      eapply (proj2 (check_token_ok t (check_tokens_each _ H2 t Ht))). exact Hc.
  - intros tg a Hj. unfold passage_jump, content_jumps in Hj. apply flatl_in in Hj. destruct Hj as (t & Ht & Hj).
    apply (proj1 (check_token_ok t (check_tokens_each _ H2 t Ht))). exact Hj.
Qed.

End Walk.

Definition story_calls_validated (pp : pyparse) (is_call : string -> bool) (st : story) : Prop :=
  forall k p, In (k, p) (passages st) -> passage_calls_ok pp is_call (passages st) p.

Lemma parse_ok_calls_validated_lemma : forall pp is_call xs lines0 story,
  parse pp is_call xs lines0 = POk story -> story_calls_validated pp is_call story.
Proof.
  intros pp is_call xs lines0 story H k p Hin. apply parse_inv in H.
  destruct H as [fs [_ [_ [_ [_ [Hv _]]]]]]. eapply validate_passages_sites; eauto.
Qed.

(* ---------------------------------------------------------------------------------------- *)
(* Part 2b: parameter names of a compiled story are distinct (parse_passage_params, "Duplicate Parameter") and
   none of them is a positional marker arg_<digits> (fix F07d, "Invalid Parameter Name ... is reserved") *)

Definition unreserved (names : list string) : Prop := forall n, In n names -> is_positional_marker n = false.

(* what the compiler guarantees of a signature *)
Definition sig_ok (ps : list param) : Prop := NoDup (map pname ps) /\ unreserved (map pname ps).

Definition ppp_inv (st : list param * bool * list string) : Prop :=
  let '(acc, _, names) := st in names = map pname acc /\ NoDup names /\ unreserved names.

Lemma ppp_step_inv st part st' : ppp_inv st -> ppp_step st part = POk st' -> ppp_inv st'.
Proof.
  destruct st as [[acc seen] names]. intros (Hn & Hd & Hu) H. unfold ppp_step in H.
  destruct (negb (nonempty (strip part))); [injection H as <-; repeat split; assumption|].
  destruct (find_char (strip part) "=") as [e|]; cbv beta iota zeta in H.
  - destruct (negb (is_identifier _)); [discriminate|]. destruct (is_keyword _); [discriminate|].
    destruct (is_positional_marker _) eqn:Em; [discriminate|].
    destruct (str_in _ names) eqn:Es; [discriminate|]. inversion H; subst. simpl. split; [reflexivity|].
    split; [constructor; [apply str_in_not_In; exact Es|exact Hd]|].
    intros n [<-|Hin]; [exact Em|apply Hu; exact Hin].
  - destruct seen; [discriminate|].
    destruct (negb (is_identifier _)); [discriminate|]. destruct (is_keyword _); [discriminate|].
    destruct (is_positional_marker _) eqn:Em; [discriminate|].
    destruct (str_in _ names) eqn:Es; [discriminate|]. inversion H; subst. simpl. split; [reflexivity|].
    split; [constructor; [apply str_in_not_In; exact Es|exact Hd]|].
    intros n [<-|Hin]; [exact Em|apply Hu; exact Hin].
Qed.

Lemma ppp_loop_inv : forall parts st st', ppp_inv st -> ppp_loop parts st = POk st' -> ppp_inv st'.
Proof.
  induction parts as [|p r IH]; intros st st' Hi H; simpl in H; [inversion H; subst; exact Hi|].
  apply pbind_ok in H. destruct H as [st1 [H1 H2]]. eapply IH; [|exact H2]. eapply ppp_step_inv; eauto.
Qed.

Lemma parse_passage_params_sig s ps : parse_passage_params s = POk ps -> sig_ok ps.
Proof.
  unfold parse_passage_params. destruct (negb (nonempty s)); [intros H; inversion H; split; [constructor|intros ? []]|].
  intros H. apply pbind_ok in H. destruct H as [[[acc seen] names] [H1 H2]]. inversion H2; subst.
  assert (Hi : ppp_inv (acc, seen, names)).
  { eapply ppp_loop_inv; [|exact H1]. split; [reflexivity|]. split; [constructor|intros ? []]. }
  destruct Hi as (Hn & Hd & Hu). split.
  - rewrite map_rev, <- Hn. apply NoDup_rev. exact Hd.
  - intros n Hin. rewrite map_rev, <- Hn in Hin. apply in_rev in Hin. apply Hu. exact Hin.
Qed.

Lemma parse_passage_params_nodup s ps : parse_passage_params s = POk ps -> NoDup (map pname ps).
Proof. intros H. exact (proj1 (parse_passage_params_sig s ps H)). Qed.

(* a parameter the compiler accepts is never named like a positional marker *)
Lemma parse_passage_params_unreserved s ps :
  parse_passage_params s = POk ps -> forall q, In q ps -> is_positional_marker (pname q) = false.
Proof. intros H q Hq. apply (proj2 (parse_passage_params_sig s ps H)). apply in_map. exact Hq. Qed.

Definition pp_nodup (p : ppassage) : Prop := sig_ok (pp_params p).

Definition params_ok (st : pstate) : Prop :=
  (forall k p, In (k, p) (st_passages st) -> pp_nodup p) /\
  (forall cp, st_current st = Some cp -> pp_nodup cp).

Lemma set_key_all {A} (P : A -> Prop) : forall (l : list (string * A)) k v,
  (forall k0 p, In (k0, p) l -> P p) -> P v -> forall k0 p, In (k0, p) (set_key k v l) -> P p.
Proof.
  induction l as [|[k1 p1] r IH]; intros k v H Hv k0 p Hin; simpl in Hin.
  - destruct Hin as [E|[]]. inversion E; subst; auto.
  - destruct (String.eqb k k1).
    + destruct Hin as [E|Hin]; [inversion E; subst; auto|]. eapply H; right; eauto.
    + destruct Hin as [E|Hin]; [inversion E; subst; eapply H; left; eauto|].
      eapply IH; eauto. intros; eapply H; right; eauto.
Qed.

Lemma flush_params : forall st, params_ok st -> forall k p, In (k, p) (flush_current st) -> pp_nodup p.
Proof.
  intros st [H1 H2] k p Hin. unfold flush_current in Hin.
  destruct (st_current st) as [cp|] eqn:E; [|eauto].
  eapply (set_key_all pp_nodup); eauto.
Qed.

Section ParamsInv.
Variable pp : pyparse.
Variable xs : extractors.

Ltac lift_if := match goal with |- lift _ (if ?b then _ else _) => destruct b end.

(* an iteration inside a passage replaces the passage being built by one with the same parameter list *)
Lemma body_step_keeps_params : forall (R : pstate -> Prop) lines i line st cp,
  R st -> (forall cp', pp_params cp' = pp_params cp -> R (set_current st cp')) ->
  lift R (body_step pp xs lines i line st cp).
Proof.
  intros R lines i line st cp H0 H1. unfold body_step.
  lift_if; [apply lift_ok; auto|].
  lift_if; [apply lift_bind; intros [? ?]; apply lift_ok; auto|].
  lift_if; [apply lift_bind; intros [? ?]; apply lift_ok; auto|].
  lift_if; [apply lift_bind; intros [? ?]; apply lift_ok; auto|].
  lift_if; [apply lift_bind; intros [?|]; apply lift_ok; auto|].
  lift_if; [apply lift_bind; intros [?|]; apply lift_ok; auto|].
  lift_if.
  { destruct (split_ws (strip line)) as [|a [|b [|c [|? ?]]]]; try apply lift_diag. apply lift_ok; auto. }
  lift_if.
  { destruct (split_ws (strip line)) as [|a [|b [|c [|? ?]]]]; try apply lift_diag. apply lift_ok; auto. }
  lift_if; [apply lift_ok; auto|].
  lift_if.
  { destruct (arrow_rest _); [destruct (extract_target_and_args _)|]; apply lift_ok; auto. }
  lift_if.
  { destruct (strip_inline_comment _). destruct (extract_multiline_expression _ _ _).
    destruct (py_stmt_ok _ _); [apply lift_ok; auto|apply lift_diag]. }
  lift_if.
  { apply lift_bind. intros _. apply lift_bind.
    intros [[text target args cond sticky sec tags blk]|]; [|apply lift_diag].
    destruct (String.eqb target "@join").
    - apply lift_bind. intros [[? ?] ?]. apply lift_ok; auto.
    - apply lift_ok; auto. }
  lift_if.
  { lift_if; apply lift_bind; intros; apply lift_ok; auto. }
  apply lift_ok; auto.
Qed.

Lemma parse_step_params : forall lines i line st,
  params_ok st -> lift params_ok (parse_step pp xs lines i line st).
Proof.
  intros lines i line st0 Hn0. unfold parse_step.
  match goal with |- lift _ (match ?p with inl _ => _ | inr _ => _ end) =>
    assert (Hp : (forall s, p = inl s -> params_ok s) /\ (forall s j, p = inr (s, j) -> params_ok s));
      [|destruct p as [st1|[s j]]] end.
  { split; intros; repeat match goal with H : context [if ?b then _ else _] |- _ => destruct b end;
      match goal with H : _ = _ |- _ => inversion H; subst; exact Hn0 end. }
  2:{ destruct Hp as [_ Hp]. apply lift_ok. apply (Hp s j eq_refl). }
  destruct Hp as [Hp _]. specialize (Hp st1 eq_refl).
  lift_if; [apply lift_ok; exact Hp|].
  match goal with |- lift _ (match ?p with inl _ => _ | inr _ => _ end) =>
    assert (Hq : (forall s, p = inl s -> params_ok s) /\ (forall s j, p = inr (s, j) -> params_ok s));
      [|destruct p as [st2|[s j]]] end.
  { split; intros;
      repeat match goal with
             | H : context [if ?b then _ else _] |- _ => destruct b
             | H : context [match find_char ?a ?b with _ => _ end] |- _ => destruct (find_char a b)
             end;
      match goal with H : _ = _ |- _ => inversion H; subst; exact Hp end. }
  2:{ destruct Hq as [_ Hq]. apply lift_ok. apply (Hq s j eq_refl). }
  destruct Hq as [Hq _]. specialize (Hq st2 eq_refl).
  lift_if; [apply lift_ok; exact Hq|].
  lift_if.
  { destruct (strip_inline_comment _). destruct (extract_passage_params _) as [nwp pstr].
    destruct (parse_tags _) as [name tags].
    intros st' i' E. apply pbind_ok in E. destruct E as [[] [_ E]].
    apply pbind_ok in E. destruct E as [ps [Eps E]]. inversion E; subst. clear E.
    assert (Hps : sig_ok ps).
    { destruct (nonempty pstr); [|inversion Eps; split; [constructor|intros ? []]].
      apply retag_ok in Eps. eapply parse_passage_params_sig; eauto. }
    split; simpl.
    - apply flush_params; auto.
    - intros cp Hc. inversion Hc; subst. exact Hps. }
  destruct (st_current st2) as [cp|] eqn:Ec; [|apply lift_ok; auto].
  destruct Hq as [Hq1 Hq2].
  apply body_step_keeps_params; [split; auto|].
  intros cp' Hid. split; simpl; auto. intros cp0 Hc0. inversion Hc0; subst. unfold pp_nodup. rewrite Hid.
  apply Hq2. exact Ec.
Qed.

Lemma parse_loop_params : forall fuel lines n i st st',
  params_ok st -> parse_loop pp xs fuel lines n i st = POk st' -> params_ok st'.
Proof.
  induction fuel as [|f IH]; intros lines n i st st' H E; simpl in E.
  - destruct (n <=? i)%nat; [inversion E; subst; auto|discriminate].
  - destruct (n <=? i)%nat; [inversion E; subst; auto|].
    destruct (nth_error lines i) as [line|]; try discriminate.
    apply pbind_ok in E. destruct E as [[st1 i1] [E1 E2]].
    eapply IH; [|exact E2]. eapply (parse_step_params lines i line st H); eauto.
Qed.

End ParamsInv.

Definition story_params_distinct (st : story) : Prop :=
  forall k p, In (k, p) (passages st) -> NoDup (map pname (params p)).

(* fix F07d: no parameter of the story is named arg_<digits> *)
Definition story_params_unreserved (st : story) : Prop :=
  forall k p, In (k, p) (passages st) -> forall q, In q (params p) -> is_positional_marker (pname q) = false.

Lemma parse_ok_params_sig_lemma : forall pp is_call xs lines0 story,
  parse pp is_call xs lines0 = POk story -> forall k p, In (k, p) (passages story) -> sig_ok (params p).
Proof.
  intros pp is_call xs lines0 story H k p Hin. apply parse_inv in H.
  destruct H as [fs [Hl [_ [_ [Hp _]]]]]. cbv zeta in Hl.
  apply parse_loop_params in Hl; [|split; [intros ? ? []|discriminate]].
  rewrite Hp in Hin. apply in_map_iff in Hin. destruct Hin as [[k0 p0] [E Hin]]. simpl in E. inversion E; subst.
  simpl. exact (flush_params fs Hl k p0 Hin).
Qed.

Lemma parse_ok_params_distinct_lemma : forall pp is_call xs lines0 story,
  parse pp is_call xs lines0 = POk story -> story_params_distinct story.
Proof. intros pp is_call xs lines0 story H k p Hin. exact (proj1 (parse_ok_params_sig_lemma _ _ _ _ _ H k p Hin)). Qed.

Lemma parse_ok_params_unreserved_lemma : forall pp is_call xs lines0 story,
  parse pp is_call xs lines0 = POk story -> story_params_unreserved story.
Proof.
  intros pp is_call xs lines0 story H k p Hin q Hq.
  apply (proj2 (parse_ok_params_sig_lemma _ _ _ _ _ H k p Hin)). apply in_map. exact Hq.
Qed.

(* ---------------------------------------------------------------------------------------- *)
(* Part 3a: the engine with the two structural raise sites of _bind_arguments made parameters *)

Section B.
Variable orc : pyorc.
Variable ctxkeys : list string.
Variable st : story.

Definition enter_scope_b (dup missing : res env) (p : passage) (args : string) : M unit :=
  if has_scope p args then
    do ctx <- ctx_now;
    do ad <- lift_res (engine_arg_dict orc ctx args);
    match bind_arguments_g orc dup missing ctx (params p) ad 0 [] with
    | Ok pv => push_scope pv
    | Exc _ => raise ValueError
    end
  else ret tt.

Definition with_scope_b {A} (dup missing : res env) (p : passage) (args : string) (body : M A) : M A :=
  do _ <- enter_scope_b dup missing p args;
  finally body (if has_scope p args then pop_scope else ret tt).

Fixpoint goto_rec_b (dup missing : res env) (fuel : nat) (spec : string) (visited : list string) : M output :=
  match fuel with
  | O => raise OtherError
  | S fuel' =>
      do '(pid, args) <- lift_res (parse_spec spec);
      match get_passage st pid with
      | None => raise ValueError
      | Some p =>
          with_scope_b dup missing p args
            (if str_in pid visited then raise RuntimeError else
             do _ <- set_cur pid;
             do s <- get;
             do _ <- set_joinidx (set_key pid 0 (joinidx (nc s)));
             do _ <- execute_passage orc ctxkeys st pid;
             do o <- render_passage orc ctxkeys st pid;
             do o' <- match o_jump o with
                      | Some target =>
                          do jo <- goto_rec_b dup missing fuel' target (visited ++ [pid])%list;
                          ret (chain_output o jo)
                      | None => ret o
                      end;
             do _ <- set_out o';
             ret o')
      end
  end.

Definition goto_b (dup missing : res env) (spec : string) : M output :=
  goto_rec_b dup missing (S (List.length (passages st))) spec [].

Definition choose_nav_b (dup missing : res env) (ch : rchoice) (o : output) : M output :=
  do _ <- (if ch_sticky (rc_choice ch) then ret tt else
             fun s => set_used (add_used (choice_id (o_pid o) (rc_text ch) (ch_target (rc_choice ch)))
                                         (used (nc s))) s);
  if String.eqb (ch_target (rc_choice ch)) "@join" then execute_join_choice orc ctxkeys st ch
  else
    do r <- goto_b dup missing (jump_spec (ch_target (rc_choice ch)) (ch_args (rc_choice ch)));
    after_hooks orc ctxkeys st r.

Definition choose_b (dup missing : res env) (e : estate) (i : Z) : estate * res output :=
  let o := current_out e in
  if (i <? 0)%Z || (Z.of_nat (List.length (o_choices o)) <=? i)%Z then (e, Exc IndexError) else
  match nth_error (o_choices o) (Z.to_nat i) with
  | None => (e, Exc IndexError)
  | Some ch =>
      let e1 := mkES (ec e) (push50 (ec e) (undo_stack e)) [] (escopes e) (elog e) in
      run_nav (choose_nav_b dup missing ch o) e1
  end.

Definition goto_op_b (dup missing : res env) (e : estate) (spec : string) : estate * res output :=
  run_nav (goto_b dup missing spec) e.

Definition init_b (dup missing : res env) (v0 : env) : estate * res output :=
  let e0 := mkES (empty_core (set_key "_inputs" (VDict []) v0)) [] [] [] [] in
  match get_passage st (initial st) with
  | None => (e0, Exc ValueError)
  | Some _ => goto_op_b dup missing e0 (initial st)
  end.

Definition step_b (dup missing : res env) (e : estate) (o : op) : estate * obs :=
  match o with
  | OpChoose i => match choose_b dup missing e i with
                  | (e', Ok _) => (e', ObsOk)
                  | (e', Exc x) => (e', ObsExc x)
                  end
  | OpGoto spec => match goto_op_b dup missing e spec with
                   | (e', Ok _) => (e', ObsOk)
                   | (e', Exc x) => (e', ObsExc x)
                   end
  | _ => step orc ctxkeys st e o      (* undo, redo, reset, read, reload, input, bad load, save, load: no navigation *)
  end.

Fixpoint run_slot_b (dup missing : res env) (e : estate) (slot : option core) (ops : list op)
  : list (obs * view) :=
  match ops with
  | [] => []
  | OpSave :: r => (ObsOk, view_of e) :: run_slot_b dup missing e (Some (ec e)) r
  | OpLoad :: r =>
      match slot with
      | Some c => let e' := mkES c [] [] (escopes e) (elog e) in
                  (ObsOk, view_of e') :: run_slot_b dup missing e' slot r
      | None => (ObsOk, view_of e) :: run_slot_b dup missing e slot r
      end
  | o :: r => let '(e', b) := step_b dup missing e o in (b, view_of e') :: run_slot_b dup missing e' slot r
  end.

Definition run_all_b (dup missing : res env) (v0 : env) (ops : list op) : list (obs * view) :=
  match init_b dup missing v0 with
  | (e0, Ok _) => (ObsOk, view_of e0) :: run_slot_b dup missing e0 None ops
  | (e0, Exc x) => [(ObsExc x, view_of e0)]
  end.

(* ---- the real operations are the instances with the real raises ---- *)
Lemma enter_scope_is_b p args s :
  enter_scope orc p args s = enter_scope_b (Exc ValueError) (Exc ValueError) p args s.
Proof.
  unfold enter_scope, enter_scope_b, engine_arg_dict. destruct (has_scope p args); [|reflexivity].
  apply bind_ext. intros s1 ctx _. apply bind_ext. intros s2 ad _.
  rewrite bind_arguments_is_g. reflexivity.
Qed.

Lemma with_scope_is_b {A} p args (b1 b2 : M A) s :
  (forall s1, b1 s1 = b2 s1) ->
  with_scope orc p args b1 s = with_scope_b (Exc ValueError) (Exc ValueError) p args b2 s.
Proof.
  intros H. unfold with_scope, with_scope_b. unfold bind. rewrite enter_scope_is_b.
  destruct (enter_scope_b _ _ p args s) as [s1 [[]|e]]; [|reflexivity].
  unfold finally. rewrite H. reflexivity.
Qed.

Lemma goto_rec_is_b : forall fuel spec visited s,
  goto_rec orc ctxkeys st fuel spec visited s = goto_rec_b (Exc ValueError) (Exc ValueError) fuel spec visited s.
Proof.
  induction fuel as [|f IH]; intros spec visited s; [reflexivity|].
  cbn [goto_rec goto_rec_b]. apply bind_ext. intros s1 [pid args] _. simpl.
  destruct (get_passage st pid) as [p|]; [|reflexivity].
  apply with_scope_is_b. intros s2. destruct (str_in pid visited); [reflexivity|].
  apply bind_ext; intros s3 _ _. apply bind_ext; intros s4 s4' _.
  apply bind_ext; intros s5 _ _. apply bind_ext; intros s6 _ _.
  apply bind_ext; intros s7 o _. apply bind_ext_m.
  destruct (o_jump o) as [target|]; [|reflexivity].
  apply bind_ext_m. apply IH.
Qed.

Lemma goto_is_b spec s : goto orc ctxkeys st spec s = goto_b (Exc ValueError) (Exc ValueError) spec s.
Proof. unfold goto, goto_b. apply goto_rec_is_b. Qed.

Lemma choose_nav_is_b ch o s :
  choose_nav orc ctxkeys st ch o s = choose_nav_b (Exc ValueError) (Exc ValueError) ch o s.
Proof.
  unfold choose_nav, choose_nav_b. apply bind_ext. intros s1 _ _.
  destruct (String.eqb (ch_target (rc_choice ch)) "@join"); [reflexivity|].
  apply bind_ext_m. apply goto_is_b.
Qed.

Lemma choose_is_b e i : choose orc ctxkeys st e i = choose_b (Exc ValueError) (Exc ValueError) e i.
Proof.
  unfold choose, choose_b.
  destruct ((i <? 0)%Z || (Z.of_nat (List.length (o_choices (current_out e))) <=? i)%Z); [reflexivity|].
  destruct (nth_error (o_choices (current_out e)) (Z.to_nat i)) as [ch|]; [|reflexivity].
  unfold run_nav. rewrite choose_nav_is_b. reflexivity.
Qed.

Lemma goto_op_is_b e spec : goto_op orc ctxkeys st e spec = goto_op_b (Exc ValueError) (Exc ValueError) e spec.
Proof. unfold goto_op, goto_op_b, run_nav. rewrite goto_is_b. reflexivity. Qed.

Lemma init_is_b v0 : init orc ctxkeys st v0 = init_b (Exc ValueError) (Exc ValueError) v0.
Proof. unfold init, init_b. destruct (get_passage st (initial st)); [|reflexivity]. apply goto_op_is_b. Qed.

Lemma step_is_b e o : step orc ctxkeys st e o = step_b (Exc ValueError) (Exc ValueError) e o.
Proof.
  destruct o; try reflexivity; unfold step, step_b.
  - rewrite choose_is_b. reflexivity.
  - rewrite goto_op_is_b. reflexivity.
Qed.

Lemma run_slot_is_b ops : forall e slot,
  run_slot orc ctxkeys st e slot ops = run_slot_b (Exc ValueError) (Exc ValueError) e slot ops.
Proof.
  induction ops as [|o r IH]; intros e slot; [reflexivity|].
  destruct o; cbn [run_slot run_slot_b];
    try (rewrite <- step_is_b; destruct (step orc ctxkeys st e _) as [e' b]; f_equal; apply IH).
  - f_equal. apply IH.
  - destruct slot; cbv zeta; f_equal; apply IH.
Qed.

Lemma run_all_is_b v0 ops :
  run_all orc ctxkeys st v0 ops = run_all_b (Exc ValueError) (Exc ValueError) v0 ops.
Proof.
  unfold run_all, run_all_b, run. rewrite <- init_is_b.
  destruct (init orc ctxkeys st v0) as [e0 [o|x]]; [|reflexivity]. f_equal. apply run_slot_is_b.
Qed.

End B.

(* ---------------------------------------------------------------------------------------- *)
(* Part 3b: the invariant "every cached choice sits at a walk position of a passage of the story".
   No hypothesis on the story: outputs are only built by render_passage / render_from_join_marker
   (GraphProofs.render_passage_positions, render_from_join_marker_offered); the same Hoare-style bookkeeping as
   the invariant of Proofs/StoryWfChoose.v, for positions instead of targets. *)

Section Pos.
Variable orc : pyorc.
Variable ctxkeys : list string.
Variable st : story.

Definition out_pos (o : output) : Prop :=
  forall rc, In rc (o_choices o) ->
    exists pid p k, get_passage st pid = Some p /\ passage_choice p (rc_choice rc) k.

Definition core_pos (c : core) : Prop := forall o, out c = Some o -> out_pos o.

Definition HP {A} (m : M A) (Q : A -> Prop) : Prop :=
  forall s s' r, m s = (s', r) -> core_pos (nc s) -> core_pos (nc s') /\ (forall a, r = Ok a -> Q a).

Lemma HP_bind {A B} (m : M A) (f : A -> M B) (Q : A -> Prop) (R : B -> Prop) :
  HP m Q -> (forall a, Q a -> HP (f a) R) -> HP (bind m f) R.
Proof.
  intros Hm Hf s s' r H Hc. unfold bind in H. destruct (m s) as [s1 [a|e]] eqn:E.
  - destruct (Hm _ _ _ E Hc) as [C1 Q1]. eapply Hf; eauto.
  - inversion H; subst. destruct (Hm _ _ _ E Hc) as [C1 _]. split; [exact C1|]. intros a Ha. discriminate.
Qed.

Lemma HP_keep {A} (m : M A) : KeepOut m -> HP m (fun _ => True).
Proof.
  intros Hk s s' r H Hc. split; [|auto]. intros o Ho. apply Hc. rewrite <- (Hk _ _ _ H). exact Ho.
Qed.

Lemma HP_ret {A} (a : A) (Q : A -> Prop) : Q a -> HP (ret a) Q.
Proof.
  intros Hq s s' r H Hc. inversion H; subst. split; [exact Hc|]. intros b Hb. inversion Hb; subst. exact Hq.
Qed.

Lemma HP_raise {A} e (Q : A -> Prop) : HP (@raise A e) Q.
Proof. intros s s' r H Hc. inversion H; subst. split; [exact Hc|]. intros b Hb. discriminate. Qed.

Lemma HP_set_out o : out_pos o -> HP (set_out o) (fun _ => True).
Proof.
  intros Ho s s' r H _. inversion H; subst. split; [|auto]. intros o' E. simpl in E. inversion E; subst. exact Ho.
Qed.

Lemma HP_with_scope {A} p args (body : M A) (Q : A -> Prop) :
  HP body Q -> HP (with_scope orc p args body) Q.
Proof.
  intros Hb s s' r H Hc. unfold with_scope, bind in H.
  destruct (enter_scope orc p args s) as [s1 [[]|e]] eqn:E.
  - apply enter_scope_spec in E. destruct E as (Enc & _ & _).
    unfold finally in H. destruct (body s1) as [s2 r2] eqn:Eb.
    assert (Hn : nc s' = nc s2 /\ r = r2) by (destruct (has_scope p args); inversion H; split; reflexivity).
    destruct Hn as [Hn ->]. rewrite Hn. eapply Hb; eauto. rewrite Enc. exact Hc.
  - inversion H; subst. apply enter_scope_spec in E. destruct E as (Enc & _ & _). rewrite Enc.
    split; [exact Hc|]. intros a Ha. discriminate.
Qed.

Lemma out_pos_hook o h : out_pos o -> out_pos (with_hook_output o h).
Proof.
  intros Ho. unfold with_hook_output. destruct (String.eqb h ""); [exact Ho|].
  intros rc Hin. simpl in Hin. apply Ho. exact Hin.
Qed.

Lemma HP_after_hooks o : out_pos o -> HP (after_hooks orc ctxkeys st o) (fun _ => True).
Proof.
  intros Ho. unfold after_hooks.
  eapply HP_bind; [apply HP_keep, KeepOut_trigger_event|]. intros h _.
  destruct (String.eqb h ""); [apply HP_ret; exact I|].
  eapply HP_bind; [apply HP_set_out, out_pos_hook, Ho|]. intros _ _. apply HP_ret. exact I.
Qed.

Lemma HP_render_passage pid : HP (render_passage orc ctxkeys st pid) out_pos.
Proof.
  intros s s' r H Hc. split.
  - intros o Ho. apply Hc.
    rewrite <- (FrameM_KeepOut _ (FrameM_render_passage orc ctxkeys st pid) _ _ _ H). exact Ho.
  - intros o ->. destruct (render_passage_positions _ _ _ _ _ _ _ H) as (p & Hp & _ & _ & B).
    intros rc Hin. destruct (B _ Hin) as [k Hk]. exists pid, p, k. split; assumption.
Qed.

Lemma HP_render_from_join_marker pid idx : HP (render_from_join_marker orc ctxkeys st pid idx) out_pos.
Proof.
  intros s s' r H Hc. split.
  - intros o Ho. apply Hc.
    rewrite <- (FrameM_KeepOut _ (FrameM_render_from_join_marker orc ctxkeys st pid idx) _ _ _ H). exact Ho.
  - intros post ->. destruct (render_from_join_marker_offered _ _ _ _ _ _ _ _ H) as [Hpid Hoff].
    intros rc Hin. destruct (Hoff _ Hin) as (p & k & Hp & Hk). exists (o_pid post), p, k. split; assumption.
Qed.

Lemma HP_goto_tail f pid vis :
  (forall spec vis', HP (goto_rec orc ctxkeys st f spec vis') out_pos) ->
  HP (goto_tail orc ctxkeys st f pid vis) out_pos.
Proof.
  intros IH. unfold goto_tail.
  eapply HP_bind; [apply HP_keep, KeepOut_get|]. intros sg _.
  eapply HP_bind; [apply HP_keep, KeepOut_set_joinidx|]. intros _ _.
  eapply HP_bind; [apply HP_keep, KeepOut_execute_passage|]. intros _ _.
  eapply HP_bind; [apply HP_render_passage|]. intros o Ho.
  eapply HP_bind with (Q := out_pos).
  - destruct (o_jump o); [|apply HP_ret; exact Ho].
    eapply HP_bind; [apply IH|]. intros jo Hjo. apply HP_ret.
    intros rc Hin. simpl in Hin. apply Hjo. exact Hin.
  - intros o' Ho'. eapply HP_bind; [apply HP_set_out; exact Ho'|]. intros _ _. apply HP_ret. exact Ho'.
Qed.

Lemma HP_goto_rec f : forall spec vis, HP (goto_rec orc ctxkeys st f spec vis) out_pos.
Proof.
  induction f as [|f IH]; intros spec vis; [apply HP_raise|]. rewrite goto_rec_S.
  eapply HP_bind; [apply HP_keep, KeepOut_lift|]. intros [pid args] _.
  destruct (get_passage st pid) as [p|]; [|apply HP_raise].
  apply HP_with_scope.
  destruct (str_in pid vis); [apply HP_raise|].
  eapply HP_bind; [apply HP_keep, KeepOut_set_cur|]. intros _ _.
  apply HP_goto_tail. exact IH.
Qed.

Lemma HP_execute_join_choice c : HP (execute_join_choice orc ctxkeys st c) (fun _ => True).
Proof.
  unfold execute_join_choice.
  eapply HP_bind; [apply HP_keep, KeepOut_get|]. intros sg _. cbv zeta.
  eapply HP_bind.
  { apply HP_keep. destruct (ch_block (rc_choice c)); [apply KeepOut_ret|].
    apply KeepOut_bind; [apply FrameM_KeepOut, FrameM_render_content|]. intros [[? ?] ?]. apply KeepOut_ret. }
  intros [btxt bds] _.
  eapply HP_bind; [apply HP_keep, KeepOut_get|]. intros s1 _. cbv zeta.
  eapply HP_bind; [apply HP_render_from_join_marker|]. intros post Hpost.
  eapply HP_bind; [apply HP_keep, KeepOut_get|]. intros s2 _.
  eapply HP_bind; [apply HP_keep, KeepOut_set_joinidx|]. intros _ _. cbv zeta.
  eapply HP_bind; [apply HP_set_out|].
  - intros rc Hin. simpl in Hin. apply Hpost. exact Hin.
  - intros _ _. apply HP_after_hooks. intros rc Hin. simpl in Hin. apply Hpost. exact Hin.
Qed.

Lemma HP_choose_nav ch o : HP (choose_nav orc ctxkeys st ch o) (fun _ => True).
Proof.
  unfold choose_nav.
  eapply HP_bind with (Q := fun _ => True).
  - apply HP_keep. destruct (ch_sticky (rc_choice ch)); [apply KeepOut_ret|].
    intros s s' r H. inversion H; reflexivity.
  - intros _ _. destruct (String.eqb (ch_target (rc_choice ch)) "@join"); [apply HP_execute_join_choice|].
    eapply HP_bind; [unfold goto; apply HP_goto_rec|]. intros r Hr. apply HP_after_hooks. exact Hr.
Qed.

(* ---- whole engine states ---- *)
Definition PInv (e : estate) : Prop :=
  core_pos (ec e) /\ Forall core_pos (undo_stack e) /\ Forall core_pos (redo_stack e).

Lemma current_out_pos e : core_pos (ec e) -> out_pos (current_out e).
Proof.
  unfold current_out, core_pos. intros H. destruct (out (ec e)) as [o|]; [apply H; reflexivity|].
  intros rc [].
Qed.

Lemma run_nav_PInv {A} (m : M A) (Q : A -> Prop) e : HP m Q -> PInv e -> PInv (fst (run_nav m e)).
Proof.
  intros Hm (H1 & H2 & H3). unfold run_nav. destruct (m _) as [s r] eqn:E. simpl.
  destruct (Hm _ _ _ E H1) as [C _]. split; [exact C|]. split; assumption.
Qed.

Lemma PInv_choose e i : PInv e -> PInv (fst (choose orc ctxkeys st e i)).
Proof.
  intros HI. unfold choose.
  destruct ((i <? 0)%Z || (Z.of_nat (List.length (o_choices (current_out e))) <=? i)%Z); [exact HI|].
  destruct (nth_error (o_choices (current_out e)) (Z.to_nat i)) as [ch|]; [|exact HI].
  apply (run_nav_PInv _ (fun _ => True)); [apply HP_choose_nav|].
  destruct HI as (H1 & H2 & H3). split; [exact H1|]. split; [|constructor].
  unfold push50. apply Forall_firstn. constructor; assumption.
Qed.

Lemma PInv_goto_op e spec : PInv e -> PInv (fst (goto_op orc ctxkeys st e spec)).
Proof. intros HI. unfold goto_op, goto. apply (run_nav_PInv _ out_pos); [apply HP_goto_rec|exact HI]. Qed.

Lemma PInv_step e o : PInv e -> PInv (fst (step orc ctxkeys st e o)).
Proof.
  intros HI. destruct o; unfold step.
  - rewrite fst_obs. apply PInv_choose. exact HI.
  - destruct HI as (H1 & H2 & H3). unfold undo. destruct (undo_stack e) as [|p rest] eqn:Eu; simpl.
    + split; [assumption|]. split; [rewrite Eu; constructor|assumption].
    + inversion H2; subst. split; [assumption|]. split; [assumption|constructor; assumption].
  - destruct HI as (H1 & H2 & H3). unfold redo. destruct (redo_stack e) as [|p rest] eqn:Er; simpl.
    + split; [assumption|]. split; [assumption|rewrite Er; constructor].
    + inversion H3; subst. split; [assumption|]. split; [|assumption].
      unfold push50. apply Forall_firstn. constructor; assumption.
  - rewrite fst_obs. apply PInv_goto_op. exact HI.
  - exact HI.
  - exact HI.
  - destruct HI as (H1 & H2 & H3). split; [exact H1|]. split; constructor.
  - exact HI.
  - exact HI.
  - exact HI.
  - exact HI.
Qed.

Lemma PInv_init v0 : PInv (fst (init orc ctxkeys st v0)).
Proof.
  unfold init.
  set (e0 := mkES (empty_core (set_key "_inputs" (VDict []) v0)) [] [] [] []).
  assert (I0 : PInv e0).
  { split; [|split; constructor]. intros o Ho. discriminate. }
  destruct (get_passage st (initial st)); [|exact I0].
  apply PInv_goto_op. exact I0.
Qed.

Lemma PInv_reach e : reach orc ctxkeys st e -> PInv e.
Proof.
  induction 1 as [v0 e o Hi|e o Hr IH]; [|apply PInv_step; exact IH].
  replace e with (fst (init orc ctxkeys st v0)) by (rewrite Hi; reflexivity). apply PInv_init.
Qed.

Lemma played_PInv e slot : played orc ctxkeys st e slot -> PInv e /\ (forall c, slot = Some c -> core_pos c).
Proof.
  induction 1 as [v0 e o Hi|e slot o Hp [IH1 IH2]|e slot Hp [IH1 IH2]|e slot c Hp [IH1 IH2] Hc].
  - split; [|intros c Hc; discriminate].
    replace e with (fst (init orc ctxkeys st v0)) by (rewrite Hi; reflexivity). apply PInv_init.
  - split; [apply PInv_step; assumption|exact IH2].
  - split; [exact IH1|]. intros c Hc. inversion Hc; subst. apply IH1.
  - split; [|exact IH2]. split; [apply IH2; exact Hc|]. split; constructor.
Qed.

(* every choice offered in a state a history can reach sits at a walk position of a passage of the story *)
Lemma reach_offered_positions_lemma e rc :
  reach orc ctxkeys st e -> In rc (o_choices (current_out e)) ->
  exists pid p k, get_passage st pid = Some p /\ passage_choice p (rc_choice rc) k.
Proof. intros Hr Hin. destruct (PInv_reach e Hr) as [H1 _]. exact (current_out_pos e H1 rc Hin). Qed.

End Pos.

(* ---------------------------------------------------------------------------------------- *)
(* Part 3c: the two sites are never reached *)

Section Never.
Variable orc : pyorc.
Variable ctxkeys : list string.
Variable st : story.

(* for the argument dict goto builds from `args`, binding to p's parameters reaches neither site *)
Definition binds_ok (p : passage) (args : string) : Prop :=
  forall ctx ad dup missing, engine_arg_dict orc ctx args = Ok ad ->
    bind_arguments_g orc dup missing ctx (params p) ad 0 [] = bind_arguments orc ctx (params p) ad 0 [].

(* a passage spec as the engine reads it (name up to "(", arguments up to the matching ")") calls a passage
   whose parameters the arguments fit *)
Definition valid_spec (spec : string) : Prop :=
  forall pid args p, parse_spec spec = Ok (pid, args) -> get_passage st pid = Some p -> binds_ok p args.

Definition op_valid (o : op) : Prop := match o with OpGoto spec => valid_spec spec | _ => True end.

Lemma enter_scope_b_eq dup missing p args s :
  binds_ok p args -> enter_scope_b orc dup missing p args s = enter_scope orc p args s.
Proof.
  intros Hb. unfold enter_scope_b, enter_scope. destruct (has_scope p args); [|reflexivity].
  apply bind_ext. intros s1 ctx _. apply bind_ext. intros s2 ad Had.
  unfold lift_res in Had. inversion Had; subst. rewrite (Hb ctx ad dup missing); [reflexivity|].
  unfold engine_arg_dict. assumption.
Qed.

Lemma with_scope_b_eq {A} dup missing p args (b1 b2 : M A) s :
  binds_ok p args -> (forall s1, b1 s1 = b2 s1) ->
  with_scope_b orc dup missing p args b1 s = with_scope orc p args b2 s.
Proof.
  intros Hb H. unfold with_scope_b, with_scope, bind. rewrite enter_scope_b_eq by exact Hb.
  destruct (enter_scope orc p args s) as [s1 [[]|e]]; [|reflexivity].
  unfold finally. rewrite H. reflexivity.
Qed.

(* the call sites of the story, at the positions the renderer can report them from *)
Hypothesis Hjumps : forall pid p tg a,
  get_passage st pid = Some p -> passage_jump p tg a -> valid_spec (jump_spec tg a).
Hypothesis Hchoices : forall pid p c k,
  get_passage st pid = Some p -> passage_choice p c k ->
  ch_target c = "@join" \/ valid_spec (jump_spec (ch_target c) (ch_args c)).

Variables dup missing : res env.

(* the jump chain: every hop *)
Lemma goto_rec_b_eq : forall fuel spec visited s, valid_spec spec ->
  goto_rec_b orc ctxkeys st dup missing fuel spec visited s = goto_rec orc ctxkeys st fuel spec visited s.
Proof.
  induction fuel as [|f IH]; intros spec visited s Hv; [reflexivity|].
  cbn [goto_rec goto_rec_b]. apply bind_ext. intros s1 [pid args] Hp. simpl.
  unfold lift_res in Hp. inversion Hp; subst.
  destruct (get_passage st pid) as [p|] eqn:Ep; [|reflexivity].
  apply with_scope_b_eq; [eapply Hv; eauto|]. intros s2. destruct (str_in pid visited); [reflexivity|].
  apply bind_ext; intros s3 _ _. apply bind_ext; intros s4 s4' _.
  apply bind_ext; intros s5 _ _. apply bind_ext; intros s6 _ _.
  apply bind_ext; intros s7 o Er. apply bind_ext_m.
  destruct (o_jump o) as [target|] eqn:Ej; [|reflexivity].
  apply bind_ext_m. apply IH.
  destruct (render_passage_positions _ _ _ _ _ _ _ Er) as (p' & Hp' & _ & A & _).
  destruct (A _ Ej) as (tg & a & Hpj & ->). eapply Hjumps; eauto.
Qed.

Lemma goto_b_eq spec s : valid_spec spec -> goto_b orc ctxkeys st dup missing spec s = goto orc ctxkeys st spec s.
Proof. intros Hv. unfold goto_b, goto. apply goto_rec_b_eq. exact Hv. Qed.

Lemma choose_nav_b_eq ch o s :
  (ch_target (rc_choice ch) = "@join" \/ valid_spec (jump_spec (ch_target (rc_choice ch)) (ch_args (rc_choice ch)))) ->
  choose_nav_b orc ctxkeys st dup missing ch o s = choose_nav orc ctxkeys st ch o s.
Proof.
  intros Ht. unfold choose_nav_b, choose_nav. apply bind_ext. intros s1 _ _.
  destruct (String.eqb (ch_target (rc_choice ch)) "@join") eqn:E; [reflexivity|].
  apply bind_ext_m. apply goto_b_eq.
  destruct Ht as [Ht|Ht]; [|exact Ht]. rewrite Ht in E. discriminate.
Qed.

(* choose with ANY integer, in any state that satisfies the invariant *)
Lemma choose_b_eq e i : PInv st e -> choose_b orc ctxkeys st dup missing e i = choose orc ctxkeys st e i.
Proof.
  intros (H1 & _ & _). unfold choose_b, choose.
  destruct ((i <? 0)%Z || (Z.of_nat (List.length (o_choices (current_out e))) <=? i)%Z); [reflexivity|].
  destruct (nth_error (o_choices (current_out e)) (Z.to_nat i)) as [ch|] eqn:En; [|reflexivity].
  unfold run_nav. rewrite choose_nav_b_eq; [reflexivity|].
  destruct (current_out_pos st e H1 ch (nth_error_In _ _ En)) as (pid & p & k & Hp & Hc).
  eapply Hchoices; eauto.
Qed.

Lemma goto_op_b_eq e spec :
  valid_spec spec -> goto_op_b orc ctxkeys st dup missing e spec = goto_op orc ctxkeys st e spec.
Proof. intros Hv. unfold goto_op_b, goto_op, run_nav. rewrite goto_b_eq by exact Hv. reflexivity. Qed.

Lemma step_b_eq e o : PInv st e -> op_valid o -> step_b orc ctxkeys st dup missing e o = step orc ctxkeys st e o.
Proof.
  intros HI Hd. destruct o; try reflexivity; unfold step_b, step.
  - rewrite choose_b_eq by exact HI. reflexivity.
  - rewrite goto_op_b_eq by exact Hd. reflexivity.
Qed.

Lemma init_b_eq v0 : valid_spec (initial st) -> init_b orc ctxkeys st dup missing v0 = init orc ctxkeys st v0.
Proof.
  intros Hv. unfold init_b, init. destruct (get_passage st (initial st)); [|reflexivity].
  apply goto_op_b_eq. exact Hv.
Qed.

Lemma run_slot_b_eq ops : forall e slot,
  PInv st e -> (forall c, slot = Some c -> core_pos st c) -> Forall op_valid ops ->
  run_slot_b orc ctxkeys st dup missing e slot ops = run_slot orc ctxkeys st e slot ops.
Proof.
  induction ops as [|o r IH]; intros e slot HI Hs Hd; [reflexivity|].
  inversion Hd as [|? ? Ho Hr]; subst.
  pose proof (step_b_eq e o HI Ho) as Hstep.
  pose proof (PInv_step orc ctxkeys st e o HI) as Hnext.
  destruct o; cbn [run_slot_b run_slot];
    try (rewrite Hstep; destruct (step orc ctxkeys st e _) as [e' b];
         f_equal; apply IH; [exact Hnext|exact Hs|exact Hr]).
  - (* save *) f_equal. apply IH; [exact HI| |exact Hr].
    intros c Hc. inversion Hc; subst. apply HI.
  - (* load *) destruct slot as [c|]; cbv zeta; f_equal; (apply IH; [|exact Hs|exact Hr]).
    + split; [apply Hs; reflexivity|]. split; constructor.
    + exact HI.
Qed.

Lemma run_all_b_eq v0 ops :
  valid_spec (initial st) -> Forall op_valid ops ->
  run_all_b orc ctxkeys st dup missing v0 ops = run_all orc ctxkeys st v0 ops.
Proof.
  intros Hk Hd. unfold run_all_b, run_all, run. rewrite (init_b_eq v0 Hk).
  pose proof (PInv_init orc ctxkeys st v0) as HI.
  destruct (init orc ctxkeys st v0) as [e0 [o|x]]; [|reflexivity]. f_equal.
  apply run_slot_b_eq; [exact HI| |exact Hd]. intros c Hc. discriminate.
Qed.

End Never.

(* ---------------------------------------------------------------------------------------- *)
(* Part 3d: stories whose call sites are validated *)

(* The compiler validates the argument text it stored in the token / choice; the engine gets the call as ONE
   string `Target(args)` (jump_spec) and splits it again with its own parenthesis scan (parse_spec).  The two
   agree when re-reading gives back the same pair -- true of what extract_target_and_args produces (it cuts the
   arguments at the matching parenthesis with the same scan), but not a consequence of `parse ... = POk story`
   for ARBITRARY block extractors, which may put any text into a token.  Stated as a property of the story. *)
Definition spec_roundtrip (tg a : string) : Prop := parse_spec (jump_spec tg a) = Ok (tg, a).

Definition story_specs_roundtrip (st : story) : Prop :=
  forall k p, In (k, p) (passages st) ->
    (forall c kd, passage_choice p c kd -> ch_target c = "@join" \/ spec_roundtrip (ch_target c) (ch_args c)) /\
    (forall tg a, passage_jump p tg a -> spec_roundtrip tg a).

(* sufficient: the name has no "(" and the engine's scan of `args)` stops at that last parenthesis *)
Definition args_balanced (a : string) : Prop := a = "" \/ Engine.match_paren (a ++ ")") 0 "" = Some a.

Lemma drop_app_S : forall x c y, drop (S (String.length x)) (x ++ String c y) = y.
Proof.
  induction x as [|d r IH]; intros c y; [reflexivity|].
  change (drop (S (String.length r)) (r ++ String c y) = y). apply IH.
Qed.

Lemma balanced_roundtrip tg a : no_paren tg = true -> args_balanced a -> spec_roundtrip tg a.
Proof.
  intros Hn Hb. unfold spec_roundtrip, jump_spec. destruct (String.eqb a "") eqn:Ea.
  - apply String.eqb_eq in Ea. subst a. unfold parse_spec, find_char.
    rewrite find_char_from_no_paren by exact Hn. reflexivity.
  - destruct Hb as [->|Hb]; [discriminate|]. unfold parse_spec, find_char.
    change (tg ++ "(" ++ a ++ ")")%string with (tg ++ String "("%char (a ++ ")"))%string.
    rewrite find_char_from_app by exact Hn. rewrite Nat.add_0_l.
    rewrite drop_app_S, Hb, take_app_length. reflexivity.
Qed.

Section Story.
Variable pp : pyparse.
Variable is_call : string -> bool.
Variable orc : pyorc.
Variable ctxkeys : list string.
Variable st : story.
Hypothesis Hsh : shape_agrees pp orc.
Hypothesis Hbl : blank_shape pp.
Hypothesis Hnd : story_params_distinct st.
Hypothesis Hval : story_calls_validated pp is_call st.

Lemma binds_ok_validated tg a p :
  call_ok pp is_call (passages st) tg a -> String.eqb tg "@join" = false -> get_passage st tg = Some p ->
  binds_ok orc p a.
Proof.
  intros Hc Hj Hp ctx ad dup missing Hd.
  eapply (validated_engine_dict_binds_lemma pp is_call orc (passages st) Hsh tg a p); eauto.
  eapply Hnd. apply get_passage_in. exact Hp.
Qed.

Lemma valid_spec_site tg a :
  call_ok pp is_call (passages st) tg a -> String.eqb tg "@join" = false -> spec_roundtrip tg a ->
  valid_spec orc st (jump_spec tg a).
Proof.
  intros Hc Hj Hrt pid args p Hps Hgp. rewrite Hrt in Hps. inversion Hps; subst.
  eapply binds_ok_validated; eauto.
Qed.

(* ---- call sites as the compiler stored them: no further hypothesis ---- *)

(* a jump token at any depth of any passage: if its argument text evaluates, binding to the target's
   parameters reaches neither structural raise site *)
Lemma jump_site_binds_lemma pid p tg a :
  get_passage st pid = Some p -> passage_jump p tg a ->
  exists tp, get_passage st tg = Some tp /\
    forall ctx pos kws dup missing, o_args orc ctx a = Ok (pos, kws) ->
      bind_arguments_g orc dup missing ctx (params tp) (args_dict pos kws) 0 [] =
      bind_arguments orc ctx (params tp) (args_dict pos kws) 0 [].
Proof.
  intros Hp Hj. destruct (Hval _ _ (get_passage_in _ _ _ Hp)) as [_ HJ].
  destruct (HJ _ _ Hj) as [Hnj Hc]. simpl in Hnj, Hc.
  destruct (validate_single_call_target _ _ _ _ _ Hc) as [->|Hk]; [discriminate|].
  unfold has_key in Hk. destruct (lookup tg (passages st)) as [tp|] eqn:El; [|discriminate].
  exists tp. split; [exact El|]. intros ctx pos kws dup missing Ho.
  eapply (validated_call_binds_lemma pp is_call orc (passages st) Hsh tg a tp); eauto.
  eapply Hnd. apply lookup_In. exact El.
Qed.

(* a choice offered in ANY state a history can reach, other than `-> @join` *)
Lemma offered_choice_binds_lemma e rc :
  reach orc ctxkeys st e -> In rc (o_choices (current_out e)) -> ch_target (rc_choice rc) <> "@join" ->
  exists tp, get_passage st (ch_target (rc_choice rc)) = Some tp /\
    forall ctx pos kws dup missing, o_args orc ctx (ch_args (rc_choice rc)) = Ok (pos, kws) ->
      bind_arguments_g orc dup missing ctx (params tp) (args_dict pos kws) 0 [] =
      bind_arguments orc ctx (params tp) (args_dict pos kws) 0 [].
Proof.
  intros Hr Hin Hnj. destruct (reach_offered_positions_lemma orc ctxkeys st e rc Hr Hin) as (pid & p & k & Hp & Hc).
  destruct (Hval _ _ (get_passage_in _ _ _ Hp)) as [HC _]. specialize (HC _ _ Hc). unfold choice_ok in HC.
  destruct (validate_single_call_target _ _ _ _ _ HC) as [E|Hk]; [contradiction|].
  unfold has_key in Hk. destruct (lookup (ch_target (rc_choice rc)) (passages st)) as [tp|] eqn:El; [|discriminate].
  exists tp. split; [exact El|]. intros ctx pos kws dup missing Ho.
  eapply (validated_call_binds_lemma pp is_call orc (passages st) Hsh _ _ tp); eauto.
  - apply String.eqb_neq. exact Hnj.
  - eapply Hnd. apply lookup_In. exact El.
Qed.

(* ---- the engine's own operations: with the re-reading of the spec string ---- *)
Hypothesis Hrt : story_specs_roundtrip st.

Lemma story_jumps_valid pid p tg a :
  get_passage st pid = Some p -> passage_jump p tg a -> valid_spec orc st (jump_spec tg a).
Proof.
  intros Hp Hj. pose proof (get_passage_in _ _ _ Hp) as Hin.
  destruct (Hval _ _ Hin) as [_ HJ]. destruct (HJ _ _ Hj) as [Hnj Hc].
  destruct (Hrt _ _ Hin) as [_ HR]. apply valid_spec_site; auto.
Qed.

Lemma story_choices_valid pid p c k :
  get_passage st pid = Some p -> passage_choice p c k ->
  ch_target c = "@join" \/ valid_spec orc st (jump_spec (ch_target c) (ch_args c)).
Proof.
  intros Hp Hc. pose proof (get_passage_in _ _ _ Hp) as Hin.
  destruct (Hval _ _ Hin) as [HC _]. specialize (HC _ _ Hc).
  destruct (Hrt _ _ Hin) as [HR _]. destruct (HR _ _ Hc) as [E|R]; [left; exact E|].
  destruct (String.eqb (ch_target c) "@join") eqn:Ej; [left; apply String.eqb_eq; exact Ej|].
  right. apply valid_spec_site; auto.
Qed.

(* the initial passage is entered without arguments; the compiler accepts it only when every parameter has a
   default (fix 15f0a5b) *)
Lemma initial_valid :
  names_plain st ->
  (exists p, lookup (initial st) (passages st) = Some p /\
             existsb (fun q => match pdefault q with None => true | Some _ => false end) (params p) = false) ->
  valid_spec orc st (initial st).
Proof.
  intros Hn (p & Hl & Hreq) pid args p' Hps Hgp.
  assert (Hnp : no_paren (initial st) = true) by (eapply Hn; apply lookup_In; exact Hl).
  unfold parse_spec, find_char in Hps. rewrite find_char_from_no_paren in Hps by exact Hnp.
  inversion Hps; subst. unfold get_passage in Hgp. rewrite Hl in Hgp. inversion Hgp; subst p'.
  intros ctx ad dup missing Hd. unfold engine_arg_dict in Hd. simpl in Hd. inversion Hd; subst ad.
  apply (bind_sites_not_reached orc dup missing ctx [] 0) with (ks := []).
  - intros j Hj. lia.
  - eapply Hnd. apply lookup_In. exact Hl.
  - intros k [].
  - intros q Hq Hd0. pose proof (existsb_false _ _ Hreq q Hq) as Hf. simpl in Hf. rewrite Hd0 in Hf. discriminate.
Qed.

Lemma story_choose_never_binds_structurally_lemma dup missing e i :
  reach orc ctxkeys st e -> choose_b orc ctxkeys st dup missing e i = choose orc ctxkeys st e i.
Proof.
  intros Hr. apply choose_b_eq; [exact story_jumps_valid|exact story_choices_valid|].
  apply (PInv_reach orc ctxkeys). exact Hr.
Qed.

Lemma story_step_never_binds_structurally_lemma dup missing e o :
  reach orc ctxkeys st e -> op_valid orc st o -> step_b orc ctxkeys st dup missing e o = step orc ctxkeys st e o.
Proof.
  intros Hr Ho. apply step_b_eq; [exact story_jumps_valid|exact story_choices_valid| |exact Ho].
  apply (PInv_reach orc ctxkeys). exact Hr.
Qed.

Lemma story_played_never_binds_structurally_lemma dup missing e slot o :
  played orc ctxkeys st e slot -> op_valid orc st o ->
  step_b orc ctxkeys st dup missing e o = step orc ctxkeys st e o.
Proof.
  intros Hp Ho. apply step_b_eq; [exact story_jumps_valid|exact story_choices_valid| |exact Ho].
  exact (proj1 (played_PInv orc ctxkeys st e slot Hp)).
Qed.

Lemma story_run_never_binds_structurally_lemma dup missing v0 ops :
  valid_spec orc st (initial st) -> Forall (op_valid orc st) ops ->
  run_all_b orc ctxkeys st dup missing v0 ops = run_all orc ctxkeys st v0 ops.
Proof.
  intros Hi Ho. apply run_all_b_eq; [exact story_jumps_valid|exact story_choices_valid|exact Hi|exact Ho].
Qed.

End Story.

(* ---------------------------------------------------------------------------------------- *)
(* Part 4: every story the compiler model returns (arbitrary extractors and oracles) *)

(* every call site is a validated call, and signatures have distinct names *)
Lemma parse_ok_call_sites_validated_lemma : forall pp is_call xs lines0 story,
  parse pp is_call xs lines0 = POk story ->
  story_calls_validated pp is_call story /\ story_params_distinct story.
Proof.
  intros pp is_call xs lines0 story H. split.
  - eapply parse_ok_calls_validated_lemma; eauto.
  - eapply parse_ok_params_distinct_lemma; eauto.
Qed.

Lemma parse_ok_jump_site_binds_lemma : forall pp is_call xs lines0 story,
  parse pp is_call xs lines0 = POk story ->
  forall orc, shape_agrees pp orc ->
  forall pid p tg a, get_passage story pid = Some p -> passage_jump p tg a ->
  exists tp, get_passage story tg = Some tp /\
    forall ctx pos kws dup missing, o_args orc ctx a = Ok (pos, kws) ->
      bind_arguments_g orc dup missing ctx (params tp) (args_dict pos kws) 0 [] =
      bind_arguments orc ctx (params tp) (args_dict pos kws) 0 [].
Proof.
  intros pp is_call xs lines0 story H orc Hsh.
  destruct (parse_ok_call_sites_validated_lemma _ _ _ _ _ H) as [Hv Hd].
  apply (jump_site_binds_lemma pp is_call orc story Hsh Hd Hv).
Qed.

Lemma parse_ok_offered_choice_binds_lemma : forall pp is_call xs lines0 story,
  parse pp is_call xs lines0 = POk story ->
  forall orc ctxkeys, shape_agrees pp orc ->
  forall e rc, reach orc ctxkeys story e -> In rc (o_choices (current_out e)) ->
  ch_target (rc_choice rc) <> "@join" ->
  exists tp, get_passage story (ch_target (rc_choice rc)) = Some tp /\
    forall ctx pos kws dup missing, o_args orc ctx (ch_args (rc_choice rc)) = Ok (pos, kws) ->
      bind_arguments_g orc dup missing ctx (params tp) (args_dict pos kws) 0 [] =
      bind_arguments orc ctx (params tp) (args_dict pos kws) 0 [].
Proof.
  intros pp is_call xs lines0 story H orc ctxkeys Hsh.
  destruct (parse_ok_call_sites_validated_lemma _ _ _ _ _ H) as [Hv Hd].
  apply (offered_choice_binds_lemma pp is_call orc ctxkeys story Hsh Hd Hv).
Qed.

(* the same, said for failures: binding the arguments of an offered choice can only fail in a default *)
Lemma parse_ok_offered_choice_fails_only_in_a_default_lemma : forall pp is_call xs lines0 story,
  parse pp is_call xs lines0 = POk story ->
  forall orc ctxkeys, shape_agrees pp orc ->
  forall e rc, reach orc ctxkeys story e -> In rc (o_choices (current_out e)) ->
  ch_target (rc_choice rc) <> "@join" ->
  exists tp, get_passage story (ch_target (rc_choice rc)) = Some tp /\
    forall ctx pos kws x, o_args orc ctx (ch_args (rc_choice rc)) = Ok (pos, kws) ->
      bind_arguments orc ctx (params tp) (args_dict pos kws) 0 [] = Exc x ->
      exists q d acc, In q (params tp) /\ pdefault q = Some d /\ o_eval orc (update ctx acc) d = Exc x.
Proof.
  intros pp is_call xs lines0 story H orc ctxkeys Hsh e rc Hr Hin Hnj.
  destruct (parse_ok_offered_choice_binds_lemma _ _ _ _ _ H orc ctxkeys Hsh e rc Hr Hin Hnj) as (tp & Hp & Hb).
  exists tp. split; [exact Hp|]. intros ctx pos kws x Ho E.
  rewrite <- (Hb ctx pos kws (Ok []) (Ok []) Ho) in E. eapply bind_g_fails_in_default. exact E.
Qed.

(* whole operations and whole histories: what is missing for arbitrary extractors is that the engine's
   re-reading of `Target(args)` gives back the validated pair (story_specs_roundtrip) *)
Lemma parse_ok_step_never_binds_structurally_partial_lemma : forall pp is_call xs lines0 story,
  parse pp is_call xs lines0 = POk story -> story_specs_roundtrip story ->
  forall orc ctxkeys, shape_agrees pp orc -> blank_shape pp ->
  forall dup missing e o, reach orc ctxkeys story e -> op_valid orc story o ->
    step_b orc ctxkeys story dup missing e o = step orc ctxkeys story e o.
Proof.
  intros pp is_call xs lines0 story H Hrt orc ctxkeys Hsh Hbl dup missing e o.
  destruct (parse_ok_call_sites_validated_lemma _ _ _ _ _ H) as [Hv Hd].
  apply (story_step_never_binds_structurally_lemma pp is_call orc ctxkeys story Hsh Hbl Hd Hv Hrt).
Qed.

Lemma parse_ok_played_never_binds_structurally_partial_lemma : forall pp is_call xs lines0 story,
  parse pp is_call xs lines0 = POk story -> story_specs_roundtrip story ->
  forall orc ctxkeys, shape_agrees pp orc -> blank_shape pp ->
  forall dup missing e slot o, played orc ctxkeys story e slot -> op_valid orc story o ->
    step_b orc ctxkeys story dup missing e o = step orc ctxkeys story e o.
Proof.
  intros pp is_call xs lines0 story H Hrt orc ctxkeys Hsh Hbl dup missing e slot o.
  destruct (parse_ok_call_sites_validated_lemma _ _ _ _ _ H) as [Hv Hd].
  apply (story_played_never_binds_structurally_lemma pp is_call orc ctxkeys story Hsh Hbl Hd Hv Hrt).
Qed.

Lemma parse_ok_run_never_binds_structurally_partial_lemma : forall pp is_call xs lines0 story,
  parse pp is_call xs lines0 = POk story -> story_specs_roundtrip story ->
  forall orc ctxkeys, shape_agrees pp orc -> blank_shape pp ->
  forall dup missing v0 ops, Forall (op_valid orc story) ops ->
    run_all_b orc ctxkeys story dup missing v0 ops = run_all orc ctxkeys story v0 ops.
Proof.
  intros pp is_call xs lines0 story H Hrt orc ctxkeys Hsh Hbl dup missing v0 ops Ho.
  destruct (parse_ok_call_sites_validated_lemma _ _ _ _ _ H) as [Hv Hd].
  destruct (parse_ok_story_wf _ _ _ _ _ H) as (Hn & _ & _).
  apply (story_run_never_binds_structurally_lemma pp is_call orc ctxkeys story Hsh Hbl Hd Hv Hrt); [|exact Ho].
  apply initial_valid; [exact Hd|exact Hn|]. eapply parse_ok_initial_startable_lemma; eauto.
Qed.

(* ---------------------------------------------------------------------------------------- *)
(* Part 5: towards story_specs_roundtrip -- the compiler's own splitter only produces balanced argument text.
   extract_target_and_args (compiler, index scan with a Z depth from the "(") and parse_spec (engine, accumulating
   scan with a nat depth from behind the "(") cut at the same parenthesis.  This covers every top-level choice and
   jump line (parse_choice_line and the `->` branch of body_step call extract_target_and_args); what it does not
   cover are tokens that come out of the block extractors, which `parse` takes as arbitrary functions. *)

Lemma cb_sapp_nil_r : forall s : string, (s ++ "")%string = s.
Proof. induction s as [|c r IH]; simpl; [reflexivity|rewrite IH; reflexivity]. Qed.

Lemma pl_match_paren_cons c r i depth :
  ParseLine.match_paren (String c r) i depth =
  if Ascii.eqb c "(" then ParseLine.match_paren r (S i) (depth + 1)
  else if Ascii.eqb c ")" then
         (if Z.eqb (depth - 1) 0 then Some i else ParseLine.match_paren r (S i) (depth - 1))
       else ParseLine.match_paren r (S i) depth.
Proof. reflexivity. Qed.

Lemma scan_agree : forall s i d pe,
  ParseLine.match_paren s i (Z.of_nat (S d)) = Some pe ->
  exists pre post, s = (pre ++ String ")" post)%string /\ pe = i + String.length pre /\
    forall acc rest, Engine.match_paren (pre ++ String ")" rest) d acc = Some (acc ++ pre)%string.
Proof.
  induction s as [|c r IH]; intros i d pe H; [discriminate|]. rewrite pl_match_paren_cons in H.
  destruct (Ascii.eqb c "(") eqn:E1.
  - replace (Z.of_nat (S d) + 1)%Z with (Z.of_nat (S (S d))) in H by lia.
    apply IH in H. destruct H as (pre & post & -> & -> & Hm).
    exists (String c pre), post. split; [reflexivity|]. split; [simpl; lia|].
    intros acc rest. simpl. unfold ascii_eqb. rewrite E1, Hm, cb_sapp_cons. reflexivity.
  - destruct (Ascii.eqb c ")") eqn:E2.
    + replace (Z.of_nat (S d) - 1)%Z with (Z.of_nat d) in H by lia. destruct d as [|d].
      * simpl in H. inversion H; subst pe. apply Ascii.eqb_eq in E2. subst c.
        exists ""%string, r. split; [reflexivity|]. split; [simpl; lia|].
        intros acc rest. simpl. rewrite cb_sapp_nil_r. reflexivity.
      * replace (Z.eqb (Z.of_nat (S d)) 0) with false in H by (symmetry; apply Z.eqb_neq; lia).
        apply IH in H. destruct H as (pre & post & -> & -> & Hm).
        exists (String c pre), post. split; [reflexivity|]. split; [simpl; lia|].
        intros acc rest. simpl. unfold ascii_eqb. rewrite E1, E2, Hm, cb_sapp_cons. reflexivity.
    + apply IH in H. destruct H as (pre & post & -> & -> & Hm).
      exists (String c pre), post. split; [reflexivity|]. split; [simpl; lia|].
      intros acc rest. simpl. unfold ascii_eqb. rewrite E1, E2, Hm, cb_sapp_cons. reflexivity.
Qed.

Lemma find_char_from_drop : forall s c i p, find_char_from s c i = Some p ->
  i <= p /\ drop (p - i) s = String c (drop (S (p - i)) s).
Proof.
  induction s as [|a r IH]; intros c i p H; simpl in H; [discriminate|].
  destruct (ascii_eqb a c) eqn:E.
  - inversion H; subst p. apply Ascii.eqb_eq in E. subst a. split; [lia|]. rewrite Nat.sub_diag. reflexivity.
  - apply IH in H. destruct H as [Hle Hd]. split; [lia|].
    replace (p - i) with (S (p - S i)) by lia. exact Hd.
Qed.

Lemma extract_target_and_args_balanced t : args_balanced (snd (extract_target_and_args t)).
Proof.
  unfold extract_target_and_args. destruct (find_char t "(") as [ps|] eqn:Ef; [|left; reflexivity].
  destruct (ParseLine.match_paren (drop ps t) ps 0) as [pe|] eqn:Em; [|left; reflexivity].
  simpl. right. unfold find_char in Ef. apply find_char_from_drop in Ef. destruct Ef as [_ Ed].
  rewrite Nat.sub_0_r in Ed. rewrite Ed in Em. rewrite pl_match_paren_cons in Em.
  change (Ascii.eqb "(" "(") with true in Em. cbv iota in Em.
  unfold slice. set (rest := drop (S ps) t) in *.
  change (0 + 1)%Z with (Z.of_nat 1) in Em. apply scan_agree in Em.
  destruct Em as (pre & post & Er & -> & Hm).
  replace (S ps + String.length pre - S ps) with (String.length pre) by lia.
  rewrite Er, take_app_length. specialize (Hm ""%string ""%string). simpl in Hm. exact Hm.
Qed.

Lemma parse_choice_line_balanced l c : parse_choice_line l = POk (Some c) -> args_balanced (ch_args c).
Proof.
  unfold parse_choice_line. destruct (strip_inline_comment l) as [line cm]. destruct (parse_tags line) as [lwt tags].
  match goal with |- match ?x with _ => _ end = _ -> _ => destruct x as [[sticky cl]|] end; [|discriminate].
  match goal with |- match ?x with _ => _ end = _ -> _ => destruct x as [[[cond txt] twa]|] end; [|discriminate].
  pose proof (extract_target_and_args_balanced (strip twa)) as Hb.
  destruct (extract_target_and_args (strip twa)) as [tg a]. simpl in Hb.
  intros H. apply pbind_ok in H. destruct H as [text [_ H]]. inversion H; subst. exact Hb.
Qed.

(* ---------------------------------------------------------------------------------------- *)
(* Part 6: binding IS Python's call rule for every validated call of a compiled story (after fixes F07d / F07e).

   The engine files positional argument number i under the key arg_<i> in the SAME dict as the keyword arguments and
   _bind_arguments tests `param["name"] in arg_dict`.  Proofs/EngineParams.v bind_arguments_spec therefore carries the
   side condition positional_prefix (the keys arg_<j> of the dict are exactly those of the positional arguments), and its
   right-hand side py_bind still reads the positional arguments through those keys.  Two corners made the side
   condition (and the reading "an association list is the dict") a genuine assumption:
     F07d  a parameter named arg_<n>: the keyword / parameter name collides with a positional marker;
     F07e  a repeated keyword `T(a=1, a=2)`: the dict keeps the LAST value (Engine.args_dict follows it: the
           keywords are assigned into the dict that holds arg_0.., ArgKeys.args_dict_lookup), the keyword list
           (pos, kws) that py_call reads has two entries of that name, and Python itself refuses the call.
   With the compiler refusing both, for a validated call of a passage whose signature the compiler accepted
     * the keyword names are distinct (so first = last = the only entry),
     * no keyword name and no parameter name is a positional marker, arg_<i> is injective in i, hence
       positional_prefix HOLDS of the dict the engine builds,
     * bind_arguments = py_bind (the conclusion of bind_arguments_spec, no side condition) = py_call, Python's call
       rule stated on the call itself (positional values and keyword pairs, no arg_<i> encoding). *)

(* ---- 6a: decimal printing is injective, arg_<i> is recognised by is_positional_marker: Proofs/ArgKeys.v ---- *)

(* ---- 6b: the dict the engine builds ---- *)
(* number_args_lookup, number_args_keys_markers, args_dict_lookup, args_dict_nodup, args_dict_app: Proofs/ArgKeys.v *)

(* a keyword that is not named like a marker: the LAST entry of that name (what `result[keyword.arg] = value` leaves) *)
Lemma engine_dict_keyword_last pos kws k :
  is_positional_marker k = false -> lookup k (args_dict pos kws) = lookup k (rev kws).
Proof.
  intros H. rewrite args_dict_lookup. destruct (lookup k (rev kws)); [reflexivity|].
  apply lookup_none_keys. intros Hin. apply number_args_keys_markers in Hin. congruence.
Qed.

(* ... which, for distinct keywords (fix F07e), is the only one *)
Lemma engine_dict_keyword pos kws k :
  NoDup (map fst kws) -> is_positional_marker k = false -> lookup k (args_dict pos kws) = lookup k kws.
Proof. intros Hnd H. rewrite engine_dict_keyword_last by exact H. apply lookup_rev_nodup. exact Hnd. Qed.

Lemma engine_dict_positional pos kws j :
  unreserved (map fst kws) -> lookup (arg_key j) (args_dict pos kws) = nth_error pos j.
Proof.
  intros Hu. rewrite args_dict_lookup. pose proof (number_args_lookup pos 0 j) as H. rewrite Nat.add_0_l in H. rewrite H.
  rewrite lookup_none_keys; [reflexivity|]. unfold keys. rewrite map_rev. intros Hin. apply in_rev in Hin. apply Hu in Hin.
  rewrite arg_key_is_marker in Hin. discriminate.
Qed.

(* the side condition of bind_arguments_spec, as a consequence *)
Lemma engine_dict_positional_prefix pos kws :
  unreserved (map fst kws) -> positional_prefix (args_dict pos kws) (List.length pos).
Proof.
  intros Hu. split; intros j Hj; rewrite (engine_dict_positional pos kws j Hu).
  - apply nth_error_Some. exact Hj.
  - apply nth_error_None. exact Hj.
Qed.

Lemma nodup_keys_lookup {A} : forall (l : list (string * A)) k v,
  NoDup (map fst l) -> In (k, v) l -> lookup k l = Some v.
Proof.
  induction l as [|[k1 v1] r IH]; intros k v Hnd Hin; [destruct Hin|]. cbn [lookup].
  inversion Hnd as [|? ? Hn Hr]; subst. destruct Hin as [E|Hin].
  - inversion E; subst. rewrite String.eqb_refl. reflexivity.
  - destruct (String.eqb k k1) eqn:Ek; [|apply IH; assumption].
    apply String.eqb_eq in Ek. subst. exfalso. apply Hn. apply (in_map fst) in Hin. exact Hin.
Qed.

(* ---- 6c: Python's call rule, stated on the call: parameter number i takes positional value i when there is one,
   else the value of the keyword of its name, else its default evaluated with the earlier parameters visible, else
   it is missing.  (Python also refuses a surplus positional value, an unknown keyword and a parameter given both
   ways: a validated call has none of these, validated_call_no_surplus_no_unknown_lemma.) ---- *)

Fixpoint py_call_at (orc : pyorc) (ctx0 : env) (ps : list param) (pos : list value) (kws : list (string * value))
         (i : nat) (acc : env) : res env :=
  match ps with
  | [] => Ok acc
  | p :: r =>
      match nth_error pos i with
      | Some v => py_call_at orc ctx0 r pos kws (S i) (set_key (pname p) v acc)
      | None =>
          match lookup (pname p) kws with
          | Some v => py_call_at orc ctx0 r pos kws (S i) (set_key (pname p) v acc)
          | None =>
              match pdefault p with
              | Some d => match o_eval orc (update ctx0 acc) d with
                          | Ok v => py_call_at orc ctx0 r pos kws (S i) (set_key (pname p) v acc)
                          | Exc e => Exc e
                          end
              | None => Exc ValueError
              end
          end
      end
  end.
Definition py_call orc ctx0 ps pos kws := py_call_at orc ctx0 ps pos kws 0 [].

Section BindCall.
Variable orc : pyorc.
Variable ctx0 : env.
Variable pos : list value.
Variable kws : list (string * value).
Hypothesis Hu : unreserved (map fst kws).
Hypothesis Hkd : NoDup (map fst kws).      (* Python refuses f(a=1, a=2); so does the compiler since fix F07e *)

Lemma bind_call_gen : forall rest i acc,
  (forall k, has_key k acc = true -> ~ In k (map pname rest)) ->
  NoDup (map pname rest) -> unreserved (map pname rest) ->
  bind_arguments orc ctx0 rest (args_dict pos kws) (Nat.min i (List.length pos)) acc =
  py_call_at orc ctx0 rest pos kws i acc.
Proof.
  induction rest as [|p r IH]; intros i acc Hacc Hnd Hur; [reflexivity|].
  rewrite bind_arguments_cons. cbn [py_call_at].
  inversion Hnd as [|? ? Hp Hr]; subst.
  assert (Hacc' : forall v k, has_key k (set_key (pname p) v acc) = true -> ~ In k (map pname r)).
  { intros v k Hk. apply has_key_set_key in Hk. destruct Hk as [->|Hk]; [exact Hp|].
    intros Hin. apply (Hacc k Hk). right. exact Hin. }
  assert (Hur' : unreserved (map pname r)) by (intros n Hn; apply Hur; right; exact Hn).
  rewrite (engine_dict_positional pos kws _ Hu).
  destruct (Nat.lt_ge_cases i (List.length pos)) as [Hi|Hi].
  - rewrite Nat.min_l by lia. destruct (nth_error pos i) as [v|] eqn:E; [|apply nth_error_None in E; lia].
    rewrite <- (IH (S i)); [f_equal; lia|apply Hacc'|exact Hr|exact Hur'].
  - rewrite Nat.min_r by lia.
    assert (E1 : nth_error pos (List.length pos) = None) by (apply nth_error_None; lia).
    assert (E2 : nth_error pos i = None) by (apply nth_error_None; lia). rewrite E1, E2.
    assert (Hk : forall v, bind_arguments orc ctx0 r (args_dict pos kws) (List.length pos) (set_key (pname p) v acc) =
                           py_call_at orc ctx0 r pos kws (S i) (set_key (pname p) v acc)).
    { intros v. rewrite <- (IH (S i)); [f_equal; lia|apply Hacc'|exact Hr|exact Hur']. }
    rewrite (engine_dict_keyword pos kws _ Hkd) by (apply Hur; left; reflexivity).
    destruct (lookup (pname p) kws) as [v|].
    + destruct (has_key (pname p) acc) eqn:Eh; [exfalso; apply (Hacc _ Eh); left; reflexivity|]. apply Hk.
    + destruct (pdefault p) as [d|]; [|reflexivity]. destruct (o_eval orc (update ctx0 acc) d); [apply Hk|reflexivity].
Qed.

Lemma bind_is_py_call ps :
  sig_ok ps -> bind_arguments orc ctx0 ps (args_dict pos kws) 0 [] = py_call orc ctx0 ps pos kws.
Proof.
  intros [Hnd Hur]. apply (bind_call_gen ps 0 []); [intros k Hk; discriminate|exact Hnd|exact Hur].
Qed.

Lemma bind_is_py_bind ps :
  bind_arguments orc ctx0 ps (args_dict pos kws) 0 [] = py_bind orc ctx0 ps (args_dict pos kws).
Proof. apply (bind_arguments_spec orc ctx0 ps _ (List.length pos)). apply engine_dict_positional_prefix. exact Hu. Qed.

End BindCall.

(* what "binds as Python's call rule says" means for the arguments `a` of a call of tp *)
Definition binds_like_python (orc : pyorc) (tp : passage) (a : string) : Prop :=
  forall ctx pos kws, o_args orc ctx a = Ok (pos, kws) ->
    bind_arguments orc ctx (params tp) (args_dict pos kws) 0 [] = py_call orc ctx (params tp) pos kws /\
    bind_arguments orc ctx (params tp) (args_dict pos kws) 0 [] =
      py_bind orc ctx (params tp) (args_dict pos kws).

(* ---- 6d: one call site ---- *)

Section CallSitePython.
Variable pp : pyparse.
Variable is_call : string -> bool.
Variable orc : pyorc.
Variable passages : list (string * passage).
Hypothesis Hsh : shape_agrees pp orc.
Variables tg args : string.
Variable tp : passage.
Hypothesis Hval : validate_single_call pp is_call passages tg args = POk tt.
Hypothesis Hj : String.eqb tg "@join" = false.
Hypothesis Hl : lookup tg passages = Some tp.

(* F07e: the keywords of a validated call are distinct, so the association list IS the dict: the value found for
   a keyword is the value of the only entry with that name (first = last) *)
Lemma validated_call_keywords_distinct_lemma ctx pos kws :
  params tp <> [] -> o_args orc ctx args = Ok (pos, kws) ->
  NoDup (map fst kws) /\ (forall k v, In (k, v) kws -> lookup k kws = Some v).
Proof.
  intros Hne Ho. destruct (validate_single_call_inv pp is_call passages tg args tp Hval Hj Hl)
    as [[Hp _]|[_ (n & ks & Hs & Hf)]]; [contradiction|].
  rewrite (Hsh _ _ _ _ Ho) in Hs. inversion Hs; subst n ks.
  pose proof (fits_norepeat _ _ _ Hf) as Hnd. split; [exact Hnd|].
  intros k v Hin. apply nodup_keys_lookup; assumption.
Qed.

Lemma validated_call_keywords_unreserved ctx pos kws :
  params tp <> [] -> unreserved (map pname (params tp)) -> o_args orc ctx args = Ok (pos, kws) ->
  unreserved (map fst kws).
Proof.
  intros Hne Hur Ho. destruct (validate_single_call_inv pp is_call passages tg args tp Hval Hj Hl)
    as [[Hp _]|[_ (n & ks & Hs & Hf)]]; [contradiction|].
  rewrite (Hsh _ _ _ _ Ho) in Hs. inversion Hs; subst n ks.
  intros k Hk. apply Hur. apply (fits_known _ _ _ Hf). exact Hk.
Qed.

(* F07d: the side condition of bind_arguments_spec holds of the dict the engine builds *)
Lemma validated_call_positional_prefix_lemma ctx pos kws :
  params tp <> [] -> unreserved (map pname (params tp)) -> o_args orc ctx args = Ok (pos, kws) ->
  positional_prefix (args_dict pos kws) (List.length pos).
Proof.
  intros Hne Hur Ho. apply engine_dict_positional_prefix. eapply validated_call_keywords_unreserved; eauto.
Qed.

Lemma validated_call_binds_like_python_lemma : sig_ok (params tp) -> binds_like_python orc tp args.
Proof.
  intros Hsig ctx pos kws Ho. destruct (params tp) as [|p0 pr] eqn:Eps; [split; reflexivity|].
  assert (Hu : unreserved (map fst kws)).
  { eapply validated_call_keywords_unreserved; eauto; rewrite Eps; [discriminate|exact (proj2 Hsig)]. }
  assert (Hkd : NoDup (map fst kws)).
  { eapply (validated_call_keywords_distinct_lemma ctx pos kws); [rewrite Eps; discriminate|exact Ho]. }
  split; [apply bind_is_py_call; assumption|apply bind_is_py_bind; assumption].
Qed.

(* the dict goto really builds: empty for no / blank argument text, else the numbered values and the keywords *)
Lemma validated_engine_dict_binds_like_python_lemma ctx ad :
  sig_ok (params tp) -> engine_arg_dict orc ctx args = Ok ad ->
  exists pos kws, ad = args_dict pos kws /\
    bind_arguments orc ctx (params tp) ad 0 [] = py_call orc ctx (params tp) pos kws /\
    bind_arguments orc ctx (params tp) ad 0 [] = py_bind orc ctx (params tp) ad.
Proof.
  intros Hsig Hd.
  assert (Hblank : exists pos kws, @nil (string * value) = args_dict pos kws /\
            bind_arguments orc ctx (params tp) [] 0 [] = py_call orc ctx (params tp) pos kws /\
            bind_arguments orc ctx (params tp) [] 0 [] = py_bind orc ctx (params tp) []).
  { exists [], []. split; [reflexivity|].
    split; [apply (bind_is_py_call orc ctx [] []); [intros ? []|constructor|exact Hsig]|apply (bind_is_py_bind orc ctx [] []); intros ? []]. }
  unfold engine_arg_dict in Hd. destruct (String.eqb args "").
  - inversion Hd; subst ad. exact Hblank.
  - unfold parse_args in Hd. destruct (all_space args); [inversion Hd; subst ad; exact Hblank|].
    destruct (o_args orc ctx args) as [[pos kws]|e] eqn:Eo; [|discriminate]. inversion Hd; subst ad.
    exists pos, kws. split; [reflexivity|]. exact (validated_call_binds_like_python_lemma Hsig ctx pos kws Eo).
Qed.

End CallSitePython.

(* the hypothesis "no parameter is named like a positional marker" is needed (the compiler guarantees it since fix
   F07d): with a signature T(a, arg_0=5) the call T(1) passes the validator, Python binds arg_0 = 5, and the engine
   takes the positional value 1 filed under arg_0 for the keyword argument arg_0 *)
Definition marker_sig : list param := [mkParam "a" None; mkParam "arg_0" (Some "5")].
Definition marker_sig_passages : list (string * passage) := [("T", mkPassage "T" marker_sig [] [] [] [] [])].
Definition five_orc : pyorc :=
  mkOrc (fun _ _ => Ok (VInt 5)) (fun e _ => Ok e) (fun _ _ => Exc ValueError) (fun _ _ => Ok ([VInt 1], [])).

Lemma unreserved_names_needed :
  validate_single_call one_arg_pp (fun _ => true) marker_sig_passages "T" "1" = POk tt /\
  shape_agrees one_arg_pp five_orc /\ NoDup (map pname marker_sig) /\
  bind_arguments five_orc [] marker_sig (args_dict [VInt 1] []) 0 [] = Ok [("a", VInt 1); ("arg_0", VInt 1)] /\
  py_call five_orc [] marker_sig [VInt 1] [] = Ok [("a", VInt 1); ("arg_0", VInt 5)].
Proof.
  split; [vm_compute; reflexivity|]. split; [intros ctx args pos kws H; inversion H; subst; reflexivity|].
  split; [repeat constructor; simpl; intuition discriminate|]. split; vm_compute; reflexivity.
Qed.

(* ---- 6e: every call site of a story whose signatures the compiler accepted ---- *)

Definition story_sigs_ok (st : story) : Prop := forall k p, In (k, p) (passages st) -> sig_ok (params p).

Section StoryPython.
Variable pp : pyparse.
Variable is_call : string -> bool.
Variable orc : pyorc.
Variable ctxkeys : list string.
Variable st : story.
Hypothesis Hsh : shape_agrees pp orc.
Hypothesis Hsig : story_sigs_ok st.
Hypothesis Hval : story_calls_validated pp is_call st.

Lemma jump_site_binds_like_python_lemma pid p tg a :
  get_passage st pid = Some p -> passage_jump p tg a ->
  exists tp, get_passage st tg = Some tp /\ binds_like_python orc tp a.
Proof.
  intros Hp Hj. destruct (Hval _ _ (get_passage_in _ _ _ Hp)) as [_ HJ].
  destruct (HJ _ _ Hj) as [Hnj Hc]. simpl in Hnj, Hc.
  destruct (validate_single_call_target _ _ _ _ _ Hc) as [->|Hk]; [discriminate|].
  unfold has_key in Hk. destruct (lookup tg (passages st)) as [tp|] eqn:El; [|discriminate].
  exists tp. split; [exact El|].
  eapply (validated_call_binds_like_python_lemma pp is_call orc (passages st) Hsh tg a tp); eauto.
  eapply Hsig. apply lookup_In. exact El.
Qed.

Lemma offered_choice_binds_like_python_lemma e rc :
  reach orc ctxkeys st e -> In rc (o_choices (current_out e)) -> ch_target (rc_choice rc) <> "@join" ->
  exists tp, get_passage st (ch_target (rc_choice rc)) = Some tp /\
             binds_like_python orc tp (ch_args (rc_choice rc)).
Proof.
  intros Hr Hin Hnj. destruct (reach_offered_positions_lemma orc ctxkeys st e rc Hr Hin) as (pid & p & k & Hp & Hc).
  destruct (Hval _ _ (get_passage_in _ _ _ Hp)) as [HC _]. specialize (HC _ _ Hc). unfold choice_ok in HC.
  destruct (validate_single_call_target _ _ _ _ _ HC) as [E|Hk]; [contradiction|].
  unfold has_key in Hk. destruct (lookup (ch_target (rc_choice rc)) (passages st)) as [tp|] eqn:El; [|discriminate].
  exists tp. split; [exact El|].
  eapply (validated_call_binds_like_python_lemma pp is_call orc (passages st) Hsh _ _ tp); eauto.
  - apply String.eqb_neq. exact Hnj.
  - eapply Hsig. apply lookup_In. exact El.
Qed.

End StoryPython.

(* ---- 6f: every story the compiler model returns (arbitrary extractors and oracles) ---- *)

Lemma parse_ok_jump_site_binds_like_python_lemma : forall pp is_call xs lines0 story,
  parse pp is_call xs lines0 = POk story ->
  forall orc, shape_agrees pp orc ->
  forall pid p tg a, get_passage story pid = Some p -> passage_jump p tg a ->
  exists tp, get_passage story tg = Some tp /\
    forall ctx pos kws, o_args orc ctx a = Ok (pos, kws) ->
      bind_arguments orc ctx (params tp) (args_dict pos kws) 0 [] = py_call orc ctx (params tp) pos kws /\
      bind_arguments orc ctx (params tp) (args_dict pos kws) 0 [] =
        py_bind orc ctx (params tp) (args_dict pos kws).
Proof.
  intros pp is_call xs lines0 story H orc Hsh.
  apply (jump_site_binds_like_python_lemma pp is_call orc story Hsh (parse_ok_params_sig_lemma _ _ _ _ _ H)
           (parse_ok_calls_validated_lemma _ _ _ _ _ H)).
Qed.

Lemma parse_ok_offered_choice_binds_like_python_lemma : forall pp is_call xs lines0 story,
  parse pp is_call xs lines0 = POk story ->
  forall orc ctxkeys, shape_agrees pp orc ->
  forall e rc, reach orc ctxkeys story e -> In rc (o_choices (current_out e)) ->
  ch_target (rc_choice rc) <> "@join" ->
  exists tp, get_passage story (ch_target (rc_choice rc)) = Some tp /\
    forall ctx pos kws, o_args orc ctx (ch_args (rc_choice rc)) = Ok (pos, kws) ->
      bind_arguments orc ctx (params tp) (args_dict pos kws) 0 [] = py_call orc ctx (params tp) pos kws /\
      bind_arguments orc ctx (params tp) (args_dict pos kws) 0 [] =
        py_bind orc ctx (params tp) (args_dict pos kws).
Proof.
  intros pp is_call xs lines0 story H orc ctxkeys Hsh.
  apply (offered_choice_binds_like_python_lemma pp is_call orc ctxkeys story Hsh
           (parse_ok_params_sig_lemma _ _ _ _ _ H) (parse_ok_calls_validated_lemma _ _ _ _ _ H)).
Qed.

(* the keyword names of an offered choice's call (and of a jump's) are distinct and none is a positional marker:
   the argument dict of every call a compiled story can make satisfies positional_prefix *)
Lemma parse_ok_offered_choice_dict_lemma : forall pp is_call xs lines0 story,
  parse pp is_call xs lines0 = POk story ->
  forall orc ctxkeys, shape_agrees pp orc ->
  forall e rc, reach orc ctxkeys story e -> In rc (o_choices (current_out e)) ->
  ch_target (rc_choice rc) <> "@join" ->
  exists tp, get_passage story (ch_target (rc_choice rc)) = Some tp /\
    forall ctx pos kws, params tp <> [] -> o_args orc ctx (ch_args (rc_choice rc)) = Ok (pos, kws) ->
      NoDup (map fst kws) /\ (forall k v, In (k, v) kws -> lookup k kws = Some v) /\
      positional_prefix (args_dict pos kws) (List.length pos).
Proof.
  intros pp is_call xs lines0 story H orc ctxkeys Hsh e rc Hr Hin Hnj.
  pose proof (parse_ok_calls_validated_lemma _ _ _ _ _ H) as Hval.
  destruct (reach_offered_positions_lemma orc ctxkeys story e rc Hr Hin) as (pid & p & k & Hp & Hc).
  destruct (Hval _ _ (get_passage_in _ _ _ Hp)) as [HC _]. specialize (HC _ _ Hc). unfold choice_ok in HC.
  destruct (validate_single_call_target _ _ _ _ _ HC) as [E|Hk]; [contradiction|].
  unfold has_key in Hk. destruct (lookup (ch_target (rc_choice rc)) (passages story)) as [tp|] eqn:El; [|discriminate].
  exists tp. split; [exact El|]. intros ctx pos kws Hne Ho.
  assert (Hj : String.eqb (ch_target (rc_choice rc)) "@join" = false) by (apply String.eqb_neq; exact Hnj).
  destruct (validated_call_keywords_distinct_lemma pp is_call orc (passages story) Hsh _ _ tp HC Hj El ctx pos kws Hne Ho)
    as [Hnd Hlk].
  split; [exact Hnd|]. split; [exact Hlk|].
  eapply (validated_call_positional_prefix_lemma pp is_call orc (passages story) Hsh _ _ tp HC Hj El); eauto.
  exact (proj2 (parse_ok_params_sig_lemma _ _ _ _ _ H _ _ (lookup_In _ _ _ _ El))).
Qed.
