(* C07, last clause, for the REAL block extractors: story_specs_roundtrip is a theorem of parse_real.

   Proofs/CallBindProofs.v proves "no operation of a history reaches a structural raise site of _bind_arguments"
   under the hypothesis story_specs_roundtrip story (the engine's re-reading of the ONE string `Target(args)` gives
   back the (target, args) pair the compiler validated), because `parse` takes the block extractors as arbitrary
   functions, and an arbitrary extractor may put any text into a jump token or a block choice.

   This file follows the real extractors (Compiler/ParseBlocks.v instantiated with the line-level functions of
   Compiler/ParseLine.v: ParseBlocksInst.real_linefns, ParseAllProofs.real_extractors) and proves the invariant

       every TJump target/args pair and every block choice, at any depth of every token the extractors return,
       carries an argument text that extract_target_and_args cut out (args_balanced),

   then the same for the main loop of ParseMain.parse, and concludes with balanced_roundtrip (the target of a
   validated call is `@join` or a passage name, and passage names contain no "(").

   Part 1  tok_bal: the invariant, stated on the positions the renderer can report a jump / a choice from
           (GraphProofs.tok_jumps / tok_choices), and its constructors
   Part 2  the extractors keep it, for ANY line-level functions that do (lf_bal): cond_step / cond_go,
           body_step / body_go / loop_body, the fuelled knot
   Part 3  the real line-level functions do (parse_content_line only makes text, expression and inline-conditional
           tokens; parse_choice_line and the jump arm go through extract_target_and_args)
   Part 4  the main loop keeps it, for any extractors that do (xs_bal); finish_passage only deletes tokens
   Part 5  story_specs_roundtrip for parse with such extractors, for parse_real, and the three unconditional
           corollaries (step / played / run). *)
From Coq Require Import String Ascii List Bool ZArith Arith Lia.
From Bardic Require Import PyStr Value Compiled Engine EngineBase EngineHooks EngineCheck GraphProofs StoryWfProofs
     StoryWfChoose.
From Bardic Require Import Lex ParseBase ParseLine ParseMain ParseBlocks ParseBlocksInst.
From Bardic Require Import ParseProofs ParseBlocksProofs ParseAllProofs CallBindProofs.
Import ListNotations.
Local Open Scope string_scope.
Local Open Scope list_scope.

(* ---------------------------------------------------------------------------------------- *)
(* Part 1: the invariant *)

Definition bal_choice (c : choice) : Prop := args_balanced (ch_args c).

(* every jump the renderer can report from inside t, and every block choice it can offer from inside t, has an
   argument text that the compiler's splitter cut out *)
Definition tok_bal (t : token) : Prop :=
  (forall tg a, In (tg, a) (tok_jumps t) -> args_balanced a) /\
  (forall c k, In (c, k) (tok_choices t) -> bal_choice c).

Definition toks_bal (l : list token) : Prop := Forall tok_bal l.
Definition chs_bal (l : list choice) : Prop := Forall bal_choice l.
Definition br_bal (b : branch) : Prop :=
  match b with Branch _ cont chs => toks_bal cont /\ chs_bal chs end.

(* a token without call sites *)
Definition leaf (t : token) : Prop := tok_jumps t = [] /\ tok_choices t = [].

Lemma leaf_bal t : leaf t -> tok_bal t.
Proof.
  intros [H1 H2]. split.
  - intros tg a Hin. rewrite H1 in Hin. destruct Hin.
  - intros c k Hin. rewrite H2 in Hin. destruct Hin.
Qed.

Lemma jump_bal tg a : args_balanced a -> tok_bal (TJump tg a).
Proof.
  intros H. split; simpl.
  - intros tg' a' [E|[]]. inversion E; subst. exact H.
  - intros c k [].
Qed.

Lemma toks_bal_jumps l : toks_bal l -> forall tg a, In (tg, a) (flatl tok_jumps l) -> args_balanced a.
Proof.
  intros H tg a Hin. apply flatl_in in Hin. destruct Hin as (t & Ht & Hin).
  unfold toks_bal in H. rewrite Forall_forall in H. exact (proj1 (H t Ht) tg a Hin).
Qed.

Lemma toks_bal_choices l : toks_bal l -> forall c k, In (c, k) (flatl tok_choices l) -> bal_choice c.
Proof.
  intros H c k Hin. apply flatl_in in Hin. destruct Hin as (t & Ht & Hin).
  unfold toks_bal in H. rewrite Forall_forall in H. exact (proj2 (H t Ht) c k Hin).
Qed.

Lemma chs_bal_in l c : chs_bal l -> In c l -> bal_choice c.
Proof. intros H Hin. unfold chs_bal in H. rewrite Forall_forall in H. exact (H c Hin). Qed.

Lemma cond_bal brs : Forall br_bal brs -> tok_bal (TCond brs).
Proof.
  intros H. rewrite Forall_forall in H. split; simpl.
  - intros tg a Hin. apply br_jumps_in in Hin. destruct Hin as (cond & cont & chs & Hb & Hin).
    pose proof (H _ Hb) as Hbr. simpl in Hbr. destruct Hbr as [Hc _]. eapply toks_bal_jumps; eauto.
  - intros c k Hin. apply br_choices_in in Hin. destruct Hin as (cond & cont & chs & Hb & [Hin|Hin]).
    + pose proof (H _ Hb) as Hbr. simpl in Hbr. destruct Hbr as [_ Hc].
      apply in_map_iff in Hin. destruct Hin as (c1 & E & Hc1). inversion E; subst.
      eapply chs_bal_in; eauto.
    + pose proof (H _ Hb) as Hbr. simpl in Hbr. destruct Hbr as [Hc _]. eapply toks_bal_choices; eauto.
Qed.

Lemma loop_bal v c cont chs : toks_bal cont -> chs_bal chs -> tok_bal (TLoop v c cont chs).
Proof.
  intros Hc Hh. split; simpl.
  - intros tg a Hin. eapply toks_bal_jumps; eauto.
  - intros c0 k Hin. apply in_app_or in Hin. destruct Hin as [Hin|Hin].
    + apply in_map_iff in Hin. destruct Hin as (c1 & E & Hc1). inversion E; subst. eapply chs_bal_in; eauto.
    + eapply toks_bal_choices; eauto.
Qed.

Lemma toks_bal_app l1 l2 : toks_bal l1 -> toks_bal l2 -> toks_bal (l1 ++ l2).
Proof. intros H1 H2. unfold toks_bal. apply Forall_app. split; assumption. Qed.

Lemma toks_bal_one t : tok_bal t -> toks_bal [t].
Proof. intros H. constructor; [exact H|constructor]. Qed.

Lemma toks_bal_snoc l t : toks_bal l -> tok_bal t -> toks_bal (l ++ [t]).
Proof. intros H1 H2. apply toks_bal_app; [exact H1|apply toks_bal_one; exact H2]. Qed.

Lemma chs_bal_snoc l c : chs_bal l -> bal_choice c -> chs_bal (l ++ [c]).
Proof. intros H1 H2. unfold chs_bal. apply Forall_app. split; [exact H1|constructor; [exact H2|constructor]]. Qed.

Lemma text_leaf v : leaf (TText v). Proof. split; reflexivity. Qed.
Lemma tnl_bal : tok_bal tnl. Proof. apply leaf_bal. apply text_leaf. Qed.

(* ---------------------------------------------------------------------------------------- *)
(* Part 2: the block extractors keep the invariant, whatever line-level functions do *)

Definition lf_bal (lf : linefns) : Prop :=
  (forall s ts, lf_content lf s = POk ts -> toks_bal ts) /\
  (forall s c, lf_choice lf s = POk (Some c) -> bal_choice c) /\
  (forall s t, lf_render lf s = POk (Some t) -> tok_bal t) /\
  (forall s t, lf_input lf s = POk (Some t) -> tok_bal t) /\
  (forall s, args_balanced (snd (lf_eta lf s))).

(* a (token, consumed) function only returns balanced tokens *)
Definition rec_bal (r : list string -> nat -> pres (token * nat)) : Prop :=
  forall ls i t k, r ls i = POk (t, k) -> tok_bal t.

Section Ext.
Variable fixed : bool.
Variable cap : option nat.
Variable lf : linefns.
Hypothesis Hlf : lf_bal lf.

Let Hcontent := proj1 Hlf.
Let Hchoice := proj1 (proj2 Hlf).
Let Hrender := proj1 (proj2 (proj2 Hlf)).
Let Hinput := proj1 (proj2 (proj2 (proj2 Hlf))).
Let Heta := proj2 (proj2 (proj2 (proj2 Hlf))).

Lemma flush_plain_lines_bal : forall ded content c',
  toks_bal content -> flush_plain_lines lf content ded = POk c' -> toks_bal c'.
Proof.
  induction ded as [|l r IH]; intros content c' Hb H; simpl in H.
  - inversion H; subst. exact Hb.
  - apply pbind_ok in H. destruct H as [toks [E1 E2]]. eapply IH; [|exact E2].
    apply toks_bal_app; [exact Hb|]. apply toks_bal_snoc; [eapply Hcontent; eauto|apply tnl_bal].
Qed.

Lemma content_line_glue_bal : forall content l c',
  toks_bal content -> content_line_glue lf content l = POk c' -> toks_bal c'.
Proof.
  intros content l c' Hb H. unfold content_line_glue in H. destruct (glue_split l) as [cl|].
  - apply pbind_ok in H. destruct H as [toks [E1 E2]]. inversion E2; subst.
    apply toks_bal_app; [exact Hb|eapply Hcontent; eauto].
  - apply pbind_ok in H. destruct H as [toks [E1 E2]]. inversion E2; subst.
    apply toks_bal_app; [exact Hb|]. apply toks_bal_snoc; [eapply Hcontent; eauto|apply tnl_bal].
Qed.

Lemma flush_glue_lines_bal : forall ded content c',
  toks_bal content -> flush_glue_lines lf content ded = POk c' -> toks_bal c'.
Proof.
  induction ded as [|l r IH]; intros content c' Hb H; simpl in H.
  - inversion H; subst. exact Hb.
  - apply pbind_ok in H. destruct H as [c1 [E1 E2]]. eapply IH; [|exact E2].
    eapply content_line_glue_bal; eauto.
Qed.

Lemma jump_of_bal s ta : jump_of lf s = Some ta -> args_balanced (snd ta).
Proof.
  unfold jump_of. destruct (match_jump _) as [g|]; [|discriminate].
  intros H. inversion H; subst. apply Heta.
Qed.

(* ---- extract_conditional_block ---- *)

Definition cur_bal (cur : option (string * list token * list choice)) : Prop :=
  match cur with
  | Some (_, content, chs) => toks_bal content /\ chs_bal chs
  | None => True
  end.

Definition cs_bal (st : cstate) : Prop := Forall br_bal (cs_branches st) /\ cur_bal (cs_cur st).

Lemma flush_cur_bal st st1 : cs_bal st -> flush_cur fixed lf st = POk st1 -> cs_bal st1.
Proof.
  intros [Hb Hc] H. unfold flush_cur in H. destruct (cs_cur st) as [[[c content] chs]|] eqn:E.
  - simpl in Hc. destruct Hc as [Hc1 Hc2].
    apply pbind_ok in H. destruct H as [content' [E1 E2]]. inversion E2; subst. split; simpl; [exact Hb|].
    split; [|exact Hc2]. destruct fixed.
    + unfold flush_glue in E1. eapply flush_glue_lines_bal; eauto.
    + unfold flush_plain in E1. eapply flush_plain_lines_bal; eauto.
  - inversion H; subst. split; [exact Hb|]. rewrite E. exact I.
Qed.

Lemma push_tok_bal st t : cs_bal st -> tok_bal t -> cs_bal (push_tok st t).
Proof.
  intros [Hb Hc] Ht. unfold push_tok. destruct (cs_cur st) as [[[c content] chs]|] eqn:E.
  - simpl in Hc. destruct Hc as [Hc1 Hc2]. split; simpl; [exact Hb|]. split; [|exact Hc2].
    apply toks_bal_snoc; assumption.
  - split; [exact Hb|]. rewrite E. exact I.
Qed.

Lemma push_opt_bal st o : cs_bal st -> (forall t, o = Some t -> tok_bal t) -> cs_bal (push_opt st o).
Proof. intros Hs Ho. destruct o as [t|]; simpl; [apply push_tok_bal; auto|exact Hs]. Qed.

Lemma push_choice_bal st o : cs_bal st -> (forall c, o = Some c -> bal_choice c) -> cs_bal (push_choice st o).
Proof.
  intros [Hb Hc] Ho. unfold push_choice. destruct o as [ch|]; [|split; assumption].
  destruct (cs_cur st) as [[[c content] chs]|] eqn:E.
  - simpl in Hc. destruct Hc as [Hc1 Hc2]. split; simpl; [exact Hb|]. split; [exact Hc1|].
    apply chs_bal_snoc; auto.
  - split; [exact Hb|]. rewrite E. exact I.
Qed.

Lemma finalize_bal st brs : cs_bal st -> finalize lf st = POk brs -> Forall br_bal brs.
Proof.
  intros [Hb Hc] H. unfold finalize in H. destruct (cs_cur st) as [[[c content] chs]|] eqn:E.
  - simpl in Hc. destruct Hc as [Hc1 Hc2].
    apply pbind_ok in H. destruct H as [content' [E1 E2]]. inversion E2; subst.
    apply Forall_app. split; [exact Hb|]. constructor; [|constructor]. simpl. split; [|exact Hc2].
    unfold flush_glue in E1. eapply flush_glue_lines_bal; eauto.
  - inversion H; subst. exact Hb.
Qed.

Definition step_bal (r : pres cstep) : Prop :=
  forall x, r = POk x ->
    match x with CNext st' _ => cs_bal st' | CDone brs => Forall br_bal brs end.

Lemma step_bal_bind A (m : pres A) (f : A -> pres cstep) :
  (forall a, m = POk a -> step_bal (f a)) -> step_bal (pbind m f).
Proof.
  destruct m as [a|d|i|]; simpl; intros K; try (intros x E; discriminate). apply K. reflexivity.
Qed.

Lemma step_bal_next st k : cs_bal st -> step_bal (POk (CNext st k)).
Proof. intros H x E. inversion E; subst. exact H. Qed.

Lemma step_bal_diag d : step_bal (PDiag d).
Proof. intros x E. discriminate. Qed.

Lemma start_new_branch_bal st c cv : cs_bal st -> step_bal (start_new_branch lf st c cv).
Proof.
  intros Hs. unfold start_new_branch. apply step_bal_bind. intros brs E.
  apply step_bal_next. split; simpl.
  - eapply finalize_bal; eauto.
  - split; constructor.
Qed.

Section Bodies.
Variable rec_cond rec_loop : list string -> nat -> pres (token * nat).
Hypothesis Hrc : rec_bal rec_cond.
Hypothesis Hrl : rec_bal rec_loop.

Lemma hook_opt_bal b s : forall t,
  option_map (fun et : string * string => THook b (fst et) (snd et)) (hook_parts s) = Some t -> tok_bal t.
Proof.
  intros t H. destruct (hook_parts s) as [[e x]|]; simpl in H; [|discriminate].
  inversion H; subst. apply leaf_bal. split; reflexivity.
Qed.

Lemma cond_step_bal lines start i line st :
  cs_bal st -> step_bal (cond_step fixed lf rec_cond rec_loop lines start i line st).
Proof.
  intros Hs. unfold cond_step. cbv zeta.
  destruct (startswith (strip line) "#"); [apply step_bal_next; exact Hs|].
  destruct (is_py_line (strip line) && has_cur st).
  { apply step_bal_bind. intros st1 E1. apply (flush_cur_bal _ _ Hs) in E1.
    apply step_bal_bind. intros ck _. apply step_bal_next. apply push_tok_bal; [exact E1|].
    apply leaf_bal. split; reflexivity. }
  destruct (startswith (strip line) "@input" && has_cur st).
  { apply step_bal_bind. intros st1 E1. apply (flush_cur_bal _ _ Hs) in E1.
    apply step_bal_bind. intros d Ed. apply step_bal_next. apply push_opt_bal; [exact E1|].
    intros t Et. subst d. eapply Hinput; eauto. }
  destruct (startswith (strip line) "@render" && has_cur st).
  { apply step_bal_bind. intros st1 E1. apply (flush_cur_bal _ _ Hs) in E1.
    apply step_bal_bind. intros d Ed. apply step_bal_next. apply push_opt_bal; [exact E1|].
    intros t Et. subst d. eapply Hrender; eauto. }
  destruct (startswith (strip line) "@hook " && has_cur st).
  { apply step_bal_bind. intros st1 E1. apply (flush_cur_bal _ _ Hs) in E1.
    apply step_bal_next. apply push_opt_bal; [exact E1|]. apply hook_opt_bal. }
  destruct (startswith (strip line) "@unhook " && has_cur st).
  { apply step_bal_bind. intros st1 E1. apply (flush_cur_bal _ _ Hs) in E1.
    apply step_bal_next. apply push_opt_bal; [exact E1|]. apply hook_opt_bal. }
  destruct (startswith (strip line) "~ " && has_cur st).
  { apply step_bal_bind. intros st1 E1. apply (flush_cur_bal _ _ Hs) in E1.
    apply step_bal_next. apply push_tok_bal; [exact E1|]. apply leaf_bal. split; reflexivity. }
  destruct (is_if_line (strip line) && negb (i =? start)%nat && has_cur st).
  { apply step_bal_bind. intros st1 E1. apply (flush_cur_bal _ _ Hs) in E1.
    apply step_bal_bind. intros [t k] Et. apply step_bal_next. apply push_tok_bal; [exact E1|].
    simpl. eapply Hrc; eauto. }
  destruct (is_for_line (strip line) && has_cur st).
  { apply step_bal_bind. intros st1 E1. apply (flush_cur_bal _ _ Hs) in E1.
    apply step_bal_bind. intros [t k] Et. apply step_bal_next. apply push_tok_bal; [exact E1|].
    simpl. eapply Hrl; eauto. }
  destruct (is_if_line (strip line) && (i =? start)%nat).
  { apply step_bal_bind. intros c _. apply step_bal_next. split; simpl; [exact (proj1 Hs)|].
    split; constructor. }
  destruct (String.eqb (strip line) "@endif:"); [apply step_bal_diag|].
  destruct (startswith (strip line) "<<endif>>" || String.eqb (strip line) "@endif").
  { apply step_bal_bind. intros brs E. intros x Ex. inversion Ex; subst. eapply finalize_bal; eauto. }
  destruct (startswith (strip line) "<<elif " || startswith (strip line) "@elif ").
  { apply step_bal_bind. intros c _. apply start_new_branch_bal. exact Hs. }
  destruct (startswith (strip line) "<<else>>" || startswith (strip line) "@else").
  { destruct (startswith (strip line) "@else" && _); [apply step_bal_diag|apply start_new_branch_bal; exact Hs]. }
  destruct (startswith (strip line) "->").
  { destruct (jump_of lf (strip line)) as [ta|] eqn:Ej; [|apply step_bal_next; exact Hs].
    destruct (has_cur st); [|apply step_bal_next; exact Hs].
    apply step_bal_bind. intros st1 E1. apply (flush_cur_bal _ _ Hs) in E1.
    apply step_bal_next. apply push_tok_bal; [exact E1|]. apply jump_bal. eapply jump_of_bal; eauto. }
  destruct (is_choice_line (strip line) && has_cur st).
  { apply step_bal_bind. intros st1 E1. apply (flush_cur_bal _ _ Hs) in E1.
    apply step_bal_bind. intros ch Ech. apply step_bal_next. apply push_choice_bal; [exact E1|].
    intros c Ec. subst ch. eapply Hchoice; eauto. }
  apply step_bal_next. destruct (has_cur st); [|exact Hs]. split; simpl; [exact (proj1 Hs)|exact (proj2 Hs)].
Qed.

Lemma cond_go_bal : forall lines start rest i skip st t n,
  cs_bal st -> cond_go fixed lf rec_cond rec_loop lines start rest i skip st = POk (t, n) -> tok_bal t.
Proof.
  induction rest as [|line rest IH]; intros i skip st t n Hs H; cbn [cond_go] in H; [discriminate|].
  destruct skip as [|k]; [|eapply IH; eauto].
  pose proof (cond_step_bal lines start i line st Hs) as S.
  destruct (cond_step fixed lf rec_cond rec_loop lines start i line st) as [[st' [|k]|brs]|d|e|];
    try discriminate.
  - eapply IH; [|exact H]. exact (S _ eq_refl).
  - inversion H; subst. apply cond_bal. exact (S _ eq_refl).
Qed.

Lemma cond_body_bal lines start t n :
  cond_body fixed lf rec_cond rec_loop lines start = POk (t, n) -> tok_bal t.
Proof.
  unfold cond_body. apply cond_go_bal. split; simpl; [constructor|exact I].
Qed.

(* ---- extract_loop_block ---- *)

Definition lstep_bal (r : pres (list token * list choice * nat)) : Prop :=
  forall c h k, r = POk (c, h, k) -> toks_bal c /\ chs_bal h.

Lemma lstep_bal_bind A (m : pres A) f :
  (forall a, m = POk a -> lstep_bal (f a)) -> lstep_bal (pbind m f).
Proof.
  destruct m as [a|d|i|]; simpl; intros K; try (intros c h k E; discriminate). apply K. reflexivity.
Qed.

Lemma lstep_bal_ok c h k : toks_bal c -> chs_bal h -> lstep_bal (POk (c, h, k)).
Proof. intros H1 H2 c' h' k' E. inversion E; subst. split; assumption. Qed.

Lemma loop_body_step_bal ded j line content chs :
  toks_bal content -> chs_bal chs ->
  lstep_bal (ParseBlocks.body_step fixed lf rec_cond rec_loop ded j line content chs).
Proof.
  intros Hc Hh. unfold ParseBlocks.body_step. cbv zeta.
  destruct (startswith (strip line) "#"); [apply lstep_bal_ok; assumption|].
  destruct (is_py_line (strip line)).
  { apply lstep_bal_bind. intros ck _. apply lstep_bal_ok; [|exact Hh].
    apply toks_bal_snoc; [exact Hc|]. apply leaf_bal. split; reflexivity. }
  destruct (startswith (strip line) "@input").
  { apply lstep_bal_bind. intros d Ed. apply lstep_bal_ok; [|exact Hh].
    destruct d as [t|]; [|exact Hc]. apply toks_bal_snoc; [exact Hc|]. eapply Hinput; eauto. }
  destruct (startswith (strip line) "@render").
  { apply lstep_bal_bind. intros d Ed. apply lstep_bal_ok; [|exact Hh].
    destruct d as [t|]; [|exact Hc]. apply toks_bal_snoc; [exact Hc|]. eapply Hrender; eauto. }
  destruct (startswith (strip line) "@hook ").
  { apply lstep_bal_ok; [|exact Hh]. destruct (hook_parts (strip line)) as [[e t]|]; [|exact Hc].
    apply toks_bal_snoc; [exact Hc|]. apply leaf_bal. split; reflexivity. }
  destruct (startswith (strip line) "@unhook ").
  { apply lstep_bal_ok; [|exact Hh]. destruct (hook_parts (strip line)) as [[e t]|]; [|exact Hc].
    apply toks_bal_snoc; [exact Hc|]. apply leaf_bal. split; reflexivity. }
  destruct (startswith line "~ ").
  { apply lstep_bal_ok; [|exact Hh]. apply toks_bal_snoc; [exact Hc|]. apply leaf_bal. split; reflexivity. }
  destruct (is_for_line (strip line)).
  { apply lstep_bal_bind. intros [t k] Et. apply lstep_bal_ok; [|exact Hh].
    apply toks_bal_snoc; [exact Hc|]. simpl. eapply Hrl; eauto. }
  destruct (is_if_line (strip line)).
  { apply lstep_bal_bind. intros [t k] Et. apply lstep_bal_ok; [|exact Hh].
    apply toks_bal_snoc; [exact Hc|]. simpl. eapply Hrc; eauto. }
  destruct (startswith (strip line) "->").
  { apply lstep_bal_ok; [|exact Hh]. destruct (jump_of lf (strip line)) as [ta|] eqn:Ej; [|exact Hc].
    apply toks_bal_snoc; [exact Hc|]. apply jump_bal. eapply jump_of_bal; eauto. }
  destruct (is_choice_line (strip line)).
  { apply lstep_bal_bind. intros ch Ech. apply lstep_bal_ok; [exact Hc|].
    destruct ch as [c|]; [|exact Hh]. apply chs_bal_snoc; [exact Hh|]. eapply Hchoice; eauto. }
  apply lstep_bal_bind. intros content' E. apply lstep_bal_ok; [|exact Hh].
  eapply content_line_glue_bal; eauto.
Qed.

Lemma body_go_bal : forall ded rest j skip content chs c' h',
  toks_bal content -> chs_bal chs ->
  body_go fixed lf rec_cond rec_loop ded rest j skip content chs = POk (c', h') -> toks_bal c' /\ chs_bal h'.
Proof.
  induction rest as [|line rest IH]; intros j skip content chs c' h' Hc Hh H; cbn [body_go] in H.
  - inversion H; subst. split; assumption.
  - destruct skip as [|k]; [|eapply IH; eauto].
    pose proof (loop_body_step_bal ded j line content chs Hc Hh) as S.
    destruct (ParseBlocks.body_step fixed lf rec_cond rec_loop ded j line content chs) as [[[c h] [|k]]|d|e|];
      try discriminate.
    destruct (S _ _ _ eq_refl) as [S1 S2]. eapply IH; eauto.
Qed.

Lemma loop_body_bal lines start t n :
  loop_body fixed lf rec_cond rec_loop lines start = POk (t, n) -> tok_bal t.
Proof.
  intros H. unfold loop_body in H.
  destruct (loop_collect start (skipn start lines) start false 0 [] "" "")
    as [[[[[found i] raw] var] coll]|d|e|]; simpl in H; try discriminate.
  apply pbind_ok in H. destruct H as [[ct chs] [E H]].
  destruct found; [|discriminate]. inversion H; subst. simpl.
  apply body_go_bal in E; [|constructor|constructor]. destruct E as [E1 E2]. apply loop_bal; assumption.
Qed.

End Bodies.

(* ---- the fuelled knot ---- *)
Lemma extract_f_bal : forall n,
  (forall depth, rec_bal (extract_conditional_block_f fixed cap lf n depth)) /\
  (forall depth, rec_bal (extract_loop_block_f fixed cap lf n depth)).
Proof.
  induction n as [|n [IHc IHl]]; split; intros depth lines start t k H.
  - cbn [extract_conditional_block_f] in H. discriminate.
  - cbn [extract_loop_block_f] in H. discriminate.
  - cbn [extract_conditional_block_f] in H. destruct (too_deep cap depth); [discriminate|].
    eapply cond_body_bal; [apply IHc|apply IHl|exact H].
  - cbn [extract_loop_block_f] in H. destruct (too_deep cap depth); [discriminate|].
    eapply loop_body_bal; [apply IHc|apply IHl|exact H].
Qed.

Lemma extract_conditional_block_v_bal : rec_bal (extract_conditional_block_v fixed cap lf).
Proof. intros lines start t k H. unfold extract_conditional_block_v in H. eapply (proj1 (extract_f_bal _)); eauto. Qed.

Lemma extract_loop_block_v_bal : rec_bal (extract_loop_block_v fixed cap lf).
Proof. intros lines start t k H. unfold extract_loop_block_v in H. eapply (proj2 (extract_f_bal _)); eauto. Qed.

End Ext.

(* ---------------------------------------------------------------------------------------- *)
(* Part 3: the real line-level functions *)

Lemma picw_leaf depth rec expr t : parse_inline_conditional_with depth rec expr = POk (Some t) -> leaf t.
Proof.
  unfold parse_inline_conditional_with. destruct (negb (str_contains expr "?")); [discriminate|].
  destruct (find_top "?" expr 0 0) as [q|]; [|discriminate].
  destruct (find_pipe_separator _) as [p|]; [|discriminate].
  destruct (max_inline_depth <=? depth)%nat; [discriminate|].
  intros H. apply pbind_ok in H. destruct H as [tks [_ H]]. apply pbind_ok in H. destruct H as [fks [_ H]].
  inversion H; subst. split; reflexivity.
Qed.

Lemma content_parts_leaf pic : (forall e t, pic e = POk (Some t) -> leaf t) ->
  forall parts ts, content_parts pic parts = POk ts -> Forall leaf ts.
Proof.
  intros Hpic. induction parts as [|part r IH]; intros ts H; simpl in H.
  - inversion H; subst. constructor.
  - destruct (startswith part "{" && endswith part "}").
    + apply pbind_ok in H. destruct H as [ic [E1 H]]. apply pbind_ok in H. destruct H as [rest [E2 H]].
      inversion H; subst. constructor; [|apply IH; exact E2].
      destruct ic as [t|]; [eapply Hpic; eauto|split; reflexivity].
    + destruct (ParseLine.nonempty part).
      * apply pbind_ok in H. destruct H as [rest [E2 H]]. inversion H; subst.
        constructor; [split; reflexivity|apply IH; exact E2].
      * apply IH. exact H.
Qed.

Lemma parse_content_line_d_leaf fuel depth line ts :
  parse_content_line_d fuel depth line = POk ts -> Forall leaf ts.
Proof.
  destruct fuel as [|f]; [discriminate|]. cbn [parse_content_line_d].
  destruct (strip_inline_comment line) as [line1 cm]. destruct (parse_tags line1) as [lwt tags].
  destruct (split_expressions_with_depth lwt) as [parts|d|k|]; try discriminate.
  apply content_parts_leaf. intros e t. apply picw_leaf.
Qed.

Lemma parse_content_line_bal line ts : parse_content_line line = POk ts -> toks_bal ts.
Proof.
  intros H. unfold parse_content_line in H. apply parse_content_line_d_leaf in H.
  unfold toks_bal. eapply Forall_impl; [|exact H]. intros t. apply leaf_bal.
Qed.

Lemma parse_render_line_leaf ctx line t : parse_render_line ctx line = POk (Some t) -> leaf t.
Proof.
  unfold parse_render_line. destruct (strip_inline_comment line) as [l cm].
  destruct (negb (startswith (strip l) "@render")); [discriminate|]. cbv zeta.
  intros H.
  repeat match type of H with
         | context [match parse_render_directive ?x with _ => _ end] => destruct (parse_render_directive x) as [[? ?]|]
         | context [match match_framework ?x with _ => _ end] => destruct (match_framework x) as [[? ?]|]
         | context [if ?b then _ else _] => destruct b
         end; try discriminate; inversion H; subst; split; reflexivity.
Qed.

Lemma parse_input_line_leaf ctx line t : parse_input_line ctx line = POk (Some t) -> leaf t.
Proof.
  unfold parse_input_line. intros H. apply pbind_ok in H. destruct H as [r [_ H]].
  destruct r as [a|]; inversion H; subst. split; reflexivity.
Qed.

Lemma real_linefns_bal : lf_bal real_linefns.
Proof.
  unfold lf_bal, real_linefns; simpl. split; [|split; [|split; [|split]]].
  - intros s ts. apply parse_content_line_bal.
  - intros s c H. unfold bal_choice. eapply parse_choice_line_balanced; eauto.
  - intros s t H. apply leaf_bal. eapply parse_render_line_leaf; eauto.
  - intros s t H. apply leaf_bal. eapply parse_input_line_leaf; eauto.
  - intros s. apply extract_target_and_args_balanced.
Qed.

(* ---------------------------------------------------------------------------------------- *)
(* Part 4: the main loop *)

Definition xs_bal (xs : extractors) : Prop := rec_bal (x_conditional xs) /\ rec_bal (x_loop xs).

Lemma real_extractors_bal : xs_bal real_extractors.
Proof.
  split; simpl.
  - unfold extract_conditional_block_real, extract_conditional_block.
    apply extract_conditional_block_v_bal. exact real_linefns_bal.
  - unfold extract_loop_block_real, extract_loop_block.
    apply extract_loop_block_v_bal. exact real_linefns_bal.
Qed.

(* no extractor at all is fine too (stories without block constructs) *)
Lemma no_extractors_bal : xs_bal no_extractors.
Proof. split; intros ls i t k H; discriminate. Qed.

(* pp_content and pp_choices are kept reversed; the invariant does not look at the order *)
Definition pp_bal (p : ppassage) : Prop := toks_bal (pp_content p) /\ chs_bal (pp_choices p).

Definition state_bal (st : pstate) : Prop :=
  (forall k p, In (k, p) (st_passages st) -> pp_bal p) /\
  (forall cp, st_current st = Some cp -> pp_bal cp).

Lemma toks_bal_rev l : toks_bal l -> toks_bal (rev l).
Proof.
  unfold toks_bal. rewrite !Forall_forall. intros H t Hin. apply H. apply in_rev. exact Hin.
Qed.

Lemma pp_bal_content cp ts : pp_bal cp -> toks_bal ts -> pp_bal (with_content cp ts).
Proof.
  intros [H1 H2] Ht. split; simpl; [|exact H2]. apply toks_bal_app; [apply toks_bal_rev; exact Ht|exact H1].
Qed.
Lemma pp_bal_choice cp c : pp_bal cp -> bal_choice c -> pp_bal (with_choice cp c).
Proof. intros [H1 H2] Hc. split; simpl; [exact H1|]. constructor; assumption. Qed.
Lemma pp_bal_execute cp t : pp_bal cp -> pp_bal (with_execute cp t).
Proof. intros [H1 H2]. split; simpl; assumption. Qed.
Lemma pp_bal_input cp a : pp_bal cp -> pp_bal (with_input cp a).
Proof. intros [H1 H2]. split; simpl; assumption. Qed.
Lemma pp_bal_join cp a b : pp_bal cp -> pp_bal (with_join cp a b).
Proof. intros [H1 H2]. split; simpl; assumption. Qed.
Lemma pp_bal_section cp a : pp_bal cp -> pp_bal (with_section cp a).
Proof. intros [H1 H2]. split; simpl; assumption. Qed.

Lemma lift_bind_eq A R (m : pres A) f : (forall a, m = POk a -> lift R (f a)) -> lift R (pbind m f).
Proof. destruct m as [a|d|k|]; intros H st' i' E; simpl in E; try discriminate. eapply H; eauto. Qed.

Lemma flush_bal st : state_bal st -> forall k p, In (k, p) (flush_current st) -> pp_bal p.
Proof.
  intros [H1 H2] k p Hin. unfold flush_current in Hin.
  destruct (st_current st) as [cp|] eqn:E; [|eauto].
  eapply (set_key_all pp_bal); eauto.
Qed.

Section MainLoop.
Variable pp : pyparse.
Variable xs : extractors.
Hypothesis Hxs : xs_bal xs.

Ltac lift_if := match goal with |- lift _ (if ?b then _ else _) => destruct b end.

Lemma main_body_step_bal : forall (R : pstate -> Prop) lines i line st cp,
  R st -> pp_bal cp -> (forall cp', pp_bal cp' -> R (set_current st cp')) ->
  lift R (ParseMain.body_step pp xs lines i line st cp).
Proof.
  intros R lines i line st cp H0 Hcp H1. unfold ParseMain.body_step. cbv zeta.
  lift_if; [apply lift_ok; exact H0|].
  lift_if; [apply lift_bind; intros [? ?]; apply lift_ok; apply H1; apply pp_bal_execute; exact Hcp|].
  lift_if.
  { apply lift_bind_eq. intros [t k] E. apply lift_ok. apply H1. apply pp_bal_content; [exact Hcp|].
    apply toks_bal_one. eapply (proj1 Hxs); eauto. }
  lift_if.
  { apply lift_bind_eq. intros [t k] E. apply lift_ok. apply H1. apply pp_bal_content; [exact Hcp|].
    apply toks_bal_one. eapply (proj2 Hxs); eauto. }
  lift_if.
  { apply lift_bind_eq. intros [t|] E; apply lift_ok; [|exact H0]. apply H1. apply pp_bal_content; [exact Hcp|].
    apply toks_bal_one. apply retag_ok in E. apply leaf_bal. eapply parse_render_line_leaf; eauto. }
  lift_if.
  { apply lift_bind. intros [a|]; apply lift_ok; [|exact H0]. apply H1. apply pp_bal_input. exact Hcp. }
  lift_if.
  { destruct (split_ws (strip line)) as [|a [|b [|c [|? ?]]]]; try apply lift_diag.
    apply lift_ok. apply H1. apply pp_bal_execute. exact Hcp. }
  lift_if.
  { destruct (split_ws (strip line)) as [|a [|b [|c [|? ?]]]]; try apply lift_diag.
    apply lift_ok. apply H1. apply pp_bal_execute. exact Hcp. }
  lift_if.
  { apply lift_ok. apply H1. apply pp_bal_join. apply pp_bal_content; [exact Hcp|].
    apply toks_bal_one. apply leaf_bal. split; reflexivity. }
  lift_if.
  { destruct (arrow_rest _) as [g|]; [|apply lift_ok; exact H0].
    pose proof (extract_target_and_args_balanced (strip g)) as Hb.
    destruct (extract_target_and_args (strip g)) as [tg a]. simpl in Hb.
    apply lift_ok. apply H1. apply pp_bal_content; [exact Hcp|]. apply toks_bal_one. apply jump_bal. exact Hb. }
  lift_if.
  { destruct (strip_inline_comment _). destruct (extract_multiline_expression _ _ _).
    destruct (py_stmt_ok _ _); [|apply lift_diag]. apply lift_ok. apply H1. apply pp_bal_execute. exact Hcp. }
  lift_if.
  { apply lift_bind. intros _. apply lift_bind_eq.
    intros [[text target args cond sticky sec tags blk]|] Ec; [|apply lift_diag].
    apply retag_ok in Ec. apply parse_choice_line_balanced in Ec. simpl in Ec.
    destruct (String.eqb target "@join").
    - apply lift_bind. intros [[? ?] ?]. apply lift_ok. apply H1.
      apply pp_bal_choice; [apply pp_bal_section; exact Hcp|exact Ec].
    - apply lift_ok. apply H1. apply pp_bal_choice; [apply pp_bal_section; exact Hcp|exact Ec]. }
  lift_if.
  { lift_if; apply lift_bind_eq; intros ts Ets; apply retag_ok in Ets; apply parse_content_line_bal in Ets;
      apply lift_ok; apply H1; apply pp_bal_content; try exact Hcp; try exact Ets.
    apply toks_bal_snoc; [exact Ets|]. apply leaf_bal. apply text_leaf. }
  apply lift_ok. apply H1. apply pp_bal_content; [exact Hcp|]. apply toks_bal_one. apply leaf_bal. apply text_leaf.
Qed.

Lemma parse_step_bal : forall lines i line st,
  state_bal st -> lift state_bal (parse_step pp xs lines i line st).
Proof.
  intros lines i line st0 Hn0. unfold parse_step.
  match goal with |- lift _ (match ?p with inl _ => _ | inr _ => _ end) =>
    assert (Hp : (forall s, p = inl s -> state_bal s) /\ (forall s j, p = inr (s, j) -> state_bal s));
      [|destruct p as [st1|[s j]]] end.
  { split; intros; repeat match goal with H : context [if ?b then _ else _] |- _ => destruct b end;
      match goal with H : _ = _ |- _ => inversion H; subst; exact Hn0 end. }
  2:{ destruct Hp as [_ Hp]. apply lift_ok. apply (Hp s j eq_refl). }
  destruct Hp as [Hp _]. specialize (Hp st1 eq_refl).
  lift_if; [apply lift_ok; exact Hp|].
  match goal with |- lift _ (match ?p with inl _ => _ | inr _ => _ end) =>
    assert (Hq : (forall s, p = inl s -> state_bal s) /\ (forall s j, p = inr (s, j) -> state_bal s));
      [|destruct p as [st2|[s j]]] end.
  { split; intros;
      repeat match goal with
             | H : context [if ?b then _ else _] |- _ => destruct b
             | H : context [match find_char ?a ?b with _ => _ end] |- _ => destruct (find_char a b)
             end;
      match goal with H : _ = _ |- _ => inversion H; subst; exact Hp end. }
  2:{ destruct Hq as [_ Hq]. apply lift_ok. apply (Hq s j eq_refl). }
  destruct Hq as [Hq _]. specialize (Hq st2 eq_refl).
  lift_if; [apply lift_ok; exact Hq|].
  lift_if.
  { destruct (strip_inline_comment _). destruct (extract_passage_params _) as [nwp pstr].
    destruct (parse_tags _) as [name tags].
    intros st' i' E. apply pbind_ok in E. destruct E as [[] [_ E]].
    apply pbind_ok in E. destruct E as [ps [Eps E]]. inversion E; subst. clear E.
    split; simpl.
    - apply flush_bal; auto.
    - intros cp Hc. inversion Hc; subst. split; simpl; constructor. }
  destruct (st_current st2) as [cp|] eqn:Ec; [|apply lift_ok; auto].
  destruct Hq as [Hq1 Hq2].
  apply main_body_step_bal; [split; auto|apply Hq2; exact Ec|].
  intros cp' Hb. split; simpl; auto. intros cp0 Hc0. inversion Hc0; subst. exact Hb.
Qed.

Lemma parse_loop_bal : forall fuel lines n i st st',
  state_bal st -> parse_loop pp xs fuel lines n i st = POk st' -> state_bal st'.
Proof.
  induction fuel as [|f IH]; intros lines n i st st' H E; simpl in E.
  - destruct (n <=? i)%nat; [inversion E; subst; auto|discriminate].
  - destruct (n <=? i)%nat; [inversion E; subst; auto|].
    destruct (nth_error lines i) as [line|]; try discriminate.
    apply pbind_ok in E. destruct E as [[st1 i1] [E1 E2]].
    eapply IH; [|exact E2]. eapply (parse_step_bal lines i line st H); eauto.
Qed.

End MainLoop.

(* finish_passage: _cleanup_whitespace and _trim_trailing_newlines only delete tokens *)
Lemma cleanup_ws_in : forall content cleaned t,
  In t (cleanup_ws content cleaned) -> In t content \/ In t cleaned.
Proof.
  induction content as [|x rest IH]; intros cleaned t Hin; cbn [cleanup_ws] in Hin.
  - right. apply in_rev. exact Hin.
  - destruct (is_nl_tok x && head_is is_cond_tok rest && head_is is_nl_tok cleaned).
    { apply IH in Hin. destruct Hin as [Hin|Hin]; [left; right; exact Hin|right; exact Hin]. }
    destruct (is_nl_tok x && head_is is_cond_tok cleaned && head_is is_nl_tok rest).
    { apply IH in Hin. destruct Hin as [Hin|Hin]; [left; right; exact Hin|right; exact Hin]. }
    apply IH in Hin. destruct Hin as [Hin|[Hin|Hin]].
    + left; right; exact Hin.
    + left; left; exact Hin.
    + right; exact Hin.
Qed.

Lemma drop_nl_in : forall l t, In t (drop_nl l) -> In t l.
Proof.
  induction l as [|x r IH]; intros t Hin; simpl in Hin; [exact Hin|].
  destruct (is_nl_tok x); [right; apply IH; exact Hin|exact Hin].
Qed.

Lemma trim_trailing_newlines_in : forall l t, In t (trim_trailing_newlines l) -> In t l.
Proof.
  intros l t Hin. unfold trim_trailing_newlines in Hin.
  destruct (rev l) as [|t1 [|t2 r]] eqn:E; try exact Hin.
  destruct (is_nl_tok t1 && is_nl_tok t2); [|exact Hin].
  apply in_rev in Hin. apply in_rev. rewrite E. destruct Hin as [Hin|Hin].
  - left. exact Hin.
  - right. right. apply drop_nl_in. exact Hin.
Qed.

Lemma finish_passage_bal p : pp_bal p ->
  toks_bal (content (finish_passage p)) /\ chs_bal (choices (finish_passage p)).
Proof.
  intros [H1 H2]. unfold finish_passage; simpl. split.
  - unfold toks_bal in *. rewrite Forall_forall in *. intros t Hin.
    apply trim_trailing_newlines_in in Hin. unfold cleanup_whitespace in Hin.
    apply cleanup_ws_in in Hin. destruct Hin as [Hin|[]]. apply H1. apply in_rev. exact Hin.
  - unfold chs_bal in *. rewrite Forall_forall in *. intros c Hin. apply H2. apply in_rev. exact Hin.
Qed.

(* ---------------------------------------------------------------------------------------- *)
(* Part 5: story_specs_roundtrip *)

Definition story_bal (st : story) : Prop :=
  forall k p, In (k, p) (passages st) -> toks_bal (content p) /\ chs_bal (choices p).

Lemma parse_ok_story_bal : forall pp is_call xs lines0 story,
  xs_bal xs -> parse pp is_call xs lines0 = POk story -> story_bal story.
Proof.
  intros pp is_call xs lines0 story Hxs H k p Hin. apply parse_inv in H.
  destruct H as [fs [Hl [_ [_ [Hp _]]]]]. cbv zeta in Hl.
  apply (parse_loop_bal pp xs Hxs) in Hl; [|split; [intros ? ? []|discriminate]].
  rewrite Hp in Hin. apply in_map_iff in Hin. destruct Hin as [[k0 p0] [E Hin]]. simpl in E. inversion E; subst.
  apply finish_passage_bal. exact (flush_bal fs Hl k p0 Hin).
Qed.

(* every call site of a balanced story, once validated, is re-read by the engine as the pair that was validated *)
Lemma balanced_validated_story_roundtrip : forall pp is_call st,
  names_plain st -> story_calls_validated pp is_call st -> story_bal st -> story_specs_roundtrip st.
Proof.
  intros pp is_call st Hn Hval Hbal k p Hin.
  destruct (Hval k p Hin) as [HC HJ]. destruct (Hbal k p Hin) as [Bc Bh]. split.
  - intros c kd Hc. pose proof (HC c kd Hc) as Hok. unfold choice_ok, call_ok in Hok.
    destruct (validate_single_call_target _ _ _ _ _ Hok) as [E|Hk]; [left; exact E|]. right.
    apply balanced_roundtrip; [eapply in_no_paren; eauto|].
    destruct Hc as [[Hc _]|Hc].
    + exact (chs_bal_in _ _ Bh Hc).
    + exact (toks_bal_choices _ Bc c kd Hc).
  - intros tg a Hj. destruct (HJ tg a Hj) as [Hnj Hok]. simpl in Hnj, Hok. unfold call_ok in Hok.
    destruct (validate_single_call_target _ _ _ _ _ Hok) as [E|Hk].
    { subst tg. discriminate. }
    apply balanced_roundtrip; [eapply in_no_paren; eauto|].
    exact (toks_bal_jumps _ Bc tg a Hj).
Qed.

(* for any extractors that only return balanced tokens *)
Lemma parse_ok_specs_roundtrip : forall pp is_call xs lines0 story,
  xs_bal xs -> parse pp is_call xs lines0 = POk story -> story_specs_roundtrip story.
Proof.
  intros pp is_call xs lines0 story Hxs H.
  destruct (parse_ok_story_wf _ _ _ _ _ H) as (Hn & _ & _).
  eapply balanced_validated_story_roundtrip; [exact Hn| |].
  - eapply parse_ok_calls_validated_lemma; eauto.
  - eapply parse_ok_story_bal; eauto.
Qed.

(* THE theorem: the compiler with its real block extractors *)
Theorem real_story_specs_roundtrip : forall pp is_call lines story,
  parse_real pp is_call lines = POk story -> story_specs_roundtrip story.
Proof.
  intros pp is_call lines story H. unfold parse_real in H.
  eapply parse_ok_specs_roundtrip; [exact real_extractors_bal|exact H].
Qed.

(* ---- the unconditional corollaries: no operation of any history of a story that compiles reaches a structural
   raise site of _bind_arguments ---- *)

Theorem real_step_never_binds_structurally : forall pp is_call lines story,
  parse_real pp is_call lines = POk story ->
  forall orc ctxkeys, shape_agrees pp orc -> blank_shape pp ->
  forall dup missing e o, reach orc ctxkeys story e -> op_valid orc story o ->
    step_b orc ctxkeys story dup missing e o = step orc ctxkeys story e o.
Proof.
  intros pp is_call lines story H.
  exact (parse_ok_step_never_binds_structurally_partial_lemma pp is_call real_extractors lines story H
           (real_story_specs_roundtrip pp is_call lines story H)).
Qed.

Theorem real_played_never_binds_structurally : forall pp is_call lines story,
  parse_real pp is_call lines = POk story ->
  forall orc ctxkeys, shape_agrees pp orc -> blank_shape pp ->
  forall dup missing e slot o, played orc ctxkeys story e slot -> op_valid orc story o ->
    step_b orc ctxkeys story dup missing e o = step orc ctxkeys story e o.
Proof.
  intros pp is_call lines story H.
  exact (parse_ok_played_never_binds_structurally_partial_lemma pp is_call real_extractors lines story H
           (real_story_specs_roundtrip pp is_call lines story H)).
Qed.

Theorem real_run_never_binds_structurally : forall pp is_call lines story,
  parse_real pp is_call lines = POk story ->
  forall orc ctxkeys, shape_agrees pp orc -> blank_shape pp ->
  forall dup missing v0 ops, Forall (op_valid orc story) ops ->
    run_all_b orc ctxkeys story dup missing v0 ops = run_all orc ctxkeys story v0 ops.
Proof.
  intros pp is_call lines story H.
  exact (parse_ok_run_never_binds_structurally_partial_lemma pp is_call real_extractors lines story H
           (real_story_specs_roundtrip pp is_call lines story H)).
Qed.

(* the hypothesis xs_bal cannot be dropped: an extractor that returns `TJump "T" "1)(2, 3"` gives a story that
   compiles (the validator reads two positional arguments) and that the engine re-reads as T(1) *)
Definition bad_extractors : extractors :=
  mkExtractors (fun _ _ => PInternal (IRecursion "extractor not linked"))
               (fun _ _ => POk (TJump "T" "1)(2, 3", 1))
               (fun _ _ => PInternal (IRecursion "extractor not linked"))
               (fun _ _ _ => POk ([], [], 0)).

Lemma balanced_extractors_needed :
  exists story,
    parse (mkPyparse (fun _ => true) (fun _ => Some (2, [])) (fun _ => 0)) (fun _ => true) bad_extractors
          [":: Start"; "@if x:"; ":: T(a, b)"; "hi"] = POk story /\
    ~ story_specs_roundtrip story.
Proof.
  eexists. split; [vm_compute; reflexivity|].
  intros Hrt. destruct (Hrt "Start" _ (or_introl eq_refl)) as [_ HJ].
  specialize (HJ "T" "1)(2, 3" (or_introl eq_refl)). vm_compute in HJ. discriminate.
Qed.

Print Assumptions real_story_specs_roundtrip.
Print Assumptions real_step_never_binds_structurally.
Print Assumptions real_played_never_binds_structurally.
Print Assumptions real_run_never_binds_structurally.
Print Assumptions balanced_extractors_needed.
