(* Lemmas for C16 (aliasing clauses): a copy into fresh cells shares no cell with the running game. *)
From Coq Require Import String Ascii List Bool ZArith Arith Lia.
From Bardic Require Import Cells.
Import ListNotations.
Local Open Scope list_scope.

Section CvalInd.
Variable P : cval -> Prop.
Hypothesis H_atom : forall a, P (CAtom a).
Hypothesis H_list : forall i l, Forall P l -> P (CList i l).
Hypothesis H_dict : forall i d, Forall (fun kv => P (snd kv)) d -> P (CDict i d).
Fixpoint cval_ind' (v : cval) : P v :=
  match v with
  | CAtom a => H_atom a
  | CList i l => H_list i l ((fix go (l : list cval) : Forall P l :=
                                match l with [] => Forall_nil P | x :: r => Forall_cons x (cval_ind' x) (go r) end) l)
  | CDict i d => H_dict i d ((fix go (d : list (string * cval)) : Forall (fun kv => P (snd kv)) d :=
                                match d with
                                | [] => Forall_nil _
                                | (k, x) :: r => Forall_cons (k, x) (cval_ind' x) (go r)
                                end) d)
  end.
End CvalInd.

(* list-level views of the nested fixes *)
Fixpoint idl (l : list cval) : list nat := match l with [] => [] | x :: r => ids x ++ idl r end.
Fixpoint idd (d : list (string * cval)) : list nat := match d with [] => [] | (_, x) :: r => ids x ++ idd r end.
Lemma ids_list i l : ids (CList i l) = i :: idl l.
Proof. reflexivity. Qed.
Lemma ids_dict i d : ids (CDict i d) = i :: idd d.
Proof. reflexivity. Qed.

Fixpoint frl (n : nat) (l : list cval) : nat * list cval :=
  match l with
  | [] => (n, [])
  | x :: r => let '(n1, x') := fresh n x in let '(n2, r') := frl n1 r in (n2, x' :: r')
  end.
Fixpoint frd (n : nat) (d : list (string * cval)) : nat * list (string * cval) :=
  match d with
  | [] => (n, [])
  | (k, x) :: r => let '(n1, x') := fresh n x in let '(n2, r') := frd n1 r in (n2, (k, x') :: r')
  end.
Lemma fresh_list n i l : fresh n (CList i l) = (let '(n1, l') := frl (S n) l in (n1, CList n l')).
Proof. reflexivity. Qed.
Lemma fresh_dict n i d : fresh n (CDict i d) = (let '(n1, d') := frd (S n) d in (n1, CDict n d')).
Proof. reflexivity. Qed.

Definition in_range (lo hi : nat) (l : list nat) : Prop := Forall (fun i => lo <= i < hi) l.

Lemma in_range_app lo hi a b : in_range lo hi a -> in_range lo hi b -> in_range lo hi (a ++ b).
Proof. intros A B. apply Forall_app. split; assumption. Qed.
Lemma in_range_weaken lo lo' hi hi' l : lo' <= lo -> hi <= hi' -> in_range lo hi l -> in_range lo' hi' l.
Proof. intros A B H. eapply Forall_impl; [|exact H]. simpl. intros; lia. Qed.

(* the copy uses exactly the identities n .. n'-1, all new *)
Lemma fresh_range v : forall n, n <= fst (fresh n v) /\ in_range n (fst (fresh n v)) (ids (snd (fresh n v))).
Proof.
  induction v using cval_ind'; intros n.
  - simpl. split; [lia|constructor].
  - rewrite fresh_list.
    assert (Hl : forall m, m <= fst (frl m l) /\ in_range m (fst (frl m l)) (idl (snd (frl m l)))).
    { induction H as [|x r Hx Hr IH]; intros m; simpl; [split; [lia|constructor]|].
      destruct (Hx m) as [A1 A2]. destruct (fresh m x) as [n1 x'] eqn:E. simpl in A1, A2.
      destruct (IH n1) as [B1 B2]. destruct (frl n1 r) as [n2 r'] eqn:E2. simpl in *.
      split; [lia|]. apply in_range_app; [eapply in_range_weaken; [| |exact A2]; lia|eapply in_range_weaken; [| |exact B2]; lia]. }
    destruct (Hl (S n)) as [A B]. destruct (frl (S n) l) as [n1 l'] eqn:E. cbn [fst snd] in *. rewrite ids_list.
    split; [lia|]. constructor; [lia|]. eapply in_range_weaken; [| |exact B]; lia.
  - rewrite fresh_dict.
    assert (Hl : forall m, m <= fst (frd m d) /\ in_range m (fst (frd m d)) (idd (snd (frd m d)))).
    { induction H as [|[k x] r Hx Hr IH]; intros m; simpl; [split; [lia|constructor]|].
      simpl in Hx. destruct (Hx m) as [A1 A2]. destruct (fresh m x) as [n1 x'] eqn:E. simpl in A1, A2.
      destruct (IH n1) as [B1 B2]. destruct (frd n1 r) as [n2 r'] eqn:E2. simpl in *.
      split; [lia|]. apply in_range_app; [eapply in_range_weaken; [| |exact A2]; lia|eapply in_range_weaken; [| |exact B2]; lia]. }
    destruct (Hl (S n)) as [A B]. destruct (frd (S n) d) as [n1 d'] eqn:E. cbn [fst snd] in *. rewrite ids_dict.
    split; [lia|]. constructor; [lia|]. eapply in_range_weaken; [| |exact B]; lia.
Qed.

(* mutating a cell that does not occur in a value leaves the value alone *)
Lemma mutate_absent i f v : ~ In i (ids v) -> mutate i f v = v.
Proof.
  induction v using cval_ind'; intros Hn.
  - reflexivity.
  - rewrite ids_list in Hn. simpl. destruct (Nat.eqb i i0) eqn:E; [apply Nat.eqb_eq in E; subst; exfalso; apply Hn; left; reflexivity|].
    f_equal. assert (Hl : ~ In i (idl l)) by (intros X; apply Hn; right; exact X). clear Hn E.
    induction H as [|x r Hx Hr IH]; simpl; [reflexivity|]. simpl in Hl.
    rewrite Hx by (intros X; apply Hl; apply in_or_app; left; exact X).
    f_equal. apply IH. intros X. apply Hl. apply in_or_app. right. exact X.
  - rewrite ids_dict in Hn. simpl. destruct (Nat.eqb i i0) eqn:E; [apply Nat.eqb_eq in E; subst; exfalso; apply Hn; left; reflexivity|].
    f_equal. assert (Hl : ~ In i (idd d)) by (intros X; apply Hn; right; exact X). clear Hn E.
    induction H as [|[k x] r Hx Hr IH]; simpl; [reflexivity|]. simpl in Hl, Hx.
    rewrite Hx by (intros X; apply Hl; apply in_or_app; left; exact X).
    f_equal. apply IH. intros X. apply Hl. apply in_or_app. right. exact X.
Qed.

(* the copy denotes the same value *)
Lemma fresh_shape v : forall n, shape (snd (fresh n v)) = shape v.
Proof.
  induction v using cval_ind'; intros n.
  - reflexivity.
  - rewrite fresh_list.
    assert (Hl : forall m, (fix shl (l0 : list cval) : list cval := match l0 with [] => [] | x :: r => shape x :: shl r end)
                             (snd (frl m l))
                         = (fix shl (l0 : list cval) : list cval := match l0 with [] => [] | x :: r => shape x :: shl r end) l).
    { induction H as [|x r Hx Hr IH]; intros m; simpl; [reflexivity|].
      specialize (Hx m). destruct (fresh m x) as [n1 x'] eqn:E. simpl in Hx.
      specialize (IH n1). destruct (frl n1 r) as [n2 r'] eqn:E2. simpl in *. rewrite Hx, IH. reflexivity. }
    specialize (Hl (S n)). destruct (frl (S n) l) as [n1 l']. cbn [snd] in *. simpl. f_equal. exact Hl.
  - rewrite fresh_dict.
    assert (Hl : forall m, (fix shd (d0 : list (string * cval)) : list (string * cval) :=
                              match d0 with [] => [] | (k, x) :: r => (k, shape x) :: shd r end) (snd (frd m d))
                         = (fix shd (d0 : list (string * cval)) : list (string * cval) :=
                              match d0 with [] => [] | (k, x) :: r => (k, shape x) :: shd r end) d).
    { induction H as [|[k x] r Hx Hr IH]; intros m; simpl; [reflexivity|]. simpl in Hx.
      specialize (Hx m). destruct (fresh m x) as [n1 x'] eqn:E. simpl in Hx.
      specialize (IH n1). destruct (frd n1 r) as [n2 r'] eqn:E2. simpl in *. rewrite Hx, IH. reflexivity. }
    specialize (Hl (S n)). destruct (frd (S n) d) as [n1 d']. cbn [snd] in *. simpl. f_equal. exact Hl.
Qed.

(* the two directions of independence *)
Lemma later_play_keeps_copy v n i f :
  i < n -> mutate i f (snd (fresh n v)) = snd (fresh n v).
Proof.
  intros Hi. apply mutate_absent. intros Hin. destruct (fresh_range v n) as [_ R].
  unfold in_range in R. rewrite Forall_forall in R. specialize (R _ Hin). lia.
Qed.

Lemma editing_copy_keeps_game v n j f :
  Forall (fun i => i < n) (ids v) -> n <= j -> mutate j f v = v.
Proof.
  intros Hv Hj. apply mutate_absent. intros Hin. rewrite Forall_forall in Hv. specialize (Hv _ Hin). lia.
Qed.
