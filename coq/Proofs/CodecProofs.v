(* Lemmas about Codec/Codec.v (C06).  The property theorems are restated in Props/C06.v. *)
From Coq Require Import String Ascii List Bool ZArith Lia.
From Bardic Require Import PyStr Value Codec.
Import ListNotations.
Local Open Scope list_scope.
Local Open Scope string_scope.

(* ---------------------------------------------------------------------------------------- *)
(* induction principles for the nested types *)

Section ValueInd.
Variable P : value -> Prop.
Hypothesis H_none : P VNone.
Hypothesis H_bool : forall b, P (VBool b).
Hypothesis H_int : forall z, P (VInt z).
Hypothesis H_str : forall s, P (VStr s).
Hypothesis H_list : forall l, Forall P l -> P (VList l).
Hypothesis H_tuple : forall l, Forall P l -> P (VTuple l).
Hypothesis H_dict : forall d, Forall (fun kv => P (snd kv)) d -> P (VDict d).
Hypothesis H_obj : forall c a, Forall (fun kv => P (snd kv)) a -> P (VObj c a).
Hypothesis H_class : forall n, P (VClass n).
Hypothesis H_module : forall n, P (VModule n).
Hypothesis H_func : forall n, P (VFunc n).

Fixpoint value_ind' (v : value) : P v :=
  let vals := fix vals (l : list value) : Forall P l :=
      match l with
      | [] => Forall_nil P
      | x :: r => Forall_cons x (value_ind' x) (vals r)
      end in
  let items := fix items (d : list (string * value)) : Forall (fun kv => P (snd kv)) d :=
      match d with
      | [] => Forall_nil _
      | (k, x) :: r => Forall_cons (k, x) (value_ind' x) (items r)
      end in
  match v with
  | VNone => H_none
  | VBool b => H_bool b
  | VInt z => H_int z
  | VStr s => H_str s
  | VList l => H_list l (vals l)
  | VTuple l => H_tuple l (vals l)
  | VDict d => H_dict d (items d)
  | VObj c a => H_obj c a (items a)
  | VClass n => H_class n
  | VModule n => H_module n
  | VFunc n => H_func n
  end.
End ValueInd.

Section JsonInd.
Variable P : json -> Prop.
Hypothesis H_null : P JNull.
Hypothesis H_bool : forall b, P (JBool b).
Hypothesis H_int : forall z, P (JInt z).
Hypothesis H_str : forall s, P (JStr s).
Hypothesis H_list : forall l, Forall P l -> P (JList l).
Hypothesis H_obj : forall o, Forall (fun kv => P (snd kv)) o -> P (JObj o).

Fixpoint json_ind' (j : json) : P j :=
  let vals := fix vals (l : list json) : Forall P l :=
      match l with
      | [] => Forall_nil P
      | x :: r => Forall_cons x (json_ind' x) (vals r)
      end in
  let items := fix items (d : list (string * json)) : Forall (fun kv => P (snd kv)) d :=
      match d with
      | [] => Forall_nil _
      | (k, x) :: r => Forall_cons (k, x) (json_ind' x) (items r)
      end in
  match j with
  | JNull => H_null
  | JBool b => H_bool b
  | JInt z => H_int z
  | JStr s => H_str s
  | JList l => H_list l (vals l)
  | JObj o => H_obj o (items o)
  end.
End JsonInd.

(* ---------------------------------------------------------------------------------------- *)
(* the comprehension combinators *)

Lemma allP_Forall {A} (P : A -> Prop) l : allP P l <-> Forall P l.
Proof.
  induction l; simpl; split; intros H; auto.
  - destruct H. constructor; tauto.
  - inversion H; subst. tauto.
Qed.

Lemma allPi_Forall {A} (P : A -> Prop) (d : list (string * A)) :
  allPi P d <-> Forall (fun kv => P (snd kv)) d.
Proof.
  induction d as [|[k x] r IH]; simpl; split; intros H; auto.
  - destruct H. constructor; simpl; tauto.
  - inversion H; subst. simpl in *. tauto.
Qed.

Lemma Forall_mp {A} (Q R : A -> Prop) l :
  Forall (fun x => Q x -> R x) l -> Forall Q l -> Forall R l.
Proof. induction 1; intros H'; inversion H'; subst; constructor; auto. Qed.

Lemma map_items_cons {A B} (f : A -> B) k x r : map_items f ((k, x) :: r) = (k, f x) :: map_items f r.
Proof. reflexivity. Qed.

Lemma map_items_keys {A B} (f : A -> B) d : map fst (map_items f d) = map fst d.
Proof. unfold map_items. induction d as [|[k x] r IH]; simpl; [reflexivity|]. rewrite IH. reflexivity. Qed.

Lemma mapM_roundtrip {A B C} (f : A -> option B) (g : B -> option C) (h : A -> C) l :
  Forall (fun x => exists y, f x = Some y /\ g y = Some (h x)) l ->
  exists l', mapM f l = Some l' /\ mapM g l' = Some (map h l).
Proof.
  induction 1 as [|x r (y & Hf & Hg) _ (l' & H1 & H2)]; simpl.
  - exists []. auto.
  - exists (y :: l'). rewrite Hf, H1. simpl. rewrite Hg, H2. auto.
Qed.

Lemma mapM_det {A B C} (f : A -> option B) (g : B -> option C) (h : A -> C) l :
  Forall (fun x => forall y, f x = Some y -> g y = Some (h x)) l ->
  forall l', mapM f l = Some l' -> mapM g l' = Some (map h l).
Proof.
  induction 1 as [|x r Hx _ IH]; simpl; intros l' E.
  - inversion E. reflexivity.
  - destruct (f x) as [y|] eqn:Ef; [|discriminate].
    destruct (mapM f r) as [r'|] eqn:Er; [|discriminate].
    inversion E; subst. simpl. rewrite (Hx y eq_refl), (IH r' eq_refl). reflexivity.
Qed.

Lemma mapMi_roundtrip {A B C} (f : A -> option B) (g : B -> option C) (h : A -> C) (d : list (string * A)) :
  Forall (fun kv => exists y, f (snd kv) = Some y /\ g y = Some (h (snd kv))) d ->
  exists d', mapMi f d = Some d' /\ mapMi g d' = Some (map_items h d) /\ map fst d' = map fst d.
Proof.
  induction 1 as [|[k x] r (y & Hf & Hg) _ (d' & H1 & H2 & H3)]; simpl in *.
  - exists []. auto.
  - exists ((k, y) :: d'). rewrite Hf, H1. simpl. rewrite Hg, H2, H3. auto.
Qed.

Lemma mapMi_det {A B C} (f : A -> option B) (g : B -> option C) (h : A -> C) (d : list (string * A)) :
  Forall (fun kv => forall y, f (snd kv) = Some y -> g y = Some (h (snd kv))) d ->
  forall d', mapMi f d = Some d' -> mapMi g d' = Some (map_items h d) /\ map fst d' = map fst d.
Proof.
  induction 1 as [|[k x] r Hx _ IH]; simpl in *; intros d' E.
  - inversion E. auto.
  - destruct (f x) as [y|] eqn:Ef; [|discriminate].
    destruct (mapMi f r) as [r'|] eqn:Er; [|discriminate].
    inversion E; subst. simpl. destruct (IH r' eq_refl) as [I1 I2].
    rewrite (Hx y eq_refl), I1, I2. auto.
Qed.

Lemma filterMi_all {A B} (f : A -> option B) keep (d : list (string * A)) :
  (forall k, keep k = true) -> filterMi f keep d = mapMi f d.
Proof.
  intros Hk. induction d as [|[k x] r IH]; simpl; [reflexivity|]. rewrite Hk, IH. reflexivity.
Qed.

Lemma lookup_keys {A B} k (a : list (string * A)) (b : list (string * B)) :
  map fst a = map fst b -> lookup k a = None -> lookup k b = None.
Proof.
  revert b. induction a as [|[k1 x] r IH]; intros [|[k2 y] s] E; simpl in *; try discriminate; auto.
  inversion E; subst. destruct (String.eqb k k2); [discriminate|]. apply IH. assumption.
Qed.

Lemma has_key_false {A} k (d : list (string * A)) : has_key k d = false -> lookup k d = None.
Proof. unfold has_key. destruct (lookup k d); [discriminate|reflexivity]. Qed.

(* ---------------------------------------------------------------------------------------- *)
(* unfolding equations (all by computation) *)

Lemma json_rt_list l : json_rt (JList l) = JList (map json_rt l). Proof. reflexivity. Qed.
Lemma json_rt_obj o : json_rt (JObj o) = JObj (map_items json_rt o). Proof. reflexivity. Qed.

Lemma t2l_list l : t2l (VList l) = VList (map t2l l). Proof. reflexivity. Qed.
Lemma t2l_tuple l : t2l (VTuple l) = VList (map t2l l). Proof. reflexivity. Qed.
Lemma t2l_dict d : t2l (VDict d) = VDict (map_items t2l d). Proof. reflexivity. Qed.
Lemma t2l_obj c a : t2l (VObj c a) = VObj c (t2l_items a). Proof. reflexivity. Qed.

Lemma dump_list l : dump (VList l) = option_map JList (mapM dump l). Proof. reflexivity. Qed.
Lemma dump_tuple l : dump (VTuple l) = option_map JList (mapM dump l). Proof. reflexivity. Qed.
Lemma dump_dict d : dump (VDict d) = option_map JObj (mapMi dump d). Proof. reflexivity. Qed.

Lemma deser_list cf cx l : deser cf cx (JList l) = option_map VList (mapM (deser cf cx) l).
Proof. reflexivity. Qed.

Lemma deser_plain_dict cf cx o :
  lookup "_type" o = None -> deser cf cx (JObj o) = option_map VDict (mapMi (deser cf cx) o).
Proof. intros H. simpl. rewrite H. reflexivity. Qed.

Lemma ser_fuel fuel cf cx v :
  ser fuel cf cx v = ser_go cf cx (match fuel with 0 => fun _ => None | S n => ser n cf cx end) v.
Proof. destruct fuel; reflexivity. Qed.

Lemma supp_fuel n cx v :
  supp n cx v = supp_go cx (match n with 0 => fun _ => False | S m => supp m cx end) v.
Proof. destruct n; reflexivity. Qed.

(* what _deserialize_value does with the document of an object *)
Lemma deser_wrap_auto cf cx c m ci o b :
  lookup c cx = Some ci -> ci_registered ci = true -> String.eqb c "string_repr" = false ->
  ci_from_save ci = None ->
  deser cf cx (wrap_obj c m (JObj o) b) = option_map (VObj c) (mapMi (deser cf cx) o).
Proof.
  intros H1 H2 H3 H4. unfold wrap_obj.
  destruct b; simpl; rewrite H3; unfold context_class; rewrite H1, H2, H4; reflexivity.
Qed.

Lemma deser_wrap_custom cx c m ci data b g :
  lookup c cx = Some ci -> ci_registered ci = true -> String.eqb c "string_repr" = false ->
  ci_from_save ci = Some g ->
  deser fixed cx (wrap_obj c m data b) =
  let auto := option_map (VObj c)
                (match data with JObj o' => mapMi (deser fixed cx) o' | _ => None end) in
  match deser fixed cx data with
  | Some a => match g a with Some attrs => Some (VObj c attrs) | None => auto end
  | None => auto
  end.
Proof.
  intros H1 H2 H3 H4. unfold wrap_obj.
  destruct b; simpl; rewrite H3; unfold context_class; rewrite H1, H2, H4; reflexivity.
Qed.

(* ---------------------------------------------------------------------------------------- *)
(* the text codec is the identity on JSON trees; tuples_to_lists is idempotent *)

Lemma map_id_Forall {A} (f : A -> A) l : Forall (fun x => f x = x) l -> map f l = l.
Proof. induction 1; simpl; congruence. Qed.

Lemma map_items_id_Forall {A} (f : A -> A) (d : list (string * A)) :
  Forall (fun kv => f (snd kv) = snd kv) d -> map_items f d = d.
Proof.
  induction 1 as [|[k x] r Hx _ IH]; [reflexivity|]. rewrite map_items_cons. simpl in Hx. congruence.
Qed.

Lemma json_rt_id : forall j, json_rt j = j.
Proof.
  induction j using json_ind'; try reflexivity.
  - rewrite json_rt_list, map_id_Forall; auto.
  - rewrite json_rt_obj, map_items_id_Forall; auto.
Qed.

Lemma map_map_Forall {A} (f : A -> A) l : Forall (fun x => f (f x) = f x) l -> map f (map f l) = map f l.
Proof. induction 1; simpl; congruence. Qed.

Lemma map_items_idem_Forall {A} (f : A -> A) (d : list (string * A)) :
  Forall (fun kv => f (f (snd kv)) = f (snd kv)) d -> map_items f (map_items f d) = map_items f d.
Proof.
  induction 1 as [|[k x] r Hx _ IH]; [reflexivity|]. rewrite !map_items_cons. simpl in Hx. congruence.
Qed.

Lemma t2l_idem : forall v, t2l (t2l v) = t2l v.
Proof.
  induction v using value_ind'; try reflexivity.
  - rewrite t2l_list, t2l_list, map_map_Forall; auto.
  - rewrite t2l_tuple, t2l_list, map_map_Forall; auto.
  - rewrite t2l_dict, t2l_dict, map_items_idem_Forall; auto.
  - rewrite t2l_obj, t2l_obj. unfold t2l_items. rewrite map_items_idem_Forall; auto.
Qed.

(* ---------------------------------------------------------------------------------------- *)
(* the round trip, for the code with the patches *)

Section Go.
Variable cx : ctx.
Variable sc : value -> option json.        (* how to_save_dict's result is serialised *)
Variable Pc : value -> Prop.               (* what is assumed of to_save_dict's result *)
Hypothesis Hsc : forall d, Pc d -> exists j, sc d = Some j /\ deser fixed cx j = Some (t2l d).

(* priority 2: a value json.dumps accepts comes back with its tuples as lists *)
Lemma dump_deser : forall v, supp_go cx Pc v ->
  forall j, dump v = Some j -> deser fixed cx j = Some (t2l v).
Proof.
  induction v using value_ind'; intros Hs j E; try (simpl in E; inversion E; subst; reflexivity);
    try discriminate.
  - (* list *)
    rewrite dump_list in E. destruct (mapM dump l) as [l'|] eqn:El; [|discriminate].
    inversion E; subst. simpl in Hs. apply allP_Forall in Hs.
    rewrite deser_list, t2l_list.
    erewrite mapM_det; [reflexivity| |exact El].
    eapply Forall_mp; [|exact Hs]. eapply Forall_impl; [|exact H]. intros x Hx Hsx y Ey. auto.
  - (* tuple *)
    rewrite dump_tuple in E. destruct (mapM dump l) as [l'|] eqn:El; [|discriminate].
    inversion E; subst. simpl in Hs. apply allP_Forall in Hs.
    rewrite deser_list, t2l_tuple.
    erewrite mapM_det; [reflexivity| |exact El].
    eapply Forall_mp; [|exact Hs]. eapply Forall_impl; [|exact H]. intros x Hx Hsx y Ey. auto.
  - (* dict *)
    rewrite dump_dict in E. destruct (mapMi dump d) as [d'|] eqn:Ed; [|discriminate].
    inversion E; subst. simpl in Hs. destruct Hs as [Hk Hs]. apply allPi_Forall in Hs.
    assert (Hd : mapMi (deser fixed cx) d' = Some (map_items t2l d) /\ map fst d' = map fst d).
    { eapply mapMi_det; [|exact Ed].
      eapply Forall_mp; [|exact Hs]. eapply Forall_impl; [|exact H]. intros kv Hx Hsx y Ey. auto. }
    destruct Hd as [Hd Hkeys].
    rewrite deser_plain_dict, Hd, t2l_dict; [reflexivity|].
    eapply lookup_keys; [symmetry; exact Hkeys|]. apply has_key_false. exact Hk.
Qed.

Lemma go_roundtrip : forall v, supp_go cx Pc v ->
  exists j, ser_go fixed cx sc v = Some j /\ deser fixed cx j = Some (t2l v).
Proof.
  induction v using value_ind'; intros Hs;
    try (eexists; split; reflexivity); try (simpl in Hs; contradiction).
  - (* list *)
    change (ser_go fixed cx sc (VList l))
      with (match dump (VList l) with Some j => Some j | None => option_map JList (mapM (ser_go fixed cx sc) l) end).
    destruct (dump (VList l)) as [j|] eqn:E.
    + exists j. split; [reflexivity|]. eapply dump_deser; eauto.
    + simpl in Hs. apply allP_Forall in Hs.
      destruct (mapM_roundtrip (ser_go fixed cx sc) (deser fixed cx) t2l l) as (l' & H1 & H2).
      { eapply Forall_mp; [|exact Hs]. exact H. }
      exists (JList l'). rewrite H1, deser_list, H2, t2l_list. auto.
  - (* tuple *)
    change (ser_go fixed cx sc (VTuple l))
      with (match dump (VTuple l) with Some j => Some j | None => option_map JList (mapM (ser_go fixed cx sc) l) end).
    destruct (dump (VTuple l)) as [j|] eqn:E.
    + exists j. split; [reflexivity|]. eapply dump_deser; eauto.
    + simpl in Hs. apply allP_Forall in Hs.
      destruct (mapM_roundtrip (ser_go fixed cx sc) (deser fixed cx) t2l l) as (l' & H1 & H2).
      { eapply Forall_mp; [|exact Hs]. exact H. }
      exists (JList l'). rewrite H1, deser_list, H2, t2l_tuple. auto.
  - (* dict *)
    change (ser_go fixed cx sc (VDict d))
      with (match dump (VDict d) with Some j => Some j | None => option_map JObj (mapMi (ser_go fixed cx sc) d) end).
    destruct (dump (VDict d)) as [j|] eqn:E.
    + exists j. split; [reflexivity|]. eapply dump_deser; eauto.
    + simpl in Hs. destruct Hs as [Hk Hs]. apply allPi_Forall in Hs.
      destruct (mapMi_roundtrip (ser_go fixed cx sc) (deser fixed cx) t2l d) as (d' & H1 & H2 & H3).
      { eapply Forall_mp; [|exact Hs]. exact H. }
      exists (JObj d'). rewrite H1. split; [reflexivity|].
      rewrite deser_plain_dict, H2, t2l_dict; [reflexivity|].
      eapply lookup_keys; [symmetry; exact H3|]. apply has_key_false. exact Hk.
  - (* object *)
    simpl in Hs. destruct (lookup c cx) as [ci|] eqn:Ec; [|contradiction].
    destruct Hs as (Hreg & Hname & Hs).
    change (ser_go fixed cx sc (VObj c a))
      with (match ci_to_save (class_of cx c) with
            | Some f => option_map (fun data => wrap_obj c (ci_module (class_of cx c)) data true) (sc (f a))
            | None => option_map (fun o => wrap_obj c (ci_module (class_of cx c)) (JObj o) false)
                                 (filterMi (ser_go fixed cx sc) (attr_kept fixed) a)
            end).
    unfold class_of. rewrite Ec.
    destruct (ci_to_save ci) as [f|] eqn:Ef; destruct (ci_from_save ci) as [g|] eqn:Eg; try contradiction.
    + (* to_save_dict / from_save_dict *)
      destruct Hs as [Hd Hg]. destruct (Hsc _ Hd) as (j & Hj1 & Hj2).
      exists (wrap_obj c (ci_module ci) j true). rewrite Hj1. split; [reflexivity|].
      rewrite (deser_wrap_custom cx c (ci_module ci) ci j true g Ec Hreg Hname Eg).
      cbv zeta. rewrite Hj2, Hg, t2l_obj. reflexivity.
    + (* plain attribute object *)
      apply allPi_Forall in Hs.
      rewrite filterMi_all by reflexivity.
      destruct (mapMi_roundtrip (ser_go fixed cx sc) (deser fixed cx) t2l a) as (a' & H1 & H2 & H3).
      { eapply Forall_mp; [|exact Hs]. exact H. }
      exists (wrap_obj c (ci_module ci) (JObj a') false). rewrite H1. split; [reflexivity|].
      rewrite (deser_wrap_auto fixed cx c (ci_module ci) ci a' false Ec Hreg Hname Eg), H2, t2l_obj.
      reflexivity.
Qed.
End Go.

(* the main lemma: any depth n of nested to_save_dict calls, any fuel >= n *)
Lemma roundtrip_fuel cx : forall n v, supp n cx v -> forall fuel, n <= fuel ->
  exists j, ser fuel fixed cx v = Some j /\ deser fixed cx j = Some (t2l v).
Proof.
  induction n as [|n IH]; intros v Hs fuel Hle; rewrite ser_fuel; rewrite supp_fuel in Hs.
  - eapply go_roundtrip; [|exact Hs]. intros d [].
  - destruct fuel as [|fuel]; [lia|].
    eapply go_roundtrip; [|exact Hs]. intros d Hd. apply IH; [exact Hd|lia].
Qed.

Lemma codec_roundtrip_lemma cx n v : supp n cx v -> forall fuel, n <= fuel ->
  exists j, ser fuel fixed cx v = Some j /\ deser fixed cx (json_rt j) = Some (t2l v).
Proof.
  intros Hs fuel Hle. destruct (roundtrip_fuel cx n v Hs fuel Hle) as (j & H1 & H2).
  exists j. rewrite json_rt_id. auto.
Qed.

Lemma codec_roundtrip_supported cx v : supported cx v ->
  exists n, forall fuel, n <= fuel ->
  exists j, ser fuel fixed cx v = Some j /\ deser fixed cx (json_rt j) = Some (t2l v).
Proof. intros [n Hs]. exists n. intros. eapply codec_roundtrip_lemma; eauto. Qed.

(* ---------------------------------------------------------------------------------------- *)
(* the domain: monotone in the depth bound, closed under tuples_to_lists for custom-free values *)

Lemma supp_go_mono cx (P Q : value -> Prop) : (forall d, P d -> Q d) ->
  forall v, supp_go cx P v -> supp_go cx Q v.
Proof.
  intros HPQ. induction v using value_ind'; simpl; auto.
  - intros Hs. apply allP_Forall. apply allP_Forall in Hs. exact (Forall_mp _ _ _ H Hs).
  - intros Hs. apply allP_Forall. apply allP_Forall in Hs. exact (Forall_mp _ _ _ H Hs).
  - intros [Hk Hs]. split; [exact Hk|]. apply allPi_Forall. apply allPi_Forall in Hs. exact (Forall_mp _ _ _ H Hs).
  - destruct (lookup c cx) as [ci|]; [|auto]. intros (H1 & H2 & Hs). split; [exact H1|]. split; [exact H2|].
    destruct (ci_to_save ci), (ci_from_save ci); auto.
    + destruct Hs. split; auto.
    + apply allPi_Forall. apply allPi_Forall in Hs. exact (Forall_mp _ _ _ H Hs).
Qed.

Lemma supp_S cx : forall n v, supp n cx v -> supp (S n) cx v.
Proof.
  induction n as [|n IH]; intros v Hs; rewrite supp_fuel; rewrite supp_fuel in Hs.
  - eapply supp_go_mono; [|exact Hs]. intros d [].
  - eapply supp_go_mono; [|exact Hs]. exact IH.
Qed.

Lemma supp_mono cx n m v : n <= m -> supp n cx v -> supp m cx v.
Proof. induction 1; auto using supp_S. Qed.

Lemma has_key_keys {A B} k (a : list (string * A)) (b : list (string * B)) :
  map fst a = map fst b -> has_key k a = false -> has_key k b = false.
Proof.
  intros E H. unfold has_key. rewrite (lookup_keys k a b E); [reflexivity|]. apply has_key_false. exact H.
Qed.

Lemma Forall_map {A B} (f : A -> B) (P : B -> Prop) l : Forall (fun x => P (f x)) l -> Forall P (map f l).
Proof. induction 1; simpl; constructor; auto. Qed.

Lemma Forall_map_items {A B} (f : A -> B) (P : B -> Prop) (d : list (string * A)) :
  Forall (fun kv => P (f (snd kv))) d -> Forall (fun kv => P (snd kv)) (map_items f d).
Proof. induction 1 as [|[k x] r Hx _ IH]; [constructor|]. rewrite map_items_cons. constructor; auto. Qed.

(* values without custom objects: what comes back is again in the domain *)
Lemma supp0_t2l cx : forall v, supp 0 cx v -> supp 0 cx (t2l v).
Proof.
  change (supp 0 cx) with (supp_go cx (fun _ => False)).
  induction v using value_ind'; simpl; auto.
  - intros Hs. apply allP_Forall. apply allP_Forall in Hs. apply Forall_map. exact (Forall_mp _ _ _ H Hs).
  - intros Hs. apply allP_Forall. apply allP_Forall in Hs. apply Forall_map. exact (Forall_mp _ _ _ H Hs).
  - intros [Hk Hs]. split.
    + eapply has_key_keys; [|exact Hk]. symmetry. apply map_items_keys.
    + apply allPi_Forall. apply allPi_Forall in Hs. apply Forall_map_items. exact (Forall_mp _ _ _ H Hs).
  - destruct (lookup c cx) as [ci|]; [|auto]. intros (H1 & H2 & Hs). split; [exact H1|]. split; [exact H2|].
    destruct (ci_to_save ci), (ci_from_save ci); auto.
    + destruct Hs as [[] _].
    + apply allPi_Forall. apply allPi_Forall in Hs. apply Forall_map_items. exact (Forall_mp _ _ _ H Hs).
Qed.

(* a second save/load changes nothing more *)
Lemma roundtrip_idempotent_lemma cx n v : supp n cx v -> supp n cx (t2l v) ->
  forall fuel, n <= fuel ->
  exists j1 v1 j2, ser fuel fixed cx v = Some j1 /\ deser fixed cx (json_rt j1) = Some v1 /\
                   ser fuel fixed cx v1 = Some j2 /\ deser fixed cx (json_rt j2) = Some v1.
Proof.
  intros H1 H2 fuel Hle.
  destruct (codec_roundtrip_lemma cx n v H1 fuel Hle) as (j1 & A1 & A2).
  destruct (codec_roundtrip_lemma cx n (t2l v) H2 fuel Hle) as (j2 & B1 & B2).
  exists j1, (t2l v), j2. rewrite t2l_idem in B2. auto.
Qed.

Lemma roundtrip_idempotent_plain_lemma cx v : supp 0 cx v ->
  forall fuel,
  exists j1 v1 j2, ser fuel fixed cx v = Some j1 /\ deser fixed cx (json_rt j1) = Some v1 /\
                   ser fuel fixed cx v1 = Some j2 /\ deser fixed cx (json_rt j2) = Some v1.
Proof. intros H fuel. apply (roundtrip_idempotent_lemma cx 0 v H (supp0_t2l cx v H) fuel). lia. Qed.

(* ---------------------------------------------------------------------------------------- *)
(* the variable dictionary *)

Lemma lookup_app {A} k (a b : list (string * A)) :
  lookup k (a ++ b) = match lookup k a with Some v => Some v | None => lookup k b end.
Proof. induction a as [|[k1 x] r IH]; simpl; [reflexivity|]. destruct (String.eqb k k1); auto. Qed.

Lemma lookup_filter_some {A} (p : string * A -> bool) k v (d : list (string * A)) :
  lookup k d = Some v -> p (k, v) = true -> lookup k (filter p d) = Some v.
Proof.
  induction d as [|[k1 x] r IH]; simpl; [discriminate|]. intros H Hp.
  destruct (String.eqb k k1) eqn:E.
  - apply String.eqb_eq in E. subst k1. inversion H; subst. rewrite Hp. simpl. rewrite String.eqb_refl. reflexivity.
  - destruct (p (k1, x)); simpl; [rewrite E|]; auto.
Qed.

Lemma lookup_map_items {A B} (f : A -> B) k (d : list (string * A)) :
  lookup k (map_items f d) = option_map f (lookup k d).
Proof.
  induction d as [|[k1 x] r IH]; [reflexivity|]. rewrite map_items_cons. simpl.
  destruct (String.eqb k k1); auto.
Qed.

Definition load_step (acc : env) (kv : string * value) : env :=
  if has_key (fst kv) acc then acc else (acc ++ [kv])%list.

Lemma load_doc_fixed cx cur o :
  load_doc fixed cx cur o =
  match deser_doc fixed cx o with
  | None => None
  | Some loaded => Some (fold_left load_step loaded (filter (fun kv => is_import_binding (snd kv)) cur))
  end.
Proof. reflexivity. Qed.

Lemma load_step_keeps k v : forall loaded acc,
  lookup k acc = Some v -> lookup k (fold_left load_step loaded acc) = Some v.
Proof.
  induction loaded as [|kv r IH]; simpl; intros acc H; [exact H|].
  apply IH. unfold load_step. destruct (has_key (fst kv) acc); [exact H|].
  rewrite lookup_app, H. reflexivity.
Qed.

Lemma load_step_adds k x : forall loaded acc,
  lookup k acc = None -> lookup k loaded = Some x ->
  lookup k (fold_left load_step loaded acc) = Some x.
Proof.
  induction loaded as [|[k1 x1] r IH]; simpl; intros acc Hn H; [discriminate|].
  destruct (String.eqb k k1) eqn:E.
  - apply String.eqb_eq in E. subst k1. inversion H; subst.
    apply load_step_keeps. unfold load_step, has_key. simpl. rewrite Hn.
    rewrite lookup_app, Hn. simpl. rewrite String.eqb_refl. reflexivity.
  - apply IH; [|exact H]. unfold load_step. simpl.
    destruct (has_key k1 acc); [exact Hn|]. rewrite lookup_app, Hn. simpl. rewrite E. reflexivity.
Qed.

(* names bound by import lines keep their binding across a load, whatever the save file holds *)
Lemma imports_survive_load_lemma cx cur doc st' k v :
  lookup k cur = Some v -> is_import_binding v = true ->
  load_doc fixed cx cur doc = Some st' -> lookup k st' = Some v.
Proof.
  intros Hk Hi Hl. rewrite load_doc_fixed in Hl.
  destruct (deser_doc fixed cx doc) as [loaded|]; [|discriminate]. inversion Hl; subst.
  apply load_step_keeps. apply lookup_filter_some; assumption.
Qed.

(* ... and nothing in the save file stems from one *)
Lemma imports_not_saved_lemma cx fuel : forall st doc,
  save_doc fuel fixed cx st = Some doc ->
  forall k j, In (k, j) doc ->
  exists v, In (k, v) st /\ is_import_binding v = false /\ ser fuel fixed cx v = Some j.
Proof.
  induction st as [|[k1 v1] r IH]; simpl; intros doc H k j Hin.
  - inversion H; subst. contradiction.
  - destruct (is_import_binding v1) eqn:Ei; simpl in H.
    + destruct (IH doc H k j Hin) as (v & A & B & D). exists v. auto.
    + destruct (ser fuel fixed cx v1) as [j1|] eqn:Es; [|discriminate].
      destruct (save_doc fuel fixed cx r) as [o|] eqn:Er; [|discriminate].
      inversion H; subst. destruct Hin as [Hin|Hin].
      * inversion Hin; subst. exists v1. auto.
      * destruct (IH o eq_refl k j Hin) as (v & A & B & D). exists v. auto.
Qed.

(* what load_state reads back from what save_state wrote: the non-import variables, tuples as lists *)
Lemma save_then_deser cx n fuel : n <= fuel -> forall st,
  Forall (fun kv => is_import_binding (snd kv) = true \/ supp n cx (snd kv)) st ->
  exists doc, save_doc fuel fixed cx st = Some doc /\
              deser_doc fixed cx (map_items json_rt doc)
              = Some (map_items t2l (filter (fun kv => negb (is_import_binding (snd kv))) st)).
Proof.
  intros Hle. induction 1 as [|[k v] r Hv _ (doc & H1 & H2)]; simpl in *.
  - exists []. auto.
  - destruct (is_import_binding v) eqn:Ei; simpl.
    + exists doc. auto.
    + destruct Hv as [Hv|Hv]; [discriminate|].
      destruct (codec_roundtrip_lemma cx n v Hv fuel Hle) as (j & A & B).
      exists ((k, j) :: doc). rewrite A, H1. split; [reflexivity|].
      rewrite !map_items_cons. unfold deser_doc in *. simpl. rewrite B, H2. reflexivity.
Qed.

Lemma state_roundtrip_lemma cx n fuel st cur : n <= fuel ->
  Forall (fun kv => is_import_binding (snd kv) = true \/ supp n cx (snd kv)) st ->
  exists doc st',
    save_doc fuel fixed cx st = Some doc /\
    load_doc fixed cx cur (map_items json_rt doc) = Some st' /\
    (* imported names keep the binding of the loading engine *)
    (forall k v, lookup k cur = Some v -> is_import_binding v = true -> lookup k st' = Some v) /\
    (* every other variable comes back, tuples as lists *)
    (forall k v, lookup k st = Some v -> is_import_binding v = false ->
                 lookup k (filter (fun kv => is_import_binding (snd kv)) cur) = None ->
                 lookup k st' = Some (t2l v)).
Proof.
  intros Hle Hst. destruct (save_then_deser cx n fuel Hle st Hst) as (doc & H1 & H2).
  exists doc. rewrite load_doc_fixed, H2. eexists. split; [exact H1|]. split; [reflexivity|]. split.
  - intros k v Hk Hi. apply load_step_keeps. apply lookup_filter_some; assumption.
  - intros k v Hk Hi Hc. apply load_step_adds; [exact Hc|].
    rewrite lookup_map_items.
    rewrite (lookup_filter_some (fun kv => negb (is_import_binding (snd kv))) k v st Hk); [reflexivity|].
    simpl. rewrite Hi. reflexivity.
Qed.
