(* Proofs about Codec/DeepCopy.v: copy.deepcopy with one memo uses only new cells, denotes the same value, and
   preserves sharing exactly (the copy is an injective renaming of the original). *)
From Coq Require Import String Ascii List Bool ZArith Arith Lia.
From Bardic Require Import Cells CellsProofs DeepCopy DeepCopyCheck.
Import ListNotations.
Local Open Scope list_scope.

(* ------------------------------------------------------------------------------------------------------ *)
(* induction on values with a companion predicate on lists of children                                     *)
(* ------------------------------------------------------------------------------------------------------ *)
Section CvalInd2.
Variable P : cval -> Prop.
Variable Q : list cval -> Prop.
Hypothesis H_atom : forall a, P (CAtom a).
Hypothesis H_list : forall i l, Q l -> P (CList i l).
Hypothesis H_dict : forall i d, Q (map snd d) -> P (CDict i d).
Hypothesis H_nil : Q [].
Hypothesis H_cons : forall x r, P x -> Q r -> Q (x :: r).
Fixpoint cval_ind2 (v : cval) : P v :=
  match v with
  | CAtom a => H_atom a
  | CList i l => H_list i l ((fix go (l : list cval) : Q l :=
                                match l with [] => H_nil | x :: r => H_cons x r (cval_ind2 x) (go r) end) l)
  | CDict i d => H_dict i d ((fix go (d : list (string * cval)) : Q (map snd d) :=
                                match d with
                                | [] => H_nil
                                | (k, x) :: r => H_cons x (map snd r) (cval_ind2 x) (go r)
                                end) d)
  end.
Lemma cval_list_ind2 : forall l, Q l.
Proof. induction l as [|x r IH]; [exact H_nil|apply H_cons; [apply cval_ind2|exact IH]]. Qed.
End CvalInd2.

(* ------------------------------------------------------------------------------------------------------ *)
(* list-level views of the nested definitions                                                              *)
(* ------------------------------------------------------------------------------------------------------ *)
Lemma flat_map_map {A B C : Type} (g : A -> B) (f : B -> list C) (l : list A) :
  flat_map f (map g l) = flat_map (fun x => f (g x)) l.
Proof. induction l as [|x r IH]; simpl; [reflexivity|rewrite IH; reflexivity]. Qed.

Lemma combine_fst_snd {A B : Type} (d : list (A * B)) : combine (map fst d) (map snd d) = d.
Proof. induction d as [|[k x] r IH]; simpl; [reflexivity|rewrite IH; reflexivity]. Qed.

Lemma combine_map_snd {A B C : Type} (f : B -> C) (d : list (A * B)) :
  combine (map fst d) (map f (map snd d)) = map (fun kv => (fst kv, f (snd kv))) d.
Proof. induction d as [|[k x] r IH]; simpl; [reflexivity|rewrite IH; reflexivity]. Qed.

Lemma ids_list_fm i l : ids (CList i l) = i :: flat_map ids l.
Proof. reflexivity. Qed.
Lemma ids_dict_fm i d : ids (CDict i d) = i :: flat_map ids (map snd d).
Proof. rewrite ids_dict. f_equal. induction d as [|[k x] r IH]; simpl; [reflexivity|rewrite IH; reflexivity]. Qed.
Lemma ids_state_fm s : ids_state s = flat_map ids (map snd s).
Proof. unfold ids_state. rewrite flat_map_map. reflexivity. Qed.
Lemma occs_dict_fm i d : occs (CDict i d) = CDict i d :: flat_map occs (map snd d).
Proof. simpl. rewrite flat_map_map. reflexivity. Qed.
Lemma occs_state_fm s : occs_state s = flat_map occs (map snd s).
Proof. unfold occs_state. rewrite flat_map_map. reflexivity. Qed.
Lemma rename_dict_fm r i d :
  rename r (CDict i d) = CDict (r i) (combine (map fst d) (map (rename r) (map snd d))).
Proof. simpl. rewrite combine_map_snd. reflexivity. Qed.
Lemma rename_state_fm r s : rename_state r s = combine (map fst s) (map (rename r) (map snd s)).
Proof. unfold rename_state. rewrite combine_map_snd. reflexivity. Qed.

Lemma mutate_list_fm i f j l :
  mutate i f (CList j l) = if Nat.eqb i j then f (CList j l) else CList j (map (mutate i f) l).
Proof. reflexivity. Qed.
Lemma mutate_dict_fm i f j d :
  mutate i f (CDict j d) =
  if Nat.eqb i j then f (CDict j d) else CDict j (combine (map fst d) (map (mutate i f) (map snd d))).
Proof.
  simpl. destruct (Nat.eqb i j); [reflexivity|]. f_equal.
  induction d as [|[k x] r IH]; simpl; [reflexivity|rewrite IH; reflexivity].
Qed.
Lemma shape_list_fm i l : shape (CList i l) = CList 0 (map shape l).
Proof. reflexivity. Qed.
Lemma shape_dict_fm i d : shape (CDict i d) = CDict 0 (combine (map fst d) (map shape (map snd d))).
Proof. simpl. f_equal. induction d as [|[k x] r IH]; simpl; [reflexivity|rewrite IH; reflexivity]. Qed.

Fixpoint dcl (n : nat) (m : memo) (l : list cval) : nat * memo * list cval :=
  match l with
  | [] => (n, m, [])
  | x :: r => let '(n1, m1, x') := deepcopy_memo n m x in
              let '(n2, m2, r') := dcl n1 m1 r in (n2, m2, x' :: r')
  end.
Lemma deepcopy_list n m i l :
  deepcopy_memo n m (CList i l) =
  match mlookup i m with
  | Some c => (n, m, c)
  | None => let '(n1, m1, l') := dcl (S n) m l in (n1, (i, CList n l') :: m1, CList n l')
  end.
Proof. reflexivity. Qed.
Lemma deepcopy_dict n m i d :
  deepcopy_memo n m (CDict i d) =
  match mlookup i m with
  | Some c => (n, m, c)
  | None => let '(n1, m1, d') := deepcopy_vars (S n) m d in (n1, (i, CDict n d') :: m1, CDict n d')
  end.
Proof. reflexivity. Qed.
Lemma deepcopy_vars_dcl d : forall n m,
  deepcopy_vars n m d = let '(n1, m1, l') := dcl n m (map snd d) in (n1, m1, combine (map fst d) l').
Proof.
  induction d as [|[k x] r IH]; intros n m; simpl; [reflexivity|].
  destruct (deepcopy_memo n m x) as [[n1 m1] x']. rewrite IH.
  destruct (dcl n1 m1 (map snd r)) as [[n2 m2] r']. reflexivity.
Qed.

(* ------------------------------------------------------------------------------------------------------ *)
(* occurrences, identities, size                                                                           *)
(* ------------------------------------------------------------------------------------------------------ *)
Lemma ids_occs : forall v, ids v = map cid (occs v).
Proof.
  apply (cval_ind2 (fun v => ids v = map cid (occs v)) (fun l => flat_map ids l = map cid (flat_map occs l))).
  - reflexivity.
  - intros i l Hl. rewrite ids_list_fm. simpl. rewrite Hl. reflexivity.
  - intros i d Hd. rewrite ids_dict_fm, occs_dict_fm. simpl. rewrite Hd. reflexivity.
  - reflexivity.
  - intros x r Hx Hr. simpl. rewrite map_app, Hx, Hr. reflexivity.
Qed.
Lemma idl_occs l : flat_map ids l = map cid (flat_map occs l).
Proof. induction l as [|x r IH]; simpl; [reflexivity|rewrite map_app, ids_occs, IH; reflexivity]. Qed.

Definition is_container (v : cval) : Prop := match v with CAtom _ => False | _ => True end.
Lemma occs_container : forall v o, In o (occs v) -> is_container o.
Proof.
  apply (cval_ind2 (fun v => forall o, In o (occs v) -> is_container o)
                   (fun l => forall o, In o (flat_map occs l) -> is_container o)).
  - intros a o [].
  - intros i l Hl o [E|Hin]; [subst; exact I|apply Hl; exact Hin].
  - intros i d Hd o Hin. rewrite occs_dict_fm in Hin. destruct Hin as [E|Hin]; [subst; exact I|apply Hd; exact Hin].
  - intros o [].
  - intros x r Hx Hr o Hin. simpl in Hin. apply in_app_or in Hin. destruct Hin; [apply Hx|apply Hr]; assumption.
Qed.

Fixpoint size (v : cval) : nat :=
  match v with
  | CAtom _ => 1
  | CList _ l => S (list_sum (map size l))
  | CDict _ d => S (list_sum (map (fun kv => size (snd kv)) d))
  end.
Lemma size_dict_fm i d : size (CDict i d) = S (list_sum (map size (map snd d))).
Proof. simpl. rewrite map_map. reflexivity. Qed.

Lemma occs_size : forall v o, In o (occs v) -> size o <= size v.
Proof.
  apply (cval_ind2 (fun v => forall o, In o (occs v) -> size o <= size v)
                   (fun l => forall o, In o (flat_map occs l) -> size o <= list_sum (map size l))).
  - intros a o [].
  - intros i l Hl o [E|Hin]; [subst; lia|]. specialize (Hl _ Hin). simpl. lia.
  - intros i d Hd o Hin. rewrite occs_dict_fm in Hin. destruct Hin as [E|Hin]; [subst; lia|].
    specialize (Hd _ Hin). rewrite size_dict_fm. lia.
  - intros o [].
  - intros x r Hx Hr o Hin. simpl in Hin. apply in_app_or in Hin. simpl.
    destruct Hin as [Hin|Hin]; [specialize (Hx _ Hin)|specialize (Hr _ Hin)]; lia.
Qed.
Lemma occs_children_size l o : In o (flat_map occs l) -> size o <= list_sum (map size l).
Proof.
  induction l as [|x r IH]; simpl; [intros []|]. intros Hin. apply in_app_or in Hin.
  destruct Hin as [Hin|Hin]; [apply occs_size in Hin|apply IH in Hin]; lia.
Qed.

(* a universe of occurrences in which equal identities mean equal objects *)
Definition consU (U : list cval) : Prop := forall a b, In a U -> In b U -> cid a = cid b -> a = b.

(* no cell contains itself *)
Lemma acyclic_list U i l :
  consU U -> In (CList i l) U -> incl (flat_map occs l) U -> ~ In i (flat_map ids l).
Proof.
  intros HU Hv Hl Hin. rewrite idl_occs in Hin. apply in_map_iff in Hin. destruct Hin as [o [Ho Hin]].
  assert (E : o = CList i l) by (apply HU; [apply Hl; exact Hin|exact Hv|exact Ho]).
  apply occs_children_size in Hin. subst o. simpl in Hin. lia.
Qed.
Lemma acyclic_dict U i d :
  consU U -> In (CDict i d) U -> incl (flat_map occs (map snd d)) U -> ~ In i (flat_map ids (map snd d)).
Proof.
  intros HU Hv Hl Hin. rewrite idl_occs in Hin. apply in_map_iff in Hin. destruct Hin as [o [Ho Hin]].
  assert (E : o = CDict i d) by (apply HU; [apply Hl; exact Hin|exact Hv|exact Ho]).
  apply occs_children_size in Hin. subst o. rewrite size_dict_fm in Hin. lia.
Qed.

(* ------------------------------------------------------------------------------------------------------ *)
(* renaming                                                                                                *)
(* ------------------------------------------------------------------------------------------------------ *)
Lemma rename_ext r r' : forall v, (forall k, In k (ids v) -> r k = r' k) -> rename r v = rename r' v.
Proof.
  apply (cval_ind2 (fun v => (forall k, In k (ids v) -> r k = r' k) -> rename r v = rename r' v)
                   (fun l => (forall k, In k (flat_map ids l) -> r k = r' k) -> map (rename r) l = map (rename r') l)).
  - reflexivity.
  - intros i l Hl H. rewrite ids_list_fm in H. simpl. rewrite (H i) by (left; reflexivity).
    rewrite Hl by (intros k Hk; apply H; right; exact Hk). reflexivity.
  - intros i d Hd H. rewrite ids_dict_fm in H. rewrite !rename_dict_fm. rewrite (H i) by (left; reflexivity).
    rewrite Hd by (intros k Hk; apply H; right; exact Hk). reflexivity.
  - reflexivity.
  - intros x r0 Hx Hr H. simpl in *. rewrite Hx, Hr; [reflexivity| |]; intros k Hk; apply H; apply in_or_app; auto.
Qed.
Lemma rename_ext_list r r' l :
  (forall k, In k (flat_map ids l) -> r k = r' k) -> map (rename r) l = map (rename r') l.
Proof.
  intros H. apply map_ext_in. intros x Hx. apply rename_ext. intros k Hk. apply H.
  apply in_flat_map. exists x. split; assumption.
Qed.

Lemma ids_rename r : forall v, ids (rename r v) = map r (ids v).
Proof.
  apply (cval_ind2 (fun v => ids (rename r v) = map r (ids v))
                   (fun l => flat_map ids (map (rename r) l) = map r (flat_map ids l))).
  - reflexivity.
  - intros i l Hl. simpl rename. rewrite !ids_list_fm. simpl. rewrite Hl. reflexivity.
  - intros i d Hd. rewrite rename_dict_fm, !ids_dict_fm. simpl. f_equal.
    rewrite <- Hd. f_equal.
    assert (L : length (map fst d) = length (map (rename r) (map snd d))) by (rewrite !map_length; reflexivity).
    revert L. generalize (map (rename r) (map snd d)) as ys. generalize (map fst d) as xs.
    induction xs as [|a xs IH]; intros [|y ys] L; simpl in *; try discriminate; [reflexivity|].
    rewrite IH by lia. reflexivity.
  - reflexivity.
  - intros x r0 Hx Hr. simpl. rewrite map_app, Hx, Hr. reflexivity.
Qed.
Lemma ids_rename_list r l : flat_map ids (map (rename r) l) = map r (flat_map ids l).
Proof. induction l as [|x r0 IH]; simpl; [reflexivity|rewrite map_app, ids_rename, IH; reflexivity]. Qed.

Lemma shape_rename r : forall v, shape (rename r v) = shape v.
Proof.
  apply (cval_ind2 (fun v => shape (rename r v) = shape v)
                   (fun l => map shape (map (rename r) l) = map shape l)).
  - reflexivity.
  - intros i l Hl. simpl rename. rewrite !shape_list_fm, Hl. reflexivity.
  - intros i d Hd. rewrite rename_dict_fm, !shape_dict_fm. f_equal.
    assert (L : length (map fst d) = length (map (rename r) (map snd d))) by (rewrite !map_length; reflexivity).
    rewrite <- Hd. revert L. generalize (map (rename r) (map snd d)) as ys. generalize (map fst d) as xs.
    induction xs as [|a xs IH]; intros [|y ys] L; simpl in *; try discriminate; [reflexivity|].
    rewrite IH by lia. reflexivity.
  - reflexivity.
  - intros x r0 Hx Hr. simpl. rewrite Hx, Hr. reflexivity.
Qed.

Lemma occs_rename r : forall v, occs (rename r v) = map (rename r) (occs v).
Proof.
  apply (cval_ind2 (fun v => occs (rename r v) = map (rename r) (occs v))
                   (fun l => flat_map occs (map (rename r) l) = map (rename r) (flat_map occs l))).
  - reflexivity.
  - intros i l Hl. simpl. rewrite Hl. reflexivity.
  - intros i d Hd. change (rename r (CDict i d)) with (CDict (r i) (map (fun kv => (fst kv, rename r (snd kv))) d)).
    rewrite !occs_dict_fm. simpl map. f_equal. rewrite <- Hd. f_equal. rewrite !map_map. reflexivity.
  - reflexivity.
  - intros x r0 Hx Hr. simpl. rewrite map_app, Hx, Hr. reflexivity.
Qed.

Lemma cid_rename r o : is_container o -> cid (rename r o) = r (cid o).
Proof. destruct o; simpl; [intros []|reflexivity|reflexivity]. Qed.

Lemma rename_inv r g : forall v, (forall k, In k (ids v) -> g (r k) = k) -> rename g (rename r v) = v.
Proof.
  apply (cval_ind2 (fun v => (forall k, In k (ids v) -> g (r k) = k) -> rename g (rename r v) = v)
                   (fun l => (forall k, In k (flat_map ids l) -> g (r k) = k) -> map (rename g) (map (rename r) l) = l)).
  - reflexivity.
  - intros i l Hl H. rewrite ids_list_fm in H. simpl. rewrite (H i) by (left; reflexivity).
    rewrite Hl by (intros k Hk; apply H; right; exact Hk). reflexivity.
  - intros i d Hd H. rewrite ids_dict_fm in H. simpl. rewrite (H i) by (left; reflexivity). f_equal.
    rewrite map_map. simpl. rewrite <- (combine_fst_snd d) at 2.
    rewrite <- Hd by (intros k Hk; apply H; right; exact Hk).
    rewrite <- (combine_map_snd (fun x => rename g (rename r x)) d). rewrite !map_map. reflexivity.
  - reflexivity.
  - intros x r0 Hx Hr H. simpl in *. rewrite Hx, Hr; [reflexivity| |]; intros k Hk; apply H; apply in_or_app; auto.
Qed.

(* a mutation of cell i of the original and the corresponding mutation of cell r i of the renamed value *)
Lemma mutate_rename r i f f' : forall v,
  (forall j, In j (ids v) -> r j = r i -> j = i) ->
  (forall o, In o (occs v) -> cid o = i -> f' (rename r o) = rename r (f o)) ->
  mutate (r i) f' (rename r v) = rename r (mutate i f v).
Proof.
  apply (cval_ind2
    (fun v => (forall j, In j (ids v) -> r j = r i -> j = i) ->
              (forall o, In o (occs v) -> cid o = i -> f' (rename r o) = rename r (f o)) ->
              mutate (r i) f' (rename r v) = rename r (mutate i f v))
    (fun l => (forall j, In j (flat_map ids l) -> r j = r i -> j = i) ->
              (forall o, In o (flat_map occs l) -> cid o = i -> f' (rename r o) = rename r (f o)) ->
              map (mutate (r i) f') (map (rename r) l) = map (rename r) (map (mutate i f) l))).
  - reflexivity.
  - intros j l Hl Hinj Hf. rewrite ids_list_fm in Hinj.
    change (rename r (CList j l)) with (CList (r j) (map (rename r) l)).
    rewrite !mutate_list_fm. destruct (Nat.eqb i j) eqn:E.
    + apply Nat.eqb_eq in E. subst j. rewrite Nat.eqb_refl.
      apply (Hf (CList i l)); [left; reflexivity|reflexivity].
    + assert (E2 : Nat.eqb (r i) (r j) = false).
      { apply Nat.eqb_neq. intros X. apply Nat.eqb_neq in E. apply E. symmetry. apply Hinj; [left; reflexivity|symmetry; exact X]. }
      rewrite E2. simpl rename. f_equal. apply Hl.
      * intros k Hk. apply Hinj. right. exact Hk.
      * intros o Ho. apply Hf. right. exact Ho.
  - intros j d Hd Hinj Hf. rewrite ids_dict_fm in Hinj.
    rewrite rename_dict_fm, !mutate_dict_fm. destruct (Nat.eqb i j) eqn:E.
    + apply Nat.eqb_eq in E. subst j. rewrite Nat.eqb_refl. rewrite <- rename_dict_fm.
      apply (Hf (CDict i d)); [left; reflexivity|reflexivity].
    + assert (E2 : Nat.eqb (r i) (r j) = false).
      { apply Nat.eqb_neq. intros X. apply Nat.eqb_neq in E. apply E. symmetry. apply Hinj; [left; reflexivity|symmetry; exact X]. }
      rewrite E2. rewrite rename_dict_fm.
      assert (L1 : length (map fst d) = length (map (rename r) (map snd d))) by (rewrite !map_length; reflexivity).
      assert (L2 : length (map fst d) = length (map (mutate i f) (map snd d))) by (rewrite !map_length; reflexivity).
      assert (A : forall (xs : list string) (ys : list cval), length xs = length ys ->
                    map fst (combine xs ys) = xs /\ map snd (combine xs ys) = ys).
      { clear. induction xs as [|a xs IH]; intros [|y ys] L; simpl in *; try discriminate; [split; reflexivity|].
        destruct (IH ys) as [A1 A2]; [lia|]. rewrite A1, A2. split; reflexivity. }
      destruct (A _ _ L1) as [A1 A2]. destruct (A _ _ L2) as [B1 B2]. rewrite A1, A2, B1, B2.
      f_equal. f_equal. apply Hd.
      * intros k Hk. apply Hinj. right. exact Hk.
      * intros o Ho. apply Hf. rewrite occs_dict_fm. right. exact Ho.
  - reflexivity.
  - intros x r0 Hx Hr Hinj Hf. simpl. rewrite Hx, Hr; [reflexivity| | | |].
    + intros k Hk. apply Hinj. simpl. apply in_or_app. right. exact Hk.
    + intros o Ho. apply Hf. simpl. apply in_or_app. right. exact Ho.
    + intros k Hk. apply Hinj. simpl. apply in_or_app. left. exact Hk.
    + intros o Ho. apply Hf. simpl. apply in_or_app. left. exact Ho.
Qed.

(* ------------------------------------------------------------------------------------------------------ *)
(* the memo                                                                                                *)
(* ------------------------------------------------------------------------------------------------------ *)
Definition indom (i : nat) (m : memo) : Prop := mlookup i m <> None.
Definition ext (m m' : memo) : Prop := forall i c, mlookup i m = Some c -> mlookup i m' = Some c.

Lemma ext_refl m : ext m m.
Proof. intros i c H. exact H. Qed.
Lemma ext_trans m1 m2 m3 : ext m1 m2 -> ext m2 m3 -> ext m1 m3.
Proof. intros A B i c H. apply B. apply A. exact H. Qed.
Lemma ext_indom m m' i : ext m m' -> indom i m -> indom i m'.
Proof.
  unfold indom. intros E H. destruct (mlookup i m) as [c|] eqn:L; [|congruence].
  rewrite (E _ _ L). discriminate.
Qed.
Lemma ext_mid m m' i : ext m m' -> indom i m -> mid m' i = mid m i.
Proof.
  unfold indom, mid. intros E H. destruct (mlookup i m) as [c|] eqn:L; [|congruence].
  rewrite (E _ _ L). reflexivity.
Qed.

(* U: the occurrences of the whole state being copied.  Every memo entry is the finished copy of a cell of U
   all of whose cells are in the memo; copies have identities in n0 .. n-1, different cells different copies. *)
Definition memo_ok (U : list cval) (n0 n : nat) (m : memo) : Prop :=
  (forall i c, mlookup i m = Some c ->
     exists o, In o U /\ cid o = i /\ (forall k, In k (ids o) -> indom k m) /\ c = rename (mid m) o)
  /\ (forall i c, mlookup i m = Some c -> n0 <= cid c < n)
  /\ (forall i j, indom i m -> indom j m -> mid m i = mid m j -> i = j).

Lemma memo_ok_mono U n0 n n2 m : n <= n2 -> memo_ok U n0 n m -> memo_ok U n0 n2 m.
Proof.
  intros Hn [A [B C]]. split; [exact A|]. split; [|exact C].
  intros i c H. specialize (B _ _ H). lia.
Qed.
Lemma memo_ok_nil U n : memo_ok U n n [].
Proof.
  split; [|split].
  - intros i c H. discriminate.
  - intros i c H. discriminate.
  - intros i j H. exfalso. apply H. reflexivity.
Qed.
Lemma memo_ok_range U n0 n m i : memo_ok U n0 n m -> indom i m -> n0 <= mid m i < n.
Proof.
  intros [_ [B _]] H. unfold indom in H. unfold mid. destruct (mlookup i m) as [c|] eqn:L; [|congruence].
  apply (B _ _ L).
Qed.

(* what one copying step establishes (idsv: the identities of the value(s) copied by the step) *)
Definition step_ok (U : list cval) (n0 n : nat) (m : memo) (idsv : list nat) (n' : nat) (m' : memo) : Prop :=
  n <= n' /\ ext m m' /\ memo_ok U n0 n' m'
  /\ (forall k, In k idsv -> indom k m')
  /\ (forall k, indom k m' -> indom k m \/ (In k idsv /\ n <= mid m' k)).

(* a cell met for the first time: its children are copied with counter S n, then it is registered *)
Lemma miss_step U n0 n m i v idsl n1 m1 c :
  memo_ok U n0 n m -> n0 <= n ->
  mlookup i m = None -> In v U -> cid v = i -> ids v = i :: idsl -> ~ In i idsl ->
  step_ok U n0 (S n) m idsl n1 m1 ->
  (forall r, r i = n -> (forall k, In k idsl -> r k = mid m1 k) -> rename r v = c) ->
  cid c = n ->
  step_ok U n0 n m (ids v) n1 ((i, c) :: m1) /\ c = rename (mid ((i, c) :: m1)) v.
Proof.
  intros Hok Hn0 Hmiss HvU Hcid Hids Hacyc [S1 [S2 [S3 [S4 S5]]]] Hc Hcc.
  set (m' := (i, c) :: m1).
  assert (F1 : mlookup i m' = Some c) by (unfold m'; simpl; rewrite Nat.eqb_refl; reflexivity).
  assert (F2 : forall k, k <> i -> mlookup k m' = mlookup k m1).
  { intros k Hk. unfold m'. simpl. apply Nat.eqb_neq in Hk. rewrite Hk. reflexivity. }
  assert (F3 : ~ indom i m1).
  { intros X. destruct (S5 _ X) as [Y|[Y _]]; [apply Y; exact Hmiss|apply Hacyc; exact Y]. }
  assert (F4 : ext m1 m').
  { intros k c0 Hk. rewrite F2; [exact Hk|]. intros E. subst k. apply F3. unfold indom. rewrite Hk. discriminate. }
  assert (F5 : mid m' i = n) by (unfold mid; rewrite F1; exact Hcc).
  assert (F6 : forall k, k <> i -> mid m' k = mid m1 k) by (intros k Hk; unfold mid; rewrite (F2 _ Hk); reflexivity).
  assert (F7 : forall k, indom k m' -> k = i \/ (k <> i /\ indom k m1)).
  { intros k Hk. destruct (Nat.eq_dec k i) as [E|E]; [left; exact E|right; split; [exact E|]].
    unfold indom in *. rewrite <- (F2 _ E). exact Hk. }
  assert (F8 : forall k, In k idsl -> k <> i) by (intros k Hk E; subst k; apply Hacyc; exact Hk).
  assert (Hcr : c = rename (mid m') v).
  { symmetry. apply Hc; [exact F5|]. intros k Hk. apply F6. apply F8. exact Hk. }
  assert (Hclosed : forall k, In k (ids v) -> indom k m').
  { intros k Hk. rewrite Hids in Hk. destruct Hk as [E|Hk]; [subst k; unfold indom; rewrite F1; discriminate|].
    apply (ext_indom m1); [exact F4|apply S4; exact Hk]. }
  assert (Hold : forall k, indom k m -> mid m1 k < n).
  { intros k Hk. rewrite (ext_mid m m1 k S2 Hk). apply (memo_ok_range U n0 n m k Hok Hk). }
  split; [|exact Hcr].
  split; [lia|]. split.
  { intros k c0 Hk. apply F4. apply S2. exact Hk. }
  split.
  { destruct S3 as [A [B C]]. split; [|split].
    - intros k c0 Hk. destruct (Nat.eq_dec k i) as [E|E].
      + subst k. rewrite F1 in Hk. injection Hk as Hk. subst c0.
        exists v. split; [exact HvU|]. split; [exact Hcid|]. split; [exact Hclosed|exact Hcr].
      + rewrite (F2 _ E) in Hk. destruct (A _ _ Hk) as [o [O1 [O2 [O3 O4]]]].
        exists o. split; [exact O1|]. split; [exact O2|]. split.
        * intros k2 Hk2. apply (ext_indom m1); [exact F4|apply O3; exact Hk2].
        * rewrite O4. apply rename_ext. intros k2 Hk2. symmetry. apply F6.
          intros E2. subst k2. apply F3. apply O3. exact Hk2.
    - intros k c0 Hk. destruct (Nat.eq_dec k i) as [E|E].
      + subst k. rewrite F1 in Hk. injection Hk as Hk. subst c0. rewrite Hcc. lia.
      + rewrite (F2 _ E) in Hk. apply (B _ _ Hk).
    - intros k1 k2 H1 H2 E.
      assert (Hne : forall k, k <> i -> indom k m1 -> mid m1 k <> n).
      { intros k Hk Hd. destruct (S5 _ Hd) as [Y|[_ Y]]; [specialize (Hold _ Y); lia|lia]. }
      destruct (F7 _ H1) as [E1|[E1 D1]]; destruct (F7 _ H2) as [E2|[E2 D2]].
      + congruence.
      + subst k1. rewrite F5, (F6 _ E2) in E. exfalso. apply (Hne _ E2 D2). symmetry. exact E.
      + subst k2. rewrite F5, (F6 _ E1) in E. exfalso. apply (Hne _ E1 D1). exact E.
      + rewrite (F6 _ E1), (F6 _ E2) in E. apply C; assumption. }
  split; [exact Hclosed|].
  intros k Hk. destruct (F7 _ Hk) as [E|[E D]].
  - right. subst k. split; [rewrite Hids; left; reflexivity|rewrite F5; lia].
  - destruct (S5 _ D) as [Y|[Y1 Y2]]; [left; exact Y|right]. split; [rewrite Hids; right; exact Y1|].
    rewrite (F6 _ E). lia.
Qed.

(* a cell met again: the copy already made is returned *)
Lemma hit_step U n0 n m i v c :
  consU U -> memo_ok U n0 n m -> mlookup i m = Some c -> In v U -> cid v = i ->
  step_ok U n0 n m (ids v) n m /\ c = rename (mid m) v.
Proof.
  intros HU Hok Hhit HvU Hcid. destruct Hok as [A [B C]].
  destruct (A _ _ Hhit) as [o [O1 [O2 [O3 O4]]]].
  assert (E : o = v) by (apply HU; [exact O1|exact HvU|congruence]). subst o.
  split; [|exact O4].
  split; [lia|]. split; [apply ext_refl|]. split; [split; [exact A|split; [exact B|exact C]]|].
  split; [exact O3|]. intros k Hk. left. exact Hk.
Qed.

Definition copy_spec (v : cval) : Prop :=
  forall U n0 n m n' m' v',
    consU U -> incl (occs v) U -> memo_ok U n0 n m -> n0 <= n ->
    deepcopy_memo n m v = (n', m', v') ->
    step_ok U n0 n m (ids v) n' m' /\ v' = rename (mid m') v.
Definition copy_list_spec (l : list cval) : Prop :=
  forall U n0 n m n' m' l',
    consU U -> incl (flat_map occs l) U -> memo_ok U n0 n m -> n0 <= n ->
    dcl n m l = (n', m', l') ->
    step_ok U n0 n m (flat_map ids l) n' m' /\ l' = map (rename (mid m')) l.

Lemma copy_list_nil : copy_list_spec [].
Proof.
    intros U n0 n m n' m' l' HU Hinc Hok Hn0 H. simpl in H. injection H as E1 E2 E3. subst n' m' l'.
    split; [|reflexivity].
    split; [lia|]. split; [apply ext_refl|]. split; [exact Hok|]. split; [intros k []|]. intros k Hk. left. exact Hk.
Qed.

Lemma copy_list_cons x r : copy_spec x -> copy_list_spec r -> copy_list_spec (x :: r).
Proof.
    intros Hx Hr U n0 n m n' m' l' HU Hinc Hok Hn0 H. simpl in H.
    destruct (deepcopy_memo n m x) as [[n1 m1] x'] eqn:Dx.
    destruct (dcl n1 m1 r) as [[n2 m2] r'] eqn:Dr. injection H as E1 E2 E3. subst n' m' l'.
    assert (HxU : incl (occs x) U) by (intros o Ho; apply Hinc; simpl; apply in_or_app; left; exact Ho).
    assert (HrU : incl (flat_map occs r) U) by (intros o Ho; apply Hinc; simpl; apply in_or_app; right; exact Ho).
    destruct (Hx U n0 n m n1 m1 x' HU HxU Hok Hn0 Dx) as [[X1 [X2 [X3 [X4 X5]]]] Ex].
    destruct (Hr U n0 n1 m1 n2 m2 r' HU HrU X3) as [[R1 [R2 [R3 [R4 R5]]]] Er]; [lia|exact Dr|].
    split.
    + split; [lia|]. split; [apply (ext_trans m m1 m2); assumption|]. split; [exact R3|]. split.
      * intros k Hk. simpl in Hk. apply in_app_or in Hk. destruct Hk as [Hk|Hk].
        -- apply (ext_indom m1); [exact R2|apply X4; exact Hk].
        -- apply R4. exact Hk.
      * intros k Hk. destruct (R5 _ Hk) as [Y|[Y1 Y2]].
        -- destruct (X5 _ Y) as [Z|[Z1 Z2]]; [left; exact Z|right]. split; [simpl; apply in_or_app; left; exact Z1|].
           rewrite (ext_mid m1 m2 k R2 Y). exact Z2.
        -- right. split; [simpl; apply in_or_app; right; exact Y1|lia].
    + simpl. rewrite Ex, Er. f_equal. apply rename_ext. intros k Hk. symmetry. apply ext_mid; [exact R2|apply X4; exact Hk].
Qed.

Lemma deepcopy_memo_spec : forall v, copy_spec v.
Proof.
  apply (cval_ind2 copy_spec copy_list_spec).
  - (* atom *)
    intros a U n0 n m n' m' v' HU Hinc Hok Hn0 H. simpl in H. injection H as E1 E2 E3. subst n' m' v'.
    split; [|reflexivity].
    split; [lia|]. split; [apply ext_refl|]. split; [exact Hok|]. split; [intros k []|]. intros k Hk. left. exact Hk.
  - (* list *)
    intros i l Hl U n0 n m n' m' v' HU Hinc Hok Hn0 H. rewrite deepcopy_list in H.
    assert (HvU : In (CList i l) U) by (apply Hinc; left; reflexivity).
    assert (HlU : incl (flat_map occs l) U) by (intros o Ho; apply Hinc; right; exact Ho).
    destruct (mlookup i m) as [c|] eqn:L.
    + injection H as E1 E2 E3. subst n' m' v'. apply (hit_step U n0 n m i (CList i l) c); auto.
    + destruct (dcl (S n) m l) as [[n1 m1] l1] eqn:D. injection H as E1 E2 E3. subst n' m' v'.
      destruct (Hl U n0 (S n) m n1 m1 l1 HU HlU) as [St El]; [apply (memo_ok_mono U n0 n); [lia|exact Hok]|lia|exact D|].
      apply (miss_step U n0 n m i (CList i l) (flat_map ids l) n1 m1 (CList n l1)); auto.
      * apply (acyclic_list U); assumption.
      * intros r Hr Hk. simpl. rewrite Hr, El. f_equal. apply rename_ext_list. exact Hk.
  - (* dict *)
    intros i d Hd U n0 n m n' m' v' HU Hinc Hok Hn0 H. rewrite deepcopy_dict in H.
    assert (HvU : In (CDict i d) U) by (apply Hinc; left; reflexivity).
    assert (HlU : incl (flat_map occs (map snd d)) U).
    { intros o Ho. apply Hinc. rewrite occs_dict_fm. right. exact Ho. }
    destruct (mlookup i m) as [c|] eqn:L.
    + injection H as E1 E2 E3. subst n' m' v'. apply (hit_step U n0 n m i (CDict i d) c); auto.
    + rewrite deepcopy_vars_dcl in H.
      destruct (dcl (S n) m (map snd d)) as [[n1 m1] l1] eqn:D. injection H as E1 E2 E3. subst n' m' v'.
      destruct (Hd U n0 (S n) m n1 m1 l1 HU HlU) as [St El]; [apply (memo_ok_mono U n0 n); [lia|exact Hok]|lia|exact D|].
      apply (miss_step U n0 n m i (CDict i d) (flat_map ids (map snd d)) n1 m1 (CDict n (combine (map fst d) l1))); auto.
      * apply ids_dict_fm.
      * apply (acyclic_dict U); assumption.
      * intros r Hr Hk. rewrite rename_dict_fm, Hr, El. f_equal. f_equal. apply rename_ext_list. exact Hk.
  - exact copy_list_nil.
  - exact copy_list_cons.
Qed.

Lemma dcl_spec : forall l, copy_list_spec l.
Proof.
  induction l as [|x r IH]; [exact copy_list_nil|apply copy_list_cons; [apply deepcopy_memo_spec|exact IH]].
Qed.

(* ------------------------------------------------------------------------------------------------------ *)
(* whole states                                                                                            *)
(* ------------------------------------------------------------------------------------------------------ *)
Lemma ids_state_rename r s : ids_state (rename_state r s) = map r (ids_state s).
Proof.
  unfold ids_state, rename_state. induction s as [|[k x] t IH]; simpl; [reflexivity|].
  rewrite map_app, ids_rename, IH. reflexivity.
Qed.
Lemma occs_state_rename r s : occs_state (rename_state r s) = map (rename r) (occs_state s).
Proof.
  unfold occs_state, rename_state. induction s as [|[k x] t IH]; simpl; [reflexivity|].
  rewrite map_app, occs_rename, IH. reflexivity.
Qed.
Lemma shape_state_rename r s : shape_state (rename_state r s) = shape_state s.
Proof.
  unfold shape_state, rename_state. induction s as [|[k x] t IH]; simpl; [reflexivity|].
  rewrite shape_rename, IH. reflexivity.
Qed.
Lemma mutate_state_absent i f s : ~ In i (ids_state s) -> mutate_state i f s = s.
Proof.
  unfold mutate_state, ids_state. induction s as [|[k x] t IH]; simpl; intros H; [reflexivity|].
  rewrite mutate_absent by (intros X; apply H; apply in_or_app; left; exact X).
  rewrite IH by (intros X; apply H; apply in_or_app; right; exact X). reflexivity.
Qed.
Lemma mutate_state_rename r i f f' s :
  (forall j, In j (ids_state s) -> r j = r i -> j = i) ->
  (forall o, In o (occs_state s) -> cid o = i -> f' (rename r o) = rename r (f o)) ->
  mutate_state (r i) f' (rename_state r s) = rename_state r (mutate_state i f s).
Proof.
  unfold mutate_state, rename_state, ids_state, occs_state.
  induction s as [|[k x] t IH]; simpl; intros Hinj Hf; [reflexivity|].
  rewrite (mutate_rename r i f f' x), IH; [reflexivity| | | |].
  - intros j Hj. apply Hinj. apply in_or_app. right. exact Hj.
  - intros o Ho. apply Hf. apply in_or_app. right. exact Ho.
  - intros j Hj. apply Hinj. apply in_or_app. left. exact Hj.
  - intros o Ho. apply Hf. apply in_or_app. left. exact Ho.
Qed.

(* the identities inside an occurrence are identities of the value *)
Lemma occs_ids_incl : forall v o, In o (occs v) -> incl (ids o) (ids v).
Proof.
  apply (cval_ind2 (fun v => forall o, In o (occs v) -> incl (ids o) (ids v))
                   (fun l => forall o, In o (flat_map occs l) -> incl (ids o) (flat_map ids l))).
  - intros a o [].
  - intros i l Hl o [E|Hin]; [subst; apply incl_refl|]. rewrite ids_list_fm. apply incl_tl. apply Hl. exact Hin.
  - intros i d Hd o Hin. rewrite occs_dict_fm in Hin. destruct Hin as [E|Hin]; [subst; apply incl_refl|].
    rewrite ids_dict_fm. apply incl_tl. apply Hd. exact Hin.
  - intros o [].
  - intros x r Hx Hr o Hin. simpl in Hin. apply in_app_or in Hin. simpl. destruct Hin as [Hin|Hin].
    + apply incl_appl. apply Hx. exact Hin.
    + apply incl_appr. apply Hr. exact Hin.
Qed.
Lemma occs_state_ids_incl s o : In o (occs_state s) -> incl (ids o) (ids_state s).
Proof.
  unfold occs_state, ids_state. intros Hin. apply in_flat_map in Hin. destruct Hin as [kv [Hkv Ho]].
  intros k Hk. apply in_flat_map. exists kv. split; [exact Hkv|]. apply (occs_ids_incl _ _ Ho). exact Hk.
Qed.

Lemma inv_on_left r dom : (forall j k, In j dom -> In k dom -> r j = r k -> j = k) ->
  forall k, In k dom -> inv_on r dom (r k) = k.
Proof.
  induction dom as [|k0 rest IH]; intros Hinj k Hk; [destruct Hk|]. simpl.
  destruct (Nat.eqb (r k0) (r k)) eqn:E.
  - apply Nat.eqb_eq in E. apply Hinj; [left; reflexivity|exact Hk|exact E].
  - destruct Hk as [Hk|Hk]; [subst k0; rewrite Nat.eqb_refl in E; discriminate|].
    apply IH; [|exact Hk]. intros j k1 Hj Hk1. apply Hinj; right; assumption.
Qed.

(* THE SPECIFICATION of the snapshot copy: it is the original with every cell renamed, by an injective renaming,
   into the range of new identities n .. n'-1 *)
Theorem deepcopy_state_spec s n n' m' s' :
  consistent s -> deepcopy_state n s = (n', m', s') ->
  n <= n'
  /\ s' = rename_state (mid m') s
  /\ (forall k, In k (ids_state s) -> n <= mid m' k < n')
  /\ (forall j k, In j (ids_state s) -> In k (ids_state s) -> mid m' j = mid m' k -> j = k).
Proof.
  intros Hc H. unfold deepcopy_state in H. rewrite deepcopy_vars_dcl in H.
  destruct (dcl n [] (map snd s)) as [[n1 m1] l1] eqn:D. injection H as E1 E2 E3. subst n' m' s'.
  destruct (dcl_spec (map snd s) (occs_state s) n n [] n1 m1 l1) as [[S1 [S2 [S3 [S4 S5]]]] El].
  - exact Hc.
  - rewrite occs_state_fm. apply incl_refl.
  - apply memo_ok_nil.
  - lia.
  - exact D.
  - rewrite <- ids_state_fm in S4. split; [exact S1|]. split; [rewrite rename_state_fm, El; reflexivity|]. split.
    + intros k Hk. apply (memo_ok_range _ _ _ _ _ S3). apply S4. exact Hk.
    + intros j k Hj Hk E. destruct S3 as [_ [_ C]]. apply C; [apply S4; exact Hj|apply S4; exact Hk|exact E].
Qed.

(* (3) sharing is preserved exactly *)
Lemma snapshot_is_renaming s n :
  consistent s ->
  exists r, (forall j k, In j (ids_state s) -> In k (ids_state s) -> r j = r k -> j = k)
            /\ (forall k, In k (ids_state s) -> n <= r k < fst (fst (deepcopy_state n s)))
            /\ snapshot n s = rename_state r s.
Proof.
  intros Hc. unfold snapshot. destruct (deepcopy_state n s) as [[n' m'] s'] eqn:D.
  destruct (deepcopy_state_spec s n n' m' s' Hc D) as [A [B [C E]]].
  exists (mid m'). split; [exact E|]. split; [exact C|exact B].
Qed.

(* (1) only new cells *)
Lemma snapshot_fresh s n :
  consistent s ->
  n <= fst (fst (deepcopy_state n s))
  /\ in_range n (fst (fst (deepcopy_state n s))) (ids_state (snapshot n s)).
Proof.
  intros Hc. unfold snapshot. destruct (deepcopy_state n s) as [[n' m'] s'] eqn:D.
  destruct (deepcopy_state_spec s n n' m' s' Hc D) as [A [B [C E]]]. cbn [fst snd]. split; [exact A|].
  rewrite B, ids_state_rename. unfold in_range. apply Forall_forall. intros j Hj.
  apply in_map_iff in Hj. destruct Hj as [k [Ek Hk]]. subst j. apply C. exact Hk.
Qed.

Lemma later_play_keeps_snapshot_l s n i f :
  consistent s -> i < n -> mutate_state i f (snapshot n s) = snapshot n s.
Proof.
  intros Hc Hi. apply mutate_state_absent. intros Hin. destruct (snapshot_fresh s n Hc) as [_ R].
  unfold in_range in R. rewrite Forall_forall in R. specialize (R _ Hin). lia.
Qed.
Lemma editing_snapshot_keeps_game_l s n j f :
  consistent s -> Forall (fun i => i < n) (ids_state s) -> In j (ids_state (snapshot n s)) -> mutate_state j f s = s.
Proof.
  intros Hc Hs Hj. apply mutate_state_absent. intros Hin. rewrite Forall_forall in Hs. specialize (Hs _ Hin).
  destruct (snapshot_fresh s n Hc) as [_ R]. unfold in_range in R. rewrite Forall_forall in R. specialize (R _ Hj). lia.
Qed.

(* (2) same value *)
Lemma snapshot_shape s n : consistent s -> shape_state (snapshot n s) = shape_state s.
Proof.
  intros Hc. destruct (snapshot_is_renaming s n Hc) as [r [_ [_ E]]]. rewrite E. apply shape_state_rename.
Qed.

(* sharing: positions *)
Lemma positions_map r i l : (forall j, In j l -> r j = r i -> j = i) ->
  forall p, positions (r i) p (map r l) = positions i p l.
Proof.
  induction l as [|j t IH]; intros Hinj p; simpl; [reflexivity|].
  assert (E : Nat.eqb (r i) (r j) = Nat.eqb i j).
  { destruct (Nat.eqb i j) eqn:E1.
    - apply Nat.eqb_eq in E1. subst j. apply Nat.eqb_refl.
    - apply Nat.eqb_neq. intros X. apply Nat.eqb_neq in E1. apply E1. symmetry. apply Hinj; [left; reflexivity|symmetry; exact X]. }
  rewrite E, IH by (intros j2 Hj2; apply Hinj; right; exact Hj2). reflexivity.
Qed.
Lemma pattern_map r l : (forall j k, In j l -> In k l -> r j = r k -> j = k) -> pattern (map r l) = pattern l.
Proof.
  intros Hinj. unfold pattern. rewrite map_map. apply map_ext_in. intros i Hi. apply positions_map.
  intros j Hj E. apply Hinj; assumption.
Qed.
Lemma snapshot_sharing_pattern s n : consistent s -> sharing_pattern (snapshot n s) = sharing_pattern s.
Proof.
  intros Hc. destruct (snapshot_is_renaming s n Hc) as [r [Hinj [_ E]]]. unfold sharing_pattern.
  rewrite E, ids_state_rename. apply pattern_map. exact Hinj.
Qed.

(* two occurrences (by position) are the same cell in the copy iff they were the same cell in the original *)
Lemma snapshot_sharing_iff s n :
  consistent s ->
  length (ids_state (snapshot n s)) = length (ids_state s)
  /\ forall p q, p < length (ids_state s) -> q < length (ids_state s) ->
       (nth_error (ids_state (snapshot n s)) p = nth_error (ids_state (snapshot n s)) q
        <-> nth_error (ids_state s) p = nth_error (ids_state s) q).
Proof.
  intros Hc. destruct (snapshot_is_renaming s n Hc) as [r [Hinj [_ E]]]. rewrite E, ids_state_rename.
  split; [apply map_length|]. intros p q Hp Hq. rewrite !nth_error_map.
  destruct (nth_error (ids_state s) p) as [a|] eqn:Ea; [|apply nth_error_None in Ea; lia].
  destruct (nth_error (ids_state s) q) as [b|] eqn:Eb; [|apply nth_error_None in Eb; lia].
  simpl. split; intros H.
  - injection H as H. f_equal. apply Hinj; [eapply nth_error_In; exact Ea|eapply nth_error_In; exact Eb|exact H].
  - injection H as H. subst. reflexivity.
Qed.

(* replaying an in-place mutation on the restored copy: cell r i of the copy, with the mutation transported
   along the renaming, gives the renamed result of mutating cell i of the original *)
Lemma replay_on_snapshot s n :
  consistent s ->
  exists r g,
    snapshot n s = rename_state r s
    /\ (forall k, In k (ids_state s) -> g (r k) = k)
    /\ forall i f, In i (ids_state s) ->
         mutate_state (r i) (conj r g f) (snapshot n s) = rename_state r (mutate_state i f s).
Proof.
  intros Hc. destruct (snapshot_is_renaming s n Hc) as [r [Hinj [_ E]]].
  exists r, (inv_on r (ids_state s)).
  assert (G : forall k, In k (ids_state s) -> inv_on r (ids_state s) (r k) = k) by (apply inv_on_left; exact Hinj).
  split; [exact E|]. split; [exact G|]. intros i f Hi. rewrite E. apply mutate_state_rename.
  - intros j Hj Ej. apply Hinj; assumption.
  - intros o Ho _. unfold conj. rewrite rename_inv; [reflexivity|].
    intros k Hk. apply G. apply (occs_state_ids_incl s o Ho). exact Hk.
Qed.

(* for a mutation that does not look at identities (append an atom, pop, store an atom under a key ...): the very
   same mutation, applied to the corresponding cell of the copy, produces the same value *)
Lemma replay_natural s n :
  consistent s ->
  exists r, snapshot n s = rename_state r s /\
    forall i f, In i (ids_state s) -> (forall c, f (rename r c) = rename r (f c)) ->
      mutate_state (r i) f (snapshot n s) = rename_state r (mutate_state i f s)
      /\ shape_state (mutate_state (r i) f (snapshot n s)) = shape_state (mutate_state i f s).
Proof.
  intros Hc. destruct (snapshot_is_renaming s n Hc) as [r [Hinj [_ E]]]. exists r. split; [exact E|].
  intros i f Hi Hf.
  assert (M : mutate_state (r i) f (snapshot n s) = rename_state r (mutate_state i f s)).
  { rewrite E. apply mutate_state_rename.
    - intros j Hj Ej. apply Hinj; assumption.
    - intros o _ _. apply Hf. }
  split; [exact M|]. rewrite M. apply shape_state_rename.
Qed.

(* the copy is again a consistent state (so it can be snapshotted in turn after a restore) *)
Lemma rename_state_consistent r s :
  (forall j k, In j (ids_state s) -> In k (ids_state s) -> r j = r k -> j = k) ->
  consistent s -> consistent (rename_state r s).
Proof.
  intros Hinj Hc a b Ha Hb E. rewrite occs_state_rename in Ha, Hb.
  apply in_map_iff in Ha. destruct Ha as [a0 [Ea Ha]]. apply in_map_iff in Hb. destruct Hb as [b0 [Eb Hb]].
  subst a b. f_equal. apply Hc; [exact Ha|exact Hb|].
  assert (Ca : is_container a0).
  { unfold occs_state in Ha. apply in_flat_map in Ha. destruct Ha as [kv [_ Ha]]. apply (occs_container _ _ Ha). }
  assert (Cb : is_container b0).
  { unfold occs_state in Hb. apply in_flat_map in Hb. destruct Hb as [kv [_ Hb]]. apply (occs_container _ _ Hb). }
  rewrite !cid_rename in E by assumption.
  assert (Ia : In (cid a0) (ids_state s)).
  { apply (occs_state_ids_incl s a0 Ha). destruct a0; [destruct Ca| |]; [rewrite ids_list_fm|rewrite ids_dict_fm]; left; reflexivity. }
  assert (Ib : In (cid b0) (ids_state s)).
  { apply (occs_state_ids_incl s b0 Hb). destruct b0; [destruct Cb| |]; [rewrite ids_list_fm|rewrite ids_dict_fm]; left; reflexivity. }
  apply Hinj; assumption.
Qed.
Lemma snapshot_consistent s n : consistent s -> consistent (snapshot n s).
Proof.
  intros Hc. destruct (snapshot_is_renaming s n Hc) as [r [Hinj [_ E]]]. rewrite E.
  apply rename_state_consistent; assumption.
Qed.

(* ------------------------------------------------------------------------------------------------------ *)
(* the boolean checkers of DeepCopyCheck.v are sound                                                       *)
(* ------------------------------------------------------------------------------------------------------ *)
Fixpoint cvl_eqb (l l' : list cval) : bool :=
  match l, l' with
  | [], [] => true
  | x :: r, y :: r' => cval_eqb x y && cvl_eqb r r'
  | _, _ => false
  end.
Fixpoint cvd_eqb (d d' : list (string * cval)) : bool :=
  match d, d' with
  | [], [] => true
  | (k, x) :: r, (k', y) :: r' => String.eqb k k' && cval_eqb x y && cvd_eqb r r'
  | _, _ => false
  end.
Lemma cval_eqb_list i l j l' : cval_eqb (CList i l) (CList j l') = Nat.eqb i j && cvl_eqb l l'.
Proof. reflexivity. Qed.
Lemma cval_eqb_dict i d j d' : cval_eqb (CDict i d) (CDict j d') = Nat.eqb i j && cvd_eqb d d'.
Proof. reflexivity. Qed.

Lemma cval_eqb_sound : forall a b, cval_eqb a b = true -> a = b.
Proof.
  induction a using cval_ind'; intros b Hb.
  - destruct b; simpl in Hb; try discriminate. apply Z.eqb_eq in Hb. subst. reflexivity.
  - destruct b as [|j l'|]; try discriminate. rewrite cval_eqb_list in Hb. apply andb_prop in Hb. destruct Hb as [E1 E2].
    apply Nat.eqb_eq in E1. subst j. f_equal. revert l' E2.
    induction H as [|x r Hx Hr IH]; intros [|y r'] E2; simpl in E2; try discriminate; [reflexivity|].
    apply andb_prop in E2. destruct E2 as [A B]. rewrite (Hx _ A), (IH _ B). reflexivity.
  - destruct b as [| |j d']; try discriminate. rewrite cval_eqb_dict in Hb. apply andb_prop in Hb. destruct Hb as [E1 E2].
    apply Nat.eqb_eq in E1. subst j. f_equal. revert d' E2.
    induction H as [|[k x] r Hx Hr IH]; intros [|[k' y] r'] E2; simpl in E2; try discriminate; [reflexivity|].
    apply andb_prop in E2. destruct E2 as [A B]. apply andb_prop in A. destruct A as [A1 A2].
    apply String.eqb_eq in A1. subst k'. simpl in Hx. rewrite (Hx _ A2), (IH _ B). reflexivity.
Qed.

Lemma state_eqb_sound : forall s s', state_eqb s s' = true -> s = s'.
Proof.
  induction s as [|[k x] r IH]; intros [|[k' y] r'] E; simpl in E; try discriminate; [reflexivity|].
  apply andb_prop in E. destruct E as [A B]. apply andb_prop in A. destruct A as [A1 A2].
  apply String.eqb_eq in A1. apply cval_eqb_sound in A2. subst. rewrite (IH _ B). reflexivity.
Qed.

Lemma consistentb_sound s : consistentb s = true -> consistent s.
Proof.
  unfold consistentb, consU_b, consistent. intros H a b Ha Hb E.
  rewrite forallb_forall in H. specialize (H _ Ha). rewrite forallb_forall in H. specialize (H _ Hb).
  apply orb_prop in H. destruct H as [H|H].
  - apply negb_true_iff in H. apply Nat.eqb_neq in H. contradiction.
  - apply cval_eqb_sound. exact H.
Qed.

(* a case accepted by the correspondence checker is a consistent state whose real copy IS the model's snapshot,
   so every theorem above applies to the real copy *)
Lemma dcase_ok_meaning s k real :
  dcase_bad (s, k, real) = false ->
  consistent s /\ Forall (fun i => i < k) (ids_state s) /\ real = snapshot k s.
Proof.
  unfold dcase_bad. intros H. apply orb_false_elim in H. destruct H as [H H3].
  apply orb_false_elim in H. destruct H as [H1 H2].
  apply negb_false_iff in H1, H2, H3. split; [apply consistentb_sound; exact H1|]. split.
  - apply Forall_forall. intros i Hi. rewrite forallb_forall in H2. specialize (H2 _ Hi). apply Nat.ltb_lt in H2. exact H2.
  - symmetry. apply state_eqb_sound. exact H3.
Qed.

(* ------------------------------------------------------------------------------------------------------ *)
(* (4) contrast: copying every variable with its own memo splits objects shared between two variables        *)
(* ------------------------------------------------------------------------------------------------------ *)
(* inventory and backpack are ONE list; `seen` holds the same dict twice *)
Definition shared_state : state :=
  [("inventory"%string, CList 0 [CAtom 1]);
   ("backpack"%string, CList 0 [CAtom 1]);
   ("seen"%string, CList 1 [CDict 2 [("n"%string, CAtom 0)]; CDict 2 [("n"%string, CAtom 0)]])].
Definition append2 (v : cval) : cval := match v with CList i l => CList i (l ++ [CAtom 2]) | _ => v end.

Lemma shared_state_consistent : consistent shared_state.
Proof. apply consistentb_sound. vm_compute. reflexivity. Qed.

Lemma append2_natural r c : append2 (rename r c) = rename r (append2 c).
Proof. destruct c; simpl; [reflexivity| |reflexivity]. rewrite map_app. reflexivity. Qed.

(* the per-variable copy: new cells, same value, sharing inside `seen` kept - but inventory and backpack are now
   two lists, no renaming relates it to the original, and the replayed append reaches only one of them *)
Lemma per_variable_copy_splits_sharing :
  let c := snd (copy_per_variable 10 shared_state) in
  consistent shared_state
  /\ Forall (fun i => 10 <= i) (ids_state c)
  /\ shape_state c = shape_state shared_state
  /\ sharing_pattern shared_state = [[0; 1]; [0; 1]; [2]; [3; 4]; [3; 4]]
  /\ sharing_pattern c = [[0]; [1]; [2]; [3; 4]; [3; 4]]
  /\ (~ exists r, c = rename_state r shared_state)
  /\ shape_state (mutate_state 0 append2 shared_state)
      = [("inventory"%string, CList 0 [CAtom 1; CAtom 2]); ("backpack"%string, CList 0 [CAtom 1; CAtom 2]);
         ("seen"%string, CList 0 [CDict 0 [("n"%string, CAtom 0)]; CDict 0 [("n"%string, CAtom 0)]])]
  /\ (forall j, shape_state (mutate_state j append2 c) <> shape_state (mutate_state 0 append2 shared_state)).
Proof.
  cbv zeta. split; [exact shared_state_consistent|]. split; [vm_compute; repeat constructor|].
  split; [vm_compute; reflexivity|]. split; [vm_compute; reflexivity|]. split; [vm_compute; reflexivity|].
  split; [|split; [vm_compute; reflexivity|]].
  - intros [r E]. vm_compute in E. injection E as E1 E2 _. congruence.
  - intros j.
    destruct (Nat.eq_dec j 10) as [E|N10]; [subst j; vm_compute; discriminate|].
    destruct (Nat.eq_dec j 11) as [E|N11]; [subst j; vm_compute; discriminate|].
    destruct (Nat.eq_dec j 12) as [E|N12]; [subst j; vm_compute; discriminate|].
    destruct (Nat.eq_dec j 13) as [E|N13]; [subst j; vm_compute; discriminate|].
    rewrite mutate_state_absent; [vm_compute; discriminate|].
    vm_compute. intros [X|[X|[X|[X|[X|[]]]]]]; congruence.
Qed.

(* with the ONE memo the same state keeps its sharing and the replayed append reaches both variables *)
Lemma one_memo_copy_keeps_sharing :
  let c := snapshot 10 shared_state in
  c = [("inventory"%string, CList 10 [CAtom 1]); ("backpack"%string, CList 10 [CAtom 1]);
       ("seen"%string, CList 11 [CDict 12 [("n"%string, CAtom 0)]; CDict 12 [("n"%string, CAtom 0)]])]
  /\ sharing_pattern c = sharing_pattern shared_state
  /\ shape_state (mutate_state 10 append2 c) = shape_state (mutate_state 0 append2 shared_state)
  /\ mutate_state 0 append2 c = c
  /\ mutate_state 10 append2 shared_state = shared_state.
Proof. cbv zeta. vm_compute. repeat split. Qed.

(* Cells.fresh per variable (json-style copies) loses the sharing inside a variable as well *)
Lemma fresh_per_variable_splits_sharing :
  sharing_pattern (snd (fresh_per_variable 10 shared_state)) = [[0]; [1]; [2]; [3]; [4]]
  /\ sharing_pattern (snd (fresh_per_variable 10 shared_state)) <> sharing_pattern shared_state.
Proof. split; [vm_compute; reflexivity|vm_compute; discriminate]. Qed.

(* the same contrast in the form "there is a state on which per-variable copying is not a renaming" *)
Lemma per_variable_copy_refuted :
  exists s n, consistent s /\ Forall (fun i => i < n) (ids_state s)
    /\ (~ exists r, snd (copy_per_variable n s) = rename_state r s)
    /\ sharing_pattern (snd (copy_per_variable n s)) <> sharing_pattern s.
Proof.
  exists shared_state, 10. destruct per_variable_copy_splits_sharing as [A [_ [_ [P1 [P2 [R _]]]]]].
  split; [exact A|]. split; [vm_compute; repeat constructor|]. split; [exact R|].
  rewrite P1, P2. discriminate.
Qed.

(* any amount of later play on cells outside n .. n'-1 (the game's own cells, and whatever it allocates later
   above n') leaves the restore point as it was *)
Definition play (ops : list (nat * (cval -> cval))) (s : state) : state :=
  fold_left (fun st op => mutate_state (fst op) (snd op) st) ops s.
Lemma later_play_sequence s n ops :
  consistent s ->
  Forall (fun op => ~ (n <= fst op < fst (fst (deepcopy_state n s)))) ops ->
  play ops (snapshot n s) = snapshot n s.
Proof.
  intros Hc H. unfold play. induction H as [|[i f] r Hi Hr IH]; simpl; [reflexivity|].
  rewrite mutate_state_absent; [exact IH|]. intros Hin. destruct (snapshot_fresh s n Hc) as [_ R].
  unfold in_range in R. rewrite Forall_forall in R. specialize (R _ Hin). simpl in Hi. lia.
Qed.

(* ------------------------------------------------------------------------------------------------------ *)
(* without sharing the memo is never hit and the copy is Cells.fresh (the C16 model is the special case)      *)
(* ------------------------------------------------------------------------------------------------------ *)
Lemma frd_frl d : forall n, frd n d = let '(n1, l') := frl n (map snd d) in (n1, combine (map fst d) l').
Proof.
  induction d as [|[k x] r IH]; intros n; simpl; [reflexivity|].
  destruct (fresh n x) as [n1 x']. rewrite IH. destruct (frl n1 (map snd r)) as [n2 r']. reflexivity.
Qed.
Lemma NoDup_app_disjoint {A : Type} (a b : list A) x : NoDup (a ++ b) -> In x a -> In x b -> False.
Proof.
  induction a as [|y a IH]; simpl; intros H Ha Hb; [destruct Ha|]. inversion H as [|? ? Hy Hr]; subst.
  destruct Ha as [E|Ha]; [subst; apply Hy; apply in_or_app; right; exact Hb|apply IH; assumption].
Qed.

Lemma NoDup_app_parts {A : Type} (a b : list A) : NoDup (a ++ b) -> NoDup a /\ NoDup b.
Proof.
  induction a as [|y a IH]; simpl; intros H; [split; [constructor|exact H]|].
  inversion H as [|? ? Hy Hr]; subst. destruct (IH Hr) as [Ha Hb]. split; [|exact Hb].
  constructor; [intros X; apply Hy; apply in_or_app; left; exact X|exact Ha].
Qed.

Definition unshared_spec (v : cval) : Prop :=
  forall n m, (forall k, In k (ids v) -> mlookup k m = None) -> NoDup (ids v) ->
    exists m', deepcopy_memo n m v = (fst (fresh n v), m', snd (fresh n v))
               /\ (forall k, indom k m' -> indom k m \/ In k (ids v)).
Definition unshared_list_spec (l : list cval) : Prop :=
  forall n m, (forall k, In k (flat_map ids l) -> mlookup k m = None) -> NoDup (flat_map ids l) ->
    exists m', dcl n m l = (fst (frl n l), m', snd (frl n l))
               /\ (forall k, indom k m' -> indom k m \/ In k (flat_map ids l)).

Lemma indom_cons k i c m : indom k ((i, c) :: m) -> k = i \/ indom k m.
Proof.
  unfold indom. simpl. destruct (Nat.eqb k i) eqn:E; [apply Nat.eqb_eq in E; left; exact E|right; assumption].
Qed.

Lemma deepcopy_unshared : forall v, unshared_spec v.
Proof.
  apply (cval_ind2 unshared_spec unshared_list_spec).
  - intros a n m _ _. exists m. split; [reflexivity|]. intros k Hk. left. exact Hk.
  - intros i l Hl n m Hm Hnd. rewrite ids_list_fm in Hm, Hnd. rewrite deepcopy_list, fresh_list.
    rewrite (Hm i) by (left; reflexivity). inversion Hnd as [|? ? Hi Hr]; subst.
    destruct (Hl (S n) m) as [m1 [E D]]; [intros k Hk; apply Hm; right; exact Hk|exact Hr|].
    rewrite E. destruct (frl (S n) l) as [n1 l1]. cbn [fst snd].
    eexists. split; [reflexivity|]. intros k Hk. apply indom_cons in Hk. destruct Hk as [Hk|Hk].
    + right. subst k. rewrite ids_list_fm. left. reflexivity.
    + destruct (D _ Hk) as [Y|Y]; [left; exact Y|right; rewrite ids_list_fm; right; exact Y].
  - intros i d Hd n m Hm Hnd. rewrite ids_dict_fm in Hm, Hnd. rewrite deepcopy_dict, fresh_dict.
    rewrite (Hm i) by (left; reflexivity). inversion Hnd as [|? ? Hi Hr]; subst.
    destruct (Hd (S n) m) as [m1 [E D]]; [intros k Hk; apply Hm; right; exact Hk|exact Hr|].
    rewrite deepcopy_vars_dcl, frd_frl, E. destruct (frl (S n) (map snd d)) as [n1 l1]. cbn [fst snd].
    eexists. split; [reflexivity|]. intros k Hk. apply indom_cons in Hk. destruct Hk as [Hk|Hk].
    + right. subst k. rewrite ids_dict_fm. left. reflexivity.
    + destruct (D _ Hk) as [Y|Y]; [left; exact Y|right; rewrite ids_dict_fm; right; exact Y].
  - intros n m _ _. exists m. split; [reflexivity|]. intros k Hk. left. exact Hk.
  - intros x r Hx Hr n m Hm Hnd. simpl in Hm, Hnd.
    destruct (Hx n m) as [m1 [E1 D1]]; [intros k Hk; apply Hm; apply in_or_app; left; exact Hk|
                                        apply NoDup_app_parts in Hnd; apply Hnd|].
    simpl. rewrite E1. destruct (fresh n x) as [n1 x'] eqn:F. cbn [fst snd] in *.
    destruct (Hr n1 m1) as [m2 [E2 D2]].
    + intros k Hk. destruct (mlookup k m1) as [c|] eqn:L; [|reflexivity]. exfalso.
      assert (I1 : indom k m1) by (unfold indom; rewrite L; discriminate).
      destruct (D1 _ I1) as [Y|Y].
      * apply Y. apply Hm. apply in_or_app. right. exact Hk.
      * apply (NoDup_app_disjoint _ _ k Hnd Y Hk).
    + apply NoDup_app_parts in Hnd. apply Hnd.
    + rewrite E2. destruct (frl n1 r) as [n2 r']. cbn [fst snd]. exists m2. split; [reflexivity|].
      intros k Hk. destruct (D2 _ Hk) as [Y|Y].
      * destruct (D1 _ Y) as [Z|Z]; [left; exact Z|right; apply in_or_app; left; exact Z].
      * right. apply in_or_app. right. exact Y.
Qed.

Lemma deepcopy_unshared_is_fresh v n :
  NoDup (ids v) -> snd (deepcopy_memo n [] v) = snd (fresh n v) /\ fst (fst (deepcopy_memo n [] v)) = fst (fresh n v).
Proof.
  intros H. destruct (deepcopy_unshared v n []) as [m' [E _]]; [reflexivity|exact H|]. rewrite E. split; reflexivity.
Qed.
