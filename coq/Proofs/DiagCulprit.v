(* C14, the missing half: the index a raise site of the parser model hands to format_error IS the line of the
   malformed construct.

   Props/C14.v proves what format_error displays for the index it is given; this file proves, for the parser
   model (Compiler/ParseMain.v `parse` run with the block extractors of Compiler/ParseBlocks.v =
   ParseAllProofs.parse_real), which index every raise site gives and what stands on that line.

   RESULTS (all for every line list and every oracle; `prepass` = _strip_comments_outside_python)
     prepass_length_lemma      the comment pre-pass keeps the number of lines, and
     prepass_line_is_prefix_lemma   line i of the pre-passed list is a prefix of the author's line i (a
                               `// comment` and trailing blanks removed): an index into the pre-passed list is
                               an index into the author's text
     diag_index_in_range_line_sites_lemma   EVERY SyntaxError of the model but "stmt:python-syntax" carries an
                               index < len(lines), for every oracle.  The dummy index 0 of the no-line
                               sites is in range too, because such a diagnostic needs at least one line.
     diag_index_in_range_lemma ... and "stmt:python-syntax" too: EVERY SyntaxError, for every oracle and every line
                               list (no site is excluded: `located` is the constant true).  Since fix F14c core.py
                               clamps the offset Python blames to the lines the statement consumed.
     stmt_index_clamped_regression_lemma   the F14c witness (CPython counts a bare carriage return inside the statement
                               as a line break; before the fix the compiler said "on line 11" of a 4-line story):
                               the index is now the `~` line, inside the statement (replayed: "on line 2")
     clamp_is_identity_lemma   the clamp changes nothing when Python blames a line of the text it was given
                               (errline_inside: offset <= number of line feeds) and the lines are lines of
                               source.split("\n")
     diag_classified_lemma     every SyntaxError (site, i) of parse_real is of one of five kinds
                                 (s) site = "stmt:python-syntax": a `~` statement starts on some line k and
                                     consumes n lines, Python's parser rejects the assembled statement, and
                                     i = k + min (the offset Python blames) (n - 1)
                                     (stmt_blamed; exact, for every oracle)
                               or i < len(lines) and
                                 (a) line i exists and `culprit site` holds of it        (located, right line)
                                 (b) site is a block site and the diagnostic was raised while the dedented
                                     body of the @for loop opening on some line `start` was re-parsed: i
                                     indexes the dedented copy, not the story            (known finding F14b)
                                 (c) site is a content site, i = 0 is a dummy and the diagnostic was raised by
                                     the @if / @for extractor the main loop called on some opener line
                                     (brace errors inside blocks carry no line)          (known finding F14b)
                                 (d) site is a "call:*" site of validate_passage_arguments and i = 0 is a dummy
                                     (post-parse validation has no line)                 (known finding F14b)
                               (An earlier version had a kind (e): content diagnostics that only the MODEL put on
                               a line -- the text of a choice, and the nesting cap of inline conditionals.  /repo
                               53252c0 and eecafed made the real compiler pass the line there too; they are
                               kind (a) now: c_content / choice_text_rejected.)
     every_site_is_known_lemma every site name parse_real can produce is in one of the four lists main_sites
                               (26), block_sites (14), content_sites (2), call_sites (8)
     culprit_stmt_site_lemma         "stmt:python-syntax", for every oracle and every line list: line i lies inside the
                               statement that starts at a `~` line k <= i < k + consumed (inside_statement), and
                               k + consumed <= len(lines)
     culprit_all_line_sites_lemma    every site but the "call:*" ones: kind (a), (s), (b) [block sites] or (c) [content]
     culprit_covered_sites_lemma     covered = main_sites + block_sites: kind (a), (s), or (b) for a block site
     culprit_main_sites_lemma        the 26 main-loop sites: kind (a), or (s) for "stmt:python-syntax"
     culprit_block_sites_lemma       the 14 block sites: kind (a) or (b)
     culprit_block_sites_outside_loops_lemma   ... kind (a) when no line of the story opens a loop
     culprit_content_sites_lemma               the 2 content sites: kind (a) or (c)
     culprit_content_sites_outside_blocks_lemma   ... kind (a) when no line of the story opens an @if / @for
     call_sites_carry_no_line_lemma            the 8 call sites: i = 0
     loop_body_index_is_not_the_line_refuted_lemma, block_content_has_no_line_refuted_lemma,
     call_target_has_no_line_refuted_lemma     kinds (b), (c), (d) happen: witnesses (replayed on the real code)
   For the unclosed-block sites ("if-unclosed", "for-unclosed", "py-unclosed") and for "nesting-too-deep" the
   culprit is the OPENING line.  For the content sites the culprit is: parse_content_line rejects the line (as
   written, without its glue marker, or dedented as a `-> @join` block line is) with this diagnostic, or the line
   is a choice whose text parse_choice_line rejects with it.

   NOT COVERED by a culprit statement (with the reason):
     call:unknown-target, call:arguments-to-parameterless, call:malformed-arguments, call:too-many-positional,
     call:unknown-keyword, call:missing-required, call:positional-and-keyword, call:jump-to-join
                               kind (d): raised after the loop by validate_passage_arguments, which has no line
                               in hand; the model's index 0 is a placeholder (the real message has no line).
     content:braces, content:nesting-depth when raised inside an @if branch or a @for body
                               kind (c): _append_text_lines / parse_choice_line are called there without an index.
     every block site when raised while a loop body is re-parsed: kind (b).
   stmt:python-syntax          the real compiler reports `i + min(max(py_offset, 0), lines_consumed - 1)` with
                               py_offset = `e.lineno - 1 if e.lineno else 0`: the continuation line Python blames, kept
                               inside the statement (fix F14c).  The model says the same through the oracle
                               py_stmt_errline (Compiler/ParseBase.v); kind (s) restates that Python rejected the
                               assembled statement.
   What ties the model's index to the real compiler's: the correspondence runs of C11/C12 compare only the exception
   class of a diagnostic; harness/diag_index_tie.py compares the index (real "on line N" = model index + 1 for kinds
   (a), (s), (b); no line in the message for kinds (c), (d)) on generated malformed stories, with the oracle
   py_stmt_errline filled from the real ast (no compensation any more), and every story of section
   11 (examples and witnesses) was replayed by hand on the real compiler with that result.
   DValue diagnostics (duplicate passages, no passages, @start not found, ...) carry no index in the model. *)
From Coq Require Import String Ascii List Bool Arith ZArith Lia.
From Bardic Require Import PyStr Value Compiled Lex ParseBase ParseLine ParseMain ParseBlocks.
From Bardic Require Import ParseProofs ParseBlocksProofs ParseBlocksInst ParseAllProofs.
From Bardic Require EngineBase.
From Bardic Require LexProofs.
Import ListNotations.
Local Open Scope string_scope.
Local Open Scope nat_scope.
Local Open Scope list_scope.

(* ------------------------------------------------------------------------------------------- *)
(* 0. a property of the SyntaxError diagnostics of an outcome                                   *)
(* ------------------------------------------------------------------------------------------- *)
Definition diag_sat {A} (P : string -> nat -> Prop) (m : pres A) : Prop :=
  forall s k, m = PDiag (DSyntax s k) -> P s k.

Lemma ds_ok : forall A P (a : A), diag_sat P (POk a).
Proof. intros A P a s k H. discriminate. Qed.

Lemma ds_dvalue : forall A P v, diag_sat P (@PDiag A (DValue v)).
Proof. intros A P v s k H. discriminate. Qed.

Lemma ds_internal : forall A P e, diag_sat P (@PInternal A e).
Proof. intros A P e s k H. discriminate. Qed.

Lemma ds_fuel : forall A P, diag_sat P (@POutOfFuel A).
Proof. intros A P s k H. discriminate. Qed.

Lemma ds_dsyn : forall A (P : string -> nat -> Prop) s k, P s k -> diag_sat P (@dsyn A s k).
Proof. intros A P s k H s' k' E. unfold dsyn in E. inversion E; subst; auto. Qed.

Lemma ds_diag : forall A (P : string -> nat -> Prop) s k, P s k -> diag_sat P (@PDiag A (DSyntax s k)).
Proof. intros A P s k H s' k' E. inversion E; subst; auto. Qed.

Lemma ds_bind : forall A B P (m : pres A) (f : A -> pres B),
  diag_sat P m -> (forall a, m = POk a -> diag_sat P (f a)) -> diag_sat P (pbind m f).
Proof.
  intros A B P m f Hm Hf s k E. destruct m as [a|d|e|]; simpl in E; try discriminate.
  - eapply Hf; eauto.
  - apply Hm. inversion E; subst. reflexivity.
Qed.

Lemma ds_weaken : forall A (P R : string -> nat -> Prop) (m : pres A),
  diag_sat P m -> (forall s k, P s k -> R s k) -> diag_sat R m.
Proof. intros A P R m H W s k E. apply W. apply H. exact E. Qed.

(* the site of a diagnostic, compared with a name *)
Definition site_is {A} (m : pres A) (s : string) : bool :=
  match m with PDiag (DSyntax s' _) => String.eqb s' s | _ => false end.

Lemma site_is_diag : forall A s k s', @site_is A (PDiag (DSyntax s k)) s' = true -> s = s'.
Proof. intros A s k s' H. simpl in H. apply String.eqb_eq in H. exact H. Qed.

Lemma retag_inv : forall A i (m : pres A) s k,
  retag i m = PDiag (DSyntax s k) -> k = i /\ site_is m s = true.
Proof.
  intros A i m s k H. destruct m as [a|[s0 k0|v]|e|]; simpl in H; try discriminate.
  inversion H; subst. split; auto. simpl. apply String.eqb_refl.
Qed.

Lemma at_line_inv : forall A i (m : pres A) s k,
  ParseBlocks.at_line i m = PDiag (DSyntax s k) -> k = i /\ site_is m s = true.
Proof.
  intros A i m s k H. destruct m as [a|[s0 k0|v]|e|]; simpl in H; try discriminate.
  inversion H; subst. split; auto. simpl. apply String.eqb_refl.
Qed.

Lemma str_in_In : forall x l, str_in x l = true -> In x l.
Proof.
  induction l as [|y r IH]; simpl; intros H; [discriminate|].
  apply orb_prop in H. destruct H as [H|H]; [left; symmetry; apply String.eqb_eq; exact H|right; auto].
Qed.

(* ------------------------------------------------------------------------------------------- *)
(* 1. the comment pre-pass keeps the lines in place                                             *)
(* ------------------------------------------------------------------------------------------- *)
Definition prepass (ls : list string) : list string := strip_comments_outside_python ls None false 0.

Lemma scop_length : forall rest closer in_story skip,
  length (strip_comments_outside_python rest closer in_story skip) = length rest.
Proof.
  induction rest as [|l r IH]; intros closer in_story skip; [reflexivity|].
  cbn [strip_comments_outside_python]. destruct skip as [|k]; [|cbn [length]; rewrite IH; reflexivity].
  cbv zeta. destruct closer as [c|].
  - match goal with |- context [if ?b then _ else _] => destruct b end; cbn [length]; rewrite IH; reflexivity.
  - repeat match goal with |- context [if ?b then _ else _] => destruct b end;
      cbn [length]; rewrite IH; reflexivity.
Qed.

Lemma prepass_length_lemma : forall ls, length (prepass ls) = length ls.
Proof. intros. apply scop_length. Qed.

(* ... and only shortens a line at its end *)
Lemma startswith_refl : forall s, startswith s s = true.
Proof. induction s as [|c r IH]; simpl; auto. unfold ascii_eqb. rewrite Ascii.eqb_refl. exact IH. Qed.

Lemma startswith_take : forall n s, startswith s (take n s) = true.
Proof.
  induction n as [|n IH]; intros s; destruct s as [|c r]; simpl; auto.
  unfold ascii_eqb. rewrite Ascii.eqb_refl. apply IH.
Qed.

Lemma startswith_rstrip : forall s, startswith s (rstrip s) = true.
Proof.
  induction s as [|c r IH]; simpl; auto.
  destruct (rstrip r) as [|c' r'] eqn:E.
  - destruct (is_space c); simpl; auto. unfold ascii_eqb. rewrite Ascii.eqb_refl. destruct r; reflexivity.
  - simpl. unfold ascii_eqb at 1. rewrite Ascii.eqb_refl. exact IH.
Qed.

Lemma startswith_trans : forall a b c, startswith a b = true -> startswith b c = true -> startswith a c = true.
Proof.
  induction a as [|x a IH]; intros b c H1 H2.
  - destruct b; simpl in H1; [|discriminate]. destruct c; simpl in *; auto.
  - destruct b as [|y b]; [destruct c; simpl in *; auto; discriminate|].
    destruct c as [|z c]; [reflexivity|]. simpl in *.
    apply andb_prop in H1. destruct H1 as [E1 H1]. apply andb_prop in H2. destruct H2 as [E2 H2].
    unfold ascii_eqb in *. apply Ascii.eqb_eq in E1. apply Ascii.eqb_eq in E2. subst.
    rewrite Ascii.eqb_refl. simpl. eapply IH; eauto.
Qed.

Lemma scop_prefix : forall rest closer in_story skip i l,
  nth_error (strip_comments_outside_python rest closer in_story skip) i = Some l ->
  exists l0, nth_error rest i = Some l0 /\ startswith l0 l = true.
Proof.
  induction rest as [|l0 r IH]; intros closer in_story skip i l H.
  - destruct i; discriminate.
  - cbn [strip_comments_outside_python] in H.
    assert (Hbare : forall cm, startswith l0 (if ParseLine.nonempty cm
                      then rstrip (take (String.length l0 - String.length cm) l0) else l0) = true).
    { intros cm. destruct (ParseLine.nonempty cm); [|apply startswith_refl].
      eapply startswith_trans; [apply startswith_take|apply startswith_rstrip]. }
    assert (Hout : forall cm, startswith l0 (rstrip (if ParseLine.nonempty cm
                      then rstrip (take (String.length l0 - String.length cm) l0) else l0)) = true).
    { intros cm. eapply startswith_trans; [apply Hbare|apply startswith_rstrip]. }
    assert (K : forall x tl, startswith l0 x = true ->
                (forall j l', nth_error tl j = Some l' -> exists l1, nth_error r j = Some l1 /\ startswith l1 l' = true) ->
                nth_error (x :: tl) i = Some l ->
                exists l1, nth_error (l0 :: r) i = Some l1 /\ startswith l1 l = true).
    { intros x tl Hx Htl Hn. destruct i as [|j]; simpl in *.
      - inversion Hn; subst. eauto.
      - apply Htl; auto. }
    destruct skip as [|k].
    + cbv zeta in H.
      set (bare := if ParseLine.nonempty (snd (strip_inline_comment l0))
                   then rstrip (take (String.length l0 - String.length (snd (strip_inline_comment l0))) l0)
                   else l0) in H.
      assert (Hb : startswith l0 bare = true) by apply Hbare.
      assert (Ho : startswith l0 (rstrip bare) = true) by apply Hout.
      clearbody bare.
      destruct closer as [c|].
      * lazymatch type of H with context [if ?b then _ else _] => destruct b end;
          (eapply K; [| |exact H]; [first [exact Hb|apply startswith_refl]|intros j l'; apply IH]).
      * repeat lazymatch type of H with context [if ?b then _ else _] => destruct b end;
          (eapply K; [| |exact H]; [first [exact Ho|apply startswith_refl]|intros j l'; apply IH]).
    + eapply K; [| |exact H]; [apply startswith_refl|intros j l'; apply IH].
Qed.

Lemma prepass_line_is_prefix_lemma : forall ls i l,
  nth_error (prepass ls) i = Some l -> exists l0, nth_error ls i = Some l0 /\ startswith l0 l = true.
Proof. intros ls i l H. eapply scop_prefix; eauto. Qed.

(* ------------------------------------------------------------------------------------------- *)
(* 1b. the lines of an assembled `~` statement                                                  *)
(* ------------------------------------------------------------------------------------------- *)
Definition LF : ascii := ascii_of_nat 10.
Definition is_lf (c : ascii) : bool := Ascii.eqb c LF.
Fixpoint count_nl (s : string) : nat :=
  match s with
  | EmptyString => 0
  | String c r => (if is_lf c then 1 else 0) + count_nl r
  end.
(* a line of source.split("\n") *)
Definition no_nl (s : string) : Prop := count_nl s = 0.

Lemma count_nl_app : forall a b, count_nl (a ++ b) = count_nl a + count_nl b.
Proof. induction a as [|c r IH]; intros b; simpl; [reflexivity|]. rewrite IH. lia. Qed.

Lemma count_nl_lstrip : forall s, count_nl (lstrip s) <= count_nl s.
Proof. induction s as [|c r IH]; simpl; [lia|]. destruct (is_space c); simpl; lia. Qed.

Lemma count_nl_rstrip : forall s, count_nl (rstrip s) <= count_nl s.
Proof.
  induction s as [|c r IH]; simpl; [lia|].
  destruct (rstrip r) as [|c' r'] eqn:E.
  - destruct (is_space c); simpl in *; lia.
  - simpl in *. lia.
Qed.

Lemma count_nl_strip : forall s, count_nl (strip s) <= count_nl s.
Proof. intros s. unfold strip. pose proof (count_nl_rstrip (lstrip s)). pose proof (count_nl_lstrip s). lia. Qed.

Lemma count_nl_drop : forall n s, count_nl (drop n s) <= count_nl s.
Proof.
  induction n as [|n IH]; intros s; simpl; [lia|]. destruct s as [|c r]; simpl; [lia|].
  pose proof (IH r). lia.
Qed.

Lemma count_nl_take : forall n s, count_nl (take n s) <= count_nl s.
Proof.
  induction n as [|n IH]; intros s; simpl; [lia|]. destruct s as [|c r]; simpl; [lia|].
  pose proof (IH r). lia.
Qed.

Lemma is_slash_not_lf : forall c, is_slash c = true -> is_lf c = false.
Proof. intros c H. unfold is_slash in H. apply Ascii.eqb_eq in H. subst. reflexivity. Qed.
Lemma is_bslash_not_lf : forall c, is_bslash c = true -> is_lf c = false.
Proof. intros c H. unfold is_bslash in H. apply Ascii.eqb_eq in H. subst. reflexivity. Qed.
Lemma is_equals_not_lf : forall c, is_equals c = true -> is_lf c = false.
Proof. intros c H. unfold is_equals in H. apply Ascii.eqb_eq in H. subst. reflexivity. Qed.

Lemma count_nl_sic_n : forall n s, String.length s <= n -> count_nl (fst (strip_inline_comment s)) <= count_nl s.
Proof.
  induction n as [|n IH]; intros s Hl.
  - destruct s; simpl in *; [lia|lia].
  - destruct s as [|a [|b [|c r]]].
    + simpl. lia.
    + rewrite LexProofs.sic_1. simpl. lia.
    + rewrite LexProofs.sic_2. destruct (is_slash a && is_slash b); simpl; lia.
    + rewrite LexProofs.sic_3.
      assert (Hr : count_nl (fst (strip_inline_comment r)) <= count_nl r) by (apply IH; simpl in Hl; lia).
      assert (Hbc : count_nl (fst (strip_inline_comment (String b (String c r)))) <= count_nl (String b (String c r)))
        by (apply IH; simpl in Hl; simpl; lia).
      destruct (is_bslash a && is_slash b && is_slash c) eqn:E1.
      { cbn [fst]. change (count_nl (String "/" (String "/" (fst (strip_inline_comment r))))) with (count_nl (fst (strip_inline_comment r))).
        simpl. lia. }
      destruct (is_slash a && is_slash b && is_equals c) eqn:E2.
      { cbn [fst]. change (count_nl (String "/" (String "/" (String "=" (fst (strip_inline_comment r)))))) with (count_nl (fst (strip_inline_comment r))).
        simpl. lia. }
      destruct (is_slash a && is_slash b); cbn [fst]; [simpl; lia|].
      change (count_nl (String a (fst (strip_inline_comment (String b (String c r))))))
        with ((if is_lf a then 1 else 0) + count_nl (fst (strip_inline_comment (String b (String c r))))).
      change (count_nl (String a (String b (String c r))))
        with ((if is_lf a then 1 else 0) + count_nl (String b (String c r))).
      lia.
Qed.

Lemma count_nl_sic : forall s, count_nl (fst (strip_inline_comment s)) <= count_nl s.
Proof. intros s. apply (count_nl_sic_n (String.length s)). lia. Qed.

(* the code of the `~` line has no line feed when the line has none *)
Lemma stmt_code_no_nl : forall l, no_nl l -> no_nl (fst (strip_inline_comment (strip (drop 2 l)))).
Proof.
  intros l H. unfold no_nl in *.
  pose proof (count_nl_sic (strip (drop 2 l))). pose proof (count_nl_strip (drop 2 l)).
  pose proof (count_nl_drop 2 l). lia.
Qed.

(* join "\n" of lines without line feeds: one line feed between two lines *)
Lemma count_nl_join : forall l, Forall no_nl l -> l <> [] ->
  S (count_nl (join (String LF EmptyString) l)) = length l.
Proof.
  induction l as [|x r IH]; intros HF Hne; [congruence|].
  inversion HF as [|x0 r0 Hx Hr]; subst. destruct r as [|y r'].
  - simpl. rewrite Hx. reflexivity.
  - change (join (String LF "") (x :: y :: r')) with (x ++ (String LF "" ++ join (String LF "") (y :: r')))%string.
    rewrite !count_nl_app. rewrite Hx. change (count_nl (String LF "")) with 1.
    specialize (IH Hr). cbn [length] in *. assert (y :: r' <> []) by discriminate. specialize (IH H). lia.
Qed.

(* the loop of extract_multiline_expression collects the next n' - n lines, in order *)
Lemma eme_loop_spec : forall rest stack acc n acc' n',
  eme_loop rest stack acc n = (acc', n') ->
  exists m, n' = n + m /\ m <= length rest /\ acc' = rev (firstn m rest) ++ acc.
Proof.
  induction rest as [|l r IH]; intros stack acc n acc' n' H; cbn [eme_loop] in H.
  - inversion H; subst. exists 0. simpl. repeat split; lia.
  - destruct stack as [|t st].
    + inversion H; subst. exists 0. simpl. repeat split; lia.
    + destruct (scan_brackets l (t :: st)) as [|t' st'] eqn:E.
      * inversion H; subst. exists 1. simpl. repeat split; lia.
      * apply IH in H. destruct H as (m & -> & Hm & ->). exists (S m). cbn [firstn rev length].
        repeat split; [lia|lia|]. rewrite <- List.app_assoc. reflexivity.
Qed.

(* the statement that starts on line k: its extent lies in the file, and -- on lines of source.split("\n") --
   the assembled text has exactly one line per consumed line *)
Lemma emx_extent : forall lines k code cc n,
  k < length lines -> extract_multiline_expression lines k code = (cc, n) ->
  1 <= n /\ k + n <= length lines.
Proof.
  intros lines k code cc n Hk H. unfold extract_multiline_expression in H. cbv zeta in H.
  destruct (negb _).
  - inversion H; subst. lia.
  - destruct (eme_loop _ _ _ _) as [acc m] eqn:E. inversion H; subst.
    apply eme_loop_spec in E. destruct E as (m' & -> & Hm & _). rewrite skipn_length in Hm. lia.
Qed.

Lemma Forall_firstn : forall A (P : A -> Prop) n l, Forall P l -> Forall P (firstn n l).
Proof.
  intros A P n. induction n as [|n IH]; intros l H; [constructor|].
  destruct l as [|x r]; [constructor|]. inversion H; subst. simpl. constructor; auto.
Qed.
Lemma Forall_skipn : forall A (P : A -> Prop) n l, Forall P l -> Forall P (skipn n l).
Proof.
  intros A P n. induction n as [|n IH]; intros l H; [exact H|].
  destruct l as [|x r]; [constructor|]. inversion H; subst. simpl. auto.
Qed.

Lemma emx_count_nl : forall lines k code cc n,
  Forall no_nl lines -> no_nl code -> extract_multiline_expression lines k code = (cc, n) ->
  S (count_nl cc) = n.
Proof.
  intros lines k code cc n HF Hc H. unfold extract_multiline_expression in H. cbv zeta in H.
  destruct (negb _).
  - inversion H; subst. rewrite Hc. reflexivity.
  - destruct (eme_loop _ _ _ _) as [acc m] eqn:E. inversion H; subst.
    apply eme_loop_spec in E. destruct E as (m' & -> & Hm & ->).
    rewrite rev_app_distr, rev_involutive. cbn [rev app].
    change (String (ascii_of_nat 10) "") with (String LF "").
    rewrite count_nl_join.
    + cbn [length]. rewrite firstn_length. lia.
    + constructor; [exact Hc|]. apply Forall_firstn. apply Forall_skipn. exact HF.
    + discriminate.
Qed.

Lemma count_nl_prefix : forall a b, startswith a b = true -> count_nl b <= count_nl a.
Proof.
  induction a as [|x a IH]; intros b H.
  - destruct b; simpl in *; [lia|discriminate].
  - destruct b as [|y b]; [simpl; lia|]. simpl in H. apply andb_prop in H. destruct H as [E H].
    unfold ascii_eqb in E. apply Ascii.eqb_eq in E. subst. simpl. pose proof (IH _ H). lia.
Qed.

(* the pre-pass keeps lines free of line feeds *)
Lemma prepass_no_nl : forall ls, Forall no_nl ls -> Forall no_nl (prepass ls).
Proof.
  intros ls H. apply Forall_forall. intros l Hin. apply In_nth_error in Hin. destruct Hin as [i Hi].
  destruct (prepass_line_is_prefix_lemma _ _ _ Hi) as (l0 & Hl0 & Hp).
  rewrite Forall_forall in H. specialize (H l0 (nth_error_In _ _ Hl0)).
  unfold no_nl in *. pose proof (count_nl_prefix _ _ Hp). lia.
Qed.

(* source.split("\n") yields lines without line feeds *)
Lemma split_char_aux_no_nl : forall s cur, no_nl cur -> Forall no_nl (split_char_aux s LF cur).
Proof.
  induction s as [|a r IH]; intros cur Hc; cbn [split_char_aux].
  - constructor; [exact Hc|constructor].
  - destruct (ascii_eqb a LF) eqn:E.
    + constructor; [exact Hc|]. apply IH. reflexivity.
    + apply IH. unfold no_nl in *. rewrite count_nl_app. simpl. unfold is_lf. unfold ascii_eqb in E. rewrite E. lia.
Qed.

Lemma split_lines_no_nl_lemma : forall source, Forall no_nl (split_char source LF).
Proof. intros. apply split_char_aux_no_nl. reflexivity. Qed.

(* ------------------------------------------------------------------------------------------- *)
(* 2. the site names, by where they are raised                                                  *)
(* ------------------------------------------------------------------------------------------- *)
(* raised by the main loop of core.py itself and by the line-level functions it calls WITH line context *)
Definition main_sites : list string :=
  ["passage-name:empty"; "passage-name:invalid";
   "params:required-after-optional"; "params:not-identifier"; "params:keyword"; "params:reserved-name";
   "params:duplicate";
   "render:framework-syntax"; "render:missing-name"; "input:missing-parameters"; "input:missing-name";
   "hook:arity"; "unhook:arity"; "stmt:python-syntax";
   "choice:missing-arrow"; "choice:missing-open-bracket"; "choice:missing-close-bracket";
   "choice:unclosed-conditional"; "choice:close-brace-without-open";
   "choice:missing-open-bracket-after-conditional"; "choice:missing-close-bracket-after-conditional";
   "choice:bracket-order"; "choice:missing-target"; "choice:target-with-spaces"; "choice:empty-text";
   "choice:validated-but-unparsed"].
(* raised by the block extractors of blocks.py *)
Definition block_sites : list string :=
  ["py-missing-colon"; "py-unclosed";
   "if-missing-colon"; "if-missing-close"; "elif-missing-colon"; "elif-missing-close"; "else-missing-colon";
   "endif-colon"; "if-unclosed";
   "for-missing-colon"; "for-invalid"; "endfor-colon"; "for-unclosed"; "nesting-too-deep"].
(* raised by parse_content_line / parse_inline_conditional (also through parse_choice_line): with the line in
   the main loop and in a `-> @join` block, WITHOUT a line inside @if branches and @for bodies *)
Definition content_sites : list string := ["content:braces"; "content:nesting-depth"].
(* raised by validate_passage_arguments after the loop: never a line (the model's index is the dummy 0) *)
Definition call_sites : list string :=
  ["call:unknown-target"; "call:arguments-to-parameterless"; "call:malformed-arguments";
   "call:too-many-positional"; "call:unknown-keyword"; "call:missing-required";
   "call:positional-and-keyword"; "call:jump-to-join"].

Definition msite (s : string) : bool := str_in s main_sites.
Definition bsite (s : string) : bool := str_in s block_sites.
Definition csite (s : string) : bool := str_in s content_sites.
Definition callsite (s : string) : bool := str_in s call_sites.

(* `located`: the sites whose index is required to be in range.  No exclusion. *)
Definition located (s : string) : bool := true.

(* ------------------------------------------------------------------------------------------- *)
(* 3. culprit: what makes a line malformed, per site family                                     *)
(* ------------------------------------------------------------------------------------------- *)
Definition is_none {A} (o : option A) : bool := match o with None => true | Some _ => false end.
Definition is3 {A} (l : list A) : bool := match l with [_; _; _] => true | _ => false end.

(* the passage name and the parameter text of a header line, as core.py computes them *)
Definition header_parts (l : string) : string * string :=
  let (passage_header, _) := strip_inline_comment (strip (drop 3 l)) in
  let (name_with_params, params_str) := extract_passage_params passage_header in
  let (passage_name, _) := parse_tags name_with_params in
  (passage_name, params_str).

(* `:: name(params)`: the header's name is rejected by validate_passage_name, or its parameter list by
   parse_passage_params, with this diagnostic *)
Definition c_header (s l : string) : bool :=
  startswith l ":: " &&
  (site_is (validate_passage_name (fst (header_parts l)) 0) s
   || (ParseLine.nonempty (snd (header_parts l)) && site_is (parse_passage_params (snd (header_parts l))) s)).
(* an @render / @input line that the line-level function rejects with this diagnostic *)
Definition c_render (s l : string) : bool :=
  startswith (strip l) "@render" && site_is (parse_render_line true l) s.
Definition c_input (s l : string) : bool :=
  startswith (strip l) "@input" && site_is (parse_input_attrs true l) s.
(* @hook / @unhook not followed by exactly two words *)
Definition c_hook (s l : string) : bool :=
  String.eqb s "hook:arity" && startswith (strip l) "@hook " && negb (is3 (split_ws (strip l))).
Definition c_unhook (s l : string) : bool :=
  String.eqb s "unhook:arity" && startswith (strip l) "@unhook " && negb (is3 (split_ws (strip l))).
(* "stmt:python-syntax" has no per-line culprit: the indexed line is the line Python blames INSIDE a `~` statement
   that may span several lines -- kind (s), stmt_blamed / inside_statement in section 8 *)
(* a choice line that validate_choice_syntax rejects with this diagnostic *)
Definition is_choice_start (l : string) : bool := startswith l "+ " || startswith l "* ".
Definition c_choice (s l : string) : bool :=
  is_choice_start l && site_is (validate_choice_syntax l 0) s.
Definition c_unparsed (s l : string) : bool :=
  String.eqb s "choice:validated-but-unparsed" && is_choice_start l &&
  is_ok (validate_choice_syntax l 0) &&
  match parse_choice_line l with POk None => true | _ => false end.

(* block sites: the shape of the line the diagnostic stands on (the OPENING line for the unclosed-block
   sites and for the nesting cap) *)
Definition sic1 (l : string) : string := fst (strip_inline_comment (strip l)).
Definition block_shape (s : string) : option (string -> bool) :=
  if String.eqb s "py-missing-colon" then
    Some (fun l => startswith (strip l) "@py" && negb (String.eqb (strip l) "@py:"))
  else if String.eqb s "py-unclosed" then
    (* since fix F17o the legacy opener as well *)
    Some (fun l => String.eqb (strip l) "@py:" || startswith (strip l) "<<py")
  else if String.eqb s "if-missing-colon" then
    Some (fun l => startswith (strip l) "@if " && is_none (match_colon_tail "@if" (sic1 l)))
  else if String.eqb s "if-missing-close" then
    Some (fun l => startswith (strip l) "<<if " && is_none (match_legacy "<<if" (sic1 l)))
  else if String.eqb s "elif-missing-colon" then
    Some (fun l => startswith (strip l) "@elif " && is_none (match_colon_tail "@elif" (sic1 l)))
  else if String.eqb s "elif-missing-close" then
    Some (fun l => startswith (strip l) "<<elif " && is_none (match_legacy "<<elif" (sic1 l)))
  else if String.eqb s "else-missing-colon" then
    Some (fun l => startswith (strip l) "@else" && negb (String.eqb (strip (sic1 l)) "@else:"))
  else if String.eqb s "endif-colon" then Some (fun l => String.eqb (strip l) "@endif:")
  else if String.eqb s "if-unclosed" then Some (fun l => is_if_line (strip l))
  else if String.eqb s "for-missing-colon" then
    Some (fun l => startswith (strip l) "@for " && is_none (match_for_colon (sic1 l)))
  else if String.eqb s "for-invalid" then
    Some (fun l => startswith (strip l) "<<for " && is_none (match_for_legacy (sic1 l)))
  else if String.eqb s "endfor-colon" then Some (fun l => String.eqb (strip l) "@endfor:")
  else if String.eqb s "for-unclosed" then Some (fun l => is_for_line (strip l))
  else if String.eqb s "nesting-too-deep" then Some (fun l => is_if_line (strip l) || is_for_line (strip l))
  else None.
Definition c_block (s l : string) : bool :=
  match block_shape s with Some f => f l | None => false end.

(* content sites ("content:braces", "content:nesting-depth"), where the compiler has the line in hand:
   parse_content_line rejects the line as a content line, the line without its glue marker `<>`, or the line
   with some leading characters removed (a line of a `-> @join` block is dedented before it is parsed) -- or the
   line is a choice whose TEXT parse_choice_line rejects (since /repo 53252c0 the main loop re-raises that
   diagnostic through format_error with the choice's index; since eecafed parse_content_line does the same for
   the nesting cap of parse_inline_conditional, with the index its caller gave it) *)
Definition unglued (l : string) : string := take (String.length (rstrip l) - 2) (rstrip l).
Definition content_direct (s l : string) : bool :=
  site_is (parse_content_line (unglued l)) s
  || existsb (fun b => site_is (parse_content_line (drop b l)) s) (seq 0 (S (String.length l))).
Definition choice_text_rejected (s l : string) : bool :=
  (startswith l "+ " || startswith l "* ") && site_is (parse_choice_line l) s.
Definition c_content (s l : string) : bool :=
  csite s && (content_direct s l || choice_text_rejected s l).

Definition culprit_families : list (string -> string -> bool) :=
  [c_header; c_render; c_input; c_hook; c_unhook; c_choice; c_unparsed; c_block; c_content].

Definition culprit (site line : string) : bool := existsb (fun f => f site line) culprit_families.

Definition culprit_at (lines : list string) (s : string) (k : nat) : Prop :=
  exists l, nth_error lines k = Some l /\ culprit s l = true.

Lemma culprit_intro : forall f s l, In f culprit_families -> f s l = true -> culprit s l = true.
Proof. intros f s l Hin H. unfold culprit. apply existsb_exists. exists f. split; auto. Qed.

Ltac fam := unfold culprit_families; simpl; tauto.

Lemma culprit_block : forall s l, c_block s l = true -> culprit s l = true.
Proof. intros. eapply culprit_intro; eauto. fam. Qed.

(* ------------------------------------------------------------------------------------------- *)
(* 4. line-level functions: which index, which sites                                            *)
(* ------------------------------------------------------------------------------------------- *)
(* the sites of parse_content_line / parse_choice_line, and their placeholder index 0 *)
Definition CS (s : string) (k : nat) : Prop := csite s = true /\ k = 0.

Lemma content_parts_CS : forall pic, (forall e, diag_sat CS (pic e)) ->
  forall parts, diag_sat CS (content_parts pic parts).
Proof.
  intros pic Hpic. induction parts as [|p r IH]; cbn [content_parts]; [apply ds_ok|].
  destruct (startswith p "{" && endswith p "}").
  - apply ds_bind; [apply Hpic|]. intros ic _. apply ds_bind; [apply IH|]. intros; apply ds_ok.
  - destruct (ParseLine.nonempty p); [|apply IH].
    apply ds_bind; [apply IH|]. intros; apply ds_ok.
Qed.

Lemma pic_with_CS : forall depth rec expr, (forall x, diag_sat CS (rec x)) ->
  diag_sat CS (parse_inline_conditional_with depth rec expr).
Proof.
  intros depth rec expr Hrec. unfold parse_inline_conditional_with.
  destruct (negb (str_contains expr "?")); [apply ds_ok|].
  destruct (find_top "?" expr 0 0) as [q|]; [|apply ds_ok].
  destruct (find_pipe_separator _) as [p|]; [|apply ds_ok].
  destruct (max_inline_depth <=? depth).
  { apply ds_dsyn. split; reflexivity. }
  apply ds_bind. { destruct (ParseLine.nonempty _); [apply Hrec|apply ds_ok]. }
  intros tks _. apply ds_bind. { destruct (ParseLine.nonempty _); [apply Hrec|apply ds_ok]. }
  intros; apply ds_ok.
Qed.

Lemma pcl_d_CS : forall fuel depth line, diag_sat CS (parse_content_line_d fuel depth line).
Proof.
  induction fuel as [|f IH]; intros depth line; cbn [parse_content_line_d]; [apply ds_fuel|].
  destruct (strip_inline_comment line) as [line1 cm]. destruct (parse_tags line1) as [lwt tags].
  destruct (split_expressions_with_depth lwt) as [parts|d|e|].
  - apply content_parts_CS. intros e. apply pic_with_CS. intros x. apply IH.
  - apply ds_diag. split; reflexivity.
  - apply ds_internal.
  - apply ds_fuel.
Qed.

Lemma parse_content_line_CS : forall line, diag_sat CS (parse_content_line line).
Proof. intros. apply pcl_d_CS. Qed.

Lemma parse_choice_line_CS : forall line, diag_sat CS (parse_choice_line line).
Proof.
  intros line. unfold parse_choice_line.
  destruct (strip_inline_comment line) as [l1 cm]. destruct (parse_tags l1) as [lwt tags].
  match goal with |- diag_sat _ (match ?x with _ => _ end) => destruct x as [[sticky cl]|] end; [|apply ds_ok].
  match goal with |- diag_sat _ (match ?x with _ => _ end) => destruct x as [[[cond ct] twa]|] end; [|apply ds_ok].
  destruct (extract_target_and_args (strip twa)) as [target args].
  apply ds_bind; [apply parse_content_line_CS|]. intros; apply ds_ok.
Qed.

Lemma parse_input_attrs_nocontext : forall s d, parse_input_attrs false s <> PDiag d.
Proof.
  intros s d. unfold parse_input_attrs. destruct (strip_inline_comment s) as [line cm].
  destruct (negb (startswith (strip line) "@input")); [discriminate|].
  destruct (negb (ParseLine.nonempty _)); [discriminate|].
  destruct (lookup "name" _); discriminate.
Qed.

Lemma parse_input_line_nocontext : forall s d, parse_input_line false s <> PDiag d.
Proof.
  intros s d. unfold parse_input_line.
  pose proof (parse_input_attrs_nocontext s) as H.
  destruct (parse_input_attrs false s) as [a|d'|e|]; simpl; try discriminate.
  exfalso. apply (H d'). reflexivity.
Qed.

Lemma parse_render_line_nocontext_diag : forall s d, parse_render_line false s <> PDiag d.
Proof. intros s d. destruct (parse_render_line_nocontext s) as [r E]. rewrite E. discriminate. Qed.

(* validate_choice_syntax and validate_passage_name put the index they are given on every diagnostic *)
Lemma validate_choice_syntax_index : forall l i j,
  retag j (validate_choice_syntax l i) = validate_choice_syntax l j.
Proof.
  intros l i j. unfold validate_choice_syntax, index_char.
  destruct (strip_inline_comment (strip l)) as [clean cm].
  destruct (negb (str_contains clean " -> ")); [reflexivity|].
  match goal with |- context [match str_find ?a ?b with _ => _ end] => destruct (str_find a b) end.
  all: repeat (lazymatch goal with
       | |- context [match find_char ?a ?b with _ => _ end] => destruct (find_char a b)
       | |- context [match match_brace ?a ?b ?c with _ => _ end] => destruct (match_brace a b c)
       | |- context [if ?b then _ else _] => destruct b
       end; cbn [pbind dsyn retag]; try reflexivity).
Qed.

Lemma validate_choice_syntax_inv : forall l i s k,
  validate_choice_syntax l i = PDiag (DSyntax s k) ->
  k = i /\ site_is (validate_choice_syntax l 0) s = true.
Proof.
  intros l i s k H. split.
  - pose proof (validate_choice_syntax_index l i i) as E. rewrite H in E. simpl in E.
    inversion E. reflexivity.
  - rewrite <- (validate_choice_syntax_index l i 0). rewrite H. simpl. apply String.eqb_refl.
Qed.

Lemma validate_choice_syntax_ok_index : forall l i j,
  validate_choice_syntax l i = POk tt -> validate_choice_syntax l j = POk tt.
Proof.
  intros l i j H. rewrite <- (validate_choice_syntax_index l i j). rewrite H. reflexivity.
Qed.

Lemma validate_passage_name_index : forall n i j,
  retag j (validate_passage_name n i) = validate_passage_name n j.
Proof.
  intros n i j. unfold validate_passage_name.
  destruct (negb (ParseLine.nonempty n) || isspace n); [reflexivity|].
  destruct (valid_passage_pattern n); [reflexivity|].
  destruct (str_contains n " "); [reflexivity|]. destruct (str_contains n "-"); [reflexivity|].
  destruct n; reflexivity.
Qed.

Lemma validate_passage_name_inv : forall n i s k,
  validate_passage_name n i = PDiag (DSyntax s k) ->
  k = i /\ site_is (validate_passage_name n 0) s = true.
Proof.
  intros n i s k H. split.
  - pose proof (validate_passage_name_index n i i) as E. rewrite H in E. simpl in E.
    inversion E. reflexivity.
  - rewrite <- (validate_passage_name_index n i 0). rewrite H. simpl. apply String.eqb_refl.
Qed.


(* ------------------------------------------------------------------------------------------- *)
(* 5. the block extractors                                                                      *)
(* ------------------------------------------------------------------------------------------- *)
Lemma ds_nodiag : forall A P (m : pres A), (forall d, m <> PDiag d) -> diag_sat P m.
Proof. intros A P m H s k E. exfalso. apply (H _ E). Qed.

Lemma nth_error_lt : forall A (l : list A) i x, nth_error l i = Some x -> i < length l.
Proof. intros A l i x H. apply nth_error_Some. rewrite H. discriminate. Qed.

(* extract_python_block: both diagnostics stand on the opener line *)
Lemma py_new_go_diag : forall fx op start rest acc k,
  diag_sat (fun s j => s = "py-unclosed" /\ j = start) (py_new_go fx op start rest acc k).
Proof.
  intros fx op start. induction rest as [|line rest IH]; intros acc k; cbn [py_new_go].
  - apply ds_diag. auto.
  - destruct (String.eqb (strip line) "@endpy"); [apply ds_ok|apply IH].
Qed.

Lemma py_old_go_diag : forall op start rest base acc k,
  diag_sat (fun s j => s = "py-unclosed" /\ j = start) (py_old_go op start rest base acc k).
Proof.
  intros op start. induction rest as [|line rest IH]; intros base acc k; cbn [py_old_go].
  - apply ds_diag. auto.
  - destruct (String.eqb (strip line) ">>"); [apply ds_ok|apply IH].
Qed.

Lemma python_block_diag : forall fx lines start l,
  nth_error lines start = Some l ->
  diag_sat (fun s k => k = start /\ bsite s = true /\ c_block s l = true)
           (extract_python_block_v fx lines start).
Proof.
  intros fx lines start l Hn. unfold extract_python_block_v. rewrite Hn.
  destruct (startswith (strip l) "<<py") eqn:Eold.
  { unfold extract_py_old_syntax. eapply ds_weaken; [apply py_old_go_diag|]. intros s k [-> ->].
    repeat split. change (String.eqb (strip l) "@py:" || startswith (strip l) "<<py" = true).
    rewrite Eold. apply orb_true_r. }
  destruct (startswith (strip l) "@py") eqn:Epy; [|apply ds_dvalue].
  unfold extract_py_new_syntax_v. rewrite Hn.
  destruct (String.eqb (strip l) "@py:") eqn:Ec; cbn [negb].
  - eapply ds_weaken; [apply py_new_go_diag|]. intros s k [-> ->].
    repeat split. change (String.eqb (strip l) "@py:" || startswith (strip l) "<<py" = true). rewrite Ec. reflexivity.
  - apply ds_diag. repeat split.
    change (startswith (strip l) "@py" && negb (String.eqb (strip l) "@py:") = true).
    rewrite Epy, Ec. reflexivity.
Qed.

Section Blocks.
Variable fixed : bool.
Variable cap : option nat.
Variable lf : linefns.
Hypothesis Hcontent : forall l, diag_sat CS (lf_content lf l).
Hypothesis Hchoice : forall l, diag_sat CS (lf_choice lf l).
Hypothesis Hrender : forall l d, lf_render lf l <> PDiag d.
Hypothesis Hinput : forall l d, lf_input lf l <> PDiag d.

Local Notation ecf := (extract_conditional_block_f fixed cap lf).
Local Notation elf := (extract_loop_block_f fixed cap lf).

(* the dedented body extract_loop_block re-parses *)
Definition loop_dedented (raw : list string) : list string :=
  detect_and_strip_indentation (if fixed then drop_leading_comments raw else raw).

(* "(s, k) was raised while the body of the loop that opens on line `start` of `lines` was re-parsed":
   k is an index into the dedented copy of the body, not into `lines` *)
Definition loop_reparse_with (rc rl : list string -> nat -> pres (token * nat))
           (lines : list string) (s : string) (k : nat) : Prop :=
  exists start l0 found e raw var coll,
    nth_error lines start = Some l0 /\ is_for_line (strip l0) = true /\
    loop_collect start (skipn start lines) start false 0%Z [] "" "" = POk (found, e, raw, var, coll) /\
    body_go fixed lf rc rl (loop_dedented raw) (loop_dedented raw) 0 0 [] [] = PDiag (DSyntax s k).

Definition loop_reparse (lines : list string) (s : string) (k : nat) : Prop :=
  exists n depth, loop_reparse_with (ecf n depth) (elf n depth) lines s k.

(* what holds of a diagnostic of an extractor that runs on `lines` *)
Definition Q (lines : list string) (s : string) (k : nat) : Prop :=
  k < length lines /\
  ((bsite s = true /\ (culprit_at lines s k \/ loop_reparse lines s k)) \/ CS s k).
(* ... and what is kept of it when `lines` is itself a dedented loop body *)
Definition W (L : list string) (s : string) (k : nat) : Prop :=
  k < length L /\ (bsite s = true \/ CS s k).

Lemma Q_W : forall L s k, Q L s k -> W L s k.
Proof. intros L s k [H1 [[H2 _]|H2]]; split; auto. Qed.

Lemma Q_of_CS : forall lines s k, 0 < length lines -> CS s k -> Q lines s k.
Proof. intros lines s k H [C ->]. split; auto. right. split; auto. Qed.

Lemma W_of_CS : forall lines s k, 0 < length lines -> CS s k -> W lines s k.
Proof. intros. apply Q_W. apply Q_of_CS; auto. Qed.

Lemma Q_culprit : forall lines s k l,
  nth_error lines k = Some l -> bsite s = true -> c_block s l = true -> Q lines s k.
Proof.
  intros lines s k l Hn Hb Hc. split; [eapply nth_error_lt; eauto|]. left. split; auto. left.
  exists l. split; auto. apply culprit_block. exact Hc.
Qed.

Lemma python_block_Q : forall fx lines start l, nth_error lines start = Some l ->
  diag_sat (Q lines) (extract_python_block_v fx lines start).
Proof.
  intros fx lines start l Hn. eapply ds_weaken; [apply python_block_diag; eauto|].
  intros s k (-> & Hb & Hc). eapply Q_culprit; eauto.
Qed.

(* flushes of pending text lines: content diagnostics without a line *)
Lemma content_line_glue_CS : forall content l, diag_sat CS (content_line_glue lf content l).
Proof.
  intros. unfold content_line_glue. destruct (glue_split l);
    (apply ds_bind; [apply Hcontent|intros; apply ds_ok]).
Qed.

Lemma flush_glue_lines_CS : forall ded content, diag_sat CS (flush_glue_lines lf content ded).
Proof.
  induction ded as [|l r IH]; intros content; cbn [flush_glue_lines]; [apply ds_ok|].
  apply ds_bind; [apply content_line_glue_CS|]. intros; apply IH.
Qed.

Lemma flush_plain_lines_CS : forall ded content, diag_sat CS (flush_plain_lines lf content ded).
Proof.
  induction ded as [|l r IH]; intros content; cbn [flush_plain_lines]; [apply ds_ok|].
  apply ds_bind; [apply Hcontent|]. intros; apply IH.
Qed.

Lemma flush_cur_CS : forall st, diag_sat CS (flush_cur fixed lf st).
Proof.
  intros st. unfold flush_cur. destruct (cs_cur st) as [[[c content] chs]|]; [|apply ds_ok].
  apply ds_bind; [|intros; apply ds_ok].
  destruct fixed; [apply flush_glue_lines_CS|apply flush_plain_lines_CS].
Qed.

Lemma finalize_CS : forall st, diag_sat CS (finalize lf st).
Proof.
  intros st. unfold finalize. destruct (cs_cur st) as [[[c content] chs]|]; [|apply ds_ok].
  apply ds_bind; [apply flush_glue_lines_CS|intros; apply ds_ok].
Qed.

Lemma start_new_branch_CS : forall st c cv, diag_sat CS (start_new_branch lf st c cv).
Proof. intros. unfold start_new_branch. apply ds_bind; [apply finalize_CS|intros; apply ds_ok]. Qed.

Lemma legacy_condition_diag : forall prefix site i s1 st,
  diag_sat (fun s k => s = site /\ k = i /\ match_legacy prefix s1 = None)
           (legacy_condition fixed prefix site i s1 st).
Proof.
  intros. unfold legacy_condition. destruct (match_legacy prefix s1); [apply ds_ok|].
  destruct fixed; [apply ds_diag; auto|]. destruct (cs_condvar st); [apply ds_ok|apply ds_internal].
Qed.

Section Bodies.
Variable rec_cond rec_loop : list string -> nat -> pres (token * nat).

Lemma cond_step_Q : forall lines start i line st,
  nth_error lines i = Some line ->
  (is_if_line (strip line) = true -> diag_sat (Q lines) (rec_cond lines i)) ->
  (is_for_line (strip line) = true -> diag_sat (Q lines) (rec_loop lines i)) ->
  diag_sat (Q lines) (cond_step fixed lf rec_cond rec_loop lines start i line st).
Proof.
  intros lines start i line st Hn Hc Hl.
  assert (Hpos : 0 < length lines) by (apply nth_error_lt in Hn; lia).
  assert (Hflush : forall st0, diag_sat (Q lines) (flush_cur fixed lf st0)).
  { intros st0. eapply ds_weaken; [apply flush_cur_CS|]. intros; apply Q_of_CS; auto. }
  assert (Hfin : forall st0 c cv, diag_sat (Q lines) (start_new_branch lf st0 c cv)).
  { intros. eapply ds_weaken; [apply start_new_branch_CS|]. intros; apply Q_of_CS; auto. }
  assert (Hhere : forall s, bsite s = true -> c_block s line = true -> Q lines s i).
  { intros s Hb Hs. eapply Q_culprit; eauto. }
  unfold cond_step. cbv zeta.
  destruct (startswith (strip line) "#"); [apply ds_ok|].
  destruct (is_py_line (strip line) && has_cur st).
  { apply ds_bind; [apply Hflush|]. intros st1 _.
    apply ds_bind; [eapply python_block_Q; eauto|]. intros; apply ds_ok. }
  destruct (startswith (strip line) "@input" && has_cur st).
  { apply ds_bind; [apply Hflush|]. intros st1 _.
    apply ds_bind; [apply ds_nodiag; apply Hinput|]. intros; apply ds_ok. }
  destruct (startswith (strip line) "@render" && has_cur st).
  { apply ds_bind; [apply Hflush|]. intros st1 _.
    apply ds_bind; [apply ds_nodiag; apply Hrender|]. intros; apply ds_ok. }
  destruct (startswith (strip line) "@hook " && has_cur st).
  { apply ds_bind; [apply Hflush|]. intros; apply ds_ok. }
  destruct (startswith (strip line) "@unhook " && has_cur st).
  { apply ds_bind; [apply Hflush|]. intros; apply ds_ok. }
  destruct (startswith (strip line) "~ " && has_cur st).
  { apply ds_bind; [apply Hflush|]. intros; apply ds_ok. }
  destruct (is_if_line (strip line) && negb (i =? start) && has_cur st) eqn:Eif.
  { apply andb_prop in Eif. destruct Eif as [Eif _]. apply andb_prop in Eif. destruct Eif as [Eif _].
    apply ds_bind; [apply Hflush|]. intros st1 _.
    apply ds_bind; [apply Hc; exact Eif|]. intros; apply ds_ok. }
  destruct (is_for_line (strip line) && has_cur st) eqn:Efor.
  { apply andb_prop in Efor. destruct Efor as [Efor _].
    apply ds_bind; [apply Hflush|]. intros st1 _.
    apply ds_bind; [apply Hl; exact Efor|]. intros; apply ds_ok. }
  destruct (is_if_line (strip line) && (i =? start)) eqn:Eopen.
  { apply andb_prop in Eopen. destruct Eopen as [Eopen _]. unfold is_if_line in Eopen.
    apply ds_bind; [|intros; apply ds_ok].
    destruct (startswith (strip line) "@if ") eqn:Enew.
    - destruct (match_colon_tail "@if" _) eqn:Em; [apply ds_ok|].
      apply ds_diag. apply Hhere; [reflexivity|].
      change (startswith (strip line) "@if " && is_none (match_colon_tail "@if" (sic1 line)) = true).
      unfold sic1. rewrite Enew, Em. reflexivity.
    - rewrite orb_false_r in Eopen.
      eapply ds_weaken; [apply legacy_condition_diag|]. intros s k (-> & -> & Em).
      apply Hhere; [reflexivity|].
      change (startswith (strip line) "<<if " && is_none (match_legacy "<<if" (sic1 line)) = true).
      unfold sic1. rewrite Eopen, Em. reflexivity. }
  destruct (String.eqb (strip line) "@endif:") eqn:Eec.
  { apply ds_diag. apply Hhere; [reflexivity|].
    change (String.eqb (strip line) "@endif:" = true). exact Eec. }
  destruct (startswith (strip line) "<<endif>>" || String.eqb (strip line) "@endif").
  { apply ds_bind; [|intros; apply ds_ok].
    eapply ds_weaken; [apply finalize_CS|]. intros; apply Q_of_CS; auto. }
  destruct (startswith (strip line) "<<elif " || startswith (strip line) "@elif ") eqn:Eelif.
  { apply ds_bind; [|intros; apply Hfin].
    destruct (startswith (strip line) "@elif ") eqn:Enew.
    - destruct (match_colon_tail "@elif" _) eqn:Em; [apply ds_ok|].
      apply ds_diag. apply Hhere; [reflexivity|].
      change (startswith (strip line) "@elif " && is_none (match_colon_tail "@elif" (sic1 line)) = true).
      unfold sic1. rewrite Enew, Em. reflexivity.
    - rewrite orb_false_r in Eelif.
      eapply ds_weaken; [apply legacy_condition_diag|]. intros s k (-> & -> & Em).
      apply Hhere; [reflexivity|].
      change (startswith (strip line) "<<elif " && is_none (match_legacy "<<elif" (sic1 line)) = true).
      unfold sic1. rewrite Eelif, Em. reflexivity. }
  destruct (startswith (strip line) "<<else>>" || startswith (strip line) "@else").
  { destruct (startswith (strip line) "@else" && _) eqn:Eelse; [|apply Hfin].
    apply ds_diag. apply Hhere; [reflexivity|].
    change (startswith (strip line) "@else" && negb (String.eqb (strip (sic1 line)) "@else:") = true).
    unfold sic1. exact Eelse. }
  destruct (startswith (strip line) "->").
  { destruct (jump_of lf (strip line)); [|apply ds_ok].
    destruct (has_cur st); [|apply ds_ok].
    apply ds_bind; [apply Hflush|]. intros; apply ds_ok. }
  destruct (is_choice_line (strip line) && has_cur st).
  { apply ds_bind; [apply Hflush|]. intros st1 _.
    apply ds_bind; [|intros; apply ds_ok].
    eapply ds_weaken; [apply Hchoice|]. intros; apply Q_of_CS; auto. }
  apply ds_ok.
Qed.

Lemma cond_go_Q : forall lines start l0,
  nth_error lines start = Some l0 -> is_if_line (strip l0) = true ->
  (forall j l, nth_error lines j = Some l -> is_if_line (strip l) = true ->
               diag_sat (Q lines) (rec_cond lines j)) ->
  (forall j l, nth_error lines j = Some l -> is_for_line (strip l) = true ->
               diag_sat (Q lines) (rec_loop lines j)) ->
  forall rest i skip st, skipn i lines = rest ->
  diag_sat (Q lines) (cond_go fixed lf rec_cond rec_loop lines start rest i skip st).
Proof.
  intros lines start l0 Hn0 Hif0 Hc Hl.
  induction rest as [|line rest IH]; intros i skip st Hs; cbn [cond_go].
  - apply ds_diag. eapply Q_culprit; [exact Hn0|reflexivity|exact Hif0].
  - destruct (skipn_cons_nth _ _ _ _ _ Hs) as [Hn Hs'].
    destruct skip as [|k]; [|apply IH; auto].
    pose proof (cond_step_Q lines start i line st Hn (Hc i line Hn) (Hl i line Hn)) as S1.
    destruct (cond_step fixed lf rec_cond rec_loop lines start i line st) as [[st' [|k]|brs]|d|e|].
    + apply ds_fuel.
    + apply IH; auto.
    + apply ds_ok.
    + intros s k E. apply S1. inversion E. reflexivity.
    + apply ds_internal.
    + apply ds_fuel.
Qed.

Lemma cond_body_Q : forall lines start l0,
  nth_error lines start = Some l0 -> is_if_line (strip l0) = true ->
  (forall j l, nth_error lines j = Some l -> is_if_line (strip l) = true ->
               diag_sat (Q lines) (rec_cond lines j)) ->
  (forall j l, nth_error lines j = Some l -> is_for_line (strip l) = true ->
               diag_sat (Q lines) (rec_loop lines j)) ->
  diag_sat (Q lines) (cond_body fixed lf rec_cond rec_loop lines start).
Proof. intros. unfold cond_body. eapply cond_go_Q; eauto. Qed.

(* the first loop of extract_loop_block: every diagnostic stands on the line it names *)
Lemma loop_collect_diag : forall lines start rest i started depth raw var coll,
  skipn i lines = rest ->
  diag_sat (fun s k => bsite s = true /\ exists l, nth_error lines k = Some l /\ c_block s l = true)
           (loop_collect start rest i started depth raw var coll).
Proof.
  intros lines start. induction rest as [|line rest IH]; intros i started depth raw var coll Hs;
    cbn [loop_collect]; [apply ds_ok|].
  destruct (skipn_cons_nth _ _ _ _ _ Hs) as [Hn Hs']. cbv zeta.
  destruct (is_for_line (strip line) && (i =? start)) eqn:Eopen.
  { apply andb_prop in Eopen. destruct Eopen as [Eopen _]. unfold is_for_line in Eopen.
    destruct (startswith (strip line) "@for ") eqn:Enew.
    - destruct (match_for_colon _) as [[v c]|] eqn:Em; [apply IH; auto|].
      apply ds_diag. split; [reflexivity|]. exists line. split; auto.
      change (startswith (strip line) "@for " && is_none (match_for_colon (sic1 line)) = true).
      unfold sic1. rewrite Enew, Em. reflexivity.
    - rewrite orb_false_r in Eopen.
      destruct (match_for_legacy _) as [[v c]|] eqn:Em; [apply IH; auto|].
      apply ds_diag. split; [reflexivity|]. exists line. split; auto.
      change (startswith (strip line) "<<for " && is_none (match_for_legacy (sic1 line)) = true).
      unfold sic1. rewrite Eopen, Em. reflexivity. }
  destruct (String.eqb (strip line) "@endfor:") eqn:Eec.
  { apply ds_diag. split; [reflexivity|]. exists line. split; auto. }
  destruct (started && is_for_line (strip line)); [apply IH; auto|].
  destruct (startswith (strip line) "<<endfor>>" || String.eqb (strip line) "@endfor").
  { destruct (_ =? 0)%Z; [apply ds_ok|apply IH; auto]. }
  apply IH; auto.
Qed.

(* the second loop, over the dedented copy *)
Lemma body_step_W : forall ded j line content chs,
  nth_error ded j = Some line ->
  (is_if_line (strip line) = true -> diag_sat (W ded) (rec_cond ded j)) ->
  (is_for_line (strip line) = true -> diag_sat (W ded) (rec_loop ded j)) ->
  diag_sat (W ded) (ParseBlocks.body_step fixed lf rec_cond rec_loop ded j line content chs).
Proof.
  intros ded j line content chs Hn Hc Hl.
  assert (Hpos : 0 < length ded) by (apply nth_error_lt in Hn; lia).
  unfold ParseBlocks.body_step. cbv zeta.
  destruct (startswith (strip line) "#"); [apply ds_ok|].
  destruct (is_py_line (strip line)).
  { apply ds_bind; [|intros; apply ds_ok].
    eapply ds_weaken; [eapply python_block_Q; eauto|apply Q_W]. }
  destruct (startswith (strip line) "@input").
  { apply ds_bind; [apply ds_nodiag; apply Hinput|]. intros; apply ds_ok. }
  destruct (startswith (strip line) "@render").
  { apply ds_bind; [apply ds_nodiag; apply Hrender|]. intros; apply ds_ok. }
  destruct (startswith (strip line) "@hook "); [apply ds_ok|].
  destruct (startswith (strip line) "@unhook "); [apply ds_ok|].
  destruct (startswith line "~ "); [apply ds_ok|].
  destruct (is_for_line (strip line)) eqn:Efor.
  { apply ds_bind; [apply Hl; reflexivity|]. intros; apply ds_ok. }
  destruct (is_if_line (strip line)) eqn:Eif.
  { apply ds_bind; [apply Hc; reflexivity|]. intros; apply ds_ok. }
  destruct (startswith (strip line) "->"); [apply ds_ok|].
  destruct (is_choice_line (strip line)).
  { apply ds_bind; [|intros; apply ds_ok].
    eapply ds_weaken; [apply Hchoice|]. intros; apply W_of_CS; auto. }
  apply ds_bind; [|intros; apply ds_ok].
  eapply ds_weaken; [apply content_line_glue_CS|]. intros; apply W_of_CS; auto.
Qed.

Lemma body_go_W : forall ded,
  (forall j l, nth_error ded j = Some l -> is_if_line (strip l) = true -> diag_sat (W ded) (rec_cond ded j)) ->
  (forall j l, nth_error ded j = Some l -> is_for_line (strip l) = true -> diag_sat (W ded) (rec_loop ded j)) ->
  forall rest j skip content chs, skipn j ded = rest ->
  diag_sat (W ded) (body_go fixed lf rec_cond rec_loop ded rest j skip content chs).
Proof.
  intros ded Hc Hl. induction rest as [|line rest IH]; intros j skip content chs Hs; cbn [body_go].
  - apply ds_ok.
  - destruct (skipn_cons_nth _ _ _ _ _ Hs) as [Hn Hs'].
    destruct skip as [|k]; [|apply IH; auto].
    pose proof (body_step_W ded j line content chs Hn (Hc j line Hn) (Hl j line Hn)) as S1.
    destruct (ParseBlocks.body_step fixed lf rec_cond rec_loop ded j line content chs)
      as [[[c' h'] [|k]]|d|e|].
    + apply ds_fuel.
    + apply IH; auto.
    + intros s k E. apply S1. inversion E. reflexivity.
    + apply ds_internal.
    + apply ds_fuel.
Qed.

Lemma loop_body_Q : forall lines start l0,
  nth_error lines start = Some l0 -> is_for_line (strip l0) = true ->
  (forall L j l, nth_error L j = Some l -> is_if_line (strip l) = true -> diag_sat (W L) (rec_cond L j)) ->
  (forall L j l, nth_error L j = Some l -> is_for_line (strip l) = true -> diag_sat (W L) (rec_loop L j)) ->
  (forall s k, loop_reparse_with rec_cond rec_loop lines s k -> loop_reparse lines s k) ->
  diag_sat (Q lines) (loop_body fixed lf rec_cond rec_loop lines start).
Proof.
  intros lines start l0 Hn0 Hfor0 Hc Hl HLR. unfold loop_body.
  pose proof (loop_collect_diag lines start (skipn start lines) start false 0%Z [] "" "" eq_refl) as HC.
  destruct (loop_collect start (skipn start lines) start false 0%Z [] "" "") as [r|d|e|] eqn:Ecol;
    cbn [pbind]; [|intros s k E; inversion E; subst| apply ds_internal| apply ds_fuel].
  2:{ destruct (HC s k eq_refl) as [Hb [l [Hl1 Hl2]]]. eapply Q_culprit; eauto. }
  destruct r as [[[[found e0] raw] var] coll].
  fold (loop_dedented raw).
  pose proof (loop_collect_bounds _ _ _ _ _ _ _ _ _ _ _ _ _ Ecol) as [Hlen _].
  assert (Hded : length (loop_dedented raw) <= length lines).
  { unfold loop_dedented. rewrite dedent_length. rewrite skipn_length in Hlen. cbn [length] in Hlen.
    destruct fixed; [pose proof (drop_leading_comments_length raw)|]; lia. }
  pose proof (body_go_W (loop_dedented raw) (Hc _) (Hl _) (loop_dedented raw) 0 0 [] [] eq_refl) as HB.
  destruct (body_go fixed lf rec_cond rec_loop (loop_dedented raw) (loop_dedented raw) 0 0 [] [])
    as [cc|d|e1|] eqn:Ebody; cbn [pbind].
  - destruct found; [apply ds_ok|]. apply ds_diag. eapply Q_culprit; [exact Hn0|reflexivity|exact Hfor0].
  - intros s k E. inversion E; subst. destruct (HB s k eq_refl) as [Hk [Hb|Hcs]].
    + split; [lia|]. left. split; auto. right. apply HLR.
      exists start, l0, found, e0, raw, var, coll. auto.
    + split; [lia|]. right. exact Hcs.
  - apply ds_internal.
  - apply ds_fuel.
Qed.

End Bodies.

(* the knot *)
Lemma extract_f_Q : forall n depth,
  (forall L j l, nth_error L j = Some l -> is_if_line (strip l) = true -> diag_sat (Q L) (ecf n depth L j)) /\
  (forall L j l, nth_error L j = Some l -> is_for_line (strip l) = true -> diag_sat (Q L) (elf n depth L j)).
Proof.
  induction n as [|n IH]; intros depth; split; intros L j l Hn Hh;
    cbn [extract_conditional_block_f extract_loop_block_f]; try apply ds_fuel.
  - destruct (too_deep cap depth).
    { apply ds_diag. eapply Q_culprit; [exact Hn|reflexivity|].
      change (is_if_line (strip l) || is_for_line (strip l) = true). rewrite Hh. reflexivity. }
    destruct (IH (S depth)) as [IHc IHl].
    eapply cond_body_Q; eauto.
  - destruct (too_deep cap depth).
    { apply ds_diag. eapply Q_culprit; [exact Hn|reflexivity|].
      change (is_if_line (strip l) || is_for_line (strip l) = true). rewrite Hh. apply orb_true_r. }
    destruct (IH (S depth)) as [IHc IHl].
    eapply loop_body_Q; eauto.
    + intros L' j' l' Hn' Hh'. eapply ds_weaken; [eapply IHc; eauto|apply Q_W].
    + intros L' j' l' Hn' Hh'. eapply ds_weaken; [eapply IHl; eauto|apply Q_W].
    + intros s k H. exists n, (S depth). exact H.
Qed.

Lemma extract_conditional_block_v_Q : forall lines start l0,
  nth_error lines start = Some l0 -> is_if_line (strip l0) = true ->
  diag_sat (Q lines) (extract_conditional_block_v fixed cap lf lines start).
Proof. intros. unfold extract_conditional_block_v. eapply (proj1 (extract_f_Q _ _)); eauto. Qed.

Lemma extract_loop_block_v_Q : forall lines start l0,
  nth_error lines start = Some l0 -> is_for_line (strip l0) = true ->
  diag_sat (Q lines) (extract_loop_block_v fixed cap lf lines start).
Proof. intros. unfold extract_loop_block_v. eapply (proj2 (extract_f_Q _ _)); eauto. Qed.

End Blocks.


(* ------------------------------------------------------------------------------------------- *)
(* 6. extract_join_choice_block: the content diagnostics of a block line stand on that line      *)
(* ------------------------------------------------------------------------------------------- *)
Lemma nth_error_skipn_plus : forall A start (ls : list A) j,
  nth_error (skipn start ls) j = nth_error ls (start + j).
Proof.
  induction start as [|n IH]; intros ls j; [reflexivity|].
  destruct ls as [|x r]; [destruct j; reflexivity|]. simpl. apply IH.
Qed.

Lemma join_collect_prefix : forall indent rest block k,
  exists taken rest', fst (join_collect indent rest block k) = block ++ taken /\ rest = taken ++ rest'.
Proof.
  intros indent. induction rest as [|line rest IH]; intros block k; cbn [join_collect].
  - exists [], []. rewrite app_nil_r. auto.
  - assert (Stop : exists taken rest', fst (block, k) = block ++ taken /\ line :: rest = taken ++ rest').
    { exists [], (line :: rest). rewrite app_nil_r. auto. }
    assert (Go : exists taken rest',
               fst (join_collect indent rest (block ++ [line]) (S k)) = block ++ taken /\
               line :: rest = taken ++ rest').
    { destruct (IH (block ++ [line]) (S k)) as (t & r' & E1 & E2).
      exists (line :: t), r'. rewrite E1, <- app_assoc. split; [reflexivity|]. rewrite E2. reflexivity. }
    destruct (is_join_block_terminator line); [exact Stop|].
    destruct (negb (ParseBlocks.nonempty (strip line)) || is_comment_line line); [exact Go|].
    destruct (ws_run line <=? indent); [exact Stop|exact Go].
Qed.

Lemma join_kept_nth : forall block j0 j l,
  In (j, l) (join_kept block j0) -> j0 <= j /\ nth_error block (j - j0) = Some l.
Proof.
  induction block as [|x r IH]; intros j0 j l H; cbn [join_kept] in H; [contradiction|].
  assert (K : In (j, l) (join_kept r (S j0)) -> j0 <= j /\ nth_error (x :: r) (j - j0) = Some l).
  { intros H1. apply IH in H1. destruct H1 as [H1 H2]. split; [lia|].
    replace (j - j0) with (S (j - S j0)) by lia. exact H2. }
  destruct (is_comment_line x); [auto|].
  destruct H as [H|H]; [|auto]. inversion H; subst. split; [lia|]. rewrite Nat.sub_diag. reflexivity.
Qed.

Lemma combine_map_in : forall (A B C : Type) (f : B -> C) (K : list (A * B)) a c,
  In (a, c) (combine (map fst K) (map f (map snd K))) -> exists b, In (a, b) K /\ c = f b.
Proof.
  induction K as [|[a0 b0] r IH]; intros a c H; simpl in H; [contradiction|].
  destruct H as [H|H].
  - inversion H; subst. exists b0. split; [left; reflexivity|reflexivity].
  - destruct (IH a c H) as (b & Hb & E). exists b. split; [right; exact Hb|exact E].
Qed.

Lemma length_lstrip_le : forall s, String.length (lstrip s) <= String.length s.
Proof. induction s as [|c r IH]; simpl; auto. destruct (is_space c); simpl; lia. Qed.

Lemma dedent_line_drop : forall base l, exists b, b <= String.length l /\ dedent_line base l = drop b l.
Proof.
  intros base l. unfold dedent_line.
  destruct (is_blank l); [exists 0; split; [lia|destruct l; reflexivity]|].
  destruct (base <=? indent_of l) eqn:E.
  - exists base. split; auto. apply Nat.leb_le in E. unfold indent_of in E. lia.
  - exists 0. split; [lia|destruct l; reflexivity].
Qed.

Lemma dedent_as_map : forall ls, exists f,
  detect_and_strip_indentation ls = map f ls /\
  forall l, exists b, b <= String.length l /\ f l = drop b l.
Proof.
  intros ls. unfold detect_and_strip_indentation. destruct (base_indent ls) as [base|].
  - exists (dedent_line base). split; auto. intros; apply dedent_line_drop.
  - exists (fun l => l). split; [symmetry; apply map_id|].
    intros l. exists 0. split; [lia|destruct l; reflexivity].
Qed.

Lemma join_parse_diag : forall lf start items content exec,
  diag_sat (fun s k => exists j dl, In (j, dl) items /\ k = start + j /\ site_is (lf_content lf dl) s = true)
           (join_parse lf start items content exec).
Proof.
  intros lf start. induction items as [|[j line] r IH]; intros content exec; cbn [join_parse]; [apply ds_ok|].
  assert (Next : forall c e, diag_sat (fun s k => exists j0 dl, In (j0, dl) ((j, line) :: r) /\ k = start + j0 /\
                                site_is (lf_content lf dl) s = true) (join_parse lf start r c e)).
  { intros c e. eapply ds_weaken; [apply IH|]. intros s k (j0 & dl & Hin & Hk & Hs).
    exists j0, dl. split; [right; exact Hin|auto]. }
  cbv zeta.
  destruct (negb (ParseBlocks.nonempty (strip line))); [apply Next|].
  destruct (startswith (strip line) "#"); [apply Next|].
  destruct (startswith (strip line) "~"); [apply Next|].
  destruct (startswith (strip line) "@hook "); [destruct (hook_parts _) as [[e t]|]; apply Next|].
  destruct (startswith (strip line) "@unhook "); [destruct (hook_parts _) as [[e t]|]; apply Next|].
  apply ds_bind; [|intros; apply Next].
  intros s k E. apply at_line_inv in E. destruct E as [-> Hs].
  exists j, line. split; [left; reflexivity|auto].
Qed.

Lemma extract_join_diag : forall lf lines start indent,
  diag_sat (fun s k => exists l b, nth_error lines k = Some l /\ b <= String.length l /\
                                   site_is (lf_content lf (drop b l)) s = true)
           (extract_join_choice_block lf lines start indent).
Proof.
  intros lf lines start indent. unfold extract_join_choice_block.
  destruct (join_collect_prefix indent (skipn start lines) [] 0) as (taken & rest' & E1 & E2).
  destruct (join_collect indent (skipn start lines) [] 0) as [block k0]. cbn [fst app] in E1. subst block.
  destruct taken as [|t0 tr]; [apply ds_ok|]. cbv zeta.
  destruct (dedent_as_map (map snd (join_kept (t0 :: tr) 0))) as (f & Ef & Hf). rewrite Ef.
  apply ds_bind; [|intros; apply ds_ok].
  eapply ds_weaken; [apply join_parse_diag|].
  intros s k (j & dl & Hin & -> & Hs).
  apply combine_map_in in Hin. destruct Hin as (l & Hl & ->).
  apply join_kept_nth in Hl. destruct Hl as [_ Hl]. rewrite Nat.sub_0_r in Hl.
  destruct (Hf l) as (b & Hb & Eb). rewrite Eb in Hs.
  exists l, b. split; [|auto].
  rewrite <- nth_error_skipn_plus. rewrite E2. rewrite nth_error_app1; [exact Hl|].
  eapply nth_error_lt; eauto.
Qed.

(* ------------------------------------------------------------------------------------------- *)
(* 7. the post pass validate_passage_arguments: "call:*" sites, dummy index 0                    *)
(* ------------------------------------------------------------------------------------------- *)
Definition CALL (s : string) (k : nat) : Prop := callsite s = true /\ k = 0.

Section Post.
Variable pp : pyparse.
Variable is_call : string -> bool.

Lemma add_positional_nodiag : forall n names i acc d, add_positional n names i acc <> PDiag d.
Proof.
  induction n as [|n IH]; intros names i acc d; cbn [add_positional]; [discriminate|].
  destruct (nth_error names i); [apply IH|discriminate].
Qed.

Lemma validate_single_call_CALL : forall ps tg a, diag_sat CALL (validate_single_call pp is_call ps tg a).
Proof.
  intros ps tg a. unfold validate_single_call.
  assert (D : forall A s, callsite s = true -> diag_sat CALL (@dsyn A s 0)).
  { intros A s H. apply ds_dsyn. split; auto. }
  destruct (String.eqb tg "@join"); [apply ds_ok|].
  destruct (lookup tg ps) as [tp|]; [|apply D; reflexivity].
  destruct (params tp) as [|p0 pr]; [destruct (ParseLine.nonempty a); [apply D; reflexivity|apply ds_ok]|].
  destruct (py_call_shape pp a) as [[npos kws]|]; [|apply D; reflexivity].
  destruct (negb (is_call a)); [apply D; reflexivity|].
  destruct (str_in "*" kws || str_in "**" kws); [apply D; reflexivity|].
  destruct (has_repeat kws); [apply D; reflexivity|].
  destruct (List.length (p0 :: pr) <? npos); [apply D; reflexivity|].
  destruct (existsb _ kws); [apply D; reflexivity|].
  apply ds_bind; [apply ds_nodiag; apply add_positional_nodiag|]. intros pos _.
  destruct (existsb _ _); [apply D; reflexivity|].
  destruct (existsb _ pos); [apply D; reflexivity|apply ds_ok].
Qed.

Variable ps : list (string * passage).

Lemma check_choices_CALL : forall cs, diag_sat CALL (check_choices pp is_call ps cs).
Proof.
  induction cs as [|c r IH]; cbn [check_choices]; [apply ds_ok|].
  apply ds_bind; [apply validate_single_call_CALL|intros; apply IH].
Qed.

Lemma check_tokens_CALL_F : forall l,
  Forall (fun t => diag_sat CALL (check_token pp is_call ps t)) l -> diag_sat CALL (check_tokens pp is_call ps l).
Proof.
  induction 1; cbn [check_tokens]; [apply ds_ok|]. apply ds_bind; auto.
Qed.

Lemma check_token_CALL : forall t, diag_sat CALL (check_token pp is_call ps t).
Proof.
  induction t using EngineBase.token_ind'; try (simpl; apply ds_ok).
  - (* TCond *)
    simpl. induction H as [|[c cont chs] r [Hcont Hchs] Hr IH]; [apply ds_ok|].
    apply ds_bind; [apply check_choices_CALL|]. intros _ _.
    apply ds_bind; [|intros; apply IH].
    change (diag_sat CALL (toks_fix pp is_call ps cont)). rewrite toks_fix_eq. apply check_tokens_CALL_F. exact Hcont.
  - (* TLoop *)
    simpl. apply ds_bind; [apply check_choices_CALL|]. intros _ _.
    change (diag_sat CALL (toks_fix pp is_call ps cont)). rewrite toks_fix_eq. apply check_tokens_CALL_F. exact H.
  - (* TJump *)
    simpl. destruct (String.eqb _ "@join"); [apply ds_dsyn; split; reflexivity|apply validate_single_call_CALL].
Qed.

Lemma check_tokens_CALL : forall l, diag_sat CALL (check_tokens pp is_call ps l).
Proof. intros. apply check_tokens_CALL_F. apply Forall_forall. intros. apply check_token_CALL. Qed.

Lemma validate_passages_CALL : forall todo, diag_sat CALL (validate_passages pp is_call ps todo).
Proof.
  induction todo as [|[k p] r IH]; cbn [validate_passages]; [apply ds_ok|].
  apply ds_bind; [apply check_choices_CALL|]. intros _ _.
  apply ds_bind; [apply check_tokens_CALL|intros; apply IH].
Qed.
End Post.

Lemma determine_initial_nosyntax : forall P ps es, diag_sat P (determine_initial_passage ps es).
Proof.
  intros P ps es. unfold determine_initial_passage. destruct ps as [|[k p] r]; [apply ds_dvalue|].
  assert (S1 : forall n, diag_sat P (startable ((k, p) :: r) n)).
  { intros n. unfold startable. destruct (lookup n _); [|apply ds_internal].
    destruct (existsb _ _); [apply ds_dvalue|apply ds_ok]. }
  destruct es as [s|]; [|apply S1]. destruct (ParseLine.nonempty s); [|apply S1].
  destruct (has_key s _); [apply S1|apply ds_dvalue].
Qed.


(* ------------------------------------------------------------------------------------------- *)
(* 8. the main loop, with the extractors of the current /repo                                   *)
(* ------------------------------------------------------------------------------------------- *)
Lemma real_content_CS : forall l, diag_sat CS (lf_content real_linefns l).
Proof. intros l. apply parse_content_line_CS. Qed.
Lemma real_choice_CS : forall l, diag_sat CS (lf_choice real_linefns l).
Proof. intros l. apply parse_choice_line_CS. Qed.
Lemma real_render_nodiag : forall l d, lf_render real_linefns l <> PDiag d.
Proof. intros l d. apply parse_render_line_nocontext_diag. Qed.
Lemma real_input_nodiag : forall l d, lf_input real_linefns l <> PDiag d.
Proof. intros l d. apply parse_input_line_nocontext. Qed.

(* kind (b): raised while the dedented body of the loop opening on some line `start` was re-parsed *)
Definition raised_in_loop_body (lines : list string) (s : string) (k : nat) : Prop :=
  loop_reparse true (Some max_block_depth) real_linefns lines s k.

(* kind (c): raised, without a line, by the @if / @for extractor the main loop called on line i0 *)
Definition raised_in_block (lines : list string) (s : string) : Prop :=
  exists i0 l0, nth_error lines i0 = Some l0 /\
    ((is_if_line (strip l0) = true /\ extract_conditional_block_real lines i0 = PDiag (DSyntax s 0)) \/
     (is_for_line (strip l0) = true /\ extract_loop_block_real lines i0 = PDiag (DSyntax s 0))).

(* kind (s): a `~` statement starts on line k, Python's parser rejects the assembled statement (cc, n lines
   consumed) and blames the line py_stmt_errline pp cc (0-based) of the text it was given: the index is k + off with
   off = min (py_stmt_errline pp cc) (n - 1), as core.py computes it since fix F14c
   (`error_line = i + min(max(py_offset, 0), lines_consumed - 1)`) *)
Definition stmt_site : string := "stmt:python-syntax".
Definition stmt_rejected_at (pp : pyparse) (lines : list string) (k off n : nat) : Prop :=
  exists l code cm cc,
    nth_error lines k = Some l /\ startswith l "~ " = true /\
    strip_inline_comment (strip (drop 2 l)) = (code, cm) /\
    extract_multiline_expression lines k code = (cc, n) /\
    py_stmt_ok pp cc = false /\ off = Nat.min (py_stmt_errline pp cc) (n - 1).
Definition stmt_blamed (pp : pyparse) (lines : list string) (i : nat) : Prop :=
  exists k off n, stmt_rejected_at pp lines k off n /\ i = k + off.

(* line i lies inside the statement that starts at the `~` line k: k <= i < k + consumed *)
Definition stmt_consumed (lines : list string) (k : nat) (l : string) : nat :=
  snd (extract_multiline_expression lines k (fst (strip_inline_comment (strip (drop 2 l))))).
Definition inside_statement (lines : list string) (i : nat) : Prop :=
  exists k l, nth_error lines k = Some l /\ startswith l "~ " = true /\
              k <= i /\ i < k + stmt_consumed lines k l /\ k + stmt_consumed lines k l <= length lines.
(* the same, decidable (used by the harness and the examples) *)
Definition stmt_covers (lines : list string) (i k : nat) : bool :=
  match nth_error lines k with
  | Some l => startswith l "~ " && (k <=? i) && (i <? k + stmt_consumed lines k l)
              && (k + stmt_consumed lines k l <=? length lines)
  | None => false
  end.
Definition inside_statement_b (lines : list string) (i : nat) : bool :=
  existsb (stmt_covers lines i) (seq 0 (S i)).

Lemma inside_statement_b_iff : forall lines i, inside_statement_b lines i = true <-> inside_statement lines i.
Proof.
  intros lines i. unfold inside_statement_b, inside_statement. rewrite existsb_exists. split.
  - intros (k & _ & H). unfold stmt_covers in H. destruct (nth_error lines k) as [l|] eqn:E; [|discriminate].
    apply andb_prop in H. destruct H as [H H4]. apply andb_prop in H. destruct H as [H H3].
    apply andb_prop in H. destruct H as [H1 H2].
    apply Nat.leb_le in H2. apply Nat.ltb_lt in H3. apply Nat.leb_le in H4. exists k, l. repeat split; auto.
  - intros (k & l & Hn & H1 & H2 & H3 & H4). exists k. split; [apply in_seq; lia|].
    unfold stmt_covers. rewrite Hn, H1. apply Nat.leb_le in H2. apply Nat.ltb_lt in H3. apply Nat.leb_le in H4.
    rewrite H2, H3, H4. reflexivity.
Qed.

(* what fix F14c does (`i + min(max(offset, 0), lines_consumed - 1)`): a clamped offset stays inside the statement
   for EVERY answer of Python's parser, on every line list *)
Lemma clamped_stmt_index_inside_lemma : forall lines k l off,
  nth_error lines k = Some l -> startswith l "~ " = true ->
  inside_statement lines (k + Nat.min off (stmt_consumed lines k l - 1)).
Proof.
  intros lines k l off Hn Hs.
  assert (Hk : k < length lines) by (apply nth_error_Some; rewrite Hn; discriminate).
  unfold stmt_consumed.
  destruct (extract_multiline_expression lines k (fst (strip_inline_comment (strip (drop 2 l))))) as [cc n] eqn:E.
  destruct (emx_extent _ _ _ _ _ Hk E) as [Hn1 Hext].
  exists k, l. unfold stmt_consumed. rewrite E. cbn [snd]. repeat split; auto; lia.
Qed.

(* ... hence kind (s) puts the index inside the statement: no premise on Python's parser or on the lines *)
Lemma stmt_blamed_inside : forall pp lines i, stmt_blamed pp lines i -> inside_statement lines i.
Proof.
  intros pp lines i (k & off & n & (l & code & cm & cc & Hn & Hs & Hsic & Hemx & Hrej & ->) & ->).
  pose proof (clamped_stmt_index_inside_lemma lines k l (py_stmt_errline pp cc) Hn Hs) as H.
  unfold stmt_consumed in H. rewrite Hsic in H. cbn [fst] in H. rewrite Hemx in H. cbn [snd] in H. exact H.
Qed.

(* Python blames a line of the text it was given: the offset is at most the number of line feeds of the statement.
   (True of CPython for statements without a bare carriage return -- harness/diag_index_tie.py counts the rejected
   statements for which it is not.)  Then, on lines of source.split("\n"), the clamp is the identity: the index is
   the `~` line + the offset Python blames, as before fix F14c. *)
Definition errline_inside (pp : pyparse) : Prop :=
  forall code, py_stmt_ok pp code = false -> py_stmt_errline pp code <= count_nl code.

Lemma clamp_is_identity_lemma : forall pp lines k off n,
  errline_inside pp -> Forall no_nl lines -> stmt_rejected_at pp lines k off n ->
  exists cc, extract_multiline_expression lines k
               (fst (strip_inline_comment (strip (drop 2 (nth k lines EmptyString))))) = (cc, n) /\
             off = py_stmt_errline pp cc.
Proof.
  intros pp lines k off n Hpp HF (l & code & cm & cc & Hn & Hs & Hsic & Hemx & Hrej & ->).
  assert (Hl : no_nl l) by (rewrite Forall_forall in HF; apply HF; eapply nth_error_In; eauto).
  assert (Hcode : no_nl code).
  { pose proof (stmt_code_no_nl l Hl) as H. rewrite Hsic in H. exact H. }
  pose proof (emx_count_nl _ _ _ _ _ HF Hcode Hemx) as Hcnt.
  pose proof (Hpp cc Hrej) as Hoff.
  exists cc. rewrite (nth_error_nth _ _ EmptyString Hn). rewrite Hsic. cbn [fst]. split; [exact Hemx|]. lia.
Qed.

(* the line kinds (a), (b), (c) *)
Definition Gl (lines : list string) (s : string) (k : nat) : Prop :=
  k < length lines /\
  (culprit_at lines s k \/
   (bsite s = true /\ raised_in_loop_body lines s k) \/
   (csite s = true /\ k = 0 /\ raised_in_block lines s)).
Definition G (pp : pyparse) (lines : list string) (s : string) (k : nat) : Prop :=
  Gl lines s k \/ (s = stmt_site /\ stmt_blamed pp lines k).

Lemma G_culprit : forall lines s k l f,
  nth_error lines k = Some l -> In f culprit_families -> f s l = true -> Gl lines s k.
Proof.
  intros lines s k l f Hn Hin Hf. split; [eapply nth_error_lt; eauto|]. left.
  exists l. split; auto. eapply culprit_intro; eauto.
Qed.

Lemma existsb_seq_intro : forall (p : nat -> bool) n b, b < n -> p b = true -> existsb p (seq 0 n) = true.
Proof.
  intros p n b Hb Hp. apply existsb_exists. exists b. split; auto. apply in_seq. lia.
Qed.

Lemma content_direct_drop : forall s l b,
  b <= String.length l -> site_is (parse_content_line (drop b l)) s = true -> content_direct s l = true.
Proof.
  intros s l b Hb Hs. unfold content_direct.
  rewrite (existsb_seq_intro (fun b0 => site_is (parse_content_line (drop b0 l)) s) _ b); auto; [|lia].
  apply orb_true_r.
Qed.

(* a diagnostic of parse_content_line on (a dedented / unglued form of) line k is located on line k *)
Lemma content_direct_G : forall lines s k l,
  nth_error lines k = Some l -> csite s = true -> content_direct s l = true -> Gl lines s k.
Proof.
  intros lines s k l Hn Hc Hd.
  apply (G_culprit lines _ k l c_content); [exact Hn|fam|].
  unfold c_content. rewrite Hc, Hd. reflexivity.
Qed.

Lemma site_is_CS : forall A (m : pres A) s, diag_sat CS m -> site_is m s = true -> csite s = true.
Proof.
  intros A m s H Hs. destruct m as [a|[s0 k0|v]|e|]; simpl in Hs; try discriminate.
  apply String.eqb_eq in Hs. subst. exact (proj1 (H s k0 eq_refl)).
Qed.

Lemma drop_0 : forall l, drop 0 l = l.
Proof. destruct l; reflexivity. Qed.

Section Main.
Variable pp : pyparse.
Variable is_call : string -> bool.

Lemma body_step_G : forall lines i line st cp,
  nth_error lines i = Some line ->
  diag_sat (G pp lines) (ParseMain.body_step pp real_extractors lines i line st cp).
Proof.
  intros lines i line st cp Hn.
  assert (Hhere : forall s f, In f culprit_families -> f s line = true -> G pp lines s i).
  { intros s f Hin Hf. left. eapply G_culprit; eauto. }
  assert (Hretag : forall A (m : pres A) f, In f culprit_families ->
            (forall s, site_is m s = true -> f s line = true) -> diag_sat (G pp lines) (retag i m)).
  { intros A m f Hin Hf s k E. apply retag_inv in E. destruct E as [-> Hs]. eapply Hhere; eauto. }
  unfold ParseMain.body_step. cbv zeta.
  destruct (startswith (strip line) "#"); [apply ds_ok|].
  destruct (startswith (strip line) "<<py" || startswith (strip line) "@py").
  { apply ds_bind; [|intros [code consumed] _; apply ds_ok].
    cbn [x_python real_extractors]. unfold extract_python_block.
    eapply ds_weaken; [eapply python_block_diag; eauto|].
    intros s k (-> & Hb & Hc). apply (Hhere s c_block); [fam|exact Hc]. }
  destruct (startswith (strip line) "<<if " || startswith (strip line) "@if ") eqn:Eif.
  { apply ds_bind; [|intros [t consumed] _; apply ds_ok].
    cbn [x_conditional real_extractors].
    intros s k E.
    pose proof (extract_conditional_block_v_Q true (Some max_block_depth) real_linefns
                  real_content_CS real_choice_CS real_render_nodiag real_input_nodiag
                  lines i line Hn Eif s k E) as [Hk [[Hb [Hc|Hr]]|[Hc ->]]].
    - left; split; auto.
    - left; split; auto.
    - left; split; auto. right; right. repeat split; auto. exists i, line. split; auto. }
  destruct (startswith (strip line) "<<for " || startswith (strip line) "@for ") eqn:Efor.
  { apply ds_bind; [|intros [t consumed] _; apply ds_ok].
    cbn [x_loop real_extractors].
    intros s k E.
    pose proof (extract_loop_block_v_Q true (Some max_block_depth) real_linefns
                  real_content_CS real_choice_CS real_render_nodiag real_input_nodiag
                  lines i line Hn Efor s k E) as [Hk [[Hb [Hc|Hr]]|[Hc ->]]].
    - left; split; auto.
    - left; split; auto.
    - left; split; auto. right; right. repeat split; auto. exists i, line. split; auto. }
  destruct (startswith (strip line) "@render") eqn:Erender.
  { apply ds_bind; [|intros [t|] _; apply ds_ok].
    apply (Hretag _ _ c_render); [fam|]. intros s Hs. unfold c_render. rewrite Erender, Hs. reflexivity. }
  destruct (startswith (strip line) "@input") eqn:Einput.
  { apply ds_bind; [|intros [t|] _; apply ds_ok].
    apply (Hretag _ _ c_input); [fam|]. intros s Hs. unfold c_input. rewrite Einput, Hs. reflexivity. }
  destruct (startswith (strip line) "@hook ") eqn:Ehook.
  { assert (D : is3 (split_ws (strip line)) = false -> diag_sat (G pp lines) (@dsyn (pstate * nat) "hook:arity" i)).
    { intros E3. apply ds_dsyn. apply (Hhere _ c_hook); [fam|]. unfold c_hook. rewrite Ehook, E3. reflexivity. }
    destruct (split_ws (strip line)) as [|a [|b [|c [|d r]]]]; try (apply D; reflexivity). apply ds_ok. }
  destruct (startswith (strip line) "@unhook ") eqn:Eunhook.
  { assert (D : is3 (split_ws (strip line)) = false -> diag_sat (G pp lines) (@dsyn (pstate * nat) "unhook:arity" i)).
    { intros E3. apply ds_dsyn. apply (Hhere _ c_unhook); [fam|]. unfold c_unhook. rewrite Eunhook, E3. reflexivity. }
    destruct (split_ws (strip line)) as [|a [|b [|c [|d r]]]]; try (apply D; reflexivity). apply ds_ok. }
  destruct (String.eqb (strip line) "@join"); [apply ds_ok|].
  destruct (startswith (strip line) "->").
  { destruct (arrow_rest _); [destruct (extract_target_and_args _)|]; apply ds_ok. }
  destruct (startswith line "~ ") eqn:Estmt.
  { destruct (strip_inline_comment _) as [code cm] eqn:Esic.
    destruct (extract_multiline_expression lines i code) as [cc n] eqn:Eemx.
    destruct (py_stmt_ok pp cc) eqn:Erej; [apply ds_ok|].
    apply ds_dsyn. right. split; [reflexivity|].
    exists i, (Nat.min (py_stmt_errline pp cc) (n - 1)), n. split; [|reflexivity].
    exists line, code, cm, cc. repeat split; auto. }
  destruct (startswith line "+ " || startswith line "* ") eqn:Echoice.
  { apply ds_bind.
    { intros s k E. apply validate_choice_syntax_inv in E. destruct E as [-> Hs].
      apply (Hhere _ c_choice); [fam|]. unfold c_choice, is_choice_start. rewrite Echoice, Hs. reflexivity. }
    intros [] Hval.
    apply ds_bind.
    { intros s k E. apply retag_inv in E. destruct E as [-> Hs].
      pose proof (site_is_CS _ _ _ (parse_choice_line_CS line) Hs) as Hc.
      apply (Hhere _ c_content); [fam|]. unfold c_content, choice_text_rejected.
      rewrite Hc, Echoice, Hs. cbn [andb]. apply orb_true_r. }
    intros oc Hoc. apply retag_ok in Hoc.
    destruct oc as [[text target args cond sticky sec tags blk]|].
    - destruct (String.eqb target "@join"); [|apply ds_ok].
      apply ds_bind; [|intros [[bc be] consumed] _; apply ds_ok].
      cbn [x_join real_extractors]. unfold extract_join_choice_block_real.
      eapply ds_weaken; [apply extract_join_diag|].
      intros s k (l & b & Hl & Hb & Hs). cbn [lf_content real_linefns] in Hs.
      left. eapply content_direct_G; [exact Hl| |apply (content_direct_drop s l b); auto].
      eapply site_is_CS; [|exact Hs]. apply parse_content_line_CS.
    - apply ds_dsyn. apply (Hhere _ c_unparsed); [fam|]. unfold c_unparsed, is_choice_start.
      rewrite Echoice, (validate_choice_syntax_ok_index _ _ 0 Hval), Hoc. reflexivity. }
  destruct (ParseLine.nonempty (strip line)); [|apply ds_ok].
  destruct (endswith (rstrip line) "<>").
  - apply ds_bind; [|intros; apply ds_ok].
    intros s k E. apply retag_inv in E. destruct E as [-> Hs]. fold (unglued line) in Hs.
    left. eapply content_direct_G; [exact Hn| |].
    + eapply site_is_CS; [|exact Hs]. apply parse_content_line_CS.
    + unfold content_direct. rewrite Hs. reflexivity.
  - apply ds_bind; [|intros; apply ds_ok].
    intros s k E. apply retag_inv in E. destruct E as [-> Hs].
    left. eapply content_direct_G; [exact Hn| |].
    + eapply site_is_CS; [|exact Hs]. apply parse_content_line_CS.
    + apply (content_direct_drop s line 0); [lia|rewrite drop_0; exact Hs].
Qed.

Lemma parse_step_G : forall lines i line st,
  nth_error lines i = Some line ->
  diag_sat (G pp lines) (parse_step pp real_extractors lines i line st).
Proof.
  intros lines i line st Hn. unfold parse_step. cbv zeta.
  match goal with |- diag_sat _ (match ?p with inl _ => _ | inr _ => _ end) => destruct p as [st1|r] end;
    [|apply ds_ok].
  destruct (String.eqb (strip line) "@metadata"); [apply ds_ok|].
  match goal with |- diag_sat _ (match ?p with inl _ => _ | inr _ => _ end) => destruct p as [st2|r] end;
    [|apply ds_ok].
  destruct (startswith (strip line) "@start "); [apply ds_ok|].
  destruct (startswith line ":: ") eqn:Ehdr.
  { destruct (strip_inline_comment (strip (drop 3 line))) as [hdr cm] eqn:E1.
    destruct (extract_passage_params hdr) as [nwp ps] eqn:E2.
    destruct (parse_tags nwp) as [name tags] eqn:E3.
    assert (HP : header_parts line = (name, ps)).
    { unfold header_parts. rewrite E1, E2, E3. reflexivity. }
    apply ds_bind.
    { intros s k E. apply validate_passage_name_inv in E. destruct E as [-> Hs].
      left. eapply G_culprit; [exact Hn| |]; [unfold culprit_families; simpl; left; reflexivity|].
      unfold c_header. rewrite Ehdr, HP. cbn [fst snd]. rewrite Hs. reflexivity. }
    intros _ _. apply ds_bind; [|intros; apply ds_ok].
    destruct (ParseLine.nonempty ps) eqn:Eps; [|apply ds_ok].
    intros s k E. apply retag_inv in E. destruct E as [-> Hs].
    left. eapply G_culprit; [exact Hn| |]; [unfold culprit_families; simpl; left; reflexivity|].
    unfold c_header. rewrite Ehdr, HP. cbn [fst snd]. rewrite Eps, Hs. cbn [andb]. apply orb_true_r. }
  destruct (st_current st2); [apply body_step_G; auto|apply ds_ok].
Qed.

Lemma parse_loop_G : forall fuel lines i st,
  diag_sat (G pp lines) (parse_loop pp real_extractors fuel lines (length lines) i st).
Proof.
  induction fuel as [|f IH]; intros lines i st; cbn [parse_loop].
  - destruct (length lines <=? i); [apply ds_ok|apply ds_fuel].
  - destruct (length lines <=? i); [apply ds_ok|].
    destruct (nth_error lines i) as [line|] eqn:En; [|apply ds_internal].
    apply ds_bind; [apply parse_step_G; auto|]. intros [st' i'] _. apply IH.
Qed.

(* the whole of parse: kind (d) is added by the post pass *)
Definition G' (lines : list string) (s : string) (k : nat) : Prop :=
  (k < length lines /\
   (culprit_at lines s k \/
    (bsite s = true /\ raised_in_loop_body lines s k) \/
    (csite s = true /\ k = 0 /\ raised_in_block lines s) \/
    (callsite s = true /\ k = 0))) \/
  (s = stmt_site /\ stmt_blamed pp lines k).

Lemma parse_G' : forall ls, diag_sat (G' (prepass ls)) (parse_real pp is_call ls).
Proof.
  intros ls. unfold parse_real, parse. fold (prepass ls).
  destruct (prepass ls) as [|l0 lr] eqn:Epre.
  { intros s k E. vm_compute in E. discriminate. }
  rewrite <- Epre. assert (Hpos : 0 < length (prepass ls)) by (rewrite Epre; simpl; lia).
  apply ds_bind.
  { eapply ds_weaken; [apply parse_loop_G|]. intros s k [[Hk H]|H]; [|right; exact H]. left. split; [exact Hk|].
    destruct H as [H|[H|H]]; [left; exact H|right; left; exact H|right; right; left; exact H]. }
  intros st _. apply ds_bind; [unfold check_duplicate_passages; destruct (existsb _ _); [apply ds_dvalue|apply ds_ok]|].
  intros _ _. apply ds_bind.
  { eapply ds_weaken; [apply validate_passages_CALL|]. intros s k [Hc ->]. left. split; [exact Hpos|].
    right; right; right. split; [exact Hc|reflexivity]. }
  intros _ _. apply ds_bind; [apply determine_initial_nosyntax|intros; apply ds_ok].
Qed.

End Main.


(* ------------------------------------------------------------------------------------------- *)
(* 9. the four site lists are pairwise disjoint, and every site of a culprit is in one of them   *)
(* ------------------------------------------------------------------------------------------- *)
Ltac enum H := apply str_in_In in H; simpl in H;
  repeat (destruct H as [H|H]; [subst; reflexivity|]); contradiction.

Lemma bsite_not_msite : forall s, bsite s = true -> msite s = false.
Proof. intros s H. enum H. Qed.
Lemma bsite_not_csite : forall s, bsite s = true -> csite s = false.
Proof. intros s H. enum H. Qed.
Lemma bsite_not_callsite : forall s, bsite s = true -> callsite s = false.
Proof. intros s H. enum H. Qed.
Lemma csite_not_msite : forall s, csite s = true -> msite s = false.
Proof. intros s H. enum H. Qed.
Lemma csite_not_callsite : forall s, csite s = true -> callsite s = false.
Proof. intros s H. enum H. Qed.
Lemma callsite_not_msite : forall s, callsite s = true -> msite s = false.
Proof. intros s H. enum H. Qed.

Definition MS (s : string) (k : nat) : Prop := msite s = true.

Ltac ds_walk :=
  repeat first
    [ apply ds_ok | apply ds_internal | apply ds_fuel | apply ds_dvalue
    | apply ds_dsyn; reflexivity | apply ds_diag; reflexivity
    | apply ds_bind; [|intros]
    | match goal with
      | |- diag_sat _ (if ?b then _ else _) => destruct b
      | |- diag_sat _ (let (_, _) := ?x in _) => destruct x
      | |- diag_sat _ (match ?x with _ => _ end) => destruct x
      end ].

Lemma validate_choice_syntax_MS : forall l i, diag_sat MS (validate_choice_syntax l i).
Proof. intros l i. unfold validate_choice_syntax, index_char. cbv zeta. ds_walk. Qed.

Lemma validate_passage_name_MS : forall n i, diag_sat MS (validate_passage_name n i).
Proof. intros n i. unfold validate_passage_name. ds_walk. Qed.

Lemma ppp_step_MS : forall st part, diag_sat MS (ppp_step st part).
Proof. intros [[acc seen] names] part. unfold ppp_step. cbv zeta. ds_walk. Qed.

Lemma ppp_loop_MS : forall parts st, diag_sat MS (ppp_loop parts st).
Proof.
  induction parts as [|p r IH]; intros st; cbn [ppp_loop]; [apply ds_ok|].
  apply ds_bind; [apply ppp_step_MS|intros; apply IH].
Qed.

Lemma parse_passage_params_MS : forall s, diag_sat MS (parse_passage_params s).
Proof.
  intros s. unfold parse_passage_params. destruct (negb (ParseLine.nonempty s)); [apply ds_ok|].
  apply ds_bind; [apply ppp_loop_MS|]. intros [[acc a] b] _. apply ds_ok.
Qed.

Lemma parse_render_line_MS : forall ctx l, diag_sat MS (parse_render_line ctx l).
Proof. intros ctx l. unfold parse_render_line. cbv zeta. ds_walk. Qed.

Lemma parse_input_attrs_MS : forall ctx l, diag_sat MS (parse_input_attrs ctx l).
Proof. intros ctx l. unfold parse_input_attrs. cbv zeta. ds_walk. Qed.

Lemma site_is_sat : forall A (P : string -> nat -> Prop) (m : pres A) s,
  diag_sat P m -> site_is m s = true -> exists k, P s k.
Proof.
  intros A P m s H Hs. destruct m as [a|[s0 k0|v]|e|]; simpl in Hs; try discriminate.
  apply String.eqb_eq in Hs. subst. exists k0. apply H. reflexivity.
Qed.

Lemma c_block_bsite : forall s l, c_block s l = true -> bsite s = true.
Proof.
  intros s l H. unfold c_block, block_shape in H. unfold bsite, block_sites. cbn [str_in].
  repeat (destruct (String.eqb s _); [reflexivity|]). discriminate.
Qed.

Definition known_site (s : string) : bool := msite s || bsite s || csite s || callsite s.

Lemma culprit_known : forall s l, culprit s l = true -> msite s || bsite s || csite s = true.
Proof.
  intros s l H. unfold culprit in H. apply existsb_exists in H. destruct H as (f & Hin & Hf).
  assert (M : msite s = true -> msite s || bsite s || csite s = true) by (intros ->; reflexivity).
  assert (MSX : forall A (m : pres A), diag_sat MS m -> site_is m s = true -> msite s = true).
  { intros A m Hm Hs. destruct (site_is_sat _ _ _ _ Hm Hs) as [k Hk]. exact Hk. }
  unfold culprit_families in Hin. simpl in Hin.
  destruct Hin as [<-|[<-|[<-|[<-|[<-|[<-|[<-|[<-|[<-|[]]]]]]]]]].
  - unfold c_header in Hf. apply andb_prop in Hf. destruct Hf as [_ Hf]. apply M.
    apply orb_prop in Hf. destruct Hf as [Hf|Hf].
    + eapply MSX; [apply validate_passage_name_MS|exact Hf].
    + apply andb_prop in Hf. destruct Hf as [_ Hf]. eapply MSX; [apply parse_passage_params_MS|exact Hf].
  - unfold c_render in Hf. apply andb_prop in Hf. destruct Hf as [_ Hf]. apply M.
    eapply MSX; [apply parse_render_line_MS|exact Hf].
  - unfold c_input in Hf. apply andb_prop in Hf. destruct Hf as [_ Hf]. apply M.
    eapply MSX; [apply parse_input_attrs_MS|exact Hf].
  - unfold c_hook in Hf. apply andb_prop in Hf. destruct Hf as [Hf _]. apply andb_prop in Hf.
    destruct Hf as [Hf _]. apply String.eqb_eq in Hf. subst. reflexivity.
  - unfold c_unhook in Hf. apply andb_prop in Hf. destruct Hf as [Hf _]. apply andb_prop in Hf.
    destruct Hf as [Hf _]. apply String.eqb_eq in Hf. subst. reflexivity.
  - unfold c_choice in Hf. apply andb_prop in Hf. destruct Hf as [_ Hf]. apply M.
    eapply MSX; [apply validate_choice_syntax_MS|exact Hf].
  - unfold c_unparsed in Hf. repeat (apply andb_prop in Hf; destruct Hf as [Hf _]).
    apply String.eqb_eq in Hf. subst. reflexivity.
  - apply c_block_bsite in Hf. rewrite Hf. rewrite orb_true_r. reflexivity.
  - unfold c_content in Hf. apply andb_prop in Hf. destruct Hf as [Hf _]. rewrite Hf. apply orb_true_r.
Qed.

(* no line-level function raises "stmt:python-syntax": `culprit` never holds for that site, so a diagnostic of that
   site is of kind (s) and of no other *)
Definition NS (s : string) (k : nat) : Prop := String.eqb s stmt_site = false.

Lemma validate_choice_syntax_NS : forall l i, diag_sat NS (validate_choice_syntax l i).
Proof. intros l i. unfold validate_choice_syntax, index_char. cbv zeta. ds_walk. Qed.
Lemma validate_passage_name_NS : forall n i, diag_sat NS (validate_passage_name n i).
Proof. intros n i. unfold validate_passage_name. ds_walk. Qed.
Lemma ppp_step_NS : forall st part, diag_sat NS (ppp_step st part).
Proof. intros [[acc seen] names] part. unfold ppp_step. cbv zeta. ds_walk. Qed.
Lemma ppp_loop_NS : forall parts st, diag_sat NS (ppp_loop parts st).
Proof.
  induction parts as [|p r IH]; intros st; cbn [ppp_loop]; [apply ds_ok|].
  apply ds_bind; [apply ppp_step_NS|intros; apply IH].
Qed.
Lemma parse_passage_params_NS : forall s, diag_sat NS (parse_passage_params s).
Proof.
  intros s. unfold parse_passage_params. destruct (negb (ParseLine.nonempty s)); [apply ds_ok|].
  apply ds_bind; [apply ppp_loop_NS|]. intros [[acc a] b] _. apply ds_ok.
Qed.
Lemma parse_render_line_NS : forall ctx l, diag_sat NS (parse_render_line ctx l).
Proof. intros ctx l. unfold parse_render_line. cbv zeta. ds_walk. Qed.
Lemma parse_input_attrs_NS : forall ctx l, diag_sat NS (parse_input_attrs ctx l).
Proof. intros ctx l. unfold parse_input_attrs. cbv zeta. ds_walk. Qed.

Lemma culprit_not_stmt_site : forall l, culprit stmt_site l = false.
Proof.
  intros l. destruct (culprit stmt_site l) eqn:H; [exfalso|reflexivity].
  unfold culprit in H. apply existsb_exists in H. destruct H as (f & Hin & Hf).
  assert (NSX : forall A (m : pres A), diag_sat NS m -> site_is m stmt_site = true -> False).
  { intros A m Hm Hs. destruct (site_is_sat _ _ _ _ Hm Hs) as [k Hk]. unfold NS in Hk. discriminate Hk. }
  unfold culprit_families in Hin. simpl in Hin.
  destruct Hin as [<-|[<-|[<-|[<-|[<-|[<-|[<-|[<-|[<-|[]]]]]]]]]].
  - unfold c_header in Hf. apply andb_prop in Hf. destruct Hf as [_ Hf].
    apply orb_prop in Hf. destruct Hf as [Hf|Hf].
    + eapply NSX; [apply validate_passage_name_NS|exact Hf].
    + apply andb_prop in Hf. destruct Hf as [_ Hf]. eapply NSX; [apply parse_passage_params_NS|exact Hf].
  - unfold c_render in Hf. apply andb_prop in Hf. destruct Hf as [_ Hf].
    eapply NSX; [apply parse_render_line_NS|exact Hf].
  - unfold c_input in Hf. apply andb_prop in Hf. destruct Hf as [_ Hf].
    eapply NSX; [apply parse_input_attrs_NS|exact Hf].
  - unfold c_hook in Hf. discriminate Hf.
  - unfold c_unhook in Hf. discriminate Hf.
  - unfold c_choice in Hf. apply andb_prop in Hf. destruct Hf as [_ Hf].
    eapply NSX; [apply validate_choice_syntax_NS|exact Hf].
  - unfold c_unparsed in Hf. discriminate Hf.
  - apply c_block_bsite in Hf. discriminate Hf.
  - unfold c_content in Hf. discriminate Hf.
Qed.

(* ------------------------------------------------------------------------------------------- *)
(* 10. the theorems                                                                             *)
(* ------------------------------------------------------------------------------------------- *)
Lemma diag_classified_lemma : forall pp is_call ls site i,
  parse_real pp is_call ls = PDiag (DSyntax site i) ->
  (i < length ls /\
   (culprit_at (prepass ls) site i \/
    (bsite site = true /\ raised_in_loop_body (prepass ls) site i) \/
    (csite site = true /\ i = 0 /\ raised_in_block (prepass ls) site) \/
    (callsite site = true /\ i = 0))) \/
  (site = stmt_site /\ stmt_blamed pp (prepass ls) i).
Proof.
  intros pp is_call ls site i H. destruct (parse_G' pp is_call ls site i H) as [[Hk Hc]|Hs]; [left|right; exact Hs].
  rewrite prepass_length_lemma in Hk. split; auto.
Qed.

(* every site but "stmt:python-syntax": in range, whatever the oracles answer *)
Lemma diag_index_in_range_line_sites_lemma : forall pp is_call ls site i,
  parse_real pp is_call ls = PDiag (DSyntax site i) -> site <> stmt_site -> i < length ls.
Proof.
  intros pp is_call ls site i H Hne. destruct (diag_classified_lemma _ _ _ _ _ H) as [[Hk _]|[Hs _]]; [exact Hk|].
  contradiction.
Qed.

(* a "stmt:python-syntax" diagnostic is of kind (s), exactly: some `~` statement starts on a line k, Python rejects
   the assembled statement, and i = k + the offset Python blames (for every oracle) *)
Lemma stmt_site_blamed_lemma : forall pp is_call ls i,
  parse_real pp is_call ls = PDiag (DSyntax stmt_site i) -> stmt_blamed pp (prepass ls) i.
Proof.
  intros pp is_call ls i H.
  destruct (diag_classified_lemma _ _ _ _ _ H) as [[Hk [(l & Hn & Hc)|[[Hb _]|[[Hc _]|[Hc _]]]]]|[_ Hs]];
    try discriminate; [|exact Hs].
  rewrite culprit_not_stmt_site in Hc. discriminate.
Qed.

(* ... and line i lies inside that statement, which lies inside the source: for every oracle and every line list
   (core.py clamps the offset Python blames to the lines the statement consumed: fix F14c) *)
Lemma culprit_stmt_site_lemma : forall pp is_call ls i,
  parse_real pp is_call ls = PDiag (DSyntax stmt_site i) -> inside_statement (prepass ls) i.
Proof.
  intros pp is_call ls i H. apply (stmt_blamed_inside pp). eapply stmt_site_blamed_lemma; eauto.
Qed.

Lemma inside_statement_in_range : forall lines i, inside_statement lines i -> i < length lines.
Proof. intros lines i (k & l & _ & _ & _ & H1 & H2). lia. Qed.

(* EVERY SyntaxError carries an index inside the source: every site, every oracle, every line list *)
Lemma diag_index_in_range_lemma : forall pp is_call ls site i,
  parse_real pp is_call ls = PDiag (DSyntax site i) -> located site = true -> i < length ls.
Proof.
  intros pp is_call ls site i H _.
  destruct (diag_classified_lemma _ _ _ _ _ H) as [[Hk _]|[-> _]]; [exact Hk|].
  rewrite <- prepass_length_lemma. apply inside_statement_in_range. eapply culprit_stmt_site_lemma; eauto.
Qed.

Lemma every_site_is_known_lemma : forall pp is_call ls site i,
  parse_real pp is_call ls = PDiag (DSyntax site i) -> known_site site = true.
Proof.
  intros pp is_call ls site i H. unfold known_site.
  destruct (diag_classified_lemma _ _ _ _ _ H) as [[_ [(l & _ & Hc)|[[Hb _]|[[Hc _]|[Hc _]]]]]|[-> _]].
  - rewrite (culprit_known _ _ Hc). reflexivity.
  - rewrite Hb. rewrite orb_true_r. reflexivity.
  - rewrite Hc. rewrite orb_true_r. reflexivity.
  - rewrite Hc. apply orb_true_r.
  - reflexivity.
Qed.

(* the 26 main-loop sites: the culprit stands on line i; for "stmt:python-syntax": kind (s) *)
Lemma culprit_main_sites_lemma : forall pp is_call ls site i,
  parse_real pp is_call ls = PDiag (DSyntax site i) -> msite site = true ->
  (exists l, nth_error (prepass ls) i = Some l /\ culprit site l = true) \/
  (site = stmt_site /\ stmt_blamed pp (prepass ls) i).
Proof.
  intros pp is_call ls site i H Hm.
  destruct (diag_classified_lemma _ _ _ _ _ H) as [[_ [Hc|[[Hb _]|[[Hc _]|[Hc _]]]]]|Hs];
    [left; exact Hc| | | |right; exact Hs].
  - rewrite (bsite_not_msite _ Hb) in Hm. discriminate.
  - rewrite (csite_not_msite _ Hc) in Hm. discriminate.
  - rewrite (callsite_not_msite _ Hc) in Hm. discriminate.
Qed.

(* ... all of them but "stmt:python-syntax": always on line i *)
Lemma culprit_main_line_sites_lemma : forall pp is_call ls site i,
  parse_real pp is_call ls = PDiag (DSyntax site i) -> msite site = true -> site <> stmt_site ->
  exists l, nth_error (prepass ls) i = Some l /\ culprit site l = true.
Proof.
  intros pp is_call ls site i H Hm Hne.
  destruct (culprit_main_sites_lemma _ _ _ _ _ H Hm) as [Hc|[Hs _]]; [exact Hc|contradiction].
Qed.

Lemma culprit_block_sites_lemma : forall pp is_call ls site i,
  parse_real pp is_call ls = PDiag (DSyntax site i) -> bsite site = true ->
  (exists l, nth_error (prepass ls) i = Some l /\ culprit site l = true) \/
  raised_in_loop_body (prepass ls) site i.
Proof.
  intros pp is_call ls site i H Hb.
  destruct (diag_classified_lemma _ _ _ _ _ H) as [[_ [Hc|[[_ Hr]|[[Hc _]|[Hc _]]]]]|[-> _]];
    [left; exact Hc|right; exact Hr| | |discriminate Hb].
  - rewrite (bsite_not_csite _ Hb) in Hc. discriminate.
  - rewrite (bsite_not_callsite _ Hb) in Hc. discriminate.
Qed.

Definition no_loop_opener (lines : list string) : bool :=
  forallb (fun l => negb (is_for_line (strip l))) lines.

Lemma no_loop_no_reparse : forall lines s k,
  no_loop_opener lines = true -> ~ raised_in_loop_body lines s k.
Proof.
  intros lines s k Hno (n & depth & start & l0 & found & e & raw & var & coll & Hn & Hf & _).
  unfold no_loop_opener in Hno. rewrite forallb_forall in Hno.
  specialize (Hno l0 (nth_error_In _ _ Hn)). rewrite Hf in Hno. discriminate.
Qed.

Lemma culprit_block_sites_outside_loops_lemma : forall pp is_call ls site i,
  parse_real pp is_call ls = PDiag (DSyntax site i) -> bsite site = true ->
  no_loop_opener (prepass ls) = true ->
  exists l, nth_error (prepass ls) i = Some l /\ culprit site l = true.
Proof.
  intros pp is_call ls site i H Hb Hno.
  destruct (culprit_block_sites_lemma _ _ _ _ _ H Hb) as [Hc|Hr]; [exact Hc|].
  exfalso. eapply no_loop_no_reparse; eauto.
Qed.

(* the content sites: located (a content line of the main loop or of a `-> @join` block, the text of a choice), or
   raised without a line inside an @if / @for block *)
Lemma culprit_content_sites_lemma : forall pp is_call ls site i,
  parse_real pp is_call ls = PDiag (DSyntax site i) -> csite site = true ->
  (exists l, nth_error (prepass ls) i = Some l /\ culprit site l = true) \/
  (i = 0 /\ raised_in_block (prepass ls) site).
Proof.
  intros pp is_call ls site i H Hc.
  destruct (diag_classified_lemma _ _ _ _ _ H) as [[_ [Hk|[[Hb _]|[[_ Hr]|[Hk _]]]]]|[-> _]];
    [left; exact Hk| |right; exact Hr| |discriminate Hc].
  - rewrite (bsite_not_csite _ Hb) in Hc. discriminate.
  - rewrite (csite_not_callsite _ Hc) in Hk. discriminate.
Qed.

(* ... located whenever the story has no @if / @for opener *)
Definition no_block_opener (lines : list string) : bool :=
  forallb (fun l => negb (is_if_line (strip l) || is_for_line (strip l))) lines.

Lemma culprit_content_sites_outside_blocks_lemma : forall pp is_call ls site i,
  parse_real pp is_call ls = PDiag (DSyntax site i) -> csite site = true ->
  no_block_opener (prepass ls) = true ->
  exists l, nth_error (prepass ls) i = Some l /\ culprit site l = true.
Proof.
  intros pp is_call ls site i H Hc Hno.
  destruct (culprit_content_sites_lemma _ _ _ _ _ H Hc) as [Hk|[_ (i0 & l0 & Hn & Hr)]]; [exact Hk|].
  exfalso. unfold no_block_opener in Hno. rewrite forallb_forall in Hno.
  specialize (Hno l0 (nth_error_In _ _ Hn)). apply negb_true_iff in Hno. apply orb_false_elim in Hno.
  destruct Hno as [N1 N2]. destruct Hr as [[Hr _]|[Hr _]]; congruence.
Qed.

(* the "call:*" sites never have a line: their index is the dummy 0 *)
Lemma call_sites_carry_no_line_lemma : forall pp is_call ls site i,
  parse_real pp is_call ls = PDiag (DSyntax site i) -> callsite site = true -> i = 0.
Proof.
  intros pp is_call ls site i H Hc.
  destruct (diag_classified_lemma _ _ _ _ _ H) as [[_ [(l & _ & Hk)|[[Hb _]|[[Hk _]|[_ Hk]]]]]|[-> _]]; auto;
    [| | |discriminate Hc].
  - apply culprit_known in Hk. apply orb_prop in Hk. destruct Hk as [Hk|Hk].
    + apply orb_prop in Hk. destruct Hk as [Hk|Hk].
      * rewrite (callsite_not_msite _ Hc) in Hk. discriminate.
      * rewrite (bsite_not_callsite _ Hk) in Hc. discriminate.
    + rewrite (csite_not_callsite _ Hk) in Hc. discriminate.
  - rewrite (bsite_not_callsite _ Hb) in Hc. discriminate.
  - rewrite (csite_not_callsite _ Hk) in Hc. discriminate.
Qed.

(* the headline form: `covered` = the main-loop sites and the block sites *)
Definition covered (s : string) : bool := msite s || bsite s.

Lemma culprit_covered_sites_lemma : forall pp is_call ls site i,
  parse_real pp is_call ls = PDiag (DSyntax site i) -> covered site = true ->
  (exists l, nth_error (prepass ls) i = Some l /\ culprit site l = true) \/
  (site = stmt_site /\ stmt_blamed pp (prepass ls) i) \/
  (bsite site = true /\ raised_in_loop_body (prepass ls) site i).
Proof.
  intros pp is_call ls site i H Hc. unfold covered in Hc. apply orb_prop in Hc. destruct Hc as [Hm|Hb].
  - destruct (culprit_main_sites_lemma _ _ _ _ _ H Hm) as [Hk|Hs]; [left; exact Hk|right; left; exact Hs].
  - destruct (culprit_block_sites_lemma _ _ _ _ _ H Hb) as [Hk|Hr]; [left; exact Hk|right; right; split; assumption].
Qed.

(* every site that can have a line (all but the "call:*" sites): located, or one of the two F14b kinds *)
Definition has_line_site (s : string) : bool := msite s || bsite s || csite s.

Lemma culprit_all_line_sites_lemma : forall pp is_call ls site i,
  parse_real pp is_call ls = PDiag (DSyntax site i) -> has_line_site site = true ->
  (exists l, nth_error (prepass ls) i = Some l /\ culprit site l = true) \/
  (site = stmt_site /\ stmt_blamed pp (prepass ls) i) \/
  (bsite site = true /\ raised_in_loop_body (prepass ls) site i) \/
  (csite site = true /\ i = 0 /\ raised_in_block (prepass ls) site).
Proof.
  intros pp is_call ls site i H Hs.
  destruct (diag_classified_lemma _ _ _ _ _ H) as [[_ [Hk|[Hk|[Hk|[Hk _]]]]]|Hk]; auto.
  exfalso. unfold has_line_site in Hs. apply orb_prop in Hs. destruct Hs as [Hs|Hs].
  - apply orb_prop in Hs. destruct Hs as [Hs|Hs].
    + rewrite (callsite_not_msite _ Hk) in Hs. discriminate.
    + rewrite (bsite_not_callsite _ Hs) in Hk. discriminate.
  - rewrite (csite_not_callsite _ Hs) in Hk. discriminate.
Qed.


(* ------------------------------------------------------------------------------------------- *)
(* 11. non-vacuity: one concrete story per covered family (each was also run through the real    *)
(*     compiler: the line in its message is the index below + 1), and the witnesses of kinds     *)
(*     (b), (c), (d)                                                                            *)
(* ------------------------------------------------------------------------------------------- *)
(* Python's parser as an oracle for the examples: a statement containing "!!" is rejected, and the line blamed is
   the line of the first "!!" (what CPython does for these statements: replayed) *)
Definition ex_errline (c : string) : nat :=
  match str_find c "!!" with Some p => count_nl (take p c) | None => 0 end.
Definition ex_pp : pyparse :=
  mkPyparse (fun c => negb (str_contains c "!!")) (fun _ => Some (0, [])) ex_errline.
(* the premise of culprit_stmt_site_lemma / diag_index_in_range_lemma is satisfiable *)
Lemma ex_pp_errline_inside : errline_inside ex_pp.
Proof.
  intros code _. cbn [py_stmt_errline ex_pp]. unfold ex_errline.
  destruct (str_find code "!!") as [p|]; [apply count_nl_take|lia].
Qed.
Definition ex_parse (ls : list string) : pres story := parse_real ex_pp (fun _ => true) ls.
(* the diagnostic is (site, i) and `culprit site` holds of line i of the pre-passed text *)
Definition located_example (ls : list string) (site : string) (i : nat) : bool :=
  match ex_parse ls with
  | PDiag (DSyntax s k) =>
      String.eqb s site && (k =? i) &&
      match nth_error (prepass ls) i with Some l => culprit site l | None => false end
  | _ => false
  end.

Definition L_name_empty : list string := [":: Start"; "Hello."; ":: ^tag"; "x"].
Example ex_name_empty : located_example L_name_empty "passage-name:empty" 2 = true.
Proof. vm_compute. reflexivity. Qed.
Definition L_name_invalid : list string := [":: Start"; "Hello."; ":: 9lives"; "x"].
Example ex_name_invalid : located_example L_name_invalid "passage-name:invalid" 2 = true.
Proof. vm_compute. reflexivity. Qed.
Definition L_params_req : list string := [":: Start"; "Hello."; ":: Shop(a=1, b)"; "x"].
Example ex_params_req : located_example L_params_req "params:required-after-optional" 2 = true.
Proof. vm_compute. reflexivity. Qed.
Definition L_params_dup : list string := [":: Start"; "Hello."; ":: Shop(a, a)"; "x"].
Example ex_params_dup : located_example L_params_dup "params:duplicate" 2 = true.
Proof. vm_compute. reflexivity. Qed.
Definition L_render_fw : list string := [":: Start"; "Hello."; "@render:react"; "x"].
Example ex_render_fw : located_example L_render_fw "render:framework-syntax" 2 = true.
Proof. vm_compute. reflexivity. Qed.
Definition L_render_name : list string := [":: Start"; "Hello."; "Some text."; "@render"].
Example ex_render_name : located_example L_render_name "render:missing-name" 3 = true.
Proof. vm_compute. reflexivity. Qed.
Definition L_input_params : list string := [":: Start"; "Hello."; "@input"; "x"].
Example ex_input_params : located_example L_input_params "input:missing-parameters" 2 = true.
Proof. vm_compute. reflexivity. Qed.
Definition L_input_name : list string := [":: Start"; "Hello."; "@input label=""x"""; "x"].
Example ex_input_name : located_example L_input_name "input:missing-name" 2 = true.
Proof. vm_compute. reflexivity. Qed.
Definition L_hook : list string := [":: Start"; "Hello."; "@hook turn_end"; "x"].
Example ex_hook : located_example L_hook "hook:arity" 2 = true.
Proof. vm_compute. reflexivity. Qed.
Definition L_unhook : list string := [":: Start"; "Hello."; "a"; "b"; "@unhook a b c"; "x"].
Example ex_unhook : located_example L_unhook "unhook:arity" 4 = true.
Proof. vm_compute. reflexivity. Qed.
(* kind (s): the diagnostic is ("stmt:python-syntax", i) and line i lies inside a `~` statement of the pre-passed
   text.  Replayed on the real compiler: "on line 4", "on line 7", "on line 7", "on line 5" for the four stories below. *)
Definition stmt_example (ls : list string) (i : nat) : bool :=
  match ex_parse ls with
  | PDiag (DSyntax s k) => String.eqb s stmt_site && (k =? i) && inside_statement_b (prepass ls) i
  | _ => false
  end.
Definition L_stmt : list string := [":: Start"; "Hello."; "~ y = 1"; "~ x = !!"; "x"].
Example ex_stmt : stmt_example L_stmt 3 = true.
Proof. vm_compute. reflexivity. Qed.
(* several lines, `//` comments around and on the `~` line; Python blames the third line of the statement *)
Definition L_stmt_multi : list string :=
  [":: Start // c"; "Hello. // note"; "~ ok = [  // fine"; "  1, 2]"; "~ xs = [   // opens"; "  1,"; "  2 !! 3,"; "]";
   "after // c"].
Example ex_stmt_multi : stmt_example L_stmt_multi 6 = true /\ stmt_covers (prepass L_stmt_multi) 6 4 = true /\
                        stmt_consumed (prepass L_stmt_multi) 4 "~ xs = [" = 4.
Proof. vm_compute. repeat split; reflexivity. Qed.
(* the last line of the statement, and the first *)
Definition L_stmt_last : list string := [":: Start"; "t"; "~ d = {"; "  'a': 1,"; "  'b': (2,"; "  3)"; "!! }"; "after"].
Example ex_stmt_last : stmt_example L_stmt_last 6 = true /\ stmt_example L_stmt_last 2 = false.
Proof. vm_compute. repeat split; reflexivity. Qed.
Definition L_stmt_first : list string := [":: Start"; "t"; "a"; "b"; "~ f(!! ("; "  1,"; "  2))"; "after"].
Example ex_stmt_first : stmt_example L_stmt_first 4 = true.
Proof. vm_compute. reflexivity. Qed.
Definition L_ch_arrow : list string := [":: Start"; "Hello."; "+ [Go] Start"].
Example ex_ch_arrow : located_example L_ch_arrow "choice:missing-arrow" 2 = true.
Proof. vm_compute. reflexivity. Qed.
Definition L_ch_uncond : list string := [":: Start"; "Hello."; "+ {x [Go] -> Start"].
Example ex_ch_uncond : located_example L_ch_uncond "choice:unclosed-conditional" 2 = true.
Proof. vm_compute. reflexivity. Qed.
Definition L_ch_empty : list string := [":: Start"; "Hello."; "* [ ] -> Start"].
Example ex_ch_empty : located_example L_ch_empty "choice:empty-text" 2 = true.
Proof. vm_compute. reflexivity. Qed.
Definition L_ch_unparsed : list string := [":: Start"; "Hello."; "+ x [Go] -> Start"].
Example ex_ch_unparsed : located_example L_ch_unparsed "choice:validated-but-unparsed" 2 = true.
Proof. vm_compute. reflexivity. Qed.
Definition L_content_main : list string := [":: Start"; "Hello."; "More."; "Bad {brace"].
Example ex_content_main : located_example L_content_main "content:braces" 3 = true.
Proof. vm_compute. reflexivity. Qed.
Definition L_content_glue : list string := [":: Start"; "Hello."; "Bad {brace<>"; "x"].
Example ex_content_glue : located_example L_content_glue "content:braces" 2 = true.
Proof. vm_compute. reflexivity. Qed.
Definition L_content_join : list string := [":: Start"; "Hello."; "+ [Go] -> @join"; "    fine"; "    bad {brace"; "@join"; "x"].
Example ex_content_join : located_example L_content_join "content:braces" 4 = true.
Proof. vm_compute. reflexivity. Qed.
Definition L_py_colon : list string := [":: Start"; "Hello."; "@py"; "x = 1"; "@endpy"].
Example ex_py_colon : located_example L_py_colon "py-missing-colon" 2 = true.
Proof. vm_compute. reflexivity. Qed.
Definition L_py_unclosed : list string := [":: Start"; "Hello."; "text"; "@py:"; "x = 1"].
Example ex_py_unclosed : located_example L_py_unclosed "py-unclosed" 3 = true.
Proof. vm_compute. reflexivity. Qed.
Definition L_if_colon : list string := [":: Start"; "Hello."; "@if x"; "a"; "@endif"].
Example ex_if_colon : located_example L_if_colon "if-missing-colon" 2 = true.
Proof. vm_compute. reflexivity. Qed.
Definition L_if_close : list string := [":: Start"; "Hello."; "<<if x"; "a"; "<<endif>>"].
Example ex_if_close : located_example L_if_close "if-missing-close" 2 = true.
Proof. vm_compute. reflexivity. Qed.
Definition L_elif_colon : list string := [":: Start"; "Hello."; "@if x:"; "a"; "@elif y"; "b"; "@endif"].
Example ex_elif_colon : located_example L_elif_colon "elif-missing-colon" 4 = true.
Proof. vm_compute. reflexivity. Qed.
Definition L_elif_close : list string := [":: Start"; "Hello."; "<<if x>>"; "a"; "<<elif y"; "b"; "<<endif>>"].
Example ex_elif_close : located_example L_elif_close "elif-missing-close" 4 = true.
Proof. vm_compute. reflexivity. Qed.
Definition L_else_colon : list string := [":: Start"; "Hello."; "@if x:"; "a"; "@else"; "b"; "@endif"].
Example ex_else_colon : located_example L_else_colon "else-missing-colon" 4 = true.
Proof. vm_compute. reflexivity. Qed.
Definition L_endif_colon : list string := [":: Start"; "Hello."; "@if x:"; "a"; "@endif:"].
Example ex_endif_colon : located_example L_endif_colon "endif-colon" 4 = true.
Proof. vm_compute. reflexivity. Qed.
Definition L_if_unclosed : list string := [":: Start"; "Hello."; "t"; "@if x:"; "a"; "b"].
Example ex_if_unclosed : located_example L_if_unclosed "if-unclosed" 3 = true.
Proof. vm_compute. reflexivity. Qed.
Definition L_if_nested_unclosed : list string := [":: Start"; "Hello."; "@if x:"; "  a"; "  @if y:"; "  b"; "@endif"].
Example ex_if_nested_unclosed : located_example L_if_nested_unclosed "if-unclosed" 2 = true.
Proof. vm_compute. reflexivity. Qed.
Definition L_if_nested_colon : list string := [":: Start"; "Hello."; "@if x:"; "  a"; "  @if y"; "  b"; "  @endif"; "@endif"].
Example ex_if_nested_colon : located_example L_if_nested_colon "if-missing-colon" 4 = true.
Proof. vm_compute. reflexivity. Qed.
Definition L_py_in_if : list string := [":: Start"; "Hello."; "@if x:"; "  a"; "  @py"; "  b"; "  @endpy"; "@endif"].
Example ex_py_in_if : located_example L_py_in_if "py-missing-colon" 4 = true.
Proof. vm_compute. reflexivity. Qed.
Definition L_for_in_if_colon : list string := [":: Start"; "Hello."; "@if x:"; "  a"; "  @for i in xs"; "  b"; "  @endfor"; "@endif"].
Example ex_for_in_if_colon : located_example L_for_in_if_colon "for-missing-colon" 4 = true.
Proof. vm_compute. reflexivity. Qed.
Definition L_for_colon : list string := [":: Start"; "Hello."; "@for i in xs"; "a"; "@endfor"].
Example ex_for_colon : located_example L_for_colon "for-missing-colon" 2 = true.
Proof. vm_compute. reflexivity. Qed.
Definition L_for_invalid : list string := [":: Start"; "Hello."; "<<for i"; "a"; "<<endfor>>"].
Example ex_for_invalid : located_example L_for_invalid "for-invalid" 2 = true.
Proof. vm_compute. reflexivity. Qed.
Definition L_endfor_colon : list string := [":: Start"; "Hello."; "@for i in xs:"; "a"; "@endfor:"].
Example ex_endfor_colon : located_example L_endfor_colon "endfor-colon" 4 = true.
Proof. vm_compute. reflexivity. Qed.
Definition L_for_unclosed : list string := [":: Start"; "Hello."; "t"; "@for i in xs:"; "a"].
Example ex_for_unclosed : located_example L_for_unclosed "for-unclosed" 3 = true.
Proof. vm_compute. reflexivity. Qed.
Definition L_too_deep : list string := [":: Start"] ++ repeat "@if x:" 101 ++ ["a"] ++ repeat "@endif" 101.
Example ex_too_deep : located_example L_too_deep "nesting-too-deep" 101 = true.
Proof. vm_compute. reflexivity. Qed.
Definition L_comment_shift : list string := [":: Start // c"; "Hello.   // note"; "+ [Go] Start // oops"].
Example ex_comment_shift : located_example L_comment_shift "choice:missing-arrow" 2 = true.
Proof. vm_compute. reflexivity. Qed.

(* kind (b) happens (known finding F14b, sub-list index): the malformed `@endif:` stands on line 8 (index 7) of
   the story; the diagnostic carries index 3, the `@for` opener -- the position of `@endif:` in the dedented
   copy of the loop body.  The real compiler says "on line 4". *)
Definition L_loop_body_endif : list string :=
  [":: Start"; "Hello."; "t"; "@for x in xs:"; "  ok"; "  @if y:"; "  a"; "  @endif:"; "@endfor"].
Lemma loop_body_index_is_not_the_line_refuted_lemma :
  exists pp is_call ls site i l,
    parse_real pp is_call ls = PDiag (DSyntax site i) /\ bsite site = true /\
    nth_error (prepass ls) i = Some l /\ culprit site l = false /\
    nth_error (prepass ls) 7 = Some "  @endif:" /\ culprit site "  @endif:" = true.
Proof.
  exists ex_pp, (fun _ => true), L_loop_body_endif, "endif-colon", 3, "@for x in xs:".
  vm_compute. repeat split; reflexivity.
Qed.

(* kind (c) happens (known finding F14b, no line): the unclosed brace stands on line 4 (index 3), inside an @if
   branch; the diagnostic carries the dummy index 0.  The real compiler's message names no line. *)
Definition L_block_content : list string := [":: Start"; "Hello."; "@if x:"; "  bad {brace"; "@endif"].
Lemma block_content_has_no_line_refuted_lemma :
  exists pp is_call ls site l,
    parse_real pp is_call ls = PDiag (DSyntax site 0) /\ csite site = true /\
    nth_error (prepass ls) 0 = Some l /\ culprit site l = false /\
    nth_error (prepass ls) 3 = Some "  bad {brace" /\ culprit site "  bad {brace" = true.
Proof.
  exists ex_pp, (fun _ => true), L_block_content, "content:braces", ":: Start".
  vm_compute. repeat split; reflexivity.
Qed.

(* regression example of finding F14c (repaired): CPython counts a bare carriage return inside the statement as a
   line break, the compiler does not.  The one-line statement  ~ a = 1<CR>x9 b c  on line 2 of a 4-line source:
   ast.parse says lineno 10 ("unexpected indent"); before the fix core.py added `e.lineno - 1` unclamped and said
   "on line 11" with no source line shown (the model carried index 10 >= 4).  Now, with the oracle answering as
   CPython does for that statement (offset 9, which violates errline_inside), the index is 1: the `~` line, inside the
   statement.  Replayed on the repaired compiler: "on line 2".  The second witness, offset 8 blamed inside a
   three-line statement: index 4, the statement's last line ("on line 5"). *)
Definition CRs (n : nat) : string := concat_all (repeat (String (ascii_of_nat 13) EmptyString) n).
Definition cr_stmt : string := ("a = 1" ++ CRs 9 ++ " b c")%string.
Definition cr_pp : pyparse :=
  mkPyparse (fun c => negb (String.eqb c cr_stmt)) (fun _ => Some (0, []))
            (fun c => if String.eqb c cr_stmt then 9 else 0).
Definition L_stmt_cr : list string := [":: Start"; ("~ " ++ cr_stmt)%string; "hello"; ""].
Definition cr_stmt2 : string :=
  ("xs = [" ++ String (ascii_of_nat 10) "" ++ "  1," ++ CRs 8 ++ "  2 3," ++ String (ascii_of_nat 10) "" ++ "]")%string.
Definition cr_pp2 : pyparse :=
  mkPyparse (fun c => negb (String.eqb c cr_stmt2)) (fun _ => Some (0, []))
            (fun c => if String.eqb c cr_stmt2 then 9 else 0).
Definition L_stmt_cr2 : list string :=
  [":: Start"; "t"; "~ xs = ["; ("  1," ++ CRs 8 ++ "  2 3,")%string; "]"; "after"; ""].
Lemma stmt_index_clamped_regression_lemma :
  ~ errline_inside cr_pp /\ Forall no_nl L_stmt_cr /\
  parse_real cr_pp (fun _ => true) L_stmt_cr = PDiag (DSyntax stmt_site 1) /\
  inside_statement_b (prepass L_stmt_cr) 1 = true /\
  ~ errline_inside cr_pp2 /\ Forall no_nl L_stmt_cr2 /\
  parse_real cr_pp2 (fun _ => true) L_stmt_cr2 = PDiag (DSyntax stmt_site 4) /\
  inside_statement_b (prepass L_stmt_cr2) 4 = true /\ stmt_covers (prepass L_stmt_cr2) 4 2 = true.
Proof.
  split. { intros H. specialize (H cr_stmt eq_refl). vm_compute in H. lia. }
  split; [repeat constructor|]. split; [vm_compute; reflexivity|]. split; [vm_compute; reflexivity|].
  split. { intros H. specialize (H cr_stmt2 eq_refl). vm_compute in H. lia. }
  split; [repeat constructor|]. split; [vm_compute; reflexivity|]. split; vm_compute; reflexivity.
Qed.

(* kind (d) happens (known finding F14b, no line): the unknown target stands on line 3; dummy index 0 *)
Definition L_call_unknown : list string := [":: Start"; "Hello."; "+ [Go] -> Nowhere"].
Lemma call_target_has_no_line_refuted_lemma :
  exists pp is_call ls site l,
    parse_real pp is_call ls = PDiag (DSyntax site 0) /\ callsite site = true /\
    nth_error (prepass ls) 0 = Some l /\ culprit site l = false.
Proof.
  exists ex_pp, (fun _ => true), L_call_unknown, "call:unknown-target", ":: Start".
  vm_compute. repeat split; reflexivity.
Qed.

(* the former kind (e) (model only until /repo 53252c0 / eecafed), now located: a brace error in the text of a
   choice, and the nesting cap of inline conditionals on a content line, in a `-> @join` block and in a choice text.
   Replayed on the real compiler: "on line 3" for all four stories. *)
Fixpoint nested_inline (n : nat) : string :=
  match n with 0 => "x" | S k => ("{c ? " ++ nested_inline k ++ " | y}")%string end.
Definition L_content_choice : list string := [":: Start"; "Hello."; "+ [Go {x] -> Start"].
Example ex_content_choice : located_example L_content_choice "content:braces" 2 = true.
Proof. vm_compute. reflexivity. Qed.
Example ex_choice_text_culprit_is_the_choice :
  choice_text_rejected "content:braces" "+ [Go {x] -> Start" = true.
Proof. vm_compute. reflexivity. Qed.
Definition L_depth_main : list string := [":: Start"; "Hello."; nested_inline 52].
Example ex_depth_main : located_example L_depth_main "content:nesting-depth" 2 = true.
Proof. vm_compute. reflexivity. Qed.
Definition L_depth_join : list string :=
  [":: Start"; "+ [Go] -> @join"; ("    " ++ nested_inline 52)%string; "@join"; "x"].
Example ex_depth_join : located_example L_depth_join "content:nesting-depth" 2 = true.
Proof. vm_compute. reflexivity. Qed.
Definition L_depth_choice : list string := [":: Start"; "t"; ("+ [Go " ++ nested_inline 52 ++ "] -> Start")%string].
Example ex_depth_choice : located_example L_depth_choice "content:nesting-depth" 2 = true.
Proof. vm_compute. reflexivity. Qed.

Print Assumptions diag_index_in_range_lemma.
Print Assumptions diag_index_in_range_line_sites_lemma.
Print Assumptions stmt_site_blamed_lemma.
Print Assumptions culprit_stmt_site_lemma.
Print Assumptions stmt_index_clamped_regression_lemma.
Print Assumptions clamp_is_identity_lemma.
Print Assumptions clamped_stmt_index_inside_lemma.
Print Assumptions split_lines_no_nl_lemma.
Print Assumptions diag_classified_lemma.
Print Assumptions culprit_covered_sites_lemma.
Print Assumptions culprit_all_line_sites_lemma.
Print Assumptions culprit_content_sites_lemma.
Print Assumptions every_site_is_known_lemma.
Print Assumptions prepass_line_is_prefix_lemma.
Print Assumptions loop_body_index_is_not_the_line_refuted_lemma.
