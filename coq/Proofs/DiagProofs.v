(* Proofs about Compiler/Diag.v (C14). *)
From Coq Require Import String Ascii List ZArith Bool Lia.
From Bardic Require Import Diag.
Import ListNotations.
Local Open Scope Z_scope.

(* ---------------- py_index / display_location ---------------- *)

Lemma py_index_nat : forall {A} (l : list A) (i : nat),
  (i < length l)%nat -> py_index l (Z.of_nat i) = nth_error l i.
Proof.
  intros A l i H. unfold py_index.
  replace (0 <=? Z.of_nat i) with true by (symmetry; apply Z.leb_le; lia).
  replace (Z.of_nat i <? Z.of_nat (length l)) with true by (symmetry; apply Z.ltb_lt; lia).
  simpl. now rewrite Nat2Z.id.
Qed.

Lemma nth_error_some_not_nil : forall {A} (l : list A) i x, nth_error l i = Some x -> is_nil l = false.
Proof. intros A [|a l] [|i] x H; simpl in *; congruence. Qed.

Lemma display_location_index : forall m i f n filename,
  nth_error m i = Some (f, n) ->
  display_location (Z.of_nat i) filename m = Some (Some f, n + 1).
Proof.
  intros m i f n filename H. unfold display_location.
  assert (Hlt : (i < length m)%nat) by (apply nth_error_Some; congruence).
  pose proof (nth_error_some_not_nil _ _ _ H) as En. unfold source_location in *. rewrite En. simpl.
  replace (Z.of_nat i <? Z.of_nat (length m)) with true by (symmetry; apply Z.ltb_lt; lia).
  rewrite (py_index_nat m i Hlt), H. reflexivity.
Qed.

Lemma display_location_nomap : forall v filename,
  display_location v filename [] = Some (filename, v + 1).
Proof. reflexivity. Qed.

Lemma display_location_past_end : forall m v filename,
  Z.of_nat (length m) <= v -> display_location v filename m = Some (filename, v + 1).
Proof.
  intros m v filename H. unfold display_location.
  replace (v <? Z.of_nat (length m)) with false by (symmetry; apply Z.ltb_ge; lia).
  now rewrite andb_false_r.
Qed.

(* ---------------- the header ---------------- *)

Lemma location_index_map : forall i lines filename m f n,
  nth_error m i = Some (f, n) ->
  location (format_error (Z.of_nat i) lines filename (Some m)) = Some (shown_file (Some f), n + 1).
Proof.
  intros. unfold format_error. simpl lm_list.
  now rewrite (display_location_index m i f n filename H).
Qed.

Lemma location_index_lm : forall i lines filename lm f n,
  nth_error (lm_list lm) i = Some (f, n) ->
  location (format_error (Z.of_nat i) lines filename lm) = Some (shown_file (Some f), n + 1).
Proof.
  intros. unfold format_error.
  now rewrite (display_location_index (lm_list lm) i f n filename H).
Qed.

Lemma location_nomap : forall v lines filename lm,
  lm_list lm = [] ->
  location (format_error v lines filename lm) = Some (shown_file filename, v + 1).
Proof. intros v lines filename lm H. unfold format_error. now rewrite H. Qed.

(* ---------------- the pointer ---------------- *)

Lemma pointed_of_boundary : forall lf f rest,
  pointed_of ((match lf with
               | Some l => if String.eqb l f then [] else [CBoundary f]
               | None => []
               end) ++ rest) = pointed_of rest.
Proof. intros [l|] f rest; simpl; [destruct (String.eqb l f)|]; reflexivity. Qed.

Lemma pointed_loop : forall lines m i text idxs last,
  nth_error lines i = Some text ->
  (forall j, In j idxs -> (j < length lines)%nat) ->
  In i idxs ->
  pointed_of (context_loop idxs (Z.of_nat i) lines m last) =
  Some (match nth_error m i with Some (_, n) => n + 1 | None => Z.of_nat i + 1 end, text).
Proof.
  intros lines m i text idxs. induction idxs as [|j rest IH]; intros last Ht Hb Hin.
  - destruct Hin.
  - simpl.
    assert (Hj : (j < length lines)%nat) by (apply Hb; now left).
    destruct (nth_error lines j) as [tj|] eqn:Ej.
    2:{ apply nth_error_None in Ej. lia. }
    destruct (Nat.eq_dec j i) as [->|Hne].
    + rewrite Ht in Ej. inversion Ej; subst tj.
      rewrite Z.eqb_refl.
      destruct (nth_error m i) as [[f n]|]; [rewrite pointed_of_boundary|]; reflexivity.
    + assert (Hp : (Z.of_nat j =? Z.of_nat i) = false) by (apply Z.eqb_neq; lia).
      rewrite Hp.
      assert (Hin' : In i rest) by (destruct Hin; [congruence|assumption]).
      assert (Hb' : forall k, In k rest -> (k < length lines)%nat) by (intros k Hk; apply Hb; now right).
      destruct (nth_error m j) as [[f n]|].
      * rewrite pointed_of_boundary. simpl. now apply IH.
      * simpl. now apply IH.
Qed.

Lemma context_range_spec : forall i n j,
  In j (context_range (Z.of_nat i) n) ->
  (j < n)%nat.
Proof.
  intros i n j H. unfold context_range in H. apply in_seq in H. lia.
Qed.

Lemma context_range_has : forall i n, (i < n)%nat -> In i (context_range (Z.of_nat i) n).
Proof. intros i n H. unfold context_range. apply in_seq. lia. Qed.

Lemma pointed_index : forall i lines filename lm text,
  nth_error lines i = Some text ->
  (is_nil (lm_list lm) = false -> (i < length (lm_list lm))%nat) ->
  pointed (format_error (Z.of_nat i) lines filename lm) =
  Some (match nth_error (lm_list lm) i with Some (_, n) => n + 1 | None => Z.of_nat i + 1 end, text).
Proof.
  intros i lines filename lm text Ht Hm.
  assert (Hi : (i < length lines)%nat) by (apply nth_error_Some; congruence).
  unfold format_error.
  destruct (display_location (Z.of_nat i) filename (lm_list lm)) as [[f n]|] eqn:E.
  - simpl. apply pointed_loop; auto.
    + intros j Hj. eapply context_range_spec; eauto.
    + now apply context_range_has.
  - exfalso. unfold display_location in E.
    destruct (is_nil (lm_list lm)) eqn:En; simpl in E; [discriminate|].
    specialize (Hm eq_refl).
    replace (Z.of_nat i <? Z.of_nat (length (lm_list lm))) with true in E
      by (symmetry; apply Z.ltb_lt; lia).
    rewrite (py_index_nat _ _ Hm) in E.
    destruct (nth_error (lm_list lm) i) as [[f n]|] eqn:En2; [discriminate|].
    apply nth_error_None in En2. lia.
Qed.

(* ---------------- index sites ---------------- *)

Lemma index_site_with_map : forall i lines filename lm f n text,
  nth_error lines i = Some text ->
  nth_error (lm_list lm) i = Some (f, n) ->
  location (format_error (Z.of_nat i) lines filename lm) = Some (shown_file (Some f), n + 1) /\
  pointed (format_error (Z.of_nat i) lines filename lm) = Some (n + 1, text).
Proof.
  intros i lines filename lm f n text Ht Hm. split.
  - now apply location_index_lm.
  - rewrite (pointed_index i lines filename lm text Ht).
    + now rewrite Hm.
    + intros _. apply nth_error_Some. congruence.
Qed.

Lemma index_site_without_map : forall i lines filename lm text,
  nth_error lines i = Some text ->
  lm_list lm = [] ->
  location (format_error (Z.of_nat i) lines filename lm) = Some (shown_file filename, Z.of_nat i + 1) /\
  pointed (format_error (Z.of_nat i) lines filename lm) = Some (Z.of_nat i + 1, text).
Proof.
  intros i lines filename lm text Ht Hm. split.
  - now apply location_nomap.
  - rewrite (pointed_index i lines filename lm text Ht).
    + rewrite Hm. now destruct i.
    + rewrite Hm. discriminate.
Qed.

(* ---------------- index + 1 sites ---------------- *)

Lemma plus1_with_map : forall i lines filename m f' n',
  nth_error m (S i) = Some (f', n') ->
  location (format_error (Z.of_nat i + 1) lines filename (Some m)) = Some (shown_file (Some f'), n' + 1).
Proof.
  intros. replace (Z.of_nat i + 1) with (Z.of_nat (S i)) by lia. now apply location_index_map.
Qed.

Lemma plus1_past_end : forall i lines filename m,
  (length m <= S i)%nat ->
  location (format_error (Z.of_nat i + 1) lines filename (Some m)) = Some (shown_file filename, Z.of_nat i + 2).
Proof.
  intros i lines filename m H. unfold format_error. simpl lm_list.
  rewrite display_location_past_end by lia. simpl. f_equal. f_equal. lia.
Qed.

Lemma plus1_without_map : forall i lines filename,
  location (format_error (Z.of_nat i + 1) lines filename None) = Some (shown_file filename, Z.of_nat i + 2).
Proof. intros. rewrite location_nomap by reflexivity. f_equal. f_equal. lia. Qed.

Lemma shown_file_nonempty : forall f, f <> ""%string -> shown_file (Some f) = Some f.
Proof.
  intros f H. unfold shown_file. destruct (String.eqb f "") eqn:E; [|reflexivity].
  apply String.eqb_eq in E. contradiction.
Qed.

Lemma plus1_differs : forall i lines filename m f n f' n',
  nth_error m i = Some (f, n) -> nth_error m (S i) = Some (f', n') ->
  f <> ""%string -> f' <> ""%string -> (f', n') <> (f, n) ->
  location (format_error (Z.of_nat i + 1) lines filename (Some m)) <>
  location (format_error (Z.of_nat i) lines filename (Some m)).
Proof.
  intros i lines filename m f n f' n' H0 H1 Hf Hf' Hne.
  rewrite (plus1_with_map i lines filename m f' n' H1).
  rewrite (location_index_map i lines filename m f n H0).
  rewrite !shown_file_nonempty by assumption.
  intro E. injection E as E1 E2. assert (n' = n) by lia. subst. now apply Hne.
Qed.

Lemma plus1_without_map_differs : forall i lines filename,
  location (format_error (Z.of_nat i + 1) lines filename None) <>
  location (format_error (Z.of_nat i) lines filename None).
Proof.
  intros. rewrite plus1_without_map, location_nomap by reflexivity. intro E. inversion E. lia.
Qed.

(* ---------------- the table ---------------- *)

Lemma site_ok_displays_right : forall s, site_ok s = true -> site_displays_right s.
Proof.
  intros s Hok. unfold site_ok in Hok. unfold site_displays_right.
  destruct (s_class s) eqn:Ec; try discriminate.
  - (* SIndex *)
    apply andb_prop in Hok. destruct Hok as [Hfull Hfile]. split.
    + intros _. repeat split; auto. intros i. now exists (Z.of_nat i).
    + intros i v lines filename lm text Hp Ht. simpl in Hp. inversion Hp; subst v. split.
      * intros f n Hm. now apply index_site_with_map.
      * intros Hm. now apply index_site_without_map.
  - (* SSliceIndex 0 *)
    apply andb_prop in Hok. destruct Hok as [Hk Hfile].
    apply andb_prop in Hk. destruct Hk as [Hk Hfull]. apply Z.eqb_eq in Hk. subst k. split.
    + intros _. repeat split; auto. intros i. now exists (Z.of_nat i + 0).
    + intros i v lines filename lm text Hp Ht. simpl in Hp. inversion Hp; subst v.
      rewrite Z.add_0_r. split.
      * intros f n Hm. now apply index_site_with_map.
      * intros Hm. now apply index_site_without_map.
  - split; [discriminate|]. intros i v lines filename lm text Hp. discriminate Hp.
  - split; [discriminate|]. intros i v lines filename lm text Hp. discriminate Hp.
  - split; [discriminate|]. intros i v lines filename lm text Hp. discriminate Hp.
Qed.

Lemma all_sites_display_right : forall t,
  forallb site_ok t = true -> forall s, In s t -> site_displays_right s.
Proof.
  intros t H s Hin. apply site_ok_displays_right.
  rewrite forallb_forall in H. now apply H.
Qed.

(* the other direction, for the shape the current tree has at ~20 sites *)
Lemma plus1_site_displays_wrong : forall s, s_class s = SIndexPlus1 -> ~ site_displays_right s.
Proof.
  intros s Ec [_ H].
  specialize (H 0%nat 1 ["a"%string] None None "a"%string).
  rewrite Ec in H. specialize (H eq_refl eq_refl). destruct H as [_ H].
  assert (Hm : lm_list (site_map s None) = []) by (unfold site_map; destruct (s_map s); reflexivity).
  destruct (H Hm) as [Hl _].
  rewrite location_nomap in Hl by assumption. inversion Hl.
Qed.

(* ---------------- composition with include provenance ---------------- *)

Lemma ok_site_names_authors_line : forall s, site_ok s = true ->
  forall fs m lines i v text filename,
    provenance_map fs m lines ->
    s_map s = true ->
    passed (s_class s) i = Some v ->
    nth_error lines i = Some text ->
    exists f ln fl,
      location (format_error v lines (site_filename s filename) (site_map s (Some m))) = Some (Some f, ln) /\
      1 <= ln /\ fs f = Some fl /\ nth_error fl (Z.to_nat (ln - 1)) = Some text.
Proof.
  intros s Hok fs m lines i v text filename [Hlen Hprov] Hmap Hp Ht.
  destruct (site_ok_displays_right s Hok) as [_ H].
  specialize (H i v lines filename (Some m) text Hp Ht). destruct H as [H _].
  assert (Hi : (i < length m)%nat) by (rewrite Hlen; apply nth_error_Some; congruence).
  destruct (nth_error m i) as [[f n]|] eqn:Em.
  2:{ apply nth_error_None in Em. lia. }
  destruct (Hprov i f n Em) as (Hn & Hf & fl & Hfs & Hline).
  unfold site_map in *. rewrite Hmap in *. simpl in H.
  destruct (H f n Em) as [Hloc _].
  exists f, (n + 1), fl. rewrite <- (shown_file_nonempty f Hf).
  repeat split; try lia; auto.
  replace (n + 1 - 1) with n by lia. now rewrite Hline.
Qed.

Lemma ok_site_names_own_file_line : forall s, site_ok s = true ->
  forall lines i v text filename,
    s_map s = false ->
    passed (s_class s) i = Some v ->
    nth_error lines i = Some text ->
    location (format_error v lines (site_filename s filename) (site_map s None)) =
      Some (shown_file filename, Z.of_nat i + 1) /\
    nth_error lines (Z.to_nat (Z.of_nat i + 1 - 1)) = Some text.
Proof.
  intros s Hok lines i v text filename Hmap Hp Ht.
  destruct (site_ok_displays_right s Hok) as [Hd H].
  specialize (H i v lines filename None text Hp Ht). destruct H as [_ H].
  unfold site_map in *. rewrite Hmap in *. simpl in H. destruct (H eq_refl) as [Hloc _].
  assert (Hfile : s_filename s = true).
  { apply Hd. unfold passed in Hp. destruct (s_class s); simpl; try reflexivity; discriminate. }
  unfold site_filename in *. rewrite Hfile in *. split; [assumption|].
  replace (Z.to_nat (Z.of_nat i + 1 - 1)) with i by lia. assumption.
Qed.

Lemma plus1_without_map_both : forall i lines filename,
  location (format_error (Z.of_nat i + 1) lines filename None) = Some (shown_file filename, Z.of_nat i + 2) /\
  location (format_error (Z.of_nat i + 1) lines filename None) <>
  location (format_error (Z.of_nat i) lines filename None).
Proof. intros. split; [apply plus1_without_map | apply plus1_without_map_differs]. Qed.

Lemma table_names_authors_line : forall t,
  forallb site_ok t = true -> forall s, In s t ->
  forall fs m lines i v text filename,
    provenance_map fs m lines ->
    s_map s = true ->
    passed (s_class s) i = Some v ->
    nth_error lines i = Some text ->
    exists f ln fl,
      location (format_error v lines (site_filename s filename) (site_map s (Some m))) = Some (Some f, ln) /\
      1 <= ln /\ fs f = Some fl /\ nth_error fl (Z.to_nat (ln - 1)) = Some text.
Proof.
  intros t H s Hin. apply ok_site_names_authors_line.
  rewrite forallb_forall in H. now apply H.
Qed.

Lemma table_names_own_file_line : forall t,
  forallb site_ok t = true -> forall s, In s t ->
  forall lines i v text filename,
    s_map s = false ->
    passed (s_class s) i = Some v ->
    nth_error lines i = Some text ->
    location (format_error v lines (site_filename s filename) (site_map s None)) =
      Some (shown_file filename, Z.of_nat i + 1) /\
    nth_error lines (Z.to_nat (Z.of_nat i + 1 - 1)) = Some text.
Proof.
  intros t H s Hin. apply ok_site_names_own_file_line.
  rewrite forallb_forall in H. now apply H.
Qed.
