(* Basic lemmas about Engine/Engine.v: an induction principle for token trees, and the *frame* of
   rendering and command execution (what they can and cannot change). *)
From Coq Require Import String Ascii List Bool ZArith Arith Lia.
From Bardic Require Import PyStr Value Compiled Engine.
Import ListNotations.
Local Open Scope list_scope.

(* ---------------------------------------------------------------------------------------- *)
(* induction on token trees (nested through lists, branches and choices) *)
Section TokenInd.
Variable P : token -> Prop.
Definition PL (l : list token) : Prop := Forall P l.
Definition PC (c : choice) : Prop := PL (ch_text c) /\ PL (ch_block c).
Definition PB (b : branch) : Prop :=
  match b with Branch _ cont chs => PL cont /\ Forall PC chs end.

Hypothesis H_text : forall v, P (TText v).
Hypothesis H_expr : forall c, P (TExpr c).
Hypothesis H_ic : forall c tr fa, PL tr -> PL fa -> P (TInlineCond c tr fa).
Hypothesis H_cond : forall brs, Forall PB brs -> P (TCond brs).
Hypothesis H_loop : forall v c cont chs, PL cont -> Forall PC chs -> P (TLoop v c cont chs).
Hypothesis H_jump : forall t a, P (TJump t a).
Hypothesis H_stmt : forall c, P (TPyStmt c).
Hypothesis H_block : forall c, P (TPyBlock c).
Hypothesis H_hook : forall a e t, P (THook a e t).
Hypothesis H_render : forall n a f, P (TRender n a f).
Hypothesis H_input : forall a, P (TInput a).
Hypothesis H_join : forall i, P (TJoinMarker i).

Fixpoint token_ind' (t : token) : P t :=
  let toks := fix toks (l : list token) : Forall P l :=
      match l with
      | [] => Forall_nil P
      | x :: r => Forall_cons x (token_ind' x) (toks r)
      end in
  let chs := fix chs (l : list choice) : Forall PC l :=
      match l with
      | [] => Forall_nil PC
      | c :: r =>
          Forall_cons c
            (match c return PC c with
             | Choice tx tg ar cd stk sec tgs blk => conj (toks tx) (toks blk)
             end) (chs r)
      end in
  let brs := fix brs (l : list branch) : Forall PB l :=
      match l with
      | [] => Forall_nil PB
      | b :: r =>
          Forall_cons b
            (match b return PB b with
             | Branch c cont ch => conj (toks cont) (chs ch)
             end) (brs r)
      end in
  match t with
  | TText v => H_text v
  | TExpr c => H_expr c
  | TInlineCond c tr fa => H_ic c tr fa (toks tr) (toks fa)
  | TCond b => H_cond b (brs b)
  | TLoop v c cont ch => H_loop v c cont ch (toks cont) (chs ch)
  | TJump t a => H_jump t a
  | TPyStmt c => H_stmt c
  | TPyBlock c => H_block c
  | THook a e t => H_hook a e t
  | TRender n a f => H_render n a f
  | TInput a => H_input a
  | TJoinMarker i => H_join i
  end.

Lemma tokens_ind' (l : list token) : Forall P l.
Proof. induction l; constructor; auto using token_ind'. Qed.
End TokenInd.

(* ---------------------------------------------------------------------------------------- *)
(* the frame: rendering and commands change only variables, hooks (by register/unregister) and the log *)

Inductive HooksStep : hookmap -> hookmap -> Prop :=
| HS_refl h : HooksStep h h
| HS_reg h h' ev p : HooksStep h h' -> HooksStep h (register_hook h' ev p)
| HS_unreg h h' ev p : HooksStep h h' -> HooksStep h (unregister_hook h' ev p).

Lemma HooksStep_trans a b c : HooksStep a b -> HooksStep b c -> HooksStep a c.
Proof. intros H1 H2. induction H2; auto using HooksStep. Qed.

(* events that rendering and command execution may log *)
Definition low_event (e : event) : Prop :=
  match e with
  | EvStmt _ | EvBlock _ | EvHook _ _ _ | EvRenderStart _ => True
  | EvEnter _ | EvHookRun _ => False
  end.

Record Frame (s s' : nstate) : Prop := mkFrame {
  fr_scopes : scopes s' = scopes s;
  fr_cur : cur (nc s') = cur (nc s);
  fr_used : used (nc s') = used (nc s);
  fr_join : joinidx (nc s') = joinidx (nc s);
  fr_out : out (nc s') = out (nc s);
  fr_hooks : HooksStep (hooks (nc s)) (hooks (nc s'));
  fr_log : exists l, log s' = log s ++ l /\ Forall low_event l }.

Lemma Frame_refl s : Frame s s.
Proof. constructor; auto using HooksStep. exists []. split; [now rewrite app_nil_r|constructor]. Qed.

Lemma Frame_trans a b c : Frame a b -> Frame b c -> Frame a c.
Proof.
  intros [A1 A2 A3 A4 A5 A6 [l1 [A7 A8]]] [B1 B2 B3 B4 B5 B6 [l2 [B7 B8]]].
  constructor; try congruence.
  - eapply HooksStep_trans; eauto.
  - exists (l1 ++ l2). split; [rewrite B7, A7, app_assoc; reflexivity|]. apply Forall_app; auto.
Qed.

Definition FrameM {A} (m : M A) : Prop := forall s s' r, m s = (s', r) -> Frame s s'.

Lemma FrameM_ret {A} (a : A) : FrameM (ret a).
Proof. intros s s' r H. inversion H; subst. apply Frame_refl. Qed.

Lemma FrameM_raise {A} e : FrameM (@raise A e).
Proof. intros s s' r H. inversion H; subst. apply Frame_refl. Qed.

Lemma FrameM_bind {A B} (m : M A) (f : A -> M B) :
  FrameM m -> (forall a, FrameM (f a)) -> FrameM (bind m f).
Proof.
  intros Hm Hf s s' r H. unfold bind in H. destruct (m s) as [s1 [a|e]] eqn:E.
  - eapply Frame_trans; [eapply Hm; eauto | eapply Hf; eauto].
  - inversion H; subst. eapply Hm; eauto.
Qed.

Lemma FrameM_catch {A} (m : M A) (h : exn -> M A) :
  FrameM m -> (forall e, FrameM (h e)) -> FrameM (catch m h).
Proof.
  intros Hm Hh s s' r H. unfold catch in H. destruct (m s) as [s1 [a|e]] eqn:E.
  - inversion H; subst. eapply Hm; eauto.
  - eapply Frame_trans; [eapply Hm; eauto | eapply Hh; eauto].
Qed.

Lemma FrameM_get : FrameM get.
Proof. intros s s' r H. inversion H; subst. apply Frame_refl. Qed.

Lemma FrameM_lift {A} (x : res A) : FrameM (lift_res x).
Proof. intros s s' r H. inversion H; subst. apply Frame_refl. Qed.

Lemma FrameM_emit e : low_event e -> FrameM (emit e).
Proof.
  intros He s s' r H. inversion H; subst. constructor; simpl; auto using HooksStep.
  exists [e]. split; [reflexivity|]. constructor; [exact He|constructor].
Qed.

Lemma FrameM_set_vars v : FrameM (set_vars v).
Proof.
  intros s s' r H. inversion H; subst. constructor; simpl; auto using HooksStep.
  exists []. split; [now rewrite app_nil_r|constructor].
Qed.

Lemma FrameM_fun {A} (f : nstate -> M A) : (forall x, FrameM (f x)) -> FrameM (fun s => f s s).
Proof. intros H s s' r E. eapply H; eauto. Qed.

Section WithOracle.
Variable orc : pyorc.
Variable ctxkeys : list string.
Variable st : story.

Lemma FrameM_ctx_now : FrameM ctx_now.
Proof. intros s s' r H. inversion H; subst. apply Frame_refl. Qed.

Ltac frame :=
  repeat first
    [ apply FrameM_ret | apply FrameM_raise | apply FrameM_get | apply FrameM_lift | (apply FrameM_emit; exact I)
    | apply FrameM_set_vars | apply FrameM_ctx_now
    | apply FrameM_bind; [|intros ?] | apply FrameM_catch; [|intros ?]
    | match goal with |- FrameM (let '(_, _) := ?x in _) => destruct x end
    | match goal with |- FrameM (match ?x with _ => _ end) => destruct x end
    | match goal with |- FrameM (if ?x then _ else _) => destruct x end ].

Lemma FrameM_exec_statement c : FrameM (exec_statement orc ctxkeys c).
Proof.
  unfold exec_statement. apply FrameM_bind; [apply FrameM_emit; exact I|]. intros _.
  apply FrameM_bind; [apply FrameM_ctx_now|]. intros ctx.
  destruct (o_exec orc ctx c) as [ctx'|e]; [|apply FrameM_raise].
  intros s s' r H. eapply FrameM_set_vars. exact H.
Qed.

Lemma FrameM_exec_block c : FrameM (exec_block orc ctxkeys c).
Proof.
  unfold exec_block. apply FrameM_bind; [apply FrameM_emit; exact I|]. intros _.
  apply FrameM_bind; [apply FrameM_ctx_now|]. intros ctx.
  destruct (o_exec orc ctx c) as [ctx'|e]; [|apply FrameM_raise].
  intros s s' r H. eapply FrameM_set_vars. exact H.
Qed.

Lemma FrameM_set_hooks_reg ev p (add : bool) :
  FrameM (fun s => set_hooks (if add then register_hook (hooks (nc s)) ev p
                              else unregister_hook (hooks (nc s)) ev p) s).
Proof.
  intros s s' r H. inversion H; subst. constructor; simpl; auto.
  - destruct add; constructor; apply HS_refl.
  - exists []. split; [now rewrite app_nil_r|constructor].
Qed.

Lemma FrameM_exec_hook a ev p : FrameM (exec_hook a ev p).
Proof.
  unfold exec_hook. apply FrameM_bind; [apply FrameM_emit; exact I|]. intros _. apply FrameM_set_hooks_reg.
Qed.

Lemma FrameM_exec_command t : FrameM (exec_command orc ctxkeys t).
Proof.
  destruct t; simpl; try apply FrameM_ret;
    auto using FrameM_exec_statement, FrameM_exec_block, FrameM_exec_hook.
Qed.

Lemma FrameM_exec_commands l : FrameM (exec_commands orc ctxkeys l).
Proof.
  induction l as [|t l IH]; simpl; [apply FrameM_ret|].
  apply FrameM_bind; [apply FrameM_exec_command | intros _; exact IH].
Qed.

(* the generic sequencer and the block helpers preserve the frame when the token renderer does *)
Lemma FrameM_seqr (f : token -> M tok_out) l :
  Forall (fun t => FrameM (f t)) l -> FrameM (seqr f l).
Proof.
  induction 1 as [|t l Ht Hl IH]; simpl; [apply FrameM_ret|].
  apply FrameM_bind; [exact Ht|]. intros [[txt c] ds].
  destruct c; [|apply FrameM_ret|apply FrameM_ret].
  apply FrameM_bind; [exact IH|]. intros [[? ?] ?]. apply FrameM_ret.
Qed.

Definition FC (f : token -> M tok_out) (c : choice) : Prop :=
  Forall (fun t => FrameM (f t)) (ch_text c) /\ Forall (fun t => FrameM (f t)) (ch_block c).
Definition FB (f : token -> M tok_out) (b : branch) : Prop :=
  match b with Branch _ cont chs => Forall (fun t => FrameM (f t)) cont /\ Forall (FC f) chs end.

Lemma FrameM_render_branches f ctx brs :
  Forall (FB f) brs -> FrameM (render_branches orc f ctx brs).
Proof.
  induction 1 as [|b l Hb Hl IH]; simpl; [apply FrameM_ret|].
  destruct b as [cond cont chs]. destruct Hb as [Hc _].
  destruct (o_eval orc ctx cond) as [v|e]; [|exact IH].
  destruct (truthy v); [|exact IH].
  apply FrameM_bind; [apply FrameM_seqr; exact Hc|]. intros [[? ?] ?]. apply FrameM_ret.
Qed.

Lemma FrameM_render_loop_choices f chs :
  Forall (FC f) chs -> FrameM (render_loop_choices f chs).
Proof.
  induction 1 as [|c l Hc Hl IH]; simpl; [apply FrameM_ret|].
  destruct Hc as [Ht _].
  apply FrameM_bind; [apply FrameM_seqr; exact Ht|]. intros [[? ?] ?].
  apply FrameM_bind; [exact IH|]. intros ?. apply FrameM_ret.
Qed.

Lemma FrameM_render_loop_items f vs cont chs items :
  Forall (fun t => FrameM (f t)) cont -> Forall (FC f) chs ->
  FrameM (render_loop_items f vs cont chs items).
Proof.
  intros Hc Hch. induction items as [|it rest IH]; simpl; [apply FrameM_ret|].
  apply FrameM_bind; [apply FrameM_get|]. intros s0.
  destruct (loop_bind vs it (vars (nc s0))) as [v1 orig].
  apply FrameM_bind; [apply FrameM_set_vars|]. intros _.
  apply FrameM_bind; [apply FrameM_seqr; exact Hc|]. intros [[txt j] ds].
  apply FrameM_bind; [apply FrameM_render_loop_choices; exact Hch|]. intros chds.
  apply FrameM_bind; [apply FrameM_get|]. intros s1.
  apply FrameM_bind; [apply FrameM_set_vars|]. intros _.
  destruct j; [apply FrameM_ret|].
  apply FrameM_bind; [exact IH|]. intros [[? ?] ?]. apply FrameM_ret.
Qed.

Lemma PC_FC c : PC (fun t => FrameM (render_tok orc ctxkeys t)) c -> FC (render_tok orc ctxkeys) c.
Proof. intros [A B]. split; assumption. Qed.

Lemma FrameM_render_tok t : FrameM (render_tok orc ctxkeys t).
Proof.
  induction t using token_ind'; simpl.
  - apply FrameM_ret.
  - frame.
  - apply FrameM_bind; [apply FrameM_ctx_now|]. intros ctx.
    destruct (o_eval orc ctx c) as [b|e]; [|apply FrameM_ret].
    apply FrameM_catch; [|intros; apply FrameM_ret].
    apply FrameM_bind.
    + apply FrameM_seqr. destruct (truthy b); assumption.
    + intros [[? ?] ?]. apply FrameM_ret.
  - apply FrameM_bind; [apply FrameM_ctx_now|]. intros ctx.
    apply FrameM_render_branches.
    eapply Forall_impl; [|exact H]. intros [cond cont chs] [Hc Hch]. split; [exact Hc|].
    eapply Forall_impl; [|exact Hch]. intros c0. apply PC_FC.
  - destruct (String.eqb v "" || String.eqb c ""); [apply FrameM_ret|].
    apply FrameM_bind; [apply FrameM_ctx_now|]. intros ctx.
    destruct (match o_eval orc ctx c with Ok c0 => py_iter c0 | Exc e => Exc e end) as [items|e];
      [|apply FrameM_ret].
    apply FrameM_render_loop_items; [assumption|].
    eapply Forall_impl; [|exact H0]. intros c0. apply PC_FC.
  - apply FrameM_ret.
  - apply FrameM_bind; [apply FrameM_exec_statement|]. intros; apply FrameM_ret.
  - apply FrameM_bind; [apply FrameM_exec_block|]. intros; apply FrameM_ret.
  - apply FrameM_bind; [apply FrameM_exec_hook|]. intros; apply FrameM_ret.
  - frame.
  - apply FrameM_ret.
  - apply FrameM_ret.
Qed.

Lemma FrameM_render_content l : FrameM (render_content orc ctxkeys l).
Proof.
  unfold render_content. apply FrameM_seqr. apply Forall_forall. intros t _. apply FrameM_render_tok.
Qed.

Lemma FrameM_render_choice_text c : FrameM (render_choice_text orc ctxkeys c).
Proof.
  unfold render_choice_text. apply FrameM_bind; [apply FrameM_render_content|].
  intros [[? ?] ?]. apply FrameM_ret.
Qed.

Lemma FrameM_choice_text c dt : FrameM (choice_text orc ctxkeys c dt).
Proof. destruct dt; simpl; [apply FrameM_ret|apply FrameM_render_choice_text]. Qed.

Lemma FrameM_is_choice_available c dt : FrameM (is_choice_available orc ctxkeys c dt).
Proof.
  unfold is_choice_available. apply FrameM_bind.
  - destruct (ch_sticky c); [apply FrameM_ret|].
    apply FrameM_bind; [apply FrameM_choice_text|]. intros t.
    intros s s' r H. inversion H; subst. apply Frame_refl.
  - intros u. destruct (negb u); [apply FrameM_ret|].
    destruct (ch_cond c) as [cond|]; [|apply FrameM_ret].
    destruct (String.eqb cond ""); [apply FrameM_ret|].
    apply FrameM_bind; [apply FrameM_ctx_now|]. intros ctx.
    destruct (o_eval orc ctx cond); apply FrameM_ret.
Qed.

Lemma FrameM_filter_choices cands sec : FrameM (filter_choices orc ctxkeys cands sec).
Proof.
  induction cands as [|[[c dt] fd] r IH]; simpl; [apply FrameM_ret|].
  apply FrameM_bind; [apply FrameM_is_choice_available|]. intros av.
  destruct (av && Nat.eqb (dir_section c fd) sec); [|exact IH].
  apply FrameM_bind; [apply FrameM_choice_text|]. intros t.
  apply FrameM_bind; [exact IH|]. intros rs. apply FrameM_ret.
Qed.

Lemma FrameM_render_passage pid : FrameM (render_passage orc ctxkeys st pid).
Proof.
  unfold render_passage. destruct (get_passage st pid) as [p|]; [|apply FrameM_raise].
  apply FrameM_bind; [apply FrameM_emit; exact I|]. intros _.
  apply FrameM_bind; [apply FrameM_render_content|]. intros [[txt j] ds].
  destruct (split_dirs ds) as [[cds ins] rds].
  apply FrameM_bind; [apply FrameM_get|]. intros s.
  apply FrameM_bind; [apply FrameM_filter_choices|]. intros chs. apply FrameM_ret.
Qed.

End WithOracle.
