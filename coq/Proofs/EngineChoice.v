(* Lemmas for C02 (offered = enabled, one-time choices) and C10 (@join sections). *)
From Coq Require Import String Ascii List Bool ZArith Arith Lia.
From Bardic Require Import PyStr Value Compiled Engine EngineBase EngineNav EngineParams EngineSem EngineJump
     EngineUndo EngineHooks.
Import ListNotations.
Local Open Scope list_scope.

(* tokens the compiler puts into choice texts: plain text, {expr}, inline conditionals of those *)
Fixpoint pure_tok (t : token) : bool :=
  match t with
  | TText _ | TExpr _ => true
  | TInlineCond _ tr fa => forallb pure_tok tr && forallb pure_tok fa
  | _ => false
  end.

Section WithOracle.
Variable orc : pyorc.
Variable ctxkeys : list string.
Variable st : story.

Definition StateFree {A} (m : M A) : Prop := forall s, exists v, m s = (s, Ok v).

Lemma StateFree_seqr (f : token -> M tok_out) l :
  Forall (fun t => StateFree (f t)) l -> StateFree (seqr f l).
Proof.
  induction 1 as [|t r Ht Hr IH]; intros s; simpl.
  - eexists. reflexivity.
  - unfold bind. destruct (Ht s) as ([[txt c] ds] & ->). destruct c.
    + destruct (IH s) as ([[t2 j] d2] & ->). eexists. reflexivity.
    + eexists. reflexivity.
    + eexists. reflexivity.
Qed.

Lemma pure_render t : pure_tok t = true -> StateFree (render_tok orc ctxkeys t).
Proof.
  induction t using token_ind'; simpl; intros Hp; try discriminate.
  - intros s. eexists. reflexivity.
  - intros s. eexists. reflexivity.
  - apply andb_true_iff in Hp. destruct Hp as [Ht Hf].
    assert (Htr : Forall (fun t => StateFree (render_tok orc ctxkeys t)) tr).
    { rewrite forallb_forall in Ht. apply Forall_forall. intros x Hx.
      unfold PL in H. rewrite Forall_forall in H. apply H; auto. }
    assert (Hfa : Forall (fun t => StateFree (render_tok orc ctxkeys t)) fa).
    { rewrite forallb_forall in Hf. apply Forall_forall. intros x Hx.
      unfold PL in H0. rewrite Forall_forall in H0. apply H0; auto. }
    intros s. unfold bind, ctx_now.
    destruct (o_eval orc (eval_context (vars (nc s)) (scopes s)) c) as [b|e]; [|eexists; reflexivity].
    unfold catch, bind.
    destruct (StateFree_seqr (render_tok orc ctxkeys) (if truthy b then tr else fa)
                (if truthy b as x return Forall _ (if x then tr else fa) then Htr else Hfa) s)
      as ([[txt j] ds] & ->).
    eexists. reflexivity.
Qed.

Definition pure_choice (c : choice) : Prop := forallb pure_tok (ch_text c) = true.

Lemma pure_render_content l : forallb pure_tok l = true -> StateFree (render_content orc ctxkeys l).
Proof.
  intros H. unfold render_content. apply StateFree_seqr. rewrite forallb_forall in H.
  apply Forall_forall. intros t Ht. apply pure_render. auto.
Qed.

(* the rendered text of a choice, and whether it is enabled, as functions of the state *)
Definition text_of (s : nstate) (c : choice) (dt : option string) : string :=
  match choice_text orc ctxkeys c dt s with (_, Ok t) => t | _ => ""%string end.

Definition cur_name (s : nstate) : string := match cur (nc s) with Some p => p | None => "None"%string end.

Definition cond_holds (s : nstate) (c : choice) : bool :=
  match ch_cond c with
  | None => true
  | Some cond =>
      if String.eqb cond "" then true else
      match o_eval orc (eval_context (vars (nc s)) (scopes s)) cond with
      | Ok v => truthy v
      | Exc _ => false          (* a condition that cannot be evaluated hides the choice *)
      end
  end.

Definition not_used (s : nstate) (c : choice) (dt : option string) : bool :=
  ch_sticky c || negb (str_in (choice_id (cur_name s) (text_of s c dt) (ch_target c)) (used (nc s))).

Definition enabled (s : nstate) (c : choice) (dt : option string) : bool :=
  not_used s c dt && cond_holds s c.

Lemma choice_text_pure c dt s : pure_choice c -> choice_text orc ctxkeys c dt s = (s, Ok (text_of s c dt)).
Proof.
  intros Hp. unfold text_of. destruct dt as [t|]; simpl; [reflexivity|].
  unfold render_choice_text, bind. destruct (pure_render_content (ch_text c) Hp s) as ([[t j] ds] & ->).
  reflexivity.
Qed.

Lemma is_choice_available_spec c dt s :
  pure_choice c -> is_choice_available orc ctxkeys c dt s = (s, Ok (enabled s c dt)).
Proof.
  intros Hp. unfold is_choice_available, enabled, not_used, cond_holds, cur_name.
  destruct (ch_sticky c) eqn:Es.
  - unfold bind at 1, ret. simpl. destruct (ch_cond c) as [cond|]; [|reflexivity].
    destruct (String.eqb cond ""); [reflexivity|].
    unfold bind, ctx_now. destruct (o_eval orc _ cond); reflexivity.
  - unfold bind at 1. unfold bind at 1. rewrite (choice_text_pure c dt s Hp). simpl.
    destruct (str_in _ (used (nc s))); simpl; [reflexivity|].
    destruct (ch_cond c) as [cond|]; [|reflexivity].
    destruct (String.eqb cond ""); [reflexivity|].
    unfold bind, ctx_now. destruct (o_eval orc _ cond); reflexivity.
Qed.

Definition cand := (choice * option string * bool)%type.
Definition cand_choice (x : cand) : choice := fst (fst x).
Definition keep (s : nstate) (sec : nat) (x : cand) : bool :=
  let '(c, dt, fd) := x in enabled s c dt && Nat.eqb (dir_section c fd) sec.
Definition shown (s : nstate) (x : cand) : rchoice := let '(c, dt, fd) := x in mkRC (text_of s c dt) c.

(* the offered choices are exactly the enabled candidates of the current section, in order *)
Lemma filter_choices_spec cands sec s :
  Forall (fun x => pure_choice (cand_choice x)) cands ->
  filter_choices orc ctxkeys cands sec s = (s, Ok (map (shown s) (filter (keep s sec) cands))).
Proof.
  induction 1 as [|[[c dt] fd] r Hc Hr IH]; simpl; [reflexivity|].
  unfold cand_choice in Hc. simpl in Hc.
  unfold bind at 1. rewrite (is_choice_available_spec c dt s Hc).
  destruct (enabled s c dt && Nat.eqb (dir_section c fd) sec); simpl.
  - unfold bind at 1. rewrite (choice_text_pure c dt s Hc). unfold bind. rewrite IH. reflexivity.
  - exact IH.
Qed.

(* without any purity assumption: whatever is offered belongs to the requested section *)
Lemma filter_choices_section cands sec : forall s s' l,
  filter_choices orc ctxkeys cands sec s = (s', Ok l) ->
  Forall (fun rc => exists dt fd, In (rc_choice rc, dt, fd) cands /\ dir_section (rc_choice rc) fd = sec) l.
Proof.
  induction cands as [|[[c dt] fd] r IH]; intros s s' l H; simpl in H.
  - unfold ret in H. inversion H. constructor.
  - apply bind_inv_ok in H. destruct H as (av & s1 & _ & H).
    destruct (av && Nat.eqb (dir_section c fd) sec) eqn:E.
    + apply bind_inv_ok in H. destruct H as (t & s2 & _ & H).
      apply bind_inv_ok in H. destruct H as (rs & s3 & Hr & H). unfold ret in H. inversion H; subst.
      constructor.
      * simpl. exists dt, fd. split; [left; reflexivity|].
        apply andb_true_iff in E. destruct E as [_ E]. apply Nat.eqb_eq in E. exact E.
      * eapply Forall_impl; [|eapply IH; eauto]. intros rc (dt' & fd' & Hin & Hs). exists dt', fd'. split; auto.
        right. exact Hin.
    + eapply Forall_impl; [|eapply IH; eauto]. intros rc (dt' & fd' & Hin & Hs). exists dt', fd'. split; auto.
      right. exact Hin.
Qed.

(* what render_passage offers *)
Definition passage_cands (p : passage) (cds : list (choice * option string)) : list cand :=
  map (fun c => (c, None, false)) (choices p) ++ map (fun ct => (fst ct, snd ct, true)) cds.

Lemma render_passage_inv pid s s' o :
  render_passage orc ctxkeys st pid s = (s', Ok o) ->
  exists p s1 s2 txt j ds,
    get_passage st pid = Some p /\
    render_content orc ctxkeys (content p) (mkNS (nc s) (scopes s) (log s ++ [EvRenderStart pid])) = (s1, Ok (txt, j, ds)) /\
    let '(cds, ins, rds) := split_dirs ds in
    let sec := match lookup pid (joinidx (nc s1)) with Some n => n | None => 0 end in
    filter_choices orc ctxkeys (passage_cands p cds) sec s1 = (s2, Ok (o_choices o)) /\
    s' = s2 /\ o_content o = txt /\ o_pid o = pid /\ o_jump o = j /\ o_render o = rds /\
    o_input o = ins ++ input_directives p.
Proof.
  unfold render_passage. destruct (get_passage st pid) as [p|]; [|intros H; inversion H]. intros H.
  apply bind_inv_ok in H. destruct H as ([] & s0 & H0 & H). unfold emit in H0. inversion H0; subst s0. clear H0.
  apply bind_inv_ok in H. destruct H as ([[txt j] ds] & s1 & H1 & H).
  exists p, s1. destruct (split_dirs ds) as [[cds ins] rds] eqn:Esp.
  apply bind_inv_ok in H. destruct H as (sg & s2 & Hg & H). unfold get in Hg. inversion Hg; subst sg s2. clear Hg.
  apply bind_inv_ok in H. destruct H as (chs & s3 & Hf & H). unfold ret in H.
  assert (Hs : s' = s3) by (inversion H; reflexivity).
  assert (Ho : o = mkOut txt chs pid rds (ins ++ input_directives p) j) by (inversion H; reflexivity).
  subst s' o. clear H.
  exists s3, txt, j, ds. split; [reflexivity|]. split; [exact H1|]. rewrite Esp. simpl.
  repeat split; auto.
Qed.

Lemma offered_exactly_enabled_lemma pid s s' o :
  render_passage orc ctxkeys st pid s = (s', Ok o) ->
  exists p s1 cds,
    get_passage st pid = Some p /\
    (Forall (fun x => pure_choice (cand_choice x)) (passage_cands p cds) ->
     let sec := match lookup pid (joinidx (nc s1)) with Some n => n | None => 0 end in
     s' = s1 /\ o_choices o = map (shown s1) (filter (keep s1 sec) (passage_cands p cds))).
Proof.
  intros H. apply render_passage_inv in H.
  destruct H as (p & s1 & s2 & txt & j & ds & Hp & Hc & H).
  destruct (split_dirs ds) as [[cds ins] rds]. destruct H as (Hf & -> & _).
  exists p, s1, cds. split; [exact Hp|]. intros Hpure. simpl.
  rewrite (filter_choices_spec _ _ s1 Hpure) in Hf. inversion Hf; subst. split; reflexivity.
Qed.

(* whatever render_passage offers is a choice of the current section (no purity needed) *)
Lemma render_passage_section pid s s' o :
  render_passage orc ctxkeys st pid s = (s', Ok o) ->
  exists p cds sec, get_passage st pid = Some p /\
    Forall (fun rc => exists dt fd, In (rc_choice rc, dt, fd) (passage_cands p cds) /\
                                    dir_section (rc_choice rc) fd = sec) (o_choices o) /\
    (exists s1, sec = match lookup pid (joinidx (nc s1)) with Some n => n | None => 0 end /\
                joinidx (nc s1) = joinidx (nc s)).
Proof.
  intros H. apply render_passage_inv in H.
  destruct H as (p & s1 & s2 & txt & j & ds & Hp & Hc & H).
  destruct (split_dirs ds) as [[cds ins] rds]. destruct H as (Hf & -> & _).
  exists p, cds, (match lookup pid (joinidx (nc s1)) with Some n => n | None => 0 end).
  split; [exact Hp|]. split; [eapply filter_choices_section; eauto|].
  exists s1. split; [reflexivity|].
  destruct (FrameM_render_content orc ctxkeys (content p) _ _ _ Hc) as [_ _ _ J _ _ _]. exact J.
Qed.

(* ---- one-time choices ---- *)
Lemma used_hides c dt s :
  pure_choice c -> ch_sticky c = false ->
  str_in (choice_id (cur_name s) (text_of s c dt) (ch_target c)) (used (nc s)) = true ->
  enabled s c dt = false.
Proof. intros _ Hs Hu. unfold enabled, not_used. rewrite Hs, Hu. reflexivity. Qed.

Lemma sticky_enabled_iff_cond c dt s : ch_sticky c = true -> enabled s c dt = cond_holds s c.
Proof. intros Hs. unfold enabled, not_used. rewrite Hs. reflexivity. Qed.

Lemma str_in_add_used x u : str_in x (add_used x u) = true.
Proof.
  unfold add_used. destruct (str_in x u) eqn:E; [exact E|].
  induction u as [|y r IH]; simpl; [now rewrite String.eqb_refl|].
  simpl in E. apply orb_false_iff in E. destruct E as [E1 E2]. rewrite E1. simpl. apply IH. exact E2.
Qed.

Lemma str_in_add_used_mono x y u : str_in y u = true -> str_in y (add_used x u) = true.
Proof.
  unfold add_used. destruct (str_in x u); [auto|]. intros H.
  induction u as [|z r IH]; simpl in *; [discriminate|].
  apply orb_true_iff in H. destruct H as [H|H]; [rewrite H; reflexivity|]. rewrite (IH H). apply orb_true_r.
Qed.

(* taking a one-time choice marks it used, and the mark survives the whole navigation and the hooks *)
Lemma choose_nav_marks_used ch o s s' r :
  ch_sticky (rc_choice ch) = false ->
  choose_nav orc ctxkeys st ch o s = (s', r) ->
  used (nc s') = add_used (choice_id (o_pid o) (rc_text ch) (ch_target (rc_choice ch))) (used (nc s)).
Proof.
  intros Hs H. unfold choose_nav in H. rewrite Hs in H. unfold bind at 1 in H. unfold set_used in H. simpl in H.
  match type of H with (if _ then ?a else ?b) ?s1 = _ =>
    assert (Hn : NFrame s1 s') end.
  { destruct (String.eqb (ch_target (rc_choice ch)) "@join").
    - eapply NFrameM_execute_join_choice; eauto.
    - unfold bind in H. destruct (goto orc ctxkeys st _ _) as [s2 [r2|e]] eqn:Eg.
      + eapply NFrame_trans; [eapply NFrameM_goto; eauto|eapply NFrameM_after_hooks; eauto].
      + inversion H; subst. eapply NFrameM_goto; eauto. }
  destruct Hn as [_ U _ _]. rewrite U. reflexivity.
Qed.

(* ---- @join ---- *)
Lemma execute_join_choice_advances c s s' o :
  execute_join_choice orc ctxkeys st c s = (s', Ok o) ->
  let pid := match cur (nc s) with Some p => p | None => ""%string end in
  let idx := match lookup pid (joinidx (nc s)) with Some n => n | None => 0 end in
  lookup pid (joinidx (nc s')) = Some (S idx) /\ cur (nc s') = cur (nc s) /\
  exists btxt bds s1 post s2 h,
    (match ch_block (rc_choice c) with
     | [] => btxt = ""%string /\ bds = [] /\ s1 = s
     | blk => exists j, render_content orc ctxkeys blk s = (s1, Ok (btxt, j, bds))
     end) /\
    render_from_join_marker orc ctxkeys st pid idx s1 = (s2, Ok post) /\
    o_choices o = o_choices post /\ o_pid o = pid /\
    o_content o = o_content (with_hook_output
      (mkOut (if String.eqb (o_content post) "" then btxt
              else if negb (String.eqb btxt "") && negb (ends_with_newline btxt)
                   then (btxt ++ String "010"%char (o_content post))%string
                   else (btxt ++ o_content post)%string) [] "" [] [] None) h).
Proof.
  unfold execute_join_choice. intros H.
  apply bind_inv_ok in H. destruct H as (sg & s0 & Hg & H). unfold get in Hg. inversion Hg; subst sg s0. clear Hg.
  apply bind_inv_ok in H. destruct H as ([btxt bds] & s1 & Hb & H).
  apply bind_inv_ok in H. destruct H as (sg & s1' & Hg & H). unfold get in Hg. inversion Hg; subst sg s1'. clear Hg.
  apply bind_inv_ok in H. destruct H as (post & s2 & Hp & H).
  apply bind_inv_ok in H. destruct H as (sg & s2' & Hg & H). unfold get in Hg. inversion Hg; subst sg s2'. clear Hg.
  apply bind_inv_ok in H. destruct H as ([] & s3 & Hj & H). unfold set_joinidx in Hj. inversion Hj; subst s3. clear Hj.
  apply bind_inv_ok in H. destruct H as ([] & s4 & Ho & H). unfold set_out in Ho. inversion Ho; subst s4. clear Ho.
  simpl in H.
  (* frames of the parts *)
  assert (F1 : joinidx (nc s1) = joinidx (nc s) /\ cur (nc s1) = cur (nc s)).
  { destruct (ch_block (rc_choice c)) as [|b0 br].
    - unfold ret in Hb. inversion Hb; subst. split; reflexivity.
    - apply bind_inv_ok in Hb. destruct Hb as ([[t j] d] & sx & Hx & Hb). unfold ret in Hb. inversion Hb; subst.
      destruct (FrameM_render_content orc ctxkeys _ _ _ _ Hx) as [_ C _ J _ _ _]. split; assumption. }
  destruct F1 as [J1 C1].
  assert (F2 : joinidx (nc s2) = joinidx (nc s1) /\ cur (nc s2) = cur (nc s1)).
  { unfold render_from_join_marker in Hp.
    destruct (get_passage st _) as [p|]; [|unfold raise in Hp; inversion Hp].
    apply bind_inv_ok in Hp. destruct Hp as (toks & sa & Ha & Hp).
    assert (sa = s1).
    { destruct (after_nth_marker (content p) _); [unfold ret in Ha; inversion Ha; reflexivity|].
      destruct (match lookup _ (joinidx (nc s1)) with Some n => n | None => 0 end);
        [unfold ret in Ha; inversion Ha; reflexivity|unfold raise in Ha; inversion Ha]. }
    subst sa.
    apply bind_inv_ok in Hp. destruct Hp as ([[t j] d] & sb & Hc & Hp).
    destruct (split_dirs d) as [[? ?] ?].
    apply bind_inv_ok in Hp. destruct Hp as (chs & sc & Hf & Hp). unfold ret in Hp. inversion Hp; subst.
    destruct (FrameM_render_content orc ctxkeys _ _ _ _ Hc) as [_ C _ J _ _ _].
    destruct (FrameM_filter_choices orc ctxkeys _ _ _ _ _ Hf) as [_ C' _ J' _ _ _].
    split; congruence. }
  destruct F2 as [J2 C2].
  pose proof (HFrameM_after_hooks orc ctxkeys st _ _ _ _ H) as [_ C3 _ J3 _]. simpl in C3, J3.
  destruct (proj2 (after_hooks_log orc ctxkeys st _ _ _ _ H)) as (h & Hh).
  rewrite J1 in *. rewrite C1 in *.
  split; [rewrite J3; apply lookup_set_key_same|]. split; [congruence|].
  exists btxt, bds, s1, post, s2, h. split.
  - destruct (ch_block (rc_choice c)) as [|b0 br].
    + unfold ret in Hb. inversion Hb; subst. auto.
    + apply bind_inv_ok in Hb. destruct Hb as ([[t j] d] & sx & Hx & Hb). unfold ret in Hb. inversion Hb; subst.
      exists j. exact Hx.
  - split; [exact Hp|]. subst o. unfold with_hook_output.
    destruct (String.eqb h ""); simpl; repeat split; reflexivity.
Qed.

End WithOracle.
