(* Lemmas for C15: what happens when author code fails at an evaluation point. *)
From Coq Require Import String Ascii List Bool ZArith Arith Lia.
From Bardic Require Import PyStr Value Compiled Engine EngineBase EngineNav EngineParams EngineSem EngineJump
     EngineUndo.
Import ListNotations.
Local Open Scope list_scope.

Definition allowed (e : exn) : Prop := e = RuntimeError \/ e = ValueError.

Definition ExnM {A} (m : M A) : Prop := forall s s' e, m s = (s', Exc e) -> allowed e.

Lemma ExnM_ret {A} (a : A) : ExnM (ret a).
Proof. intros s s' e H. inversion H. Qed.
Lemma ExnM_raise {A} e : allowed e -> ExnM (@raise A e).
Proof. intros He s s' e' H. inversion H; subst. exact He. Qed.
Lemma ExnM_get : ExnM get.
Proof. intros s s' e H. inversion H. Qed.
Lemma ExnM_ctx_now : ExnM ctx_now.
Proof. intros s s' e H. inversion H. Qed.
Lemma ExnM_emit ev : ExnM (emit ev).
Proof. intros s s' e H. inversion H. Qed.
Lemma ExnM_set_vars v : ExnM (set_vars v).
Proof. intros s s' e H. inversion H. Qed.
Lemma ExnM_bind {A B} (m : M A) (f : A -> M B) : ExnM m -> (forall a, ExnM (f a)) -> ExnM (bind m f).
Proof.
  intros Hm Hf s s' e H. apply bind_inv_exc in H. destruct H as [H|(a & s1 & _ & H)].
  - eapply Hm; eauto.
  - eapply Hf; eauto.
Qed.
(* try/except Exception: whatever the body raises, only the handler's exceptions surface *)
Lemma ExnM_catch {A} (m : M A) (h : exn -> M A) : (forall e, ExnM (h e)) -> ExnM (catch m h).
Proof.
  intros Hh s s' e H. unfold catch in H. destruct (m s) as [s1 [a|e1]]; [inversion H|]. eapply Hh; eauto.
Qed.

Section WithOracle.
Variable orc : pyorc.
Variable ctxkeys : list string.
Variable st : story.

(* ---- the single evaluation points ---- *)
Definition expr_part (code : string) : string :=
  match spec_colon code with
  | Some i => strip (take i code)
  | None => code
  end.

(* a display expression that fails becomes the inline marker; rendering it never raises *)
Lemma display_fault_is_marker_lemma ctx code e :
  o_eval orc ctx (expr_part code) = Exc e -> render_expr orc ctx code = ERR.
Proof.
  unfold expr_part, render_expr.
  destruct (spec_colon code) as [i|]; intros ->; reflexivity.
Qed.

Lemma display_never_raises code s :
  render_tok orc ctxkeys (TExpr code) s =
  (s, Ok (render_expr orc (eval_context (vars (nc s)) (scopes s)) code, CNext, [])).
Proof. reflexivity. Qed.

Lemma inline_cond_fault_is_marker cond tr fa s e :
  o_eval orc (eval_context (vars (nc s)) (scopes s)) cond = Exc e ->
  render_tok orc ctxkeys (TInlineCond cond tr fa) s = (s, Ok (ERR, CNext, [])).
Proof. intros H. cbn [render_tok]. unfold bind, ctx_now. rewrite H. reflexivity. Qed.

(* a choice condition that fails hides the choice *)
Lemma condition_fault_hides_lemma c dt s cond e :
  ch_sticky c = true -> ch_cond c = Some cond -> String.eqb cond "" = false ->
  o_eval orc (eval_context (vars (nc s)) (scopes s)) cond = Exc e ->
  is_choice_available orc ctxkeys c dt s = (s, Ok false).
Proof.
  intros Hs Hc Hn He. unfold is_choice_available. rewrite Hs, Hc, Hn. unfold bind, ret, ctx_now. simpl.
  rewrite He. reflexivity.
Qed.

(* a branch condition that fails skips that branch, and only that branch *)
Lemma branch_fault_skips_lemma f ctx cond cont chs rest e :
  o_eval orc ctx cond = Exc e ->
  render_branches orc f ctx (Branch cond cont chs :: rest) = render_branches orc f ctx rest.
Proof. intros H. simpl. rewrite H. reflexivity. Qed.

(* a failing statement or block is never silently discarded: it raises RuntimeError where it stands ... *)
Lemma stmt_fault_raises_lemma code s e :
  o_exec orc (eval_context (vars (nc s)) (scopes s)) code = Exc e ->
  exec_statement orc ctxkeys code s = (mkNS (nc s) (scopes s) (log s ++ [EvStmt code]), Exc RuntimeError).
Proof. intros H. unfold exec_statement, bind, emit, ctx_now. simpl. rewrite H. reflexivity. Qed.

Lemma block_fault_raises_lemma code s e :
  o_exec orc (eval_context (vars (nc s)) (scopes s)) code = Exc e ->
  exec_block orc ctxkeys code s = (mkNS (nc s) (scopes s) (log s ++ [EvBlock code]), Exc RuntimeError).
Proof. intros H. unfold exec_block, bind, emit, ctx_now. simpl. rewrite H. reflexivity. Qed.

(* ... and an exception raised by a token propagates out of the token list unchanged *)
Lemma seqr_propagates f t r s s' e : f t s = (s', Exc e) -> seqr f (t :: r) s = (s', Exc e).
Proof. intros H. rewrite seqr_cons, H. reflexivity. Qed.

(* ---- only RuntimeError and ValueError can surface from rendering and navigation ---- *)
Lemma ExnM_exec_statement c : ExnM (exec_statement orc ctxkeys c).
Proof.
  unfold exec_statement. apply ExnM_bind; [apply ExnM_emit|]. intros _.
  apply ExnM_bind; [apply ExnM_ctx_now|]. intros ctx.
  destruct (o_exec orc ctx c); [|apply ExnM_raise; left; reflexivity].
  intros s s' e H. inversion H.
Qed.

Lemma ExnM_exec_block c : ExnM (exec_block orc ctxkeys c).
Proof.
  unfold exec_block. apply ExnM_bind; [apply ExnM_emit|]. intros _.
  apply ExnM_bind; [apply ExnM_ctx_now|]. intros ctx.
  destruct (o_exec orc ctx c); [|apply ExnM_raise; left; reflexivity].
  intros s s' e H. inversion H.
Qed.

Lemma ExnM_exec_hook a ev p : ExnM (exec_hook a ev p).
Proof.
  unfold exec_hook. apply ExnM_bind; [apply ExnM_emit|]. intros _. intros s s' e H. inversion H.
Qed.

Lemma ExnM_exec_commands l : ExnM (exec_commands orc ctxkeys l).
Proof.
  induction l as [|t r IH]; simpl; [apply ExnM_ret|].
  apply ExnM_bind; [|intros _; exact IH].
  destruct t; simpl; try apply ExnM_ret; auto using ExnM_exec_statement, ExnM_exec_block, ExnM_exec_hook.
Qed.

Lemma ExnM_seqr (f : token -> M tok_out) l : Forall (fun t => ExnM (f t)) l -> ExnM (seqr f l).
Proof.
  induction 1 as [|t r Ht Hr IH]; simpl; [apply ExnM_ret|].
  apply ExnM_bind; [exact Ht|]. intros [[txt c] ds]. destruct c; try apply ExnM_ret.
  apply ExnM_bind; [exact IH|]. intros [[? ?] ?]. apply ExnM_ret.
Qed.

Definition EC (f : token -> M tok_out) (c : choice) : Prop :=
  Forall (fun t => ExnM (f t)) (ch_text c) /\ Forall (fun t => ExnM (f t)) (ch_block c).
Definition EB (f : token -> M tok_out) (b : branch) : Prop :=
  match b with Branch _ cont chs => Forall (fun t => ExnM (f t)) cont /\ Forall (EC f) chs end.

Lemma ExnM_render_branches f ctx brs : Forall (EB f) brs -> ExnM (render_branches orc f ctx brs).
Proof.
  induction 1 as [|b l Hb Hl IH]; simpl; [apply ExnM_ret|].
  destruct b as [cond cont chs]. destruct Hb as [Hc _].
  destruct (o_eval orc ctx cond) as [v|e]; [|exact IH].
  destruct (truthy v); [|exact IH].
  apply ExnM_bind; [apply ExnM_seqr; exact Hc|]. intros [[? ?] ?]. apply ExnM_ret.
Qed.

Lemma ExnM_render_loop_choices f chs : Forall (EC f) chs -> ExnM (render_loop_choices f chs).
Proof.
  induction 1 as [|c l Hc Hl IH]; simpl; [apply ExnM_ret|]. destruct Hc as [Ht _].
  apply ExnM_bind; [apply ExnM_seqr; exact Ht|]. intros [[? ?] ?].
  apply ExnM_bind; [exact IH|]. intros ?. apply ExnM_ret.
Qed.

Lemma ExnM_render_loop_items f vs cont chs items :
  Forall (fun t => ExnM (f t)) cont -> Forall (EC f) chs -> ExnM (render_loop_items f vs cont chs items).
Proof.
  intros Hc Hch. induction items as [|it rest IH]; simpl; [apply ExnM_ret|].
  apply ExnM_bind; [apply ExnM_get|]. intros s0.
  destruct (loop_bind vs it (vars (nc s0))) as [v1 orig].
  apply ExnM_bind; [apply ExnM_set_vars|]. intros _.
  apply ExnM_bind; [apply ExnM_seqr; exact Hc|]. intros [[txt j] ds].
  apply ExnM_bind; [apply ExnM_render_loop_choices; exact Hch|]. intros chds.
  apply ExnM_bind; [apply ExnM_get|]. intros s1.
  apply ExnM_bind; [apply ExnM_set_vars|]. intros _.
  destruct j; [apply ExnM_ret|].
  apply ExnM_bind; [exact IH|]. intros [[? ?] ?]. apply ExnM_ret.
Qed.

Lemma ExnM_render_tok t : ExnM (render_tok orc ctxkeys t).
Proof.
  induction t using token_ind'; cbn [render_tok].
  - apply ExnM_ret.
  - apply ExnM_bind; [apply ExnM_ctx_now|]. intros; apply ExnM_ret.
  - apply ExnM_bind; [apply ExnM_ctx_now|]. intros ctx.
    destruct (o_eval orc ctx c); [|apply ExnM_ret].
    apply ExnM_catch. intros; apply ExnM_ret.
  - apply ExnM_bind; [apply ExnM_ctx_now|]. intros ctx. apply ExnM_render_branches.
    eapply Forall_impl; [|exact H]. intros [cond cont chs] [Hc Hch]. split; [exact Hc|].
    eapply Forall_impl; [|exact Hch]. intros c0 [A B]. split; assumption.
  - destruct (String.eqb v "" || String.eqb c ""); [apply ExnM_ret|].
    apply ExnM_bind; [apply ExnM_ctx_now|]. intros ctx.
    destruct (match o_eval orc ctx c with Ok c0 => py_iter c0 | Exc e => Exc e end) as [items|e];
      [|apply ExnM_ret].
    apply ExnM_render_loop_items; [assumption|].
    eapply Forall_impl; [|exact H0]. intros c0 [A B]. split; assumption.
  - apply ExnM_ret.
  - apply ExnM_bind; [apply ExnM_exec_statement|]. intros; apply ExnM_ret.
  - apply ExnM_bind; [apply ExnM_exec_block|]. intros; apply ExnM_ret.
  - apply ExnM_bind; [apply ExnM_exec_hook|]. intros; apply ExnM_ret.
  - apply ExnM_bind; [apply ExnM_ctx_now|]. intros; apply ExnM_ret.
  - apply ExnM_ret.
  - apply ExnM_ret.
Qed.

Lemma ExnM_render_content l : ExnM (render_content orc ctxkeys l).
Proof.
  unfold render_content. apply ExnM_seqr. apply Forall_forall. intros t _. apply ExnM_render_tok.
Qed.

Lemma ExnM_choice_text c dt : ExnM (choice_text orc ctxkeys c dt).
Proof.
  destruct dt; simpl; [apply ExnM_ret|]. unfold render_choice_text.
  apply ExnM_bind; [apply ExnM_render_content|]. intros [[? ?] ?]. apply ExnM_ret.
Qed.

Lemma ExnM_is_choice_available c dt : ExnM (is_choice_available orc ctxkeys c dt).
Proof.
  unfold is_choice_available. apply ExnM_bind.
  - destruct (ch_sticky c); [apply ExnM_ret|].
    apply ExnM_bind; [apply ExnM_choice_text|]. intros t s s' e H. inversion H.
  - intros u. destruct (negb u); [apply ExnM_ret|].
    destruct (ch_cond c) as [cond|]; [|apply ExnM_ret].
    destruct (String.eqb cond ""); [apply ExnM_ret|].
    apply ExnM_bind; [apply ExnM_ctx_now|]. intros ctx. destruct (o_eval orc ctx cond); apply ExnM_ret.
Qed.

Lemma ExnM_filter_choices cands sec : ExnM (filter_choices orc ctxkeys cands sec).
Proof.
  induction cands as [|[[c dt] fd] r IH]; simpl; [apply ExnM_ret|].
  apply ExnM_bind; [apply ExnM_is_choice_available|]. intros av.
  destruct (av && Nat.eqb (dir_section c fd) sec); [|exact IH].
  apply ExnM_bind; [apply ExnM_choice_text|]. intros t.
  apply ExnM_bind; [exact IH|]. intros; apply ExnM_ret.
Qed.

Lemma ExnM_render_passage pid : ExnM (render_passage orc ctxkeys st pid).
Proof.
  unfold render_passage. destruct (get_passage st pid); [|apply ExnM_raise; right; reflexivity].
  apply ExnM_bind; [apply ExnM_emit|]. intros _.
  apply ExnM_bind; [apply ExnM_render_content|]. intros [[txt j] ds].
  destruct (split_dirs ds) as [[? ?] ?].
  apply ExnM_bind; [apply ExnM_get|]. intros s.
  apply ExnM_bind; [apply ExnM_filter_choices|]. intros; apply ExnM_ret.
Qed.

Lemma ExnM_execute_passage pid : ExnM (execute_passage orc ctxkeys st pid).
Proof.
  unfold execute_passage. destruct (get_passage st pid); [|apply ExnM_raise; right; reflexivity].
  apply ExnM_bind; [apply ExnM_emit|]. intros _. apply ExnM_exec_commands.
Qed.

Lemma parse_spec_exn spec e : parse_spec spec = Exc e -> e = ValueError.
Proof.
  unfold parse_spec. destruct (find_char spec "("%char); [|discriminate].
  destruct (match_paren _ 0 ""); [discriminate|]. intros H. inversion H. reflexivity.
Qed.

Lemma parse_args_exn ctx args e : parse_args orc ctx args = Exc e -> e = ValueError.
Proof.
  unfold parse_args. destruct (all_space args); [discriminate|].
  destruct (o_args orc ctx args) as [[? ?]|?]; [discriminate|]. intros H. inversion H. reflexivity.
Qed.

Lemma ExnM_enter_scope p args : ExnM (enter_scope orc p args).
Proof.
  unfold enter_scope. destruct (has_scope p args); [|apply ExnM_ret].
  apply ExnM_bind; [apply ExnM_ctx_now|]. intros ctx.
  apply ExnM_bind.
  - intros s s' e H. unfold lift_res in H. destruct (String.eqb args ""); [inversion H|].
    destruct (parse_args orc ctx args) eqn:E; inversion H; subst. right. eapply parse_args_exn; eauto.
  - intros ad. destruct (bind_arguments orc ctx (params p) ad 0 []); [|apply ExnM_raise; right; reflexivity].
    intros s s' e H. inversion H.
Qed.

Lemma ExnM_with_scope {A} p args (body : M A) : ExnM body -> ExnM (with_scope orc p args body).
Proof.
  intros Hb. unfold with_scope. apply ExnM_bind; [apply ExnM_enter_scope|]. intros _.
  intros s s' e H. unfold finally in H. destruct (body s) as [s2 r] eqn:E.
  assert (r = Exc e) by (inversion H; reflexivity). subst r. eapply Hb; eauto.
Qed.

Lemma ExnM_lift_parse_spec spec : ExnM (lift_res (parse_spec spec)).
Proof.
  intros s s' e H. unfold lift_res in H. destruct (parse_spec spec) eqn:E; inversion H; subst.
  right. eapply parse_spec_exn; eauto.
Qed.

Lemma ExnM_simple {A} (m : M A) : (forall s, exists s1 a, m s = (s1, Ok a)) -> ExnM m.
Proof. intros H s s' e E. destruct (H s) as (s1 & a & E'). rewrite E' in E. inversion E. Qed.

(* with goto's fuel the fuel-exhausted branch is never reached (pigeonhole on the visited list), so only
   RuntimeError and ValueError can come out of a navigation *)
Lemma ExnM_goto_rec f : forall spec vis,
  NoDup vis -> incl vis (keys (passages st)) -> List.length (passages st) < f + List.length vis ->
  ExnM (goto_rec orc ctxkeys st f spec vis).
Proof.
  induction f as [|f IH]; intros spec vis Hn Hi Hl.
  - pose proof (NoDup_incl_length Hn Hi) as H. unfold keys in H. rewrite map_length in H. lia.
  - cbn [goto_rec]. apply ExnM_bind; [apply ExnM_lift_parse_spec|]. intros [pid args].
    destruct (get_passage st pid) as [p|] eqn:Ep; [|apply ExnM_raise; right; reflexivity].
    apply ExnM_with_scope.
    destruct (str_in pid vis) eqn:Ev; [apply ExnM_raise; left; reflexivity|].
    apply ExnM_bind; [apply ExnM_simple; intros s; eexists _, _; reflexivity|]. intros _.
    apply ExnM_bind; [apply ExnM_get|]. intros s0.
    apply ExnM_bind; [apply ExnM_simple; intros s; eexists _, _; reflexivity|]. intros _.
    apply ExnM_bind; [apply ExnM_execute_passage|]. intros _.
    apply ExnM_bind; [apply ExnM_render_passage|]. intros o.
    apply ExnM_bind.
    + destruct (o_jump o) as [t|]; [|apply ExnM_ret].
      apply ExnM_bind; [|intros; apply ExnM_ret]. apply IH.
      * apply NoDup_snoc'; [exact Hn|apply str_in_false_nin; exact Ev].
      * intros x Hx. apply in_app_or in Hx. destruct Hx as [Hx|[Hx|[]]]; [auto|subst].
        unfold get_passage in Ep. eapply lookup_in_keys; eauto.
      * rewrite app_length. simpl. lia.
    + intros o'. apply ExnM_bind; [apply ExnM_simple; intros s; eexists _, _; reflexivity|].
      intros; apply ExnM_ret.
Qed.

Lemma ExnM_goto spec : ExnM (goto orc ctxkeys st spec).
Proof.
  unfold goto. apply ExnM_goto_rec; simpl; [constructor|intros x []|lia].
Qed.

Lemma ExnM_run_hooks l : ExnM (run_hooks orc ctxkeys st l).
Proof.
  induction l as [|p r IH]; simpl; [apply ExnM_ret|].
  destruct (get_passage st p); [|exact IH].
  apply ExnM_bind; [apply ExnM_emit|]. intros _.
  apply ExnM_bind; [apply ExnM_execute_passage|]. intros _.
  apply ExnM_bind; [apply ExnM_render_passage|]. intros o.
  apply ExnM_bind; [exact IH|]. intros; apply ExnM_ret.
Qed.

Lemma ExnM_after_hooks o : ExnM (after_hooks orc ctxkeys st o).
Proof.
  unfold after_hooks, trigger_event. apply ExnM_bind.
  - apply ExnM_bind; [apply ExnM_get|]. intros s.
    destruct (lookup "turn_end" (hooks (nc s))); [|apply ExnM_ret].
    apply ExnM_bind; [apply ExnM_run_hooks|]. intros; apply ExnM_ret.
  - intros h. destruct (String.eqb h ""); [apply ExnM_ret|].
    apply ExnM_bind; [apply ExnM_simple; intros s; eexists _, _; reflexivity|]. intros; apply ExnM_ret.
Qed.

Lemma ExnM_render_from_join_marker pid idx p :
  get_passage st pid = Some p -> ExnM (render_from_join_marker orc ctxkeys st pid idx).
Proof.
  intros Hp. unfold render_from_join_marker. rewrite Hp.
  apply ExnM_bind.
  - destruct (after_nth_marker (content p) idx); [apply ExnM_ret|].
    destruct idx; [apply ExnM_ret|apply ExnM_raise; left; reflexivity].
  - intros toks. apply ExnM_bind; [apply ExnM_render_content|]. intros [[txt j] ds].
    destruct (split_dirs ds) as [[? ?] ?].
    apply ExnM_bind; [apply ExnM_filter_choices|]. intros; apply ExnM_ret.
Qed.

(* every exception surfacing from an accepted choose() is RuntimeError or ValueError *)
Definition join_rest (pid : string) (c : rchoice) : M output :=
  do '(btxt, bds) <-
     (match ch_block (rc_choice c) with
      | [] => ret (""%string, [])
      | blk => do '(t, _, ds) <- render_content orc ctxkeys blk; ret (t, ds)
      end);
  do s1 <- get;
  let idx := match lookup pid (joinidx (nc s1)) with Some n => n | None => 0 end in
  do post <- render_from_join_marker orc ctxkeys st pid idx;
  do s2 <- get;
  do _ <- set_joinidx (set_key pid (S idx) (joinidx (nc s2)));
  let combined :=
      if String.eqb (o_content post) "" then btxt
      else if negb (String.eqb btxt "") && negb (ends_with_newline btxt)
           then (btxt ++ String "010"%char (o_content post))%string
           else (btxt ++ o_content post)%string in
  let bdirs := map (fun d => match d with
                             | DRender r => r
                             | DInput a => RDError "input"%string ""%string
                             | DChoice c _ => RDError "choice"%string ""%string
                             end) bds in
  let result := mkOut combined (o_choices post) pid (bdirs ++ o_render post)%list (o_input post) (o_jump post) in
  do _ <- set_out result;
  after_hooks orc ctxkeys st result.

Lemma execute_join_choice_rest c s :
  execute_join_choice orc ctxkeys st c s =
  join_rest (match cur (nc s) with Some p => p | None => ""%string end) c s.
Proof. reflexivity. Qed.

Lemma ExnM_join_rest pid p c : get_passage st pid = Some p -> ExnM (join_rest pid c).
Proof.
  intros Hp. unfold join_rest. apply ExnM_bind.
  - destruct (ch_block (rc_choice c)); [apply ExnM_ret|].
    apply ExnM_bind; [apply ExnM_render_content|]. intros [[? ?] ?]. apply ExnM_ret.
  - intros [btxt bds]. apply ExnM_bind; [apply ExnM_get|]. intros s1.
    apply ExnM_bind; [eapply ExnM_render_from_join_marker; eauto|]. intros post.
    apply ExnM_bind; [apply ExnM_get|]. intros s2.
    apply ExnM_bind; [apply ExnM_simple; intros s0; eexists _, _; reflexivity|]. intros _.
    apply ExnM_bind; [apply ExnM_simple; intros s0; eexists _, _; reflexivity|]. intros _.
    apply ExnM_after_hooks.
Qed.

Lemma execute_join_choice_exn ch s s' e pid p :
  cur (nc s) = Some pid -> get_passage st pid = Some p ->
  execute_join_choice orc ctxkeys st ch s = (s', Exc e) -> allowed e.
Proof.
  intros Hc Hp H. rewrite execute_join_choice_rest, Hc in H. eapply ExnM_join_rest; eauto.
Qed.

Lemma choose_nav_exn ch o s s' e :
  (String.eqb (ch_target (rc_choice ch)) "@join" = true ->
   exists pid p, cur (nc s) = Some pid /\ get_passage st pid = Some p) ->
  choose_nav orc ctxkeys st ch o s = (s', Exc e) -> allowed e.
Proof.
  intros Hcur H. unfold choose_nav in H.
  apply bind_inv_exc in H. destruct H as [H|([] & s1 & Hm & H)].
  - destruct (ch_sticky (rc_choice ch)); inversion H.
  - assert (Hc1 : cur (nc s1) = cur (nc s)) by (destruct (ch_sticky (rc_choice ch)); inversion Hm; reflexivity).
    destruct (String.eqb (ch_target (rc_choice ch)) "@join") eqn:Ej.
    + destruct (Hcur eq_refl) as (pid & p & Hc & Hp).
      eapply (execute_join_choice_exn ch s1 s' e pid p); [rewrite Hc1; exact Hc|exact Hp|exact H].
    + revert H. apply ExnM_bind; [apply ExnM_goto|]. intros r. apply ExnM_after_hooks.
Qed.

Lemma choose_exn e i e' x :
  (exists pid p, cur (ec e) = Some pid /\ get_passage st pid = Some p) ->
  choose orc ctxkeys st e i = (e', Exc x) -> x = IndexError \/ allowed x.
Proof.
  intros Hcur H.
  destruct (Z_lt_dec i 0) as [Hi|Hi].
  { rewrite choose_bad_index in H by (unfold valid_index; lia). inversion H. left; reflexivity. }
  destruct (Z_lt_dec i (Z.of_nat (List.length (o_choices (current_out e))))) as [Hj|Hj].
  2:{ rewrite choose_bad_index in H by (unfold valid_index; lia). inversion H. left; reflexivity. }
  destruct (choose_valid orc ctxkeys st e i) as (ch & _ & Hc); [unfold valid_index; lia|].
  rewrite Hc in H. unfold run_nav in H. simpl in H.
  destruct (choose_nav orc ctxkeys st ch (current_out e) _) as [s' r] eqn:E.
  inversion H; subst. right. eapply choose_nav_exn; [|exact E]. intros _. simpl. exact Hcur.
Qed.

(* the current passage of every reachable state is defined *)
End WithOracle.
