(* Lemmas for C09 (turn_end hooks). *)
From Coq Require Import String Ascii List Bool ZArith Arith Lia.
From Bardic Require Import PyStr Value Compiled Engine EngineBase EngineNav EngineParams EngineSem.
Import ListNotations.
Local Open Scope list_scope.

(* ---- registration lists have no duplicates: an invariant of every way the engine changes them ---- *)
Definition hooks_nodup (h : hookmap) : Prop := forall ev l, lookup ev h = Some l -> NoDup l.

Lemma str_in_false x l : str_in x l = false -> ~ In x l.
Proof.
  induction l as [|y r IH]; simpl; [tauto|]. intros H [E|E].
  - subst. rewrite String.eqb_refl in H. discriminate.
  - apply orb_false_iff in H. destruct H as [_ H]. exact (IH H E).
Qed.

Lemma str_in_true_in x l : str_in x l = true -> In x l.
Proof.
  induction l as [|y r IH]; simpl; [discriminate|]. intros H. apply orb_true_iff in H.
  destruct H as [H|H]; [left; symmetry; apply String.eqb_eq; exact H|right; auto].
Qed.

Lemma str_in_app x a b : str_in x (a ++ b) = str_in x a || str_in x b.
Proof. induction a as [|y r IH]; simpl; [reflexivity|]. rewrite IH, orb_assoc. reflexivity. Qed.

Lemma lookup_set_key {A} k k' (v : A) e :
  lookup k' (set_key k v e) = if String.eqb k' k then Some v else lookup k' e.
Proof.
  destruct (String.eqb k' k) eqn:E.
  - apply String.eqb_eq in E. subst. apply lookup_set_key_same.
  - apply lookup_set_key_other. exact E.
Qed.

(* removing the first occurrence: l = a ++ p :: b with p not in a, and the result is a ++ b *)
Lemma remove_first_split p l : In p l ->
  exists a b, l = a ++ p :: b /\ ~ In p a /\ remove_first_str p l = a ++ b.
Proof.
  induction l as [|y r IH]; simpl; [tauto|]. intros H.
  destruct (String.eqb p y) eqn:E.
  - apply String.eqb_eq in E. subst. exists [], r. simpl. tauto.
  - assert (Hne : p <> y) by (intros ->; rewrite String.eqb_refl in E; discriminate).
    destruct H as [H|H]; [congruence|]. destruct (IH H) as (a & b & E1 & E2 & E3).
    exists (y :: a), b. simpl. rewrite E1 at 1. repeat split; [|congruence].
    intros [F|F]; [congruence|tauto].
Qed.

Lemma remove_first_absent p l : ~ In p l -> remove_first_str p l = l.
Proof.
  induction l as [|y r IH]; simpl; [reflexivity|]. intros H.
  destruct (String.eqb p y) eqn:E; [apply String.eqb_eq in E; subst; tauto|]. f_equal. apply IH. tauto.
Qed.

Lemma NoDup_remove_first p l : NoDup l -> NoDup (remove_first_str p l).
Proof.
  intros H. destruct (in_dec string_dec p l) as [Hin|Hn].
  - destruct (remove_first_split p l Hin) as (a & b & E1 & _ & E3). rewrite E3. subst l.
    eapply NoDup_remove_1; eauto.
  - rewrite remove_first_absent; auto.
Qed.

Lemma NoDup_snoc {A} (l : list A) x : NoDup l -> ~ In x l -> NoDup (l ++ [x]).
Proof.
  induction 1 as [|y r Hy Hr IH]; simpl; intros Hx.
  - repeat constructor. simpl. tauto.
  - constructor.
    + intros Hin. apply in_app_or in Hin. destruct Hin as [Hin|[Hin|[]]]; [tauto|subst; tauto].
    + apply IH. tauto.
Qed.

Lemma register_nodup h ev p : hooks_nodup h -> hooks_nodup (register_hook h ev p).
Proof.
  intros H ev' l. unfold register_hook. destruct (lookup ev h) as [l0|] eqn:E.
  - destruct (str_in p l0) eqn:Ei; [apply H|].
    rewrite lookup_set_key. destruct (String.eqb ev' ev); [|apply H].
    intros Hl. inversion Hl; subst. apply NoDup_snoc.
    + eapply H; eauto.
    + apply str_in_false. exact Ei.
  - rewrite lookup_set_key. destruct (String.eqb ev' ev); [|apply H].
    intros Hl. inversion Hl. repeat constructor. simpl. tauto.
Qed.

Lemma unregister_nodup h ev p : hooks_nodup h -> hooks_nodup (unregister_hook h ev p).
Proof.
  intros H ev' l. unfold unregister_hook. destruct (lookup ev h) as [l0|] eqn:E; [|apply H].
  destruct (str_in p l0); [|apply H].
  rewrite lookup_set_key. destruct (String.eqb ev' ev); [|apply H].
  intros Hl. inversion Hl. apply NoDup_remove_first. eapply H; eauto.
Qed.

Lemma HooksStep_nodup h h' : HooksStep h h' -> hooks_nodup h -> hooks_nodup h'.
Proof. induction 1; intros Hn; auto using register_nodup, unregister_nodup. Qed.

(* ---- register / unregister laws ---- *)
Lemma register_idempotent_lemma h ev p :
  register_hook (register_hook h ev p) ev p = register_hook h ev p.
Proof.
  unfold register_hook at 2 3. destruct (lookup ev h) as [l|] eqn:E.
  - destruct (str_in p l) eqn:Ei.
    + unfold register_hook. rewrite E, Ei. reflexivity.
    + unfold register_hook. rewrite lookup_set_key_same, str_in_app. simpl.
      rewrite String.eqb_refl, orb_true_r. reflexivity.
  - unfold register_hook. rewrite lookup_set_key_same. simpl. rewrite String.eqb_refl. reflexivity.
Qed.

Lemma register_appends_last h ev p l :
  lookup ev h = Some l -> str_in p l = false -> lookup ev (register_hook h ev p) = Some (l ++ [p]).
Proof. intros E Ei. unfold register_hook. rewrite E, Ei. apply lookup_set_key_same. Qed.

Lemma unregister_other_event h ev ev' p :
  String.eqb ev' ev = false -> lookup ev' (unregister_hook h ev p) = lookup ev' h.
Proof.
  intros Hne. unfold unregister_hook. destruct (lookup ev h) as [l|]; [|reflexivity].
  destruct (str_in p l); [|reflexivity]. apply lookup_set_key_other. exact Hne.
Qed.

Lemma unregister_this_event h ev p l :
  lookup ev h = Some l -> lookup ev (unregister_hook h ev p) = Some (remove_first_str p l).
Proof.
  intros E. unfold unregister_hook. rewrite E. destruct (str_in p l) eqn:Ei.
  - apply lookup_set_key_same.
  - rewrite remove_first_absent; [exact E|apply str_in_false; exact Ei].
Qed.

(* ---- the turn_end run ---- *)
Section WithOracle.
Variable orc : pyorc.
Variable ctxkeys : list string.
Variable st : story.

Definition active (s : nstate) : list string :=
  match lookup "turn_end" (hooks (nc s)) with Some a => a | None => [] end.

(* the hooks run are those registered when the event fires (a snapshot: hooks that unregister
   themselves or others while running do not change this turn's list) *)
Lemma trigger_event_snapshot s :
  trigger_event orc ctxkeys st "turn_end" s =
  match lookup "turn_end" (hooks (nc s)) with
  | None => (s, Ok ""%string)
  | Some a => bind (run_hooks orc ctxkeys st a) (fun outs => ret (join (String "010"%char EmptyString) outs)) s
  end.
Proof. unfold trigger_event, bind, get. destruct (lookup "turn_end" (hooks (nc s))); reflexivity. Qed.

Lemma trigger_event_log s s' h :
  trigger_event orc ctxkeys st "turn_end" s = (s', Ok h) ->
  exists lg, log s' = log s ++ lg /\ hook_runs lg = filter (defined st) (active s).
Proof.
  rewrite trigger_event_snapshot. unfold active. destruct (lookup "turn_end" (hooks (nc s))) as [a|].
  - intros H. apply bind_inv_ok in H. destruct H as (outs & s1 & H1 & H2). inversion H2; subst.
    eapply run_hooks_log; eauto.
  - intros H. inversion H; subst. exists []. split; [now rewrite app_nil_r|reflexivity].
Qed.

Lemma after_hooks_log o s s' o' :
  after_hooks orc ctxkeys st o s = (s', Ok o') ->
  (exists lg, log s' = log s ++ lg /\ hook_runs lg = filter (defined st) (active s)) /\
  (exists h, o' = with_hook_output o h).
Proof.
  unfold after_hooks. intros H. apply bind_inv_ok in H. destruct H as (h & s1 & H1 & H2).
  destruct (trigger_event_log _ _ _ H1) as (lg & L1 & L2).
  destruct (String.eqb h "") eqn:Eh.
  - inversion H2; subst. split; [eauto|]. exists ""%string. unfold with_hook_output. reflexivity.
  - apply bind_inv_ok in H2. destruct H2 as ([] & s2 & H3 & H4). inversion H4; subst.
    inversion H3; subst. simpl. split; [eauto|]. eauto.
Qed.

(* one successful ordinary choice: the navigation itself runs no hook; afterwards every hooked passage
   that is registered at that moment and exists runs exactly once, in registration order *)
Lemma choose_nav_hooks ch o s s' o' :
  String.eqb (ch_target (rc_choice ch)) "@join" = false ->
  choose_nav orc ctxkeys st ch o s = (s', Ok o') ->
  exists s1 lg1 lg2,
    log s1 = log s ++ lg1 /\ hook_runs lg1 = [] /\
    log s' = log s1 ++ lg2 /\ hook_runs lg2 = filter (defined st) (active s1).
Proof.
  intros Hj H. unfold choose_nav in H. apply bind_inv_ok in H. destruct H as ([] & s0 & H0 & H).
  rewrite Hj in H. apply bind_inv_ok in H. destruct H as (r & s1 & H1 & H2).
  assert (L0 : log s0 = log s).
  { destruct (ch_sticky (rc_choice ch)); inversion H0; reflexivity. }
  destruct (LFrameM_goto_rec orc ctxkeys st _ _ _ _ _ _ H1) as (lg1 & L1 & N1).
  destruct (after_hooks_log _ _ _ _ H2) as [(lg2 & L2 & N2) _].
  exists s1, lg1, lg2. repeat split; auto.
  - rewrite L1, L0. reflexivity.
  - apply hook_runs_nav. exact N1.
Qed.

(* direct navigation runs no hook at all *)
Lemma goto_no_hooks spec s s' r :
  goto orc ctxkeys st spec s = (s', r) -> exists lg, log s' = log s ++ lg /\ hook_runs lg = [].
Proof.
  intros H. destruct (LFrameM_goto_rec orc ctxkeys st _ _ _ _ _ _ H) as (lg & L & N).
  exists lg. split; [exact L|apply hook_runs_nav; exact N].
Qed.

(* hooks do not move the player, do not touch used one-time choices, @join progress or the scope stack *)
Lemma after_hooks_frame o s s' r :
  after_hooks orc ctxkeys st o s = (s', r) -> HFrame s s'.
Proof. apply HFrameM_after_hooks. Qed.

End WithOracle.

(* text a hook produces is appended after the turn's own text *)
Lemma with_hook_output_content o h :
  h <> ""%string ->
  o_content (with_hook_output o h) =
  (if String.eqb (o_content o) "" then h
   else (o_content o ++ String "010"%char (String "010"%char h))%string) /\
  o_choices (with_hook_output o h) = o_choices o /\ o_pid (with_hook_output o h) = o_pid o /\
  o_render (with_hook_output o h) = o_render o /\ o_input (with_hook_output o h) = o_input o.
Proof.
  intros Hne. unfold with_hook_output. destruct (String.eqb h "") eqn:E.
  - apply String.eqb_eq in E. contradiction.
  - simpl. repeat split.
Qed.

(* ---- reachable engine states and the no-duplicate invariant ---- *)
From Bardic Require Import EngineUndo PyMini EngineCheck.

Section Reach.
Variable orc : pyorc.
Variable ctxkeys : list string.
Variable st : story.

Inductive reach : estate -> Prop :=
| reach_init v0 e o : init orc ctxkeys st v0 = (e, Ok o) -> reach e
| reach_step e o : reach e -> reach (fst (step orc ctxkeys st e o)).

Definition HInv (e : estate) : Prop :=
  hooks_nodup (hooks (ec e)) /\
  Forall (fun c => hooks_nodup (hooks c)) (undo_stack e) /\
  Forall (fun c => hooks_nodup (hooks c)) (redo_stack e).

Lemma Forall_firstn {A} (P : A -> Prop) n l : Forall P l -> Forall P (firstn n l).
Proof.
  revert l. induction n as [|n IH]; intros l H; simpl; [constructor|].
  destruct H; constructor; auto.
Qed.

Lemma goto_op_hooks e spec :
  HooksStep (hooks (ec e)) (hooks (ec (fst (goto_op orc ctxkeys st e spec)))).
Proof.
  unfold goto_op, run_nav. destruct (goto orc ctxkeys st spec _) as [s' r] eqn:E.
  apply NFrameM_goto in E. destruct E as [_ _ H _]. exact H.
Qed.

Lemma HInv_step e o : HInv e -> HInv (fst (step orc ctxkeys st e o)).
Proof.
  intros (H1 & H2 & H3). destruct o; simpl.
  - (* choose *)
    destruct (Z_lt_dec i 0) as [Hi|Hi].
    { rewrite choose_bad_index by (unfold valid_index; lia). simpl. repeat split; assumption. }
    destruct (Z_lt_dec i (Z.of_nat (List.length (o_choices (current_out e))))) as [Hj|Hj].
    2:{ rewrite choose_bad_index by (unfold valid_index; lia). simpl. repeat split; assumption. }
    destruct (choose_valid orc ctxkeys st e i) as (ch & _ & Hc); [unfold valid_index; lia|].
    rewrite Hc. unfold run_nav. simpl.
    destruct (choose_nav orc ctxkeys st ch (current_out e) _) as [s' r] eqn:E.
    apply choose_nav_cframe in E. destruct E as [_ Hh _]. simpl in *.
    destruct r; simpl; repeat split;
      try (eapply HooksStep_nodup; eauto);
      try (apply Forall_firstn; constructor; assumption); constructor.
  - (* undo *)
    unfold undo. destruct (undo_stack e) as [|p rest] eqn:Eu; simpl.
    + repeat split; try assumption. rewrite Eu. constructor.
    + inversion H2; subst. repeat split; auto. constructor; assumption.
  - (* redo *)
    unfold redo. destruct (redo_stack e) as [|p rest] eqn:Er; simpl.
    + repeat split; try assumption. rewrite Er. constructor.
    + inversion H3; subst. repeat split; auto. apply Forall_firstn. constructor; assumption.
  - (* goto *)
    pose proof (goto_op_hooks e spec) as Hh.
    unfold goto_op, run_nav in *. destruct (goto orc ctxkeys st spec _) as [s' r]. simpl in *.
    destruct r; simpl; repeat split; auto; eapply HooksStep_nodup; eauto.
  - repeat split; assumption.
  - repeat split; assumption.
  - (* reload: same core, empty stacks *) repeat split; [assumption|constructor|constructor].
  - (* input: only the variable _inputs changes *) repeat split; assumption.
  - (* rejected load *) repeat split; assumption.
  - repeat split; assumption.
  - repeat split; assumption.
Qed.

Lemma HInv_reach e : reach e -> HInv e.
Proof.
  induction 1 as [v0 e o Hi|e o Hr IH]; [|apply HInv_step; exact IH].
  unfold init in Hi. destruct (get_passage st (initial st)); [|discriminate].
  set (e0 := mkES (empty_core (set_key "_inputs" (VDict []) v0)) [] [] [] []) in *.
  pose proof (goto_op_hooks e0 (initial st)) as Hh.
  assert (He : e = fst (goto_op orc ctxkeys st e0 (initial st))) by (rewrite Hi; reflexivity).
  subst e. repeat split.
  - eapply HooksStep_nodup; [exact Hh|]. intros ev l Hl. discriminate.
  - unfold goto_op. destruct (run_nav_stacks (goto orc ctxkeys st (initial st)) e0) as [-> _]. constructor.
  - unfold goto_op. destruct (run_nav_stacks (goto orc ctxkeys st (initial st)) e0) as [_ ->]. constructor.
Qed.

End Reach.
