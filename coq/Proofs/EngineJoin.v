(* Lemmas for C10: what a '-> @join' choice shows, what it runs, and what it offers afterwards.
   Everything is for every story, every author-code oracle and every state.
   Follows /repo 310398c (fix F10d): _render_from_join_marker splits the directives of the section text like
   _render_passage and offers [passage-level choices of section k+1] ++ [block choices of the section text]
   (join_cands, filtered without a section test); the result carries dir_renders / dir_inputs of that text.
   Statements that changed with the behaviour: join_result / section_render / join_choice_output (directives),
   the filter_choices equation in execute_join_choice_inv / join_choice_anatomy / join_choice_log (join_cands
   instead of section_cands), join_choice_offers (+ join_choice_offers_no_block_choices = the old statement as the
   special case dir_choices pds = []). *)
From Coq Require Import String Ascii List Bool ZArith Arith Lia.
From Bardic Require Import PyStr Value Compiled Engine EngineBase EngineNav EngineParams EngineSem EngineJump
     EngineUndo EngineHooks EngineChoice.
Import ListNotations.
Local Open Scope list_scope.

(* ---------------------------------------------------------------------------------------- *)
(* the tokens strictly between marker k and marker k+1 (markers counted from 0, top level of the content);
   when there is no marker k+1 they run to the end; when there is no marker k there are none *)
Fixpoint count_markers (l : list token) : nat :=
  match l with
  | [] => 0
  | TJoinMarker _ :: r => S (count_markers r)
  | _ :: r => count_markers r
  end.

Fixpoint upto_marker (l : list token) : list token :=
  match l with
  | [] => []
  | TJoinMarker _ :: _ => []
  | t :: r => t :: upto_marker r
  end.

Fixpoint between_markers (k : nat) (l : list token) : list token :=
  match l with
  | [] => []
  | TJoinMarker _ :: r => match k with O => upto_marker r | S k' => between_markers k' r end
  | _ :: r => between_markers k r
  end.

Definition no_marker (l : list token) : Prop := forallb (fun t => negb (is_marker t)) l = true.

Lemma upto_marker_until l : upto_marker l = until_marker l.
Proof. induction l as [|t r IH]; simpl; [reflexivity|]. destruct t; rewrite ?IH; reflexivity. Qed.

Lemma no_marker_cons t r : no_marker (t :: r) -> is_marker t = false /\ no_marker r.
Proof.
  unfold no_marker. simpl. intros H. apply andb_true_iff in H. destruct H as [A B].
  split; [destruct (is_marker t); [discriminate|reflexivity]|exact B].
Qed.

Lemma upto_marker_stop mid i rest : no_marker mid -> upto_marker (mid ++ TJoinMarker i :: rest) = mid.
Proof.
  induction mid as [|t r IH]; intros H; [reflexivity|].
  apply no_marker_cons in H. destruct H as [Ht Hr]. simpl. rewrite (IH Hr).
  destruct t; try reflexivity. discriminate Ht.
Qed.

Lemma upto_marker_all mid : no_marker mid -> upto_marker mid = mid.
Proof.
  induction mid as [|t r IH]; intros H; [reflexivity|].
  apply no_marker_cons in H. destruct H as [Ht Hr]. simpl. rewrite (IH Hr).
  destruct t; try reflexivity. discriminate Ht.
Qed.

Lemma no_marker_upto l : no_marker (upto_marker l).
Proof.
  unfold no_marker. induction l as [|t r IH]; [reflexivity|]. destruct t; simpl; try exact IH; reflexivity.
Qed.

Lemma no_marker_between k l : no_marker (between_markers k l).
Proof.
  revert k. induction l as [|t r IH]; intros k; [reflexivity|].
  destruct t; simpl; try apply IH. destruct k; [apply no_marker_upto|apply IH].
Qed.

Lemma count_markers_app a b : count_markers (a ++ b) = count_markers a + count_markers b.
Proof. induction a as [|t r IH]; simpl; [reflexivity|]. destruct t; simpl; rewrite ?IH; reflexivity. Qed.

Lemma count_markers_none l : no_marker l -> count_markers l = 0.
Proof.
  induction l as [|t r IH]; intros H; [reflexivity|]. apply no_marker_cons in H. destruct H as [Ht Hr].
  destruct t; simpl; auto. discriminate Ht.
Qed.

Lemma count_markers_zero l : count_markers l = 0 -> no_marker l.
Proof.
  unfold no_marker. induction l as [|t r IH]; intros H; [reflexivity|].
  destruct t; simpl in *; auto. discriminate H.
Qed.

(* the characterisation: pre holds exactly k markers, then marker k, then marker-free mid, then either the
   next marker or the end of the content *)
Lemma between_markers_at pre : forall k i tail,
  count_markers pre = k -> between_markers k (pre ++ TJoinMarker i :: tail) = upto_marker tail.
Proof.
  induction pre as [|t r IH]; intros k i tail H; simpl in *.
  - subst k. reflexivity.
  - destruct t; simpl in *; try (apply IH; exact H).
    destruct k; [discriminate H|]. apply IH. lia.
Qed.

Lemma between_markers_next pre k i mid i' rest :
  count_markers pre = k -> no_marker mid ->
  between_markers k (pre ++ TJoinMarker i :: mid ++ TJoinMarker i' :: rest) = mid.
Proof. intros Hk Hm. rewrite (between_markers_at pre k i _ Hk). apply upto_marker_stop. exact Hm. Qed.

Lemma between_markers_last pre k i mid :
  count_markers pre = k -> no_marker mid ->
  between_markers k (pre ++ TJoinMarker i :: mid) = mid.
Proof. intros Hk Hm. rewrite (between_markers_at pre k i _ Hk). apply upto_marker_all. exact Hm. Qed.

Lemma between_markers_absent l : forall k, count_markers l <= k -> between_markers k l = [].
Proof.
  induction l as [|t r IH]; intros k H; [reflexivity|].
  destruct t; simpl in *; try (apply IH; exact H).
  destruct k; [lia|]. apply IH. lia.
Qed.

(* the engine's own search (after_nth_marker / until_marker) computes the same thing *)
Lemma after_nth_marker_some l : forall k r,
  after_nth_marker l k = Some r -> k < count_markers l /\ until_marker r = between_markers k l.
Proof.
  induction l as [|t rest IH]; intros k r H; simpl in H; [discriminate|].
  destruct t; simpl; try (apply IH; exact H).
  destruct k.
  - inversion H; subst. split; [lia|]. symmetry. apply upto_marker_until.
  - destruct (IH _ _ H) as [A B]. split; [lia|exact B].
Qed.

Lemma after_nth_marker_none l : forall k, after_nth_marker l k = None -> count_markers l <= k.
Proof.
  induction l as [|t rest IH]; intros k H; simpl in *; [lia|].
  destruct t; simpl; try (apply IH; exact H).
  destruct k; [discriminate|]. apply IH in H. lia.
Qed.

(* the token list _render_from_join_marker renders for section index idx *)
Definition join_tokens (p : passage) (idx : nat) : res (list token) :=
  match after_nth_marker (content p) idx with
  | Some r => Ok (until_marker r)
  | None => match idx with O => Ok (until_marker (content p)) | S _ => Exc RuntimeError end
  end.

Lemma join_tokens_marker p idx :
  idx < count_markers (content p) -> join_tokens p idx = Ok (between_markers idx (content p)).
Proof.
  intros H. unfold join_tokens. destruct (after_nth_marker (content p) idx) as [r|] eqn:E.
  - apply after_nth_marker_some in E. destruct E as [_ ->]. reflexivity.
  - apply after_nth_marker_none in E. lia.
Qed.

(* a '-> @join' choice in a passage that has no marker at all: the whole content is rendered again *)
Lemma join_tokens_no_marker p : count_markers (content p) = 0 -> join_tokens p 0 = Ok (content p).
Proof.
  intros H. unfold join_tokens. destruct (after_nth_marker (content p) 0) as [r|] eqn:E.
  - apply after_nth_marker_some in E. lia.
  - rewrite <- upto_marker_until, upto_marker_all; [reflexivity|apply count_markers_zero; exact H].
Qed.

(* a '-> @join' choice written after the last marker *)
Lemma join_tokens_missing p k : count_markers (content p) <= S k -> join_tokens p (S k) = Exc RuntimeError.
Proof.
  intros H. unfold join_tokens. destruct (after_nth_marker (content p) (S k)) as [r|] eqn:E; [|reflexivity].
  apply after_nth_marker_some in E. lia.
Qed.

Lemma join_tokens_ok p idx toks :
  join_tokens p idx = Ok toks ->
  (idx < count_markers (content p) /\ toks = between_markers idx (content p)) \/
  (count_markers (content p) = 0 /\ idx = 0 /\ toks = content p).
Proof.
  intros H. destruct (Nat.lt_ge_cases idx (count_markers (content p))) as [L|L].
  - left. rewrite (join_tokens_marker p idx L) in H. inversion H. auto.
  - right. destruct idx as [|k].
    + assert (Z : count_markers (content p) = 0) by lia.
      rewrite (join_tokens_no_marker p Z) in H. inversion H. auto.
    + rewrite (join_tokens_missing p k) in H by lia. discriminate.
Qed.

(* ---------------------------------------------------------------------------------------- *)
(* how the two texts are put together, and what becomes of the directives *)
Definition join_content (btxt ptxt : string) : string :=
  if String.eqb ptxt "" then btxt
  else if negb (String.eqb btxt "") && negb (ends_with_newline btxt)
       then (btxt ++ String "010"%char ptxt)%string
       else (btxt ++ ptxt)%string.

Lemma str_app_nil_r (s : string) : (s ++ "")%string = s.
Proof. induction s as [|c r IH]; simpl; [reflexivity|]. rewrite IH. reflexivity. Qed.

(* the usual case: the compiler ends every block line with a newline token *)
Lemma join_content_newline btxt ptxt :
  ends_with_newline btxt = true -> join_content btxt ptxt = (btxt ++ ptxt)%string.
Proof.
  intros H. unfold join_content. rewrite H. rewrite andb_false_r.
  destruct (String.eqb ptxt "") eqn:E; [|reflexivity].
  apply String.eqb_eq in E. subst. now rewrite str_app_nil_r.
Qed.

Lemma join_content_no_block ptxt : join_content "" ptxt = ptxt.
Proof. unfold join_content. simpl. destruct (String.eqb ptxt "") eqn:E; [|reflexivity].
  apply String.eqb_eq in E. subst. reflexivity. Qed.

Definition dir_as_render (d : directive) : rdir :=
  match d with
  | DRender r => r
  | DInput _ => RDError "input"%string ""%string
  | DChoice _ _ => RDError "choice"%string ""%string
  end.

(* the three parts split_dirs sorts the directives of a rendering into *)
Definition dir_choices (ds : list directive) : list (choice * option string) := fst (fst (split_dirs ds)).
Definition dir_inputs (ds : list directive) : list (list (string * string)) := snd (fst (split_dirs ds)).
Definition dir_renders (ds : list directive) : list rdir := snd (split_dirs ds).

Lemma split_dirs_parts ds : split_dirs ds = (dir_choices ds, dir_inputs ds, dir_renders ds).
Proof. unfold dir_choices, dir_inputs, dir_renders. destruct (split_dirs ds) as [[a b] c]. reflexivity. Qed.

Lemma dir_choices_app a b : dir_choices (a ++ b) = dir_choices a ++ dir_choices b.
Proof.
  unfold dir_choices. induction a as [|d r IH]; simpl.
  - destruct (split_dirs b) as [[x y] z]. reflexivity.
  - destruct (split_dirs (r ++ b)) as [[x y] z], (split_dirs r) as [[x' y'] z']. simpl in IH. subst x.
    destruct d; reflexivity.
Qed.

Lemma dir_choices_in ds c t : In (c, t) (dir_choices ds) <-> In (DChoice c t) ds.
Proof.
  unfold dir_choices. induction ds as [|d r IH]; simpl; [tauto|].
  destruct (split_dirs r) as [[x y] z]. simpl in IH. destruct d; simpl; rewrite IH.
  - split; intros [H|H]; auto; left; congruence.
  - split; [auto|intros [H|H]; [discriminate|auto]].
  - split; [auto|intros [H|H]; [discriminate|auto]].
Qed.

(* the passage-level choices written in section sec *)
Definition section_cands (p : passage) (sec : nat) : list cand :=
  map (fun c => (c, None, false)) (filter (fun c => Nat.eqb (ch_section c) sec) (choices p)).

(* the choices an @if/@for block produced while the text was rendered (a loop choice carries its rendered text) *)
Definition block_cands (cds : list (choice * option string)) : list cand :=
  map (fun ct => (fst ct, snd ct, true)) cds.

(* what _render_from_join_marker filters for section sec: the passage-level choices written in section sec, then
   the block choices cds of the section text; the flag true (with section 0) means "no section test" *)
Definition join_cands (p : passage) (sec : nat) (cds : list (choice * option string)) : list cand :=
  map (fun c => (c, None, true)) (filter (fun c => Nat.eqb (ch_section c) sec) (choices p)) ++ block_cands cds.

Lemma join_cands_in p sec cds x :
  In x (join_cands p sec cds) ->
  (exists c, x = (c, None, true) /\ In c (choices p) /\ ch_section c = sec) \/
  (exists c t, x = (c, t, true) /\ In (c, t) cds).
Proof.
  unfold join_cands, block_cands. rewrite in_app_iff, !in_map_iff. intros [(c & <- & Hin)|([c t] & <- & Hin)].
  - left. apply filter_In in Hin. destruct Hin as [A B]. apply Nat.eqb_eq in B. eauto.
  - right. exists c, t. auto.
Qed.

Lemma section_cands_in p sec x :
  In x (section_cands p sec) ->
  exists c, x = (c, None, false) /\ In c (choices p) /\ ch_section c = sec.
Proof.
  unfold section_cands. rewrite in_map_iff. intros (c & <- & Hin). apply filter_In in Hin.
  destruct Hin as [A B]. apply Nat.eqb_eq in B. eauto.
Qed.

(* the state after the section counter was advanced and the result cached *)
Definition join_state (s : nstate) (pid : string) (idx : nat) (o : output) : nstate :=
  mkNS (mkCore (cur (nc s)) (vars (nc s)) (used (nc s)) (hooks (nc s))
               (set_key pid (S idx) (joinidx (nc s))) (Some o)) (scopes s) (log s).

Definition cur_pid (s : nstate) : string := match cur (nc s) with Some p => p | None => ""%string end.
Definition cur_section (s : nstate) : nat :=
  match lookup (cur_pid s) (joinidx (nc s)) with Some n => n | None => 0 end.

Section WithOracle.
Variable orc : pyorc.
Variable ctxkeys : list string.
Variable st : story.

Lemma render_content_nil s : render_content orc ctxkeys [] s = (s, Ok (""%string, None, [])).
Proof. reflexivity. Qed.

(* the result of the turn before the turn_end hooks *)
Definition join_result (pid : string) (btxt ptxt : string) (bds pds : list directive) (chs : list rchoice)
           (j : option string) : output :=
  mkOut (join_content btxt ptxt) chs pid (map dir_as_render bds ++ dir_renders pds) (dir_inputs pds) j.

(* ---- the anatomy of one successful join choice ---- *)
Lemma execute_join_choice_inv c s s' o :
  execute_join_choice orc ctxkeys st c s = (s', Ok o) ->
  let pid := cur_pid s in
  let idx := cur_section s in
  exists p btxt jb bds s1 toks ptxt j pds s2 chs s3,
    get_passage st pid = Some p /\
    render_content orc ctxkeys (ch_block (rc_choice c)) s = (s1, Ok (btxt, jb, bds)) /\
    join_tokens p idx = Ok toks /\
    render_content orc ctxkeys toks s1 = (s2, Ok (ptxt, j, pds)) /\
    filter_choices orc ctxkeys (join_cands p (S idx) (dir_choices pds)) 0 s2 = (s3, Ok chs) /\
    after_hooks orc ctxkeys st (join_result pid btxt ptxt bds pds chs j)
                (join_state s3 pid idx (join_result pid btxt ptxt bds pds chs j)) = (s', Ok o).
Proof.
  unfold execute_join_choice. intros H.
  apply bind_inv_ok in H. destruct H as (sg & s0 & Hg & H). unfold get in Hg. inversion Hg; subst sg s0. clear Hg.
  apply bind_inv_ok in H. destruct H as ([btxt bds] & s1 & Hb & H).
  apply bind_inv_ok in H. destruct H as (sg & s1' & Hg & H). unfold get in Hg. inversion Hg; subst sg s1'. clear Hg.
  apply bind_inv_ok in H. destruct H as (post & s2 & Hp & H).
  apply bind_inv_ok in H. destruct H as (sg & s2' & Hg & H). unfold get in Hg. inversion Hg; subst sg s2'. clear Hg.
  apply bind_inv_ok in H. destruct H as ([] & s3 & Hj & H). unfold set_joinidx in Hj. inversion Hj; subst s3. clear Hj.
  apply bind_inv_ok in H. destruct H as ([] & s4 & Ho & H). unfold set_out in Ho. inversion Ho; subst s4. clear Ho.
  cbn [nc cur vars used hooks joinidx out scopes log] in H.
  (* the block *)
  assert (Hb' : exists jb, render_content orc ctxkeys (ch_block (rc_choice c)) s = (s1, Ok (btxt, jb, bds))).
  { destruct (ch_block (rc_choice c)) as [|b0 br].
    - unfold ret in Hb. inversion Hb; subst. exists None. reflexivity.
    - apply bind_inv_ok in Hb. destruct Hb as ([[t jb] d] & sx & Hx & Hb). unfold ret in Hb. inversion Hb; subst.
      exists jb. exact Hx. }
  destruct Hb' as (jb & Hblk). clear Hb.
  destruct (FrameM_render_content orc ctxkeys _ _ _ _ Hblk) as [_ C1 _ J1 _ _ _].
  fold (cur_pid s) in Hp, H.
  assert (Eidx : match lookup (cur_pid s) (joinidx (nc s1)) with Some n => n | None => 0 end = cur_section s).
  { unfold cur_section. rewrite J1. reflexivity. }
  rewrite Eidx in Hp, H. clear Eidx.
  (* the text after the marker *)
  unfold render_from_join_marker in Hp.
  destruct (get_passage st (cur_pid s)) as [p|] eqn:Ep; [|unfold raise in Hp; inversion Hp].
  apply bind_inv_ok in Hp. destruct Hp as (toks & sa & Ha & Hp).
  assert (Ht : sa = s1 /\ join_tokens p (cur_section s) = Ok toks).
  { unfold join_tokens. destruct (after_nth_marker (content p) (cur_section s)).
    - unfold ret in Ha. inversion Ha; subst. auto.
    - destruct (cur_section s); [unfold ret in Ha; inversion Ha; subst; auto|unfold raise in Ha; inversion Ha]. }
  destruct Ht as [-> Ht].
  apply bind_inv_ok in Hp. destruct Hp as ([[ptxt j] pds] & s2' & Hc & Hp).
  rewrite (split_dirs_parts pds) in Hp. cbv beta iota in Hp.
  apply bind_inv_ok in Hp. destruct Hp as (chs & s3 & Hf & Hp). unfold ret in Hp. inversion Hp; subst s2 post. clear Hp.
  exists p, btxt, jb, bds, s1, toks, ptxt, j, pds, s2', chs, s3.
  repeat split; auto.
Qed.


(* ---- the state transformer of a join choice: the block once, the section text once, the next section's choice
   texts, the counter, the cache, the hooks - and nothing else (an equation, so it covers failing runs too) ---- *)
Definition section_render (p : passage) (pid : string) (idx : nat) : M output :=
  do toks <- lift_res (join_tokens p idx);
  do '(txt, j, ds) <- render_content orc ctxkeys toks;
  do chs <- filter_choices orc ctxkeys (join_cands p (S idx) (dir_choices ds)) 0;
  ret (mkOut txt chs pid (dir_renders ds) (dir_inputs ds) j).

Lemma render_from_join_marker_eq pid idx p s :
  get_passage st pid = Some p ->
  render_from_join_marker orc ctxkeys st pid idx s = section_render p pid idx s.
Proof.
  intros Hp. unfold render_from_join_marker, section_render, join_tokens. rewrite Hp.
  unfold bind, lift_res, ret, raise.
  destruct (after_nth_marker (content p) idx) as [r|]; [|destruct idx; [|reflexivity]].
  - destruct (render_content orc ctxkeys (until_marker r) s) as [s2 [[[ptxt j] pds]|e]]; [|reflexivity].
    rewrite (split_dirs_parts pds). reflexivity.
  - destruct (render_content orc ctxkeys (until_marker (content p)) s) as [s2 [[[ptxt j] pds]|e]]; [|reflexivity].
    rewrite (split_dirs_parts pds). reflexivity.
Qed.

Definition join_turn (p : passage) (pid : string) (c : rchoice) : M output :=
  do '(btxt, _, bds) <- render_content orc ctxkeys (ch_block (rc_choice c));
  do s1 <- get;
  let idx := match lookup pid (joinidx (nc s1)) with Some n => n | None => 0 end in
  do post <- section_render p pid idx;
  do s2 <- get;
  do _ <- set_joinidx (set_key pid (S idx) (joinidx (nc s2)));
  ret (mkOut (join_content btxt (o_content post)) (o_choices post) pid
             (map dir_as_render bds ++ o_render post) (o_input post) (o_jump post)).

Lemma execute_join_choice_turn c s p :
  get_passage st (cur_pid s) = Some p ->
  execute_join_choice orc ctxkeys st c s =
  bind (join_turn p (cur_pid s) c)
       (fun r => bind (set_out r) (fun _ => after_hooks orc ctxkeys st r)) s.
Proof.
  intros Hp. unfold execute_join_choice, join_turn.
  unfold bind, get, ret, set_joinidx. cbv beta iota zeta. fold (cur_pid s).
  destruct (ch_block (rc_choice c)) as [|b0 br].
  - change (render_content orc ctxkeys [] s) with (s, @Ok seq_out (""%string, None, [])). cbv beta iota.
    rewrite (render_from_join_marker_eq _ _ p s Hp).
    destruct (section_render p (cur_pid s) _ s) as [s2 [post|e]]; reflexivity.
  - destruct (render_content orc ctxkeys (b0 :: br) s) as [s1 [[[btxt jb] bds]|e]]; [|reflexivity].
    cbv beta iota. rewrite (render_from_join_marker_eq _ _ p s1 Hp).
    destruct (section_render p (cur_pid s) _ s1) as [s2 [post|e]]; reflexivity.
Qed.


(* ---- the hooks at the end of the turn ---- *)
Lemma with_hook_output_fields o h :
  o_choices (with_hook_output o h) = o_choices o /\ o_pid (with_hook_output o h) = o_pid o /\
  o_render (with_hook_output o h) = o_render o /\ o_input (with_hook_output o h) = o_input o /\
  o_jump (with_hook_output o h) = o_jump o.
Proof. unfold with_hook_output. destruct (String.eqb h ""); simpl; repeat split. Qed.

Definition OutKept {A} (m : M A) : Prop := forall s s' r, m s = (s', r) -> out (nc s') = out (nc s).

Lemma OutKept_bind {A B} (m : M A) (f : A -> M B) : OutKept m -> (forall a, OutKept (f a)) -> OutKept (bind m f).
Proof.
  intros Hm Hf s s' r H. unfold bind in H. destruct (m s) as [s1 [a|e]] eqn:E.
  - rewrite (Hf _ _ _ _ H). eapply Hm; eauto.
  - inversion H; subst. eapply Hm; eauto.
Qed.
Lemma OutKept_ret {A} (a : A) : OutKept (ret a).
Proof. intros s s' r H. inversion H; reflexivity. Qed.
Lemma OutKept_emit e : OutKept (emit e).
Proof. intros s s' r H. inversion H; reflexivity. Qed.
Lemma OutKept_frame {A} (m : M A) : FrameM m -> OutKept m.
Proof. intros H s s' r E. apply H in E. destruct E. assumption. Qed.

Lemma OutKept_run_hooks l : OutKept (run_hooks orc ctxkeys st l).
Proof.
  induction l as [|p r IH]; simpl; [apply OutKept_ret|].
  destruct (get_passage st p) as [pp|] eqn:Ep; [|exact IH].
  apply OutKept_bind; [apply OutKept_emit|]. intros _.
  apply OutKept_bind.
  { unfold execute_passage. rewrite Ep. apply OutKept_bind; [apply OutKept_emit|]. intros _.
    apply OutKept_frame, FrameM_exec_commands. }
  intros _. apply OutKept_bind; [apply OutKept_frame, FrameM_render_passage|]. intros o.
  apply OutKept_bind; [exact IH|]. intros rest. apply OutKept_ret.
Qed.

Lemma OutKept_trigger_event ev : OutKept (trigger_event orc ctxkeys st ev).
Proof.
  unfold trigger_event. apply OutKept_bind; [intros s s' r H; inversion H; reflexivity|]. intros s0.
  destruct (lookup ev (hooks (nc s0))); [|apply OutKept_ret].
  apply OutKept_bind; [apply OutKept_run_hooks|]. intros; apply OutKept_ret.
Qed.

(* a successful end of turn: the hook text h, the result with h appended, and the state *)
Lemma after_hooks_inv o0 s s' o :
  after_hooks orc ctxkeys st o0 s = (s', Ok o) ->
  exists h s4, trigger_event orc ctxkeys st "turn_end" s = (s4, Ok h) /\
               o = with_hook_output o0 h /\
               s' = (if String.eqb h "" then s4 else fst (set_out o s4)).
Proof.
  unfold after_hooks. intros H. apply bind_inv_ok in H. destruct H as (h & s4 & H1 & H2).
  exists h, s4. split; [exact H1|]. destruct (String.eqb h "") eqn:Eh.
  - unfold ret in H2. inversion H2; subst. split; [|reflexivity].
    unfold with_hook_output. rewrite Eh. reflexivity.
  - apply bind_inv_ok in H2. destruct H2 as ([] & s5 & H3 & H4). unfold ret in H4. inversion H4; subst.
    split; [reflexivity|]. rewrite H3. reflexivity.
Qed.

(* current() afterwards is the returned result *)
Lemma after_hooks_out o0 s s' o :
  out (nc s) = Some o0 -> after_hooks orc ctxkeys st o0 s = (s', Ok o) -> out (nc s') = Some o.
Proof.
  intros Ho H. apply after_hooks_inv in H. destruct H as (h & s4 & H1 & -> & ->).
  unfold with_hook_output. destruct (String.eqb h "") eqn:Eh.
  - rewrite (OutKept_trigger_event _ _ _ _ H1). exact Ho.
  - reflexivity.
Qed.

(* ---- (1) what a join choice returns ---- *)
Lemma join_choice_anatomy c s s' o :
  execute_join_choice orc ctxkeys st c s = (s', Ok o) ->
  exists p btxt jb bds s1 toks ptxt j pds s2 chs s3 h s4,
    get_passage st (cur_pid s) = Some p /\
    render_content orc ctxkeys (ch_block (rc_choice c)) s = (s1, Ok (btxt, jb, bds)) /\
    join_tokens p (cur_section s) = Ok toks /\
    render_content orc ctxkeys toks s1 = (s2, Ok (ptxt, j, pds)) /\
    filter_choices orc ctxkeys (join_cands p (S (cur_section s)) (dir_choices pds)) 0 s2 = (s3, Ok chs) /\
    let o1 := join_result (cur_pid s) btxt ptxt bds pds chs j in
    trigger_event orc ctxkeys st "turn_end" (join_state s3 (cur_pid s) (cur_section s) o1) = (s4, Ok h) /\
    o = with_hook_output o1 h /\
    s' = (if String.eqb h "" then s4 else fst (set_out o s4)) /\
    out (nc s') = Some o.
Proof.
  intros H. apply execute_join_choice_inv in H. cbv zeta in H.
  destruct H as (p & btxt & jb & bds & s1 & toks & ptxt & j & pds & s2 & chs & s3 & Hp & Hb & Ht & Hm & Hf & Hh).
  assert (Ho : out (nc s') = Some o) by (eapply after_hooks_out; [|exact Hh]; reflexivity).
  apply after_hooks_inv in Hh. destruct Hh as (h & s4 & H1 & H2 & H3).
  exists p, btxt, jb, bds, s1, toks, ptxt, j, pds, s2, chs, s3, h, s4. cbv zeta. repeat split; assumption.
Qed.

(* the headline form: the passage has a marker for the current section *)
Lemma join_choice_output c s s' o p :
  get_passage st (cur_pid s) = Some p -> cur_section s < count_markers (content p) ->
  execute_join_choice orc ctxkeys st c s = (s', Ok o) ->
  exists btxt jb bds s1 ptxt j pds s2 h,
    render_content orc ctxkeys (ch_block (rc_choice c)) s = (s1, Ok (btxt, jb, bds)) /\
    render_content orc ctxkeys (between_markers (cur_section s) (content p)) s1 = (s2, Ok (ptxt, j, pds)) /\
    o_content o = o_content (with_hook_output (mkOut (join_content btxt ptxt) [] "" [] [] None) h) /\
    o_pid o = cur_pid s /\ o_render o = map dir_as_render bds ++ dir_renders pds /\
    o_input o = dir_inputs pds /\ o_jump o = j /\ out (nc s') = Some o.
Proof.
  intros Hp Hk H. apply join_choice_anatomy in H.
  destruct H as (p' & btxt & jb & bds & s1 & toks & ptxt & j & pds & s2 & chs & s3 & h & s4 &
                 Hp' & Hb & Ht & Hm & Hf & H). cbv zeta in H. destruct H as (Hh & Ho & Hs & Hout).
  rewrite Hp in Hp'. inversion Hp'; subst p'. clear Hp'.
  rewrite (join_tokens_marker p _ Hk) in Ht. inversion Ht; subst toks. clear Ht.
  exists btxt, jb, bds, s1, ptxt, j, pds, s2, h. split; [exact Hb|]. split; [exact Hm|].
  destruct (with_hook_output_fields (join_result (cur_pid s) btxt ptxt bds pds chs j) h) as (F1 & F2 & F3 & F4 & F5).
  rewrite Ho at 1 2 3 4 5. rewrite F2, F3, F4, F5. simpl. split; [|repeat split; exact Hout].
  unfold with_hook_output. destruct (String.eqb h ""); reflexivity.
Qed.

(* the two shapes the property does not speak about *)
Lemma join_choice_without_marker c s s' o p :
  get_passage st (cur_pid s) = Some p -> count_markers (content p) = 0 ->
  execute_join_choice orc ctxkeys st c s = (s', Ok o) ->
  cur_section s = 0 /\
  exists btxt jb bds s1 ptxt j pds s2 h,
    render_content orc ctxkeys (ch_block (rc_choice c)) s = (s1, Ok (btxt, jb, bds)) /\
    render_content orc ctxkeys (content p) s1 = (s2, Ok (ptxt, j, pds)) /\
    o_content o = o_content (with_hook_output (mkOut (join_content btxt ptxt) [] "" [] [] None) h).
Proof.
  intros Hp Hk H. apply join_choice_anatomy in H.
  destruct H as (p' & btxt & jb & bds & s1 & toks & ptxt & j & pds & s2 & chs & s3 & h & s4 &
                 Hp' & Hb & Ht & Hm & Hf & H). cbv zeta in H. destruct H as (Hh & Ho & Hs & Hout).
  rewrite Hp in Hp'. inversion Hp'; subst p'. clear Hp'.
  apply join_tokens_ok in Ht. destruct Ht as [[L _]|(_ & Z & ->)]; [lia|].
  split; [exact Z|]. exists btxt, jb, bds, s1, ptxt, j, pds, s2, h. split; [exact Hb|]. split; [exact Hm|].
  rewrite Ho. unfold with_hook_output. destruct (String.eqb h ""); reflexivity.
Qed.

Lemma join_choice_after_last_marker c s p s1 r :
  get_passage st (cur_pid s) = Some p ->
  count_markers (content p) <= cur_section s -> 0 < cur_section s ->
  render_content orc ctxkeys (ch_block (rc_choice c)) s = (s1, Ok r) ->
  execute_join_choice orc ctxkeys st c s = (s1, Exc RuntimeError).
Proof.
  intros Hp Hk Hpos Hb. rewrite (execute_join_choice_turn c s p Hp). destruct r as [[btxt jb] bds].
  destruct (FrameM_render_content _ _ _ _ _ _ Hb) as [_ _ _ J1 _ _ _].
  assert (Hi : match lookup (cur_pid s) (joinidx (nc s1)) with Some n => n | None => 0 end = cur_section s)
    by (unfold cur_section; rewrite J1; reflexivity).
  unfold join_turn, section_render, bind, get, lift_res. rewrite Hb. cbv beta iota zeta. rewrite Hi.
  destruct (cur_section s) as [|k]; [lia|]. rewrite (join_tokens_missing p k) by lia. reflexivity.
Qed.


(* ---- (2) what runs: the block once, the section text once, the choice texts, then the hooks; no passage is
   entered and the position does not move ---- *)
Lemma hook_runs_low l : Forall low_event l -> hook_runs l = [].
Proof. intros H. apply hook_runs_nav. eapply Forall_impl; [|exact H]. apply low_nav. Qed.

Lemma join_choice_log c s s' o :
  execute_join_choice orc ctxkeys st c s = (s', Ok o) ->
  exists p btxt jb bds s1 toks ptxt j pds s2 chs s3 lb lm lc lh,
    get_passage st (cur_pid s) = Some p /\
    render_content orc ctxkeys (ch_block (rc_choice c)) s = (s1, Ok (btxt, jb, bds)) /\
    join_tokens p (cur_section s) = Ok toks /\
    render_content orc ctxkeys toks s1 = (s2, Ok (ptxt, j, pds)) /\
    filter_choices orc ctxkeys (join_cands p (S (cur_section s)) (dir_choices pds)) 0 s2 = (s3, Ok chs) /\
    log s1 = log s ++ lb /\ log s2 = log s1 ++ lm /\ log s3 = log s2 ++ lc /\
    log s' = log s ++ lb ++ lm ++ lc ++ lh /\
    Forall low_event (lb ++ lm ++ lc) /\ entered (lb ++ lm ++ lc) = [] /\ hook_runs (lb ++ lm ++ lc) = [] /\
    hook_runs lh = filter (defined st) (active s3) /\
    cur (nc s1) = cur (nc s) /\ cur (nc s2) = cur (nc s) /\ cur (nc s3) = cur (nc s) /\ cur (nc s') = cur (nc s).
Proof.
  intros H. apply execute_join_choice_inv in H. cbv zeta in H.
  destruct H as (p & btxt & jb & bds & s1 & toks & ptxt & j & pds & s2 & chs & s3 & Hp & Hb & Ht & Hm & Hf & Hh).
  destruct (FrameM_render_content orc ctxkeys _ _ _ _ Hb) as [_ C1 _ _ _ _ (lb & L1 & N1)].
  destruct (FrameM_render_content orc ctxkeys _ _ _ _ Hm) as [_ C2 _ _ _ _ (lm & L2 & N2)].
  destruct (FrameM_filter_choices orc ctxkeys _ _ _ _ _ Hf) as [_ C3 _ _ _ _ (lc & L3 & N3)].
  destruct (after_hooks_log _ _ _ _ _ _ _ Hh) as [(lh & L4 & N4) _].
  pose proof (HFrameM_after_hooks orc ctxkeys st _ _ _ _ Hh) as [_ C4 _ _ _]. simpl in C4, L4.
  assert (N : Forall low_event (lb ++ lm ++ lc)).
  { apply Forall_app; split; [exact N1|]. apply Forall_app; split; assumption. }
  exists p, btxt, jb, bds, s1, toks, ptxt, j, pds, s2, chs, s3, lb, lm, lc, lh.
  repeat split; try assumption; try congruence.
  - rewrite L4, L3, L2, L1. rewrite <- !app_assoc. reflexivity.
  - apply entered_low. exact N.
  - apply hook_runs_low. exact N.
Qed.

(* straight-line blocks: every statement, @py block and hook command of the block is logged exactly once, in
   source order, and nothing else is *)
Definition flat_tok (t : token) : bool :=
  match t with
  | TText _ | TExpr _ | TPyStmt _ | TPyBlock _ | THook _ _ _ | TRender _ _ _ | TInput _ => true
  | _ => false
  end.

Lemma render_tok_flat t s s' txt k ds :
  flat_tok t = true -> render_tok orc ctxkeys t s = (s', Ok (txt, k, ds)) ->
  k = CNext /\ log s' = log s ++ cmd_event t.
Proof.
  destruct t; try discriminate; intros _ H; cbn [render_tok] in H.
  - unfold ret in H. inversion H; subst. simpl. now rewrite app_nil_r.
  - apply bind_inv_ok in H. destruct H as (ctx & s1 & H1 & H). inversion H1; subst. unfold ret in H.
    inversion H; subst. simpl. now rewrite app_nil_r.
  - apply bind_inv_ok in H. destruct H as ([] & s1 & H1 & H). unfold ret in H. inversion H; subst.
    split; [reflexivity|]. exact (exec_command_log orc ctxkeys (TPyStmt code) _ _ H1).
  - apply bind_inv_ok in H. destruct H as ([] & s1 & H1 & H). unfold ret in H. inversion H; subst.
    split; [reflexivity|]. exact (exec_command_log orc ctxkeys (TPyBlock code) _ _ H1).
  - apply bind_inv_ok in H. destruct H as ([] & s1 & H1 & H). unfold ret in H. inversion H; subst.
    split; [reflexivity|]. exact (exec_command_log orc ctxkeys (THook add event target) _ _ H1).
  - apply bind_inv_ok in H. destruct H as (ctx & s1 & H1 & H). inversion H1; subst. unfold ret in H.
    inversion H; subst. simpl. now rewrite app_nil_r.
  - unfold ret in H. inversion H; subst. simpl. now rewrite app_nil_r.
Qed.

Lemma render_content_flat l : forall s s' txt j ds,
  forallb flat_tok l = true -> render_content orc ctxkeys l s = (s', Ok (txt, j, ds)) ->
  j = None /\ log s' = log s ++ cmd_events l.
Proof.
  unfold render_content.
  induction l as [|t r IH]; intros s s' txt j ds Hf H.
  - simpl in H. unfold ret in H. inversion H; subst. simpl. now rewrite app_nil_r.
  - simpl in Hf. apply andb_true_iff in Hf. destruct Hf as [Ht Hr].
    rewrite seqr_cons in H. destruct (render_tok orc ctxkeys t s) as [s1 [[[t1 k] d1]|e]] eqn:E; [|discriminate].
    destruct (render_tok_flat _ _ _ _ _ _ Ht E) as [-> L1].
    destruct (seqr (render_tok orc ctxkeys) r s1) as [s2 [[[t2 j2] d2]|e]] eqn:E2; [|discriminate].
    inversion H; subst. destruct (IH _ _ _ _ _ Hr E2) as [-> L2]. split; [reflexivity|].
    rewrite L2, L1. unfold cmd_events. simpl. rewrite app_assoc. reflexivity.
Qed.

(* straight-line text produces no block choice *)
Lemma render_tok_flat_dirs t s s' txt k ds :
  flat_tok t = true -> render_tok orc ctxkeys t s = (s', Ok (txt, k, ds)) -> dir_choices ds = [].
Proof.
  destruct t; try discriminate; intros _ H; cbn [render_tok] in H.
  - unfold ret in H. inversion H; subst. reflexivity.
  - apply bind_inv_ok in H. destruct H as (ctx & s1 & H1 & H). unfold ret in H. inversion H; subst. reflexivity.
  - apply bind_inv_ok in H. destruct H as ([] & s1 & H1 & H). unfold ret in H. inversion H; subst. reflexivity.
  - apply bind_inv_ok in H. destruct H as ([] & s1 & H1 & H). unfold ret in H. inversion H; subst. reflexivity.
  - apply bind_inv_ok in H. destruct H as ([] & s1 & H1 & H). unfold ret in H. inversion H; subst. reflexivity.
  - apply bind_inv_ok in H. destruct H as (ctx & s1 & H1 & H). unfold ret in H. inversion H; subst. reflexivity.
  - unfold ret in H. inversion H; subst. reflexivity.
Qed.

Lemma render_content_flat_dirs l : forall s s' txt j ds,
  forallb flat_tok l = true -> render_content orc ctxkeys l s = (s', Ok (txt, j, ds)) -> dir_choices ds = [].
Proof.
  unfold render_content.
  induction l as [|t r IH]; intros s s' txt j ds Hf H.
  - simpl in H. unfold ret in H. inversion H; subst. reflexivity.
  - simpl in Hf. apply andb_true_iff in Hf. destruct Hf as [Ht Hr].
    rewrite seqr_cons in H. destruct (render_tok orc ctxkeys t s) as [s1 [[[t1 k] d1]|e]] eqn:E; [|discriminate].
    destruct (render_tok_flat _ _ _ _ _ _ Ht E) as [-> L1].
    pose proof (render_tok_flat_dirs _ _ _ _ _ _ Ht E) as D1.
    destruct (seqr (render_tok orc ctxkeys) r s1) as [s2 [[[t2 j2] d2]|e]] eqn:E2; [|discriminate].
    inversion H; subst. rewrite dir_choices_app, D1, (IH _ _ _ _ _ Hr E2). reflexivity.
Qed.

Lemma filter_choices_pure_state cands sec s s' chs :
  Forall (fun x => pure_choice (cand_choice x)) cands ->
  filter_choices orc ctxkeys cands sec s = (s', Ok chs) -> s' = s.
Proof. intros Hp H. rewrite (filter_choices_spec orc ctxkeys _ _ s Hp) in H. inversion H. reflexivity. Qed.

Lemma section_cands_pure p sec :
  Forall pure_choice (choices p) -> Forall (fun x => pure_choice (cand_choice x)) (section_cands p sec).
Proof.
  intros H. apply Forall_forall. intros x Hx. apply section_cands_in in Hx. destruct Hx as (c & -> & Hin & _).
  rewrite Forall_forall in H. apply H. exact Hin.
Qed.

Lemma join_cands_pure p sec cds :
  Forall pure_choice (choices p) -> Forall (fun ct => pure_choice (fst ct)) cds ->
  Forall (fun x => pure_choice (cand_choice x)) (join_cands p sec cds).
Proof.
  intros H Hb. apply Forall_forall. intros x Hx. apply join_cands_in in Hx.
  destruct Hx as [(c & -> & Hin & _)|(c & t & -> & Hin)].
  - rewrite Forall_forall in H. apply H. exact Hin.
  - rewrite Forall_forall in Hb. apply (Hb _ Hin).
Qed.

Lemma join_choice_log_flat c s s' o p :
  get_passage st (cur_pid s) = Some p -> cur_section s < count_markers (content p) ->
  forallb flat_tok (ch_block (rc_choice c)) = true ->
  forallb flat_tok (between_markers (cur_section s) (content p)) = true ->
  Forall pure_choice (choices p) ->
  execute_join_choice orc ctxkeys st c s = (s', Ok o) ->
  exists r1 s1 r2 s2 lh,
    render_content orc ctxkeys (ch_block (rc_choice c)) s = (s1, Ok r1) /\
    render_content orc ctxkeys (between_markers (cur_section s) (content p)) s1 = (s2, Ok r2) /\
    log s' = log s ++ cmd_events (ch_block (rc_choice c))
                   ++ cmd_events (between_markers (cur_section s) (content p)) ++ lh /\
    hook_runs lh = filter (defined st) (active s2).
Proof.
  intros Hp Hk Fb Fm Pc H. apply join_choice_log in H.
  destruct H as (p' & btxt & jb & bds & s1 & toks & ptxt & j & pds & s2 & chs & s3 & lb & lm & lc & lh &
                 Hp' & Hb & Ht & Hm & Hf & L1 & L2 & L3 & L & _ & _ & _ & Nh & _).
  rewrite Hp in Hp'. inversion Hp'; subst p'. clear Hp'.
  rewrite (join_tokens_marker p _ Hk) in Ht. inversion Ht; subst toks. clear Ht.
  destruct (render_content_flat _ _ _ _ _ _ Fb Hb) as [_ E1].
  destruct (render_content_flat _ _ _ _ _ _ Fm Hm) as [_ E2].
  rewrite (render_content_flat_dirs _ _ _ _ _ _ Fm Hm) in Hf.
  pose proof (filter_choices_pure_state _ _ _ _ _ (join_cands_pure p _ [] Pc (Forall_nil _)) Hf) as E3. subst s3.
  rewrite L1 in E1. apply app_inv_head in E1. rewrite L2 in E2. apply app_inv_head in E2.
  assert (lc = []). { rewrite <- (app_nil_r (log s2)) in L3 at 1. apply app_inv_head in L3. auto. }
  subst lb lm lc. exists (btxt, jb, bds), s1, (ptxt, j, pds), s2, lh.
  split; [exact Hb|]. split; [exact Hm|]. split; [rewrite L; reflexivity|exact Nh].
Qed.

(* ---- (3) only that block: the blocks of the other choices of the passage have no influence at all ---- *)
Definition erase_block (c : choice) : choice :=
  let 'Choice t tg a cd stk sec tags _ := c in Choice t tg a cd stk sec tags [].
Definition erase_rc (rc : rchoice) : rchoice := mkRC (rc_text rc) (erase_block (rc_choice rc)).
Definition erase_cand (x : cand) : cand := let '(c, dt, fd) := x in (erase_block c, dt, fd).
Definition erase_out (o : output) : output :=
  mkOut (o_content o) (map erase_rc (o_choices o)) (o_pid o) (o_render o) (o_input o) (o_jump o).
Definition res_map {A B} (f : A -> B) (r : res A) : res B :=
  match r with Ok a => Ok (f a) | Exc e => Exc e end.

Lemma is_choice_available_erase c dt :
  is_choice_available orc ctxkeys (erase_block c) dt = is_choice_available orc ctxkeys c dt.
Proof. destruct c. reflexivity. Qed.
Lemma choice_text_erase c dt : choice_text orc ctxkeys (erase_block c) dt = choice_text orc ctxkeys c dt.
Proof. destruct c, dt; reflexivity. Qed.
Lemma dir_section_erase c fd : dir_section (erase_block c) fd = dir_section c fd.
Proof. destruct c, fd; reflexivity. Qed.
Lemma ch_section_erase c : ch_section (erase_block c) = ch_section c.
Proof. destruct c; reflexivity. Qed.

Ltac bstep E := first [rewrite !(bind_ok _ _ _ _ _ E) | rewrite !(bind_exc _ _ _ _ _ E)]; cbv beta iota.

Lemma filter_choices_erase cands sec : forall s,
  filter_choices orc ctxkeys (map erase_cand cands) sec s =
  (let (s', r) := filter_choices orc ctxkeys cands sec s in (s', res_map (map erase_rc) r)).
Proof.
  induction cands as [|[[c dt] fd] r IH]; intros s; [reflexivity|].
  cbn [map erase_cand filter_choices].
  rewrite is_choice_available_erase, dir_section_erase.
  destruct (is_choice_available orc ctxkeys c dt s) as [s1 [av|e]] eqn:Ea; bstep Ea; [|reflexivity].
  destruct (av && Nat.eqb (dir_section c fd) sec); [|apply IH].
  rewrite choice_text_erase.
  destruct (choice_text orc ctxkeys c dt s1) as [s2 [t|e]] eqn:Et; bstep Et; [|reflexivity].
  unfold bind. rewrite IH. destruct (filter_choices orc ctxkeys r sec s2) as [s3 [rs|e]]; reflexivity.
Qed.

Lemma join_cands_erase p sec cds :
  map erase_cand (join_cands p sec cds) =
  map (fun c => (c, None, true)) (filter (fun c => Nat.eqb (ch_section c) sec) (map erase_block (choices p)))
  ++ map erase_cand (block_cands cds).
Proof.
  unfold join_cands. rewrite map_app. f_equal. induction (choices p) as [|c r IH]; [reflexivity|].
  cbn [map filter]. rewrite ch_section_erase. destruct (Nat.eqb (ch_section c) sec); cbn [map]; rewrite IH; reflexivity.
Qed.

Lemma section_render_other_blocks p p' pid idx s :
  content p = content p' -> map erase_block (choices p) = map erase_block (choices p') ->
  fst (section_render p pid idx s) = fst (section_render p' pid idx s) /\
  res_map erase_out (snd (section_render p pid idx s)) = res_map erase_out (snd (section_render p' pid idx s)).
Proof.
  intros Hc Hch. unfold section_render.
  assert (Hj : join_tokens p idx = join_tokens p' idx) by (unfold join_tokens; rewrite Hc; reflexivity).
  rewrite Hj. destruct (join_tokens p' idx) as [toks|e].
  2:{ rewrite !(bind_exc (lift_res (Exc e)) _ s s e eq_refl). split; reflexivity. }
  rewrite !(bind_ok (lift_res (Ok toks)) _ s s toks eq_refl).
  destruct (render_content orc ctxkeys toks s) as [s1 [[[txt j] ds]|e]] eqn:Er; bstep Er; [|split; reflexivity].
  pose proof (filter_choices_erase (join_cands p (S idx) (dir_choices ds)) 0 s1) as E1.
  pose proof (filter_choices_erase (join_cands p' (S idx) (dir_choices ds)) 0 s1) as E2.
  rewrite join_cands_erase in E1, E2. rewrite Hch in E1. rewrite E2 in E1. clear E2.
  destruct (filter_choices orc ctxkeys (join_cands p (S idx) (dir_choices ds)) 0 s1) as [s2 [chs|e]] eqn:F1,
           (filter_choices orc ctxkeys (join_cands p' (S idx) (dir_choices ds)) 0 s1) as [s2' [chs'|e']] eqn:F2;
    simpl in E1; inversion E1; subst; bstep F1; bstep F2; simpl; split; try reflexivity.
  unfold erase_out. simpl. congruence.
Qed.

Lemma join_turn_other_blocks p p' pid c s :
  content p = content p' -> map erase_block (choices p) = map erase_block (choices p') ->
  fst (join_turn p pid c s) = fst (join_turn p' pid c s) /\
  res_map erase_out (snd (join_turn p pid c s)) = res_map erase_out (snd (join_turn p' pid c s)).
Proof.
  intros Hc Hch. unfold join_turn.
  destruct (render_content orc ctxkeys (ch_block (rc_choice c)) s) as [s1 [[[btxt jb] bds]|e]] eqn:Eb; bstep Eb;
    [|split; reflexivity].
  rewrite !(bind_ok get _ s1 s1 s1 eq_refl). cbv beta iota zeta.
  set (idx := match lookup pid (joinidx (nc s1)) with Some n => n | None => 0 end).
  destruct (section_render_other_blocks p p' pid idx s1 Hc Hch) as [A B].
  destruct (section_render p pid idx s1) as [s2 [post|e]] eqn:S1,
           (section_render p' pid idx s1) as [s2' [post'|e']] eqn:S2;
    simpl in A, B; subst; try discriminate; bstep S1; bstep S2; [|inversion B; split; reflexivity].
  unfold bind, get, set_joinidx, ret. simpl. split; [reflexivity|].
  unfold erase_out in *. simpl. inversion B. congruence.
Qed.


(* ---- (4) what is offered afterwards: the enabled passage-level choices written in the next section, then the
   enabled block choices that the rendering of the next section's text produced ---- *)
Lemma keep_section_cands s sec p :
  filter (keep orc ctxkeys s sec) (passage_cands p []) = filter (keep orc ctxkeys s sec) (section_cands p sec).
Proof.
  unfold passage_cands, section_cands. cbn [map]. rewrite app_nil_r.
  induction (choices p) as [|c r IH]; [reflexivity|].
  cbn [map filter]. unfold keep at 1. unfold dir_section at 1.
  destruct (Nat.eqb (ch_section c) sec) eqn:E.
  - cbn [map filter].
    change (keep orc ctxkeys s sec (c, None, false)) with (enabled orc ctxkeys s c None && Nat.eqb (ch_section c) sec).
    rewrite E. destruct (enabled orc ctxkeys s c None && true); rewrite IH; reflexivity.
  - rewrite andb_false_r. exact IH.
Qed.

(* the loop without a section test over the selected passage-level choices = the loop with the section test over
   all passage-level choices (as render_passage runs it) *)
Lemma shown_join_passage_part s sec l :
  map (shown orc ctxkeys s)
      (filter (keep orc ctxkeys s 0) (map (fun c => (c, None, true)) (filter (fun c => Nat.eqb (ch_section c) sec) l))) =
  map (shown orc ctxkeys s) (filter (keep orc ctxkeys s sec) (map (fun c => (c, None, false)) l)).
Proof.
  induction l as [|c r IH]; [reflexivity|].
  cbn [map filter]. destruct (Nat.eqb (ch_section c) sec) eqn:E; cbn [map filter].
  - change (keep orc ctxkeys s 0 (c, None, true)) with (enabled orc ctxkeys s c None && Nat.eqb 0 0).
    change (keep orc ctxkeys s sec (c, None, false)) with (enabled orc ctxkeys s c None && Nat.eqb (ch_section c) sec).
    rewrite E. cbn [Nat.eqb]. destruct (enabled orc ctxkeys s c None); cbn [andb map shown]; rewrite IH; reflexivity.
  - change (keep orc ctxkeys s sec (c, None, false)) with (enabled orc ctxkeys s c None && Nat.eqb (ch_section c) sec).
    rewrite E, andb_false_r. exact IH.
Qed.

Lemma shown_join_cands s p sec cds :
  map (shown orc ctxkeys s) (filter (keep orc ctxkeys s 0) (join_cands p sec cds)) =
  map (shown orc ctxkeys s) (filter (keep orc ctxkeys s sec) (passage_cands p [])) ++
  map (shown orc ctxkeys s) (filter (keep orc ctxkeys s 0) (block_cands cds)).
Proof.
  unfold join_cands, passage_cands. cbn [map]. rewrite app_nil_r, filter_app, map_app, shown_join_passage_part.
  reflexivity.
Qed.

(* a block candidate passes the loop exactly when it is enabled *)
Lemma keep_block_cand s c t : keep orc ctxkeys s 0 (c, t, true) = enabled orc ctxkeys s c t.
Proof. unfold keep, dir_section. cbn [Nat.eqb]. apply andb_true_r. Qed.

Lemma join_choice_offers c s s' o :
  execute_join_choice orc ctxkeys st c s = (s', Ok o) ->
  exists p btxt jb bds s1 toks ptxt j pds s2 s3,
    get_passage st (cur_pid s) = Some p /\
    render_content orc ctxkeys (ch_block (rc_choice c)) s = (s1, Ok (btxt, jb, bds)) /\
    join_tokens p (cur_section s) = Ok toks /\
    render_content orc ctxkeys toks s1 = (s2, Ok (ptxt, j, pds)) /\
    filter_choices orc ctxkeys (join_cands p (S (cur_section s)) (dir_choices pds)) 0 s2
      = (s3, Ok (o_choices o)) /\
    lookup (cur_pid s) (joinidx (nc s')) = Some (S (cur_section s)) /\
    Forall (fun rc => (In (rc_choice rc) (choices p) /\ ch_section (rc_choice rc) = S (cur_section s)) \/
                      (exists t, In (DChoice (rc_choice rc) t) pds)) (o_choices o) /\
    (Forall pure_choice (choices p) -> Forall (fun ct => pure_choice (fst ct)) (dir_choices pds) ->
     s3 = s2 /\
     o_choices o = map (shown orc ctxkeys s2)
                       (filter (keep orc ctxkeys s2 (S (cur_section s))) (passage_cands p [])) ++
                   map (shown orc ctxkeys s2)
                       (filter (keep orc ctxkeys s2 0) (block_cands (dir_choices pds)))).
Proof.
  intros H. pose proof (execute_join_choice_advances orc ctxkeys st _ _ _ _ H) as (Hj & _). cbv zeta in Hj.
  apply join_choice_anatomy in H.
  destruct H as (p & btxt & jb & bds & s1 & toks & ptxt & j & pds & s2 & chs & s3 & h & s4 &
                 Hp & Hb & Ht & Hm & Hf & H). cbv zeta in H. destruct H as (Hh & Ho & Hs & Hout).
  assert (Hc : o_choices o = chs).
  { rewrite Ho. destruct (with_hook_output_fields (join_result (cur_pid s) btxt ptxt bds pds chs j) h) as (F1 & _).
    rewrite F1. reflexivity. }
  rewrite Hc. exists p, btxt, jb, bds, s1, toks, ptxt, j, pds, s2, s3.
  split; [exact Hp|]. split; [exact Hb|]. split; [exact Ht|]. split; [exact Hm|]. split; [exact Hf|].
  split; [exact Hj|].
  pose proof (filter_choices_section orc ctxkeys _ _ _ _ _ Hf) as Hsec.
  split.
  - eapply Forall_impl; [|exact Hsec]. intros rc (dt & fd & Hin & Hd).
    apply join_cands_in in Hin. destruct Hin as [(c0 & E & Hin & Hs0)|(c0 & t & E & Hin)]; inversion E; subst.
    + left. auto.
    + right. exists t. apply dir_choices_in. exact Hin.
  - intros Pc Pb. pose proof (join_cands_pure p (S (cur_section s)) _ Pc Pb) as Pp.
    rewrite (filter_choices_spec orc ctxkeys _ _ s2 Pp) in Hf. inversion Hf; subst.
    split; [reflexivity|]. apply shown_join_cands.
Qed.

(* the special case without block choices in the section text: exactly the passage-level choices of the next
   section, by the same formula as for the first section (C02 offered_exactly_enabled with no block choices) *)
Lemma join_choice_offers_no_block_choices c s s' o :
  execute_join_choice orc ctxkeys st c s = (s', Ok o) ->
  exists p s1 toks ptxt j pds s2,
    get_passage st (cur_pid s) = Some p /\
    join_tokens p (cur_section s) = Ok toks /\
    render_content orc ctxkeys toks s1 = (s2, Ok (ptxt, j, pds)) /\
    (dir_choices pds = [] ->
     Forall (fun rc => In (rc_choice rc) (choices p) /\ ch_section (rc_choice rc) = S (cur_section s)) (o_choices o) /\
     (Forall pure_choice (choices p) ->
      o_choices o = map (shown orc ctxkeys s2)
                        (filter (keep orc ctxkeys s2 (S (cur_section s))) (passage_cands p [])))).
Proof.
  intros H. apply join_choice_offers in H.
  destruct H as (p & btxt & jb & bds & s1 & toks & ptxt & j & pds & s2 & s3 & Hp & Hb & Ht & Hm & Hf & Hj & Hin & Hpure).
  exists p, s1, toks, ptxt, j, pds, s2. split; [exact Hp|]. split; [exact Ht|]. split; [exact Hm|].
  intros Hn. split.
  - eapply Forall_impl; [|exact Hin]. intros rc [A|(t & B)]; [exact A|].
    apply dir_choices_in in B. rewrite Hn in B. destruct B.
  - intros Pc. rewrite Hn in Hpure. destruct (Hpure Pc (Forall_nil _)) as [_ E]. rewrite E. cbn. apply app_nil_r.
Qed.

End WithOracle.

(* ---------------------------------------------------------------------------------------- *)
(* the engine operation: choose() on a '-> @join' choice *)
Section Engine.
Variable orc : pyorc.
Variable ctxkeys : list string.
Variable st : story.

Definition nstate_of (e : estate) : nstate := mkNS (ec e) (escopes e) (elog e).

(* choose(i) on a join choice = one restore point, redo cleared, the one-time mark, then execute_join_choice *)
Lemma choose_join_choice e i ch :
  valid_index e i -> nth_error (o_choices (current_out e)) (Z.to_nat i) = Some ch ->
  ch_target (rc_choice ch) = "@join"%string ->
  let s0 := nstate_of e in
  let s1 := if ch_sticky (rc_choice ch) then s0
            else fst (set_used (add_used (choice_id (o_pid (current_out e)) (rc_text ch) "@join") (used (nc s0))) s0) in
  let r := execute_join_choice orc ctxkeys st ch s1 in
  choose orc ctxkeys st e i =
    (mkES (nc (fst r)) (push50 (ec e) (undo_stack e)) [] (scopes (fst r)) (log (fst r)), snd r).
Proof.
  intros Hv Hn Ht. destruct (choose_valid orc ctxkeys st e i Hv) as (ch' & Hn' & ->).
  rewrite Hn in Hn'. inversion Hn'; subst ch'. clear Hn'.
  unfold run_nav, choose_nav. cbn [ec escopes elog undo_stack redo_stack]. rewrite Ht.
  cbv zeta. unfold nstate_of.
  destruct (ch_sticky (rc_choice ch)).
  - rewrite (bind_ok (ret tt) _ _ _ tt eq_refl). cbn [String.eqb Ascii.eqb Bool.eqb].
    destruct (execute_join_choice orc ctxkeys st ch _) as [s' r]. reflexivity.
  - unfold bind at 1. cbn [String.eqb Ascii.eqb Bool.eqb]. unfold set_used.
    cbn [fst nc scopes log].
    destruct (execute_join_choice orc ctxkeys st ch _) as [s' r]. reflexivity.
Qed.


(* one restore point, redo cleared, the one-time mark, undo brings everything back (progress included); when the
   turn succeeds the player has not moved, the section counter went up by one and current() is the result *)
Lemma choose_join_engine e i ch :
  valid_index e i -> nth_error (o_choices (current_out e)) (Z.to_nat i) = Some ch ->
  ch_target (rc_choice ch) = "@join"%string ->
  let e' := fst (choose orc ctxkeys st e i) in
  let pid := match cur (ec e) with Some p => p | None => ""%string end in
  let idx := match lookup pid (joinidx (ec e)) with Some n => n | None => 0 end in
  undo_stack e' = push50 (ec e) (undo_stack e) /\ redo_stack e' = [] /\ escopes e' = escopes e /\
  used (ec e') = (if ch_sticky (rc_choice ch) then used (ec e)
                  else add_used (choice_id (o_pid (current_out e)) (rc_text ch) "@join") (used (ec e))) /\
  ec (fst (undo e')) = ec e /\
  (forall o, snd (choose orc ctxkeys st e i) = Ok o ->
     cur (ec e') = cur (ec e) /\ lookup pid (joinidx (ec e')) = Some (S idx) /\ out (ec e') = Some o).
Proof.
  intros Hv Hn Ht. cbv zeta.
  destruct (undo_choose_lemma orc ctxkeys st e i Hv) as (_ & Hu & _). cbv zeta in Hu.
  split; [|split; [|split; [|split; [|split; [exact Hu|]]]]].
  - apply (choose_stacks orc ctxkeys st e i Hv).
  - apply (choose_stacks orc ctxkeys st e i Hv).
  - apply choose_scopes.
  - rewrite (choose_join_choice e i ch Hv Hn Ht). cbv zeta. cbn [fst ec].
    destruct (execute_join_choice orc ctxkeys st ch _) as [s' r] eqn:E. cbn [fst].
    apply NFrameM_execute_join_choice in E. destruct E as [_ U _ _]. rewrite U.
    destruct (ch_sticky (rc_choice ch)); reflexivity.
  - intros o Ho. rewrite (choose_join_choice e i ch Hv Hn Ht) in Ho |- *. cbv zeta in Ho |- *. cbn [fst snd ec] in Ho |- *.
    destruct (execute_join_choice orc ctxkeys st ch _) as [s' r] eqn:E. cbn [fst snd] in Ho |- *. subst r.
    pose proof (execute_join_choice_advances orc ctxkeys st _ _ _ _ E) as (Hj & Hc & _). cbv zeta in Hj.
    assert (Hout : out (nc s') = Some o).
    { apply join_choice_anatomy in E.
      destruct E as (? & ? & ? & ? & ? & ? & ? & ? & ? & ? & ? & ? & ? & ? & _ & _ & _ & _ & _ & E). cbv zeta in E.
      destruct E as (_ & _ & _ & E). exact E. }
    destruct (ch_sticky (rc_choice ch)); cbn [nc cur joinidx fst set_used nstate_of] in Hj, Hc; auto.
Qed.

End Engine.
