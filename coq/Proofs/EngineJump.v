(* Lemmas for C08 (jumps, chains, termination) and C03 (commands once per entry, current = last result). *)
From Coq Require Import String Ascii List Bool ZArith Arith Lia.
From Bardic Require Import PyStr Value Compiled Engine EngineBase EngineNav EngineParams EngineSem.
Import ListNotations.
Local Open Scope list_scope.

Definition is_marker (t : token) : bool := match t with TJoinMarker _ => true | _ => false end.

(* ---- the sequencer and jumps ---- *)
Lemma seqr_cons f t r s :
  seqr f (t :: r) s =
  match f t s with
  | (s1, Ok (txt, CNext, ds)) =>
      match seqr f r s1 with
      | (s2, Ok (txt2, j, ds2)) => (s2, Ok ((txt ++ txt2)%string, j, ds ++ ds2))
      | (s2, Exc e) => (s2, Exc e)
      end
  | (s1, Ok (txt, CJump spec, ds)) => (s1, Ok (txt, Some spec, ds))
  | (s1, Ok (txt, CBreak, ds)) => (s1, Ok (txt, None, ds))
  | (s1, Exc e) => (s1, Exc e)
  end.
Proof.
  simpl. unfold bind. destruct (f t s) as [s1 [[[txt c] ds]|e]]; [|reflexivity].
  destruct c; try reflexivity.
  destruct (seqr f r s1) as [s2 [[[txt2 j] ds2]|e]]; reflexivity.
Qed.

(* everything after a jump is skipped: the result does not depend on what follows the jump *)
Lemma seqr_jump_cuts f target args post post' :
  (forall s, f (TJump target args) s = (s, Ok (""%string, CJump (jump_spec target args), []))) ->
  forall pre s, seqr f (pre ++ TJump target args :: post) s = seqr f (pre ++ TJump target args :: post') s.
Proof.
  intros Hf. induction pre as [|x r IH]; intros s.
  - simpl app. rewrite !seqr_cons, Hf. reflexivity.
  - simpl app. rewrite !seqr_cons. destruct (f x s) as [s1 [[[txt c] ds]|e]]; [|reflexivity].
    destruct c; try reflexivity. rewrite IH. reflexivity.
Qed.

(* text and directives before the jump are kept, and the jump's spec is what is returned *)
Lemma seqr_jump_keeps_prefix f target args post :
  (forall s, f (TJump target args) s = (s, Ok (""%string, CJump (jump_spec target args), []))) ->
  (forall t s s' txt ds, f t s = (s', Ok (txt, CBreak, ds)) -> is_marker t = true) ->
  forall pre s s1 txt ds,
    forallb (fun t => negb (is_marker t)) pre = true ->
    seqr f pre s = (s1, Ok (txt, None, ds)) ->
    seqr f (pre ++ TJump target args :: post) s = (s1, Ok (txt, Some (jump_spec target args), ds)).
Proof.
  intros Hf Hb. induction pre as [|x r IH]; intros s s1 txt ds Hm H.
  - simpl in H. inversion H; subst. simpl app. rewrite seqr_cons, Hf. reflexivity.
  - simpl in Hm. apply andb_true_iff in Hm. destruct Hm as [Hx Hr].
    simpl app. rewrite seqr_cons in *. destruct (f x s) as [sa [[[t1 c] d1]|e]] eqn:Ef; [|discriminate].
    destruct c.
    + destruct (seqr f r sa) as [sb [[[t2 j] d2]|e]] eqn:Er; [|discriminate].
      inversion H; subst. rewrite (IH _ _ _ _ Hr Er). reflexivity.
    + discriminate.
    + apply Hb in Ef. rewrite Ef in Hx. discriminate.
Qed.

Section WithOracle.
Variable orc : pyorc.
Variable ctxkeys : list string.
Variable st : story.

Lemma render_tok_jump target args s :
  render_tok orc ctxkeys (TJump target args) s = (s, Ok (""%string, CJump (jump_spec target args), [])).
Proof. reflexivity. Qed.

Lemma render_branches_no_break f ctx brs : forall s s' txt c ds,
  render_branches orc f ctx brs s = (s', Ok (txt, c, ds)) -> c <> CBreak.
Proof.
  induction brs as [|[cond cont chs] r IH]; intros s s' txt c ds H; simpl in H.
  - unfold ret in H. inversion H. discriminate.
  - destruct (o_eval orc ctx cond) as [v|e]; [|eapply IH; eauto].
    destruct (truthy v); [|eapply IH; eauto].
    apply bind_inv_ok in H. destruct H as ([[t j] d] & s1 & _ & H). unfold ret in H. inversion H.
    destruct j; discriminate.
Qed.

Lemma render_loop_items_no_break f vs cont chs items : forall s s' txt c ds,
  render_loop_items f vs cont chs items s = (s', Ok (txt, c, ds)) -> c <> CBreak.
Proof.
  induction items as [|it rest IH]; intros s s' txt c ds H; simpl in H.
  - unfold ret in H. inversion H. discriminate.
  - apply bind_inv_ok in H. destruct H as (s0 & sa & _ & H).
    destruct (loop_bind vs it (vars (nc s0))) as [v1 orig].
    apply bind_inv_ok in H. destruct H as ([] & sb & _ & H).
    apply bind_inv_ok in H. destruct H as ([[t j] d] & sc & _ & H).
    apply bind_inv_ok in H. destruct H as (chds & sd & _ & H).
    apply bind_inv_ok in H. destruct H as (s1 & se & _ & H).
    apply bind_inv_ok in H. destruct H as ([] & sf & _ & H).
    destruct j.
    + unfold ret in H. inversion H. discriminate.
    + apply bind_inv_ok in H. destruct H as ([[t2 c2] d2] & sg & H1 & H). unfold ret in H. inversion H; subst.
      eapply IH; eauto.
Qed.

Lemma catch_inv_ok {A} (m : M A) h s s' a :
  catch m h s = (s', Ok a) ->
  m s = (s', Ok a) \/ exists e s1, m s = (s1, Exc e) /\ h e s1 = (s', Ok a).
Proof.
  unfold catch. destruct (m s) as [s1 [x|e]] eqn:E; intros H.
  - left. exact H.
  - right. eauto.
Qed.

(* only a @join marker stops a token list without a jump *)
Ltac inv_ret H := unfold ret, raise in H; cbv beta in H; inversion H.

Lemma render_tok_break t s s' txt ds :
  render_tok orc ctxkeys t s = (s', Ok (txt, CBreak, ds)) -> is_marker t = true.
Proof.
  destruct t; try reflexivity; intros H; exfalso.
  - inv_ret H.
  - cbn [render_tok] in H. apply bind_inv_ok in H. destruct H as (ctx & s1 & _ & H). inv_ret H.
  - cbn [render_tok] in H. apply bind_inv_ok in H. destruct H as (ctx & s1 & _ & H).
    destruct (o_eval orc ctx cond) as [b|e]; [|inv_ret H].
    apply catch_inv_ok in H. destruct H as [H|(e & s2 & _ & H)]; [|inv_ret H].
    apply bind_inv_ok in H. destruct H as ([[? ?] ?] & s2 & _ & H). inv_ret H.
  - cbn [render_tok] in H. apply bind_inv_ok in H. destruct H as (ctx & s1 & _ & H).
    eapply render_branches_no_break; eauto.
  - cbn [render_tok] in H. destruct (String.eqb var "" || String.eqb coll ""); [inv_ret H|].
    apply bind_inv_ok in H. destruct H as (ctx & s1 & _ & H).
    destruct (match o_eval orc ctx coll with Ok c0 => py_iter c0 | Exc e => Exc e end) as [items|e];
      [|inv_ret H].
    eapply render_loop_items_no_break; eauto.
  - inv_ret H.
  - cbn [render_tok] in H. apply bind_inv_ok in H. destruct H as ([] & s1 & _ & H). inv_ret H.
  - cbn [render_tok] in H. apply bind_inv_ok in H. destruct H as ([] & s1 & _ & H). inv_ret H.
  - cbn [render_tok] in H. apply bind_inv_ok in H. destruct H as ([] & s1 & _ & H). inv_ret H.
  - cbn [render_tok] in H. apply bind_inv_ok in H. destruct H as (ctx & s1 & _ & H). inv_ret H.
  - inv_ret H.
Qed.

Lemma jump_acts_where_it_stands_lemma target args pre post post' s :
  render_content orc ctxkeys (pre ++ TJump target args :: post) s =
  render_content orc ctxkeys (pre ++ TJump target args :: post') s.
Proof. unfold render_content. apply seqr_jump_cuts. intros; reflexivity. Qed.

Lemma jump_keeps_prefix_lemma target args pre post s s1 txt ds :
  forallb (fun t => negb (is_marker t)) pre = true ->
  render_content orc ctxkeys pre s = (s1, Ok (txt, None, ds)) ->
  render_content orc ctxkeys (pre ++ TJump target args :: post) s
  = (s1, Ok (txt, Some (jump_spec target args), ds)).
Proof.
  unfold render_content. apply seqr_jump_keeps_prefix.
  - intros; reflexivity.
  - intros t0 s0 s' t1 d1. apply render_tok_break.
Qed.

(* ---- the structure of one goto ---- *)
Lemma with_scope_inv_ok {A} p args (body : M A) s s' a :
  with_scope orc p args body s = (s', Ok a) ->
  exists s1 s2, enter_scope orc p args s = (s1, Ok tt) /\ body s1 = (s2, Ok a) /\
                nc s' = nc s2 /\ log s' = log s2.
Proof.
  unfold with_scope. intros H. apply bind_inv_ok in H. destruct H as ([] & s1 & H1 & H).
  unfold finally in H. destruct (body s1) as [s2 r] eqn:Eb.
  assert (r = Ok a) by (inversion H; reflexivity). subst r.
  exists s1, s2. repeat split; auto; destruct (has_scope p args); inversion H; reflexivity.
Qed.

Lemma with_scope_fwd {A} p args (body : M A) s s1 s2 r :
  enter_scope orc p args s = (s1, Ok tt) -> body s1 = (s2, r) ->
  exists s', with_scope orc p args body s = (s', r) /\ nc s' = nc s2 /\ log s' = log s2.
Proof.
  intros H1 H2. unfold with_scope. rewrite (bind_ok _ _ _ _ _ H1). unfold finally. rewrite H2.
  destruct (has_scope p args); eexists; repeat split.
Qed.

Definition enter_state (s : nstate) (pid : string) : nstate :=
  mkNS (mkCore (Some pid) (vars (nc s)) (used (nc s)) (hooks (nc s))
               (set_key pid 0 (joinidx (nc s))) (out (nc s))) (scopes s) (log s).

(* a successful goto: parse the spec, bind the arguments, enter, execute, render, follow the jump *)
Lemma goto_rec_inv f spec vis s s' o :
  goto_rec orc ctxkeys st (S f) spec vis s = (s', Ok o) ->
  exists pid args p s1 s3 s4 o1,
    parse_spec spec = Ok (pid, args) /\ get_passage st pid = Some p /\ str_in pid vis = false /\
    enter_scope orc p args s = (s1, Ok tt) /\
    execute_passage orc ctxkeys st pid (enter_state s1 pid) = (s3, Ok tt) /\
    render_passage orc ctxkeys st pid s3 = (s4, Ok o1) /\
    out (nc s') = Some o /\
    ((o_jump o1 = None /\ o = o1 /\ joinidx (nc s') = joinidx (nc s4) /\ log s' = log s4) \/
     (exists t jo s5, o_jump o1 = Some t /\
        goto_rec orc ctxkeys st f t (vis ++ [pid]) s4 = (s5, Ok jo) /\ o = chain_output o1 jo /\
        joinidx (nc s') = joinidx (nc s5) /\ log s' = log s5)).
Proof.
  intros H. cbn [goto_rec] in H.
  apply bind_inv_ok in H. destruct H as ([pid args] & s0 & H0 & H).
  unfold lift_res in H0. destruct (parse_spec spec) as [[pid' args']|epar] eqn:Hspec; [|discriminate H0].
  inversion H0; subst s0 pid' args'. clear H0.
  destruct (get_passage st pid) as [p|] eqn:Ep; [|inversion H].
  apply with_scope_inv_ok in H. destruct H as (s1 & s2 & He & Hb & Hnc & Hlog).
  destruct (str_in pid vis) eqn:Ev; [inversion Hb|].
  apply bind_inv_ok in Hb. destruct Hb as ([] & sa & Ha & Hb). inversion Ha; subst sa. clear Ha.
  apply bind_inv_ok in Hb. destruct Hb as (sg & sb & Hg & Hb). inversion Hg; subst sg sb. clear Hg.
  apply bind_inv_ok in Hb. destruct Hb as ([] & sc & Hc & Hb). inversion Hc; subst sc. clear Hc.
  apply bind_inv_ok in Hb. destruct Hb as ([] & s3 & Hx & Hb).
  apply bind_inv_ok in Hb. destruct Hb as (o1 & s4 & Hr & Hb).
  apply bind_inv_ok in Hb. destruct Hb as (o' & s5 & Hj & Hb).
  apply bind_inv_ok in Hb. destruct Hb as ([] & s6 & Hs & Hb). inversion Hb; subst. clear Hb.
  inversion Hs; subst. clear Hs.
  exists pid, args, p, s1, s3, s4, o1. simpl in *.
  repeat split; auto.
  - rewrite Hnc. reflexivity.
  - destruct (o_jump o1) as [t|] eqn:Ej.
    + right. apply bind_inv_ok in Hj. destruct Hj as (jo & s7 & Hg & Hj). inversion Hj; subst.
      exists t, jo, s5. rewrite Hnc, Hlog. simpl. repeat split; auto.
    + left. inversion Hj; subst. rewrite Hnc, Hlog. simpl. repeat split; auto.
Qed.

Lemma render_passage_pid pid s s' o : render_passage orc ctxkeys st pid s = (s', Ok o) -> o_pid o = pid.
Proof.
  unfold render_passage. destruct (get_passage st pid); [|intros H; inversion H]. intros H.
  apply bind_inv_ok in H. destruct H as ([] & s1 & _ & H).
  apply bind_inv_ok in H. destruct H as ([[txt j] ds] & s2 & _ & H).
  destruct (split_dirs ds) as [[cds ins] rds].
  apply bind_inv_ok in H. destruct H as (sg & s3 & _ & H).
  apply bind_inv_ok in H. destruct H as (chs & s4 & _ & H). inversion H. reflexivity.
Qed.

(* current() is the last navigation result *)
Lemma goto_rec_out f spec vis s s' o :
  goto_rec orc ctxkeys st f spec vis s = (s', Ok o) -> out (nc s') = Some o.
Proof.
  destruct f; [intros H; inversion H|]. intros H. apply goto_rec_inv in H.
  destruct H as (pid & args & p & s1 & s3 & s4 & o1 & _ & _ & _ & _ & _ & _ & Ho & _). exact Ho.
Qed.

(* entering restarts @join progress: the passage whose choices are shown is at its first section *)
Lemma goto_rec_join_reset f : forall spec vis s s' o,
  goto_rec orc ctxkeys st f spec vis s = (s', Ok o) -> lookup (o_pid o) (joinidx (nc s')) = Some 0.
Proof.
  induction f as [|f IH]; intros spec vis s s' o H; [inversion H|].
  apply goto_rec_inv in H.
  destruct H as (pid & args & p & s1 & s3 & s4 & o1 & _ & _ & _ & _ & Hx & Hr & _ & Hc).
  pose proof (HFrameM_execute_passage orc ctxkeys st pid _ _ _ Hx) as [_ _ _ J1 _].
  pose proof (FrameM_render_passage orc ctxkeys st pid _ _ _ Hr) as [_ _ _ J2 _ _ _].
  destruct Hc as [(_ & -> & Hj & _)|(t & jo & s5 & _ & Hg & -> & Hj & _)].
  - rewrite (render_passage_pid _ _ _ _ Hr), Hj, J2, J1. simpl. apply lookup_set_key_same.
  - rewrite Hj. simpl. eapply IH; eauto.
Qed.

(* ---- termination: the fuel is never what decides the outcome ---- *)
Lemma bind_ext {A B} (m : M A) (f g : A -> M B) :
  (forall a s, f a s = g a s) -> forall s, bind m f s = bind m g s.
Proof. intros H s. unfold bind. destruct (m s) as [s1 [a|e]]; auto. Qed.

Lemma with_scope_ext {A} p args (b1 b2 : M A) :
  (forall s, b1 s = b2 s) -> forall s, with_scope orc p args b1 s = with_scope orc p args b2 s.
Proof.
  intros H s. unfold with_scope. apply bind_ext. intros [] s1. unfold finally. rewrite H. reflexivity.
Qed.

Lemma lookup_in_keys {A} k (e : list (string * A)) v : lookup k e = Some v -> In k (keys e).
Proof.
  induction e as [|[k1 v1] r IH]; simpl; [discriminate|].
  destruct (String.eqb k k1) eqn:E; [apply String.eqb_eq in E; subst; auto|]. intros H. right. auto.
Qed.

Lemma str_in_false_nin x l : str_in x l = false -> ~ In x l.
Proof.
  induction l as [|y r IH]; simpl; [tauto|]. intros H [E|E].
  - subst. rewrite String.eqb_refl in H. discriminate.
  - apply orb_false_iff in H. destruct H as [_ H]. exact (IH H E).
Qed.

Lemma NoDup_snoc' {A} (l : list A) x : NoDup l -> ~ In x l -> NoDup (l ++ [x]).
Proof.
  induction 1 as [|y r Hy Hr IH]; simpl; intros Hx.
  - repeat constructor. simpl. tauto.
  - constructor.
    + intros Hin. apply in_app_or in Hin. destruct Hin as [Hin|[Hin|[]]]; [tauto|subst; tauto].
    + apply IH. tauto.
Qed.

Lemma goto_fuel_irrelevant : forall f1 f2 spec vis s,
  NoDup vis -> incl vis (keys (passages st)) ->
  List.length (passages st) < f1 + List.length vis ->
  List.length (passages st) < f2 + List.length vis ->
  goto_rec orc ctxkeys st f1 spec vis s = goto_rec orc ctxkeys st f2 spec vis s.
Proof.
  assert (Hlen : forall vis, NoDup vis -> incl vis (keys (passages st)) ->
                             List.length vis <= List.length (passages st)).
  { intros vis Hn Hi. pose proof (NoDup_incl_length Hn Hi) as H. unfold keys in H.
    rewrite map_length in H. exact H. }
  induction f1 as [|f1 IH]; intros f2 spec vis s Hn Hi H1 H2.
  - specialize (Hlen vis Hn Hi). lia.
  - destruct f2 as [|f2]; [specialize (Hlen vis Hn Hi); lia|].
    cbn [goto_rec]. apply bind_ext. intros [pid args] s0.
    destruct (get_passage st pid) as [p|] eqn:Ep; [|reflexivity].
    apply with_scope_ext. intros s1.
    destruct (str_in pid vis) eqn:Ev; [reflexivity|].
    apply bind_ext. intros _ s2. apply bind_ext. intros sg s3. apply bind_ext. intros _ s4.
    apply bind_ext. intros _ s5. apply bind_ext. intros o s6.
    assert (Hrec : forall t s', goto_rec orc ctxkeys st f1 t (vis ++ [pid]) s'
                              = goto_rec orc ctxkeys st f2 t (vis ++ [pid]) s').
    { intros t s'. apply IH.
      - apply NoDup_snoc'; [exact Hn|apply str_in_false_nin; exact Ev].
      - intros x Hx. apply in_app_or in Hx. destruct Hx as [Hx|[Hx|[]]]; [auto|subst].
        unfold get_passage in Ep. eapply lookup_in_keys; eauto.
      - rewrite app_length. simpl. lia.
      - rewrite app_length. simpl. lia. }
    destruct (o_jump o) as [t|]; [|reflexivity].
    unfold bind. rewrite Hrec. reflexivity.
Qed.

(* a chain that comes back to a passage it already entered is reported, not followed *)
Lemma goto_rec_revisit f spec vis s pid args p :
  parse_spec spec = Ok (pid, args) -> get_passage st pid = Some p -> str_in pid vis = true ->
  exists s' e, goto_rec orc ctxkeys st (S f) spec vis s = (s', Exc e) /\
               (e = RuntimeError \/ e = ValueError) /\ scopes s' = scopes s /\ nc s' = nc s.
Proof.
  intros Hs Hp Hv. cbn [goto_rec]. unfold bind at 1, lift_res. rewrite Hs, Hp, Hv.
  unfold with_scope, bind. destruct (enter_scope orc p args s) as [s1 [[]|e]] eqn:E.
  - apply enter_scope_spec in E. destruct E as (Enc & _ & [(pv & _ & Esc)|(e & He & _)]); [|discriminate].
    unfold finally, raise. destruct (has_scope p args); simpl.
    + eexists _, RuntimeError. repeat split; auto. simpl. rewrite Esc. reflexivity.
    + eexists _, RuntimeError. repeat split; auto.
  - pose proof E as E'. apply enter_scope_spec in E. destruct E as (Enc & _ & [(pv & He & _)|(e' & _ & Esc)]); [discriminate|].
    exists s1, e. repeat split; auto. right.
    (* enter_scope only ever raises ValueError *)
    unfold enter_scope in E'. destruct (has_scope p args); [|inversion E'].
    unfold bind, ctx_now, lift_res in E'.
    destruct (String.eqb args "").
    + destruct (bind_arguments orc _ (params p) [] 0 []); inversion E'. reflexivity.
    + unfold parse_args in E'. destruct (all_space args).
      * destruct (bind_arguments orc _ (params p) [] 0 []); inversion E'. reflexivity.
      * destruct (o_args orc _ args) as [[pos kw]|ee].
        -- destruct (bind_arguments orc _ (params p) _ 0 []); inversion E'. reflexivity.
        -- inversion E'. reflexivity.
Qed.

(* ---- C03: commands run once, in source order, when a passage is entered ---- *)
Definition cmd_event (t : token) : list event :=
  match t with
  | TPyStmt c => [EvStmt c]
  | TPyBlock c => [EvBlock c]
  | THook a e p => [EvHook a e p]
  | _ => []
  end.
Definition cmd_events (l : list token) : list event := flat_map cmd_event l.

Lemma exec_command_log t s s' :
  exec_command orc ctxkeys t s = (s', Ok tt) -> log s' = log s ++ cmd_event t.
Proof.
  destruct t; simpl; intros H; try (inversion H; subst; now rewrite app_nil_r).
  - unfold exec_statement in H. apply bind_inv_ok in H. destruct H as ([] & s1 & H1 & H).
    inversion H1; subst. apply bind_inv_ok in H. destruct H as (ctx & s2 & H2 & H). inversion H2; subst.
    destruct (o_exec orc _ code); inversion H; subst. reflexivity.
  - unfold exec_block in H. apply bind_inv_ok in H. destruct H as ([] & s1 & H1 & H).
    inversion H1; subst. apply bind_inv_ok in H. destruct H as (ctx & s2 & H2 & H). inversion H2; subst.
    destruct (o_exec orc _ code); inversion H; subst. reflexivity.
  - unfold exec_hook in H. apply bind_inv_ok in H. destruct H as ([] & s1 & H1 & H).
    inversion H1; subst. inversion H; subst. reflexivity.
Qed.

Lemma exec_commands_log l : forall s s',
  exec_commands orc ctxkeys l s = (s', Ok tt) -> log s' = log s ++ cmd_events l.
Proof.
  induction l as [|t r IH]; intros s s' H; simpl in H.
  - inversion H; subst. simpl. now rewrite app_nil_r.
  - apply bind_inv_ok in H. destruct H as ([] & s1 & H1 & H).
    rewrite (IH _ _ H), (exec_command_log _ _ _ H1). simpl. rewrite app_assoc. reflexivity.
Qed.

Lemma execute_passage_log_exact pid p s s' :
  get_passage st pid = Some p -> execute_passage orc ctxkeys st pid s = (s', Ok tt) ->
  log s' = log s ++ EvEnter pid :: cmd_events (execute p).
Proof.
  intros Hp. unfold execute_passage. rewrite Hp. intros H.
  apply bind_inv_ok in H. destruct H as ([] & s1 & H1 & H). inversion H1; subst.
  rewrite (exec_commands_log _ _ _ H). simpl. rewrite <- app_assoc. reflexivity.
Qed.

Fixpoint entered (l : list event) : list string :=
  match l with
  | [] => []
  | EvEnter p :: r => p :: entered r
  | _ :: r => entered r
  end.

Lemma entered_app a b : entered (a ++ b) = entered a ++ entered b.
Proof. induction a as [|e r IH]; simpl; [reflexivity|]. destruct e; simpl; rewrite ?IH; reflexivity. Qed.

Lemma entered_low l : Forall low_event l -> entered l = [].
Proof. induction 1 as [|e r He Hr IH]; simpl; [reflexivity|]. destruct e; simpl in *; auto; contradiction. Qed.

Lemma entered_cmd_events l : entered (cmd_events l) = [].
Proof.
  induction l as [|t r IH]; simpl; [reflexivity|]. unfold cmd_events in *. simpl.
  rewrite entered_app, IH. destruct t; reflexivity.
Qed.

(* every passage along a jump chain is entered exactly once, and the chain never re-enters a visited one *)
Lemma goto_rec_entered f : forall spec vis s s' o,
  NoDup vis -> goto_rec orc ctxkeys st f spec vis s = (s', Ok o) ->
  exists lg, log s' = log s ++ lg /\ NoDup (vis ++ entered lg) /\ entered lg <> [].
Proof.
  induction f as [|f IH]; intros spec vis s s' o Hn H; [inversion H|].
  apply goto_rec_inv in H.
  destruct H as (pid & args & p & s1 & s3 & s4 & o1 & _ & Hp & Hv & He & Hx & Hr & _ & Hc).
  apply enter_scope_spec in He. destruct He as (_ & L1 & _).
  pose proof (execute_passage_log_exact pid p _ _ Hp Hx) as L3. simpl in L3.
  destruct (FrameM_render_passage orc ctxkeys st pid _ _ _ Hr) as [_ _ _ _ _ _ (l4 & L4 & N4)].
  destruct Hc as [(_ & _ & _ & L5)|(t & jo & s5 & _ & Hg & _ & _ & L5)].
  - exists (EvEnter pid :: cmd_events (execute p) ++ l4). split.
    + rewrite L5, L4, L3, L1. rewrite <- app_assoc. reflexivity.
    + simpl. rewrite entered_app, entered_cmd_events, (entered_low _ N4). simpl. split; [|discriminate].
      apply NoDup_snoc'; [exact Hn|apply str_in_false_nin; exact Hv].
  - destruct (IH _ _ _ _ _ (NoDup_snoc' _ _ Hn (str_in_false_nin _ _ Hv)) Hg) as (lg & L6 & N6 & _).
    exists (EvEnter pid :: cmd_events (execute p) ++ l4 ++ lg). split.
    + rewrite L5, L6, L4, L3, L1. rewrite <- !app_assoc. reflexivity.
    + simpl. rewrite !entered_app, entered_cmd_events, (entered_low _ N4). simpl. split; [|discriminate].
      rewrite <- app_assoc in N6. exact N6.
Qed.

End WithOracle.
