(* Navigation-level lemmas: what goto / hooks / join choices can change (NFrame), the balanced scope
   stack, and the entry log. *)
From Coq Require Import String Ascii List Bool ZArith Arith Lia.
From Bardic Require Import PyStr Value Compiled Engine EngineBase.
Import ListNotations.
Local Open Scope list_scope.

Record NFrame (s s' : nstate) : Prop := mkNFrame {
  nf_scopes : scopes s' = scopes s;
  nf_used : used (nc s') = used (nc s);
  nf_hooks : HooksStep (hooks (nc s)) (hooks (nc s'));
  nf_log : exists l, log s' = log s ++ l }.

Lemma NFrame_refl s : NFrame s s.
Proof. constructor; auto using HooksStep. exists []. now rewrite app_nil_r. Qed.

Lemma NFrame_trans a b c : NFrame a b -> NFrame b c -> NFrame a c.
Proof.
  intros [A1 A2 A3 [l1 A4]] [B1 B2 B3 [l2 B4]]. constructor; try congruence.
  - eapply HooksStep_trans; eauto.
  - exists (l1 ++ l2). rewrite B4, A4, app_assoc. reflexivity.
Qed.

Lemma Frame_NFrame s s' : Frame s s' -> NFrame s s'.
Proof. intros [A1 A2 A3 A4 A5 A6 [l [A7 _]]]. constructor; eauto. Qed.

Definition NFrameM {A} (m : M A) : Prop := forall s s' r, m s = (s', r) -> NFrame s s'.

Lemma FrameM_NFrameM {A} (m : M A) : FrameM m -> NFrameM m.
Proof. intros H s s' r E. apply Frame_NFrame. eapply H; eauto. Qed.

Lemma NFrameM_ret {A} (a : A) : NFrameM (ret a).
Proof. intros s s' r H. inversion H; subst. apply NFrame_refl. Qed.
Lemma NFrameM_raise {A} e : NFrameM (@raise A e).
Proof. intros s s' r H. inversion H; subst. apply NFrame_refl. Qed.
Lemma NFrameM_get : NFrameM get.
Proof. intros s s' r H. inversion H; subst. apply NFrame_refl. Qed.
Lemma NFrameM_lift {A} (x : res A) : NFrameM (lift_res x).
Proof. intros s s' r H. inversion H; subst. apply NFrame_refl. Qed.

Lemma NFrameM_bind {A B} (m : M A) (f : A -> M B) :
  NFrameM m -> (forall a, NFrameM (f a)) -> NFrameM (bind m f).
Proof.
  intros Hm Hf s s' r H. unfold bind in H. destruct (m s) as [s1 [a|e]] eqn:E.
  - eapply NFrame_trans; [eapply Hm; eauto | eapply Hf; eauto].
  - inversion H; subst. eapply Hm; eauto.
Qed.

Lemma NFrameM_emit e : NFrameM (emit e).
Proof. intros s s' r H. inversion H; subst. constructor; simpl; auto using HooksStep. eauto. Qed.

Ltac nf_simple :=
  let s := fresh "s" in let s' := fresh "s'" in let r := fresh "r" in let H := fresh "H" in
  intros s s' r H; inversion H; subst; constructor; simpl; auto using HooksStep;
  exists []; now rewrite app_nil_r.

Lemma NFrameM_set_cur p : NFrameM (set_cur p).      Proof. nf_simple. Qed.
Lemma NFrameM_set_joinidx j : NFrameM (set_joinidx j). Proof. nf_simple. Qed.
Lemma NFrameM_set_out o : NFrameM (set_out o).      Proof. nf_simple. Qed.
Lemma NFrameM_ctx_now : NFrameM ctx_now.            Proof. nf_simple. Qed.

Section WithOracle.
Variable orc : pyorc.
Variable ctxkeys : list string.
Variable st : story.

Lemma NFrameM_execute_passage pid : NFrameM (execute_passage orc ctxkeys st pid).
Proof.
  unfold execute_passage. destruct (get_passage st pid); [|apply NFrameM_raise].
  apply NFrameM_bind; [apply NFrameM_emit|]. intros _.
  apply FrameM_NFrameM, FrameM_exec_commands.
Qed.

Lemma NFrameM_render_passage pid : NFrameM (render_passage orc ctxkeys st pid).
Proof. apply FrameM_NFrameM, FrameM_render_passage. Qed.

(* ---- scopes: enter_scope pushes at most one scope, with_scope restores the stack ---- *)
Lemma enter_scope_spec p args s s1 r :
  enter_scope orc p args s = (s1, r) ->
  nc s1 = nc s /\ log s1 = log s /\
  ((exists pv, r = Ok tt /\ scopes s1 = (if has_scope p args then pv :: scopes s else scopes s))
   \/ (exists e, r = Exc e /\ scopes s1 = scopes s)).
Proof.
  unfold enter_scope. destruct (has_scope p args).
  - unfold bind, ctx_now, lift_res.
    destruct (if String.eqb args "" then Ok [] else parse_args orc (eval_context (vars (nc s)) (scopes s)) args)
      as [ad|e].
    + destruct (bind_arguments orc _ (params p) ad 0 []) as [pv|e]; intros H; inversion H; subst; simpl.
      * repeat split. left. exists pv. auto.
      * repeat split. right. eauto.
    + intros H; inversion H; subst. repeat split. right. eauto.
  - intros H; inversion H; subst. repeat split. left. exists []. auto.
Qed.

Lemma NFrameM_with_scope {A} p args (body : M A) :
  NFrameM body -> NFrameM (with_scope orc p args body).
Proof.
  intros Hb s s' r H. unfold with_scope, bind in H.
  destruct (enter_scope orc p args s) as [s1 [[]|e]] eqn:E.
  - apply enter_scope_spec in E. destruct E as (Enc & Elog & [(pv & _ & Esc)|(e & Hr & _)]); [|discriminate].
    unfold finally in H. destruct (body s1) as [s2 r2] eqn:Eb.
    specialize (Hb _ _ _ Eb). destruct Hb as [B1 B2 B3 [l B4]].
    assert (Hs' : nc s' = nc s2 /\ log s' = log s2 /\ scopes s' = scopes s).
    { destruct (has_scope p args); inversion H; subst; simpl; repeat split.
      - rewrite B1, Esc. reflexivity.
      - rewrite B1, Esc. reflexivity. }
    destruct Hs' as (N1 & N2 & N3).
    constructor.
    + exact N3.
    + rewrite N1, B2, Enc. reflexivity.
    + rewrite N1, <- Enc. exact B3.
    + exists l. rewrite N2, B4, Elog. reflexivity.
  - inversion H; subst. apply enter_scope_spec in E.
    destruct E as (Enc & Elog & [(pv & Hr & _)|(e' & _ & Esc)]); [discriminate|].
    constructor.
    + exact Esc.
    + rewrite Enc. reflexivity.
    + rewrite Enc. apply HS_refl.
    + exists []. rewrite Elog. now rewrite app_nil_r.
Qed.

Lemma NFrameM_goto_rec fuel : forall spec visited, NFrameM (goto_rec orc ctxkeys st fuel spec visited).
Proof.
  induction fuel as [|f IH]; intros spec visited; simpl; [apply NFrameM_raise|].
  apply NFrameM_bind; [apply NFrameM_lift|]. intros [pid args].
  destruct (get_passage st pid) as [p|]; [|apply NFrameM_raise].
  apply NFrameM_with_scope.
  destruct (str_in pid visited); [apply NFrameM_raise|].
  apply NFrameM_bind; [apply NFrameM_set_cur|]. intros _.
  apply NFrameM_bind; [apply NFrameM_get|]. intros s0.
  apply NFrameM_bind; [apply NFrameM_set_joinidx|]. intros _.
  apply NFrameM_bind; [apply NFrameM_execute_passage|]. intros _.
  apply NFrameM_bind; [apply NFrameM_render_passage|]. intros o.
  apply NFrameM_bind.
  - destruct (o_jump o) as [t|]; [|apply NFrameM_ret].
    apply NFrameM_bind; [apply IH|]. intros jo. apply NFrameM_ret.
  - intros o'. apply NFrameM_bind; [apply NFrameM_set_out|]. intros _. apply NFrameM_ret.
Qed.

Lemma NFrameM_goto spec : NFrameM (goto orc ctxkeys st spec).
Proof. apply NFrameM_goto_rec. Qed.

Lemma NFrameM_run_hooks l : NFrameM (run_hooks orc ctxkeys st l).
Proof.
  induction l as [|p r IH]; simpl; [apply NFrameM_ret|].
  destruct (get_passage st p); [|exact IH].
  apply NFrameM_bind; [apply NFrameM_emit|]. intros _.
  apply NFrameM_bind; [apply NFrameM_execute_passage|]. intros _.
  apply NFrameM_bind; [apply NFrameM_render_passage|]. intros o.
  apply NFrameM_bind; [exact IH|]. intros rest. apply NFrameM_ret.
Qed.

Lemma NFrameM_trigger_event ev : NFrameM (trigger_event orc ctxkeys st ev).
Proof.
  unfold trigger_event. apply NFrameM_bind; [apply NFrameM_get|]. intros s.
  destruct (lookup ev (hooks (nc s))); [|apply NFrameM_ret].
  apply NFrameM_bind; [apply NFrameM_run_hooks|]. intros; apply NFrameM_ret.
Qed.

Lemma NFrameM_after_hooks o : NFrameM (after_hooks orc ctxkeys st o).
Proof.
  unfold after_hooks. apply NFrameM_bind; [apply NFrameM_trigger_event|]. intros h.
  destruct (String.eqb h ""); [apply NFrameM_ret|].
  apply NFrameM_bind; [apply NFrameM_set_out|]. intros; apply NFrameM_ret.
Qed.

Lemma NFrameM_render_from_join_marker pid idx : NFrameM (render_from_join_marker orc ctxkeys st pid idx).
Proof.
  unfold render_from_join_marker. destruct (get_passage st pid) as [p|]; [|apply NFrameM_raise].
  apply NFrameM_bind.
  - destruct (after_nth_marker (content p) idx); [apply NFrameM_ret|].
    destruct idx; [apply NFrameM_ret|apply NFrameM_raise].
  - intros toks. apply NFrameM_bind; [apply FrameM_NFrameM, FrameM_render_content|].
    intros [[txt j] ds]. destruct (split_dirs ds) as [[? ?] ?].
    apply NFrameM_bind; [apply FrameM_NFrameM, FrameM_filter_choices|]. intros; apply NFrameM_ret.
Qed.

Lemma NFrameM_execute_join_choice c : NFrameM (execute_join_choice orc ctxkeys st c).
Proof.
  unfold execute_join_choice. apply NFrameM_bind; [apply NFrameM_get|]. intros s.
  apply NFrameM_bind.
  - destruct (ch_block (rc_choice c)); [apply NFrameM_ret|].
    apply NFrameM_bind; [apply FrameM_NFrameM, FrameM_render_content|]. intros [[? ?] ?]. apply NFrameM_ret.
  - intros [btxt bds]. apply NFrameM_bind; [apply NFrameM_get|]. intros s1.
    apply NFrameM_bind; [apply NFrameM_render_from_join_marker|]. intros post.
    apply NFrameM_bind; [apply NFrameM_get|]. intros s2.
    apply NFrameM_bind; [apply NFrameM_set_joinidx|]. intros _.
    apply NFrameM_bind; [apply NFrameM_set_out|]. intros _.
    apply NFrameM_after_hooks.
Qed.

(* choose_nav changes `used` (marks the one-time choice), so it only keeps scopes, hooks-step and the log *)
Record CFrame (s s' : nstate) : Prop := mkCFrame {
  cf_scopes : scopes s' = scopes s;
  cf_hooks : HooksStep (hooks (nc s)) (hooks (nc s'));
  cf_log : exists l, log s' = log s ++ l }.

Lemma NFrame_CFrame s s' : NFrame s s' -> CFrame s s'.
Proof. intros [A B C D]. constructor; auto. Qed.

Lemma choose_nav_cframe ch o s s' r :
  choose_nav orc ctxkeys st ch o s = (s', r) -> CFrame s s'.
Proof.
  unfold choose_nav, bind. intros H.
  set (mark := if ch_sticky (rc_choice ch) then ret tt
               else fun s0 => set_used (add_used (choice_id (o_pid o) (rc_text ch) (ch_target (rc_choice ch)))
                                                  (used (nc s0))) s0) in *.
  assert (Hm : exists s1, mark s = (s1, Ok tt) /\ scopes s1 = scopes s /\ hooks (nc s1) = hooks (nc s)
                          /\ log s1 = log s).
  { unfold mark. destruct (ch_sticky (rc_choice ch)); eexists; split; try reflexivity; simpl; auto. }
  destruct Hm as (s1 & Em & Es & Eh & El). rewrite Em in H.
  assert (Hn : NFrame s1 s').
  { destruct (String.eqb (ch_target (rc_choice ch)) "@join").
    - eapply NFrameM_execute_join_choice; eauto.
    - destruct (goto orc ctxkeys st _ s1) as [s2 [r2|e]] eqn:Eg.
      + eapply NFrame_trans; [eapply NFrameM_goto; eauto|eapply NFrameM_after_hooks; eauto].
      + inversion H; subst. eapply NFrameM_goto; eauto. }
  destruct Hn as [A B C [l D]]. constructor.
  - congruence.
  - rewrite <- Eh. exact C.
  - exists l. rewrite D, El. reflexivity.
Qed.

(* ---- the scope stack is balanced over every engine operation, also when it raises ---- *)
Lemma choose_scopes e i : escopes (fst (choose orc ctxkeys st e i)) = escopes e.
Proof.
  unfold choose.
  destruct ((i <? 0)%Z || (Z.of_nat (List.length (o_choices (current_out e))) <=? i)%Z); [reflexivity|].
  destruct (nth_error (o_choices (current_out e)) (Z.to_nat i)) as [ch|]; [|reflexivity].
  unfold run_nav. simpl.
  destruct (choose_nav orc ctxkeys st ch (current_out e) _) as [s' r] eqn:E.
  apply choose_nav_cframe in E. simpl. destruct E as [A _ _]. exact A.
Qed.

Lemma goto_op_scopes e spec : escopes (fst (goto_op orc ctxkeys st e spec)) = escopes e.
Proof.
  unfold goto_op, run_nav.
  destruct (goto orc ctxkeys st spec _) as [s' r] eqn:E. apply NFrameM_goto in E.
  simpl. destruct E as [A _ _ _]. exact A.
Qed.

End WithOracle.
