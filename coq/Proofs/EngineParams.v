(* Lemmas for C07: locality of parameters and the binding rule. *)
From Coq Require Import String Ascii List Bool ZArith Arith Lia.
From Bardic Require Import PyStr Value Compiled Engine.
Import ListNotations.
Local Open Scope list_scope.

Lemma lookup_set_key_same {A} k (v : A) e : lookup k (set_key k v e) = Some v.
Proof.
  induction e as [|[k' v'] r IH]; simpl.
  - now rewrite String.eqb_refl.
  - destruct (String.eqb k k') eqn:E; simpl; [now rewrite String.eqb_refl|now rewrite E].
Qed.

Lemma lookup_set_key_other {A} k k' (v : A) e : String.eqb k' k = false -> lookup k' (set_key k v e) = lookup k' e.
Proof.
  intros Hne. induction e as [|[k2 v2] r IH]; simpl.
  - now rewrite Hne.
  - destruct (String.eqb k k2) eqn:E; simpl.
    + apply String.eqb_eq in E. subst. now rewrite Hne.
    + destruct (String.eqb k' k2); auto.
Qed.

Lemma str_in_true x l : str_in x l = true -> exists y, In y l /\ String.eqb x y = true.
Proof.
  induction l as [|y r IH]; simpl; [discriminate|].
  intros H. apply orb_true_iff in H. destruct H as [H|H]; [eauto|].
  destruct (IH H) as (z & Hz & E). eauto.
Qed.

(* sync_back never writes a skipped (parameter) name *)
Lemma sync_back_skips ctxkeys ctx' v skip k :
  str_in k skip = true -> lookup k (sync_back ctxkeys ctx' v skip) = lookup k v.
Proof.
  intros Hs. unfold sync_back. revert v.
  induction ctx' as [|[k1 v1] r IH]; intros v; simpl; [reflexivity|].
  destruct (is_private k1 || str_in k1 ctxkeys || str_in k1 skip) eqn:E; [apply IH|].
  rewrite IH. apply lookup_set_key_other.
  destruct (String.eqb k k1) eqn:Ek; [|reflexivity].
  apply String.eqb_eq in Ek. subst.
  apply orb_false_iff in E. destruct E as [_ E]. congruence.
Qed.

Lemma lookup_app {A} k (a b : list (string * A)) :
  lookup k (a ++ b) = match lookup k a with Some x => Some x | None => lookup k b end.
Proof.
  induction a as [|[k1 v1] r IH]; simpl; [reflexivity|]. destruct (String.eqb k k1); auto.
Qed.

Lemma lookup_update {A} k (l : list (string * A)) : forall e,
  lookup k (update e l) = match lookup k (rev l) with Some x => Some x | None => lookup k e end.
Proof.
  unfold update. induction l as [|[k1 v1] r IH]; intros e; simpl; [reflexivity|].
  rewrite IH, lookup_app. destruct (lookup k (rev r)); [reflexivity|]. simpl.
  destruct (String.eqb k k1) eqn:E.
  - apply String.eqb_eq in E. subst. apply lookup_set_key_same.
  - apply lookup_set_key_other. exact E.
Qed.

Lemma lookup_none_keys {A} k (l : list (string * A)) : ~ In k (keys l) -> lookup k l = None.
Proof.
  induction l as [|[k1 v1] r IH]; simpl; [reflexivity|]. intros H.
  destruct (String.eqb k k1) eqn:E; [apply String.eqb_eq in E; subst; tauto|]. apply IH. tauto.
Qed.

Lemma lookup_rev_nodup {A} k (l : list (string * A)) : NoDup (keys l) -> lookup k (rev l) = lookup k l.
Proof.
  induction l as [|[k1 v1] r IH]; simpl; [reflexivity|]. intros H. inversion H as [|? ? Hn Hr]; subst.
  rewrite lookup_app, (IH Hr). simpl. destruct (String.eqb k k1) eqn:E.
  - apply String.eqb_eq in E. subst. rewrite (lookup_none_keys k1 r Hn). reflexivity.
  - destruct (lookup k r); reflexivity.
Qed.

(* parameters shadow same-named globals (and the special names) in the evaluation context *)
Lemma eval_context_local v l sc k x :
  NoDup (keys l) -> lookup k l = Some x -> lookup k (eval_context v (l :: sc)) = Some x.
Proof.
  intros Hn H. unfold eval_context. simpl. rewrite lookup_update, (lookup_rev_nodup k l Hn), H. reflexivity.
Qed.

(* ---- binding: the Python call rule ---- *)
Definition arg_key (i : nat) : string := ("arg_" ++ str_of_N (N.of_nat i))%string.

(* specification: parameter number i takes positional argument i when there is one, else the keyword
   argument of its name, else its default evaluated with the earlier parameters visible, else error *)
Fixpoint py_bind_at (orc : pyorc) (ctx0 : env) (ps : list param) (ad : list (string * value))
         (i : nat) (acc : env) : res env :=
  match ps with
  | [] => Ok acc
  | p :: r =>
      match lookup (arg_key i) ad with
      | Some v => py_bind_at orc ctx0 r ad (S i) (set_key (pname p) v acc)
      | None =>
          match lookup (pname p) ad with
          | Some v => if has_key (pname p) acc then Exc ValueError
                      else py_bind_at orc ctx0 r ad (S i) (set_key (pname p) v acc)
          | None =>
              match pdefault p with
              | Some d => match o_eval orc (update ctx0 acc) d with
                          | Ok v => py_bind_at orc ctx0 r ad (S i) (set_key (pname p) v acc)
                          | Exc e => Exc e
                          end
              | None => Exc ValueError
              end
          end
      end
  end.
Definition py_bind orc ctx0 ps ad := py_bind_at orc ctx0 ps ad 0 [].

(* the positional arguments are arg_0 .. arg_{k-1} *)
Definition positional_prefix (ad : list (string * value)) (k : nat) : Prop :=
  (forall j, j < k -> lookup (arg_key j) ad <> None) /\ (forall j, k <= j -> lookup (arg_key j) ad = None).

Lemma bind_arguments_cons orc ctx0 p r ad pi acc :
  bind_arguments orc ctx0 (p :: r) ad pi acc =
  match lookup (arg_key pi) ad with
  | Some v => bind_arguments orc ctx0 r ad (S pi) (set_key (pname p) v acc)
  | None =>
      match lookup (pname p) ad with
      | Some v => if has_key (pname p) acc then Exc ValueError
                  else bind_arguments orc ctx0 r ad pi (set_key (pname p) v acc)
      | None =>
          match pdefault p with
          | Some d => match o_eval orc (update ctx0 acc) d with
                      | Ok v => bind_arguments orc ctx0 r ad pi (set_key (pname p) v acc)
                      | Exc e => Exc e
                      end
          | None => Exc ValueError
          end
      end
  end.
Proof. reflexivity. Qed.

Lemma bind_arguments_at orc ctx0 ad k : positional_prefix ad k ->
  forall ps i acc, bind_arguments orc ctx0 ps ad (Nat.min i k) acc = py_bind_at orc ctx0 ps ad i acc.
Proof.
  intros [Hlt Hge]. induction ps as [|p r IH]; intros i acc; [reflexivity|].
  rewrite bind_arguments_cons. cbn [py_bind_at].
  destruct (Nat.lt_ge_cases i k) as [Hi|Hi].
  - rewrite Nat.min_l by lia.
    destruct (lookup (arg_key i) ad) as [v|] eqn:E; [|exfalso; eapply Hlt; eauto].
    rewrite <- IH. f_equal. lia.
  - rewrite Nat.min_r by lia. rewrite (Hge k) by lia. rewrite (Hge i) by lia.
    assert (Hk : forall acc', bind_arguments orc ctx0 r ad k acc' = py_bind_at orc ctx0 r ad (S i) acc').
    { intros acc'. rewrite <- IH. f_equal. lia. }
    destruct (lookup (pname p) ad); [destruct (has_key (pname p) acc); auto|].
    destruct (pdefault p) as [d|]; [|reflexivity]. destruct (o_eval orc (update ctx0 acc) d); auto.
Qed.

Lemma bind_arguments_spec orc ctx0 ps ad k :
  positional_prefix ad k -> bind_arguments orc ctx0 ps ad 0 [] = py_bind orc ctx0 ps ad.
Proof. intros H. unfold py_bind. rewrite <- (bind_arguments_at orc ctx0 ad k H ps 0 []). reflexivity. Qed.
