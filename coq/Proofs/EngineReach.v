(* The position of every reachable engine state is a defined passage (used by C15: the KeyError branch of
   _execute_join_choice is unreachable). *)
From Coq Require Import String Ascii List Bool ZArith Arith Lia.
From Bardic Require Import PyStr Value Compiled Engine EngineBase EngineNav EngineParams EngineSem EngineJump
     EngineUndo EngineHooks PyMini EngineCheck.
Import ListNotations.
Local Open Scope list_scope.

Section WithOracle.
Variable orc : pyorc.
Variable ctxkeys : list string.
Variable st : story.

Definition cur_ok (c : core) : Prop := exists pid p, cur c = Some pid /\ get_passage st pid = Some p.

Definition CurM {A} (m : M A) : Prop := forall s s' r, m s = (s', r) -> cur_ok (nc s) -> cur_ok (nc s').

Lemma CurM_of_cur_eq {A} (m : M A) :
  (forall s s' r, m s = (s', r) -> cur (nc s') = cur (nc s)) -> CurM m.
Proof. intros H s s' r E (pid & p & Hc & Hp). exists pid, p. rewrite (H _ _ _ E). auto. Qed.

Lemma CurM_bind {A B} (m : M A) (f : A -> M B) : CurM m -> (forall a, CurM (f a)) -> CurM (bind m f).
Proof.
  intros Hm Hf s s' r H Hc. unfold bind in H. destruct (m s) as [s1 [a|e]] eqn:E.
  - eapply Hf; eauto.
  - inversion H; subst. eapply Hm; eauto.
Qed.

Lemma CurM_frame {A} (m : M A) : FrameM m -> CurM m.
Proof. intros H. apply CurM_of_cur_eq. intros s s' r E. destruct (H _ _ _ E) as [_ C _ _ _ _ _]. exact C. Qed.
Lemma CurM_hframe {A} (m : M A) : HFrameM m -> CurM m.
Proof. intros H. apply CurM_of_cur_eq. intros s s' r E. destruct (H _ _ _ E) as [_ C _ _ _]. exact C. Qed.
Lemma CurM_ret {A} (a : A) : CurM (ret a).
Proof. apply CurM_of_cur_eq. intros s s' r H. inversion H; reflexivity. Qed.
Lemma CurM_raise {A} e : CurM (@raise A e).
Proof. apply CurM_of_cur_eq. intros s s' r H. inversion H; reflexivity. Qed.
Lemma CurM_simple {A} (m : M A) : (forall s s' r, m s = (s', r) -> cur (nc s') = cur (nc s)) -> CurM m.
Proof. apply CurM_of_cur_eq. Qed.

Lemma CurM_with_scope {A} p args (body : M A) : CurM body -> CurM (with_scope orc p args body).
Proof.
  intros Hb s s' r H Hc. unfold with_scope, bind in H.
  destruct (enter_scope orc p args s) as [s1 [[]|e]] eqn:E.
  - apply enter_scope_spec in E. destruct E as (Enc & _ & _).
    unfold finally in H. destruct (body s1) as [s2 r2] eqn:Eb.
    assert (Hn : nc s' = nc s2) by (destruct (has_scope p args); inversion H; reflexivity).
    rewrite Hn. eapply Hb; eauto. rewrite Enc. exact Hc.
  - inversion H; subst. apply enter_scope_spec in E. destruct E as (Enc & _ & _). rewrite Enc. exact Hc.
Qed.

Definition goto_tail (f : nat) (pid : string) (vis : list string) : M output :=
  do s <- get;
  do _ <- set_joinidx (set_key pid 0 (joinidx (nc s)));
  do _ <- execute_passage orc ctxkeys st pid;
  do o <- render_passage orc ctxkeys st pid;
  do o' <- match o_jump o with
           | Some target => do jo <- goto_rec orc ctxkeys st f target (vis ++ [pid]); ret (chain_output o jo)
           | None => ret o
           end;
  do _ <- set_out o'; ret o'.

Lemma goto_rec_S f spec vis :
  goto_rec orc ctxkeys st (S f) spec vis =
  (do '(pid, args) <- lift_res (parse_spec spec);
   match get_passage st pid with
   | None => raise ValueError
   | Some p => with_scope orc p args
                 (if str_in pid vis then raise RuntimeError
                  else do _ <- set_cur pid; goto_tail f pid vis)
   end).
Proof. reflexivity. Qed.

Lemma CurM_goto_tail f pid vis :
  (forall spec vis', CurM (goto_rec orc ctxkeys st f spec vis')) -> CurM (goto_tail f pid vis).
Proof.
  intros IH. unfold goto_tail.
  apply CurM_bind; [apply CurM_simple; intros s s' r H; inversion H; reflexivity|]. intros sg.
  apply CurM_bind; [apply CurM_simple; intros s s' r H; inversion H; reflexivity|]. intros _.
  apply CurM_bind; [apply CurM_hframe, HFrameM_execute_passage|]. intros _.
  apply CurM_bind; [apply CurM_frame, FrameM_render_passage|]. intros o.
  apply CurM_bind.
  - destruct (o_jump o); [|apply CurM_ret]. apply CurM_bind; [apply IH|]. intros; apply CurM_ret.
  - intros o'. apply CurM_bind; [apply CurM_simple; intros s s' r H; inversion H; reflexivity|].
    intros; apply CurM_ret.
Qed.

Lemma CurM_goto_rec f : forall spec vis, CurM (goto_rec orc ctxkeys st f spec vis).
Proof.
  induction f as [|f IH]; intros spec vis; [apply CurM_raise|]. rewrite goto_rec_S.
  apply CurM_bind; [apply CurM_simple; intros s s' r H; inversion H; reflexivity|]. intros [pid args].
  destruct (get_passage st pid) as [p|] eqn:Ep; [|apply CurM_raise].
  apply CurM_with_scope.
  destruct (str_in pid vis); [apply CurM_raise|].
  intros s s' r H _. unfold bind at 1 in H. unfold set_cur at 1 in H. cbv beta iota in H.
  eapply (CurM_goto_tail f pid vis IH); [exact H|]. exists pid, p. simpl. auto.
Qed.

(* a successful navigation ends at a defined passage, wherever it started *)
Lemma goto_rec_cur_ok f : forall spec vis s s' o,
  goto_rec orc ctxkeys st f spec vis s = (s', Ok o) -> cur_ok (nc s').
Proof.
  destruct f; intros spec vis s s' o H; [inversion H|].
  rewrite goto_rec_S in H.
  apply bind_inv_ok in H. destruct H as ([pid args] & s0 & _ & H).
  destruct (get_passage st pid) as [p|] eqn:Ep; [|inversion H].
  apply with_scope_inv_ok in H. destruct H as (s1 & s2 & _ & Hb & Hnc & _).
  destruct (str_in pid vis); [inversion Hb|].
  unfold bind at 1 in Hb. unfold set_cur at 1 in Hb. cbv beta iota in Hb.
  rewrite Hnc. eapply (CurM_goto_tail f pid vis (CurM_goto_rec f)); [exact Hb|]. exists pid, p. simpl. auto.
Qed.

Lemma CurM_after_hooks o : CurM (after_hooks orc ctxkeys st o).
Proof. apply CurM_hframe, HFrameM_after_hooks. Qed.

Lemma choose_nav_cur ch o s s' r :
  choose_nav orc ctxkeys st ch o s = (s', r) -> cur_ok (nc s) -> cur_ok (nc s').
Proof.
  unfold choose_nav. apply CurM_bind.
  - destruct (ch_sticky (rc_choice ch)); [apply CurM_ret|].
    apply CurM_simple. intros x x' r0 E. inversion E; reflexivity.
  - intros _. destruct (String.eqb (ch_target (rc_choice ch)) "@join").
    + (* join choice: rendering and hooks keep the position *)
      unfold execute_join_choice.
      apply CurM_bind; [apply CurM_simple; intros x x' r0 E; inversion E; reflexivity|]. intros sg.
      apply CurM_bind.
      * destruct (ch_block (rc_choice ch)); [apply CurM_ret|].
        apply CurM_bind; [apply CurM_frame, FrameM_render_content|]. intros [[? ?] ?]. apply CurM_ret.
      * intros [btxt bds].
        apply CurM_bind; [apply CurM_simple; intros x x' r0 E; inversion E; reflexivity|]. intros s1.
        apply CurM_bind.
        { unfold render_from_join_marker.
          match goal with |- context [get_passage st ?x] => destruct (get_passage st x) as [p|] end;
            [|apply CurM_raise].
          apply CurM_bind.
          - match goal with |- context [after_nth_marker ?a ?b] => destruct (after_nth_marker a b) end;
              [apply CurM_ret|].
            match goal with |- CurM (match ?n with O => _ | S _ => _ end) => destruct n end;
              [apply CurM_ret|apply CurM_raise].
          - intros toks. apply CurM_bind; [apply CurM_frame, FrameM_render_content|]. intros [[? ?] ds].
            destruct (split_dirs ds) as [[? ?] ?].
            apply CurM_bind; [apply CurM_frame, FrameM_filter_choices|]. intros; apply CurM_ret. }
        intros post.
        apply CurM_bind; [apply CurM_simple; intros x x' r0 E; inversion E; reflexivity|]. intros s2.
        apply CurM_bind; [apply CurM_simple; intros x x' r0 E; inversion E; reflexivity|]. intros _.
        apply CurM_bind; [apply CurM_simple; intros x x' r0 E; inversion E; reflexivity|]. intros _.
        apply CurM_after_hooks.
    + apply CurM_bind; [apply CurM_goto_rec|]. intros r0. apply CurM_after_hooks.
Qed.

Definition CInv (e : estate) : Prop :=
  cur_ok (ec e) /\ Forall cur_ok (undo_stack e) /\ Forall cur_ok (redo_stack e).

Lemma CInv_step e o : CInv e -> CInv (fst (step orc ctxkeys st e o)).
Proof.
  intros (H1 & H2 & H3). destruct o; simpl.
  - destruct (Z_lt_dec i 0) as [Hi|Hi].
    { rewrite choose_bad_index by (unfold valid_index; lia). simpl. repeat split; assumption. }
    destruct (Z_lt_dec i (Z.of_nat (List.length (o_choices (current_out e))))) as [Hj|Hj].
    2:{ rewrite choose_bad_index by (unfold valid_index; lia). simpl. repeat split; assumption. }
    destruct (choose_valid orc ctxkeys st e i) as (ch & _ & Hc); [unfold valid_index; lia|].
    rewrite Hc. unfold run_nav. simpl.
    destruct (choose_nav orc ctxkeys st ch (current_out e) _) as [s' r] eqn:E.
    apply choose_nav_cur in E; [|exact H1]. destruct r; simpl.
    all: split; [exact E|split; [apply Forall_firstn; constructor; assumption|constructor]].
  - unfold undo. destruct (undo_stack e) as [|p rest] eqn:Eu; simpl.
    + split; [assumption|]. split; [rewrite Eu; constructor|assumption].
    + inversion H2; subst. split; [assumption|]. split; [assumption|constructor; assumption].
  - unfold redo. destruct (redo_stack e) as [|p rest] eqn:Er; simpl.
    + split; [assumption|]. split; [assumption|rewrite Er; constructor].
    + inversion H3; subst. split; [assumption|]. split; [|assumption].
      apply Forall_firstn. constructor; assumption.
  - unfold goto_op, run_nav. destruct (goto orc ctxkeys st spec _) as [s' r] eqn:E.
    assert (Hc' : cur_ok (nc s')) by (eapply CurM_goto_rec; eauto).
    destruct r; simpl; (split; [exact Hc'|]; split; assumption).
  - split; [assumption|]. split; assumption.
  - split; [assumption|]. split; assumption.
  - split; [assumption|]. split; constructor.
  - split; [exact H1|]. split; assumption.
  - split; [assumption|]. split; assumption.
  - split; [assumption|]. split; assumption.
  - split; [assumption|]. split; assumption.
Qed.

Lemma CInv_reach e : reach orc ctxkeys st e -> CInv e.
Proof.
  induction 1 as [v0 e o Hi|e o Hr IH]; [|apply CInv_step; exact IH].
  unfold init in Hi. destruct (get_passage st (initial st)); [|discriminate].
  unfold goto_op, run_nav in Hi.
  destruct (goto orc ctxkeys st (initial st) _) as [s' r] eqn:E. inversion Hi; subst. clear Hi.
  simpl. split; [eapply goto_rec_cur_ok; eauto|]. split; constructor.
Qed.

End WithOracle.
