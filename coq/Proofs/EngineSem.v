(* Further generic lemmas about the engine model: inversion of binds, the log written by each
   operation, the frame of hook runs, and the exception kinds that can surface. *)
From Coq Require Import String Ascii List Bool ZArith Arith Lia.
From Bardic Require Import PyStr Value Compiled Engine EngineBase EngineNav.
Import ListNotations.
Local Open Scope list_scope.

(* ---- inversion of binds ---- *)
Lemma bind_ok {A B} (m : M A) (f : A -> M B) s s1 a : m s = (s1, Ok a) -> bind m f s = f a s1.
Proof. intros H. unfold bind. rewrite H. reflexivity. Qed.
Lemma bind_exc {A B} (m : M A) (f : A -> M B) s s1 e : m s = (s1, Exc e) -> bind m f s = (s1, Exc e).
Proof. intros H. unfold bind. rewrite H. reflexivity. Qed.

Lemma bind_inv_ok {A B} (m : M A) (f : A -> M B) s s' b :
  bind m f s = (s', Ok b) -> exists a s1, m s = (s1, Ok a) /\ f a s1 = (s', Ok b).
Proof. unfold bind. destruct (m s) as [s1 [a|e]]; intros H; [eauto|discriminate]. Qed.

Lemma bind_inv_exc {A B} (m : M A) (f : A -> M B) s s' e :
  bind m f s = (s', Exc e) ->
  m s = (s', Exc e) \/ exists a s1, m s = (s1, Ok a) /\ f a s1 = (s', Exc e).
Proof.
  unfold bind. destruct (m s) as [s1 [a|e1]] eqn:E; intros H.
  - right. eauto.
  - left. inversion H; subst. reflexivity.
Qed.

(* ---- what is written to the log ---- *)
Definition LFrameM {A} (P : event -> Prop) (m : M A) : Prop :=
  forall s s' r, m s = (s', r) -> exists l, log s' = log s ++ l /\ Forall P l.

Lemma LFrameM_mono {A} (P Q : event -> Prop) (m : M A) :
  (forall e, P e -> Q e) -> LFrameM P m -> LFrameM Q m.
Proof.
  intros HPQ H s s' r E. destruct (H _ _ _ E) as (l & A1 & A2). exists l. split; [exact A1|].
  eapply Forall_impl; eauto.
Qed.

Lemma LFrameM_nil {A} P (m : M A) : (forall s s' r, m s = (s', r) -> log s' = log s) -> LFrameM P m.
Proof. intros H s s' r E. exists []. split; [rewrite (H _ _ _ E); now rewrite app_nil_r|constructor]. Qed.

Lemma LFrameM_ret {A} P (a : A) : LFrameM P (ret a).
Proof. apply LFrameM_nil. intros s s' r H. inversion H; reflexivity. Qed.
Lemma LFrameM_raise {A} P e : LFrameM P (@raise A e).
Proof. apply LFrameM_nil. intros s s' r H. inversion H; reflexivity. Qed.
Lemma LFrameM_get P : LFrameM P get.
Proof. apply LFrameM_nil. intros s s' r H. inversion H; reflexivity. Qed.
Lemma LFrameM_lift {A} P (x : res A) : LFrameM P (lift_res x).
Proof. apply LFrameM_nil. intros s s' r H. inversion H; reflexivity. Qed.
Lemma LFrameM_set_cur P p : LFrameM P (set_cur p).
Proof. apply LFrameM_nil. intros s s' r H. inversion H; reflexivity. Qed.
Lemma LFrameM_set_joinidx P j : LFrameM P (set_joinidx j).
Proof. apply LFrameM_nil. intros s s' r H. inversion H; reflexivity. Qed.
Lemma LFrameM_set_out P o : LFrameM P (set_out o).
Proof. apply LFrameM_nil. intros s s' r H. inversion H; reflexivity. Qed.
Lemma LFrameM_emit (P : event -> Prop) e : P e -> LFrameM P (emit e).
Proof. intros He s s' r H. inversion H; subst. exists [e]. split; [reflexivity|repeat constructor; exact He]. Qed.

Lemma LFrameM_bind {A B} P (m : M A) (f : A -> M B) :
  LFrameM P m -> (forall a, LFrameM P (f a)) -> LFrameM P (bind m f).
Proof.
  intros Hm Hf s s' r H. unfold bind in H. destruct (m s) as [s1 [a|e]] eqn:E.
  - destruct (Hm _ _ _ E) as (l1 & A1 & A2). destruct (Hf a _ _ _ H) as (l2 & B1 & B2).
    exists (l1 ++ l2). split; [rewrite B1, A1, app_assoc; reflexivity|apply Forall_app; auto].
  - inversion H; subst. eapply Hm; eauto.
Qed.

Lemma FrameM_LFrameM {A} (m : M A) : FrameM m -> LFrameM low_event m.
Proof. intros H s s' r E. destruct (H _ _ _ E) as [_ _ _ _ _ _ L]. exact L. Qed.

Definition nav_event (e : event) : Prop :=
  match e with EvHookRun _ => False | _ => True end.

Lemma low_nav e : low_event e -> nav_event e.
Proof. destruct e; simpl; auto. Qed.

(* ---- the frame of hook runs: everything but variables, hooks, the shown output and the log is kept ---- *)
Record HFrame (s s' : nstate) : Prop := mkHFrame {
  hf_scopes : scopes s' = scopes s;
  hf_cur : cur (nc s') = cur (nc s);
  hf_used : used (nc s') = used (nc s);
  hf_join : joinidx (nc s') = joinidx (nc s);
  hf_hooks : HooksStep (hooks (nc s)) (hooks (nc s')) }.

Lemma HFrame_refl s : HFrame s s.
Proof. constructor; auto using HooksStep. Qed.
Lemma HFrame_trans a b c : HFrame a b -> HFrame b c -> HFrame a c.
Proof.
  intros [A1 A2 A3 A4 A5] [B1 B2 B3 B4 B5]. constructor; try congruence. eapply HooksStep_trans; eauto.
Qed.
Lemma Frame_HFrame s s' : Frame s s' -> HFrame s s'.
Proof. intros [A1 A2 A3 A4 A5 A6 A7]. constructor; auto. Qed.

Definition HFrameM {A} (m : M A) : Prop := forall s s' r, m s = (s', r) -> HFrame s s'.

Lemma FrameM_HFrameM {A} (m : M A) : FrameM m -> HFrameM m.
Proof. intros H s s' r E. apply Frame_HFrame. eapply H; eauto. Qed.
Lemma HFrameM_ret {A} (a : A) : HFrameM (ret a).
Proof. intros s s' r H. inversion H; subst. apply HFrame_refl. Qed.
Lemma HFrameM_raise {A} e : HFrameM (@raise A e).
Proof. intros s s' r H. inversion H; subst. apply HFrame_refl. Qed.
Lemma HFrameM_get : HFrameM get.
Proof. intros s s' r H. inversion H; subst. apply HFrame_refl. Qed.
Lemma HFrameM_emit e : HFrameM (emit e).
Proof. intros s s' r H. inversion H; subst. constructor; simpl; auto using HooksStep. Qed.
Lemma HFrameM_set_out o : HFrameM (set_out o).
Proof. intros s s' r H. inversion H; subst. constructor; simpl; auto using HooksStep. Qed.
Lemma HFrameM_bind {A B} (m : M A) (f : A -> M B) :
  HFrameM m -> (forall a, HFrameM (f a)) -> HFrameM (bind m f).
Proof.
  intros Hm Hf s s' r H. unfold bind in H. destruct (m s) as [s1 [a|e]] eqn:E.
  - eapply HFrame_trans; [eapply Hm; eauto | eapply Hf; eauto].
  - inversion H; subst. eapply Hm; eauto.
Qed.

Section WithOracle.
Variable orc : pyorc.
Variable ctxkeys : list string.
Variable st : story.

Lemma HFrameM_execute_passage pid : HFrameM (execute_passage orc ctxkeys st pid).
Proof.
  unfold execute_passage. destruct (get_passage st pid); [|apply HFrameM_raise].
  apply HFrameM_bind; [apply HFrameM_emit|]. intros _. apply FrameM_HFrameM, FrameM_exec_commands.
Qed.

Lemma HFrameM_run_hooks l : HFrameM (run_hooks orc ctxkeys st l).
Proof.
  induction l as [|p r IH]; simpl; [apply HFrameM_ret|].
  destruct (get_passage st p); [|exact IH].
  apply HFrameM_bind; [apply HFrameM_emit|]. intros _.
  apply HFrameM_bind; [apply HFrameM_execute_passage|]. intros _.
  apply HFrameM_bind; [apply FrameM_HFrameM, FrameM_render_passage|]. intros o.
  apply HFrameM_bind; [exact IH|]. intros rest. apply HFrameM_ret.
Qed.

Lemma HFrameM_after_hooks o : HFrameM (after_hooks orc ctxkeys st o).
Proof.
  unfold after_hooks, trigger_event. apply HFrameM_bind.
  - apply HFrameM_bind; [apply HFrameM_get|]. intros s.
    destruct (lookup "turn_end" (hooks (nc s))); [|apply HFrameM_ret].
    apply HFrameM_bind; [apply HFrameM_run_hooks|]. intros; apply HFrameM_ret.
  - intros h. destruct (String.eqb h ""); [apply HFrameM_ret|].
    apply HFrameM_bind; [apply HFrameM_set_out|]. intros; apply HFrameM_ret.
Qed.

(* ---- logs of passage execution, navigation and hook runs ---- *)
Lemma execute_passage_log pid p s s' r :
  get_passage st pid = Some p -> execute_passage orc ctxkeys st pid s = (s', r) ->
  exists l, log s' = log s ++ EvEnter pid :: l /\ Forall low_event l.
Proof.
  intros Hp. unfold execute_passage. rewrite Hp. unfold bind, emit. simpl.
  destruct (exec_commands orc ctxkeys (execute p) _) as [s1 r1] eqn:E. intros H.
  assert (Hs : s' = s1) by (destruct r1; inversion H; reflexivity). subst s1.
  destruct (FrameM_exec_commands orc ctxkeys (execute p) _ _ _ E) as [_ _ _ _ _ _ (l & L1 & L2)].
  simpl in L1. exists l. split; [rewrite L1, <- app_assoc; reflexivity|exact L2].
Qed.

Lemma LFrameM_execute_passage pid : LFrameM nav_event (execute_passage orc ctxkeys st pid).
Proof.
  unfold execute_passage. destruct (get_passage st pid); [|apply LFrameM_raise].
  apply LFrameM_bind; [apply LFrameM_emit; exact I|]. intros _.
  eapply LFrameM_mono; [apply low_nav|]. apply FrameM_LFrameM, FrameM_exec_commands.
Qed.

Lemma LFrameM_render_passage pid : LFrameM nav_event (render_passage orc ctxkeys st pid).
Proof. eapply LFrameM_mono; [apply low_nav|]. apply FrameM_LFrameM, FrameM_render_passage. Qed.

Lemma LFrameM_with_scope {A} P p args (body : M A) :
  LFrameM P body -> LFrameM P (with_scope orc p args body).
Proof.
  intros Hb s s' r H. unfold with_scope, bind in H.
  destruct (enter_scope orc p args s) as [s1 [[]|e]] eqn:E.
  - apply enter_scope_spec in E. destruct E as (_ & Elog & _).
    unfold finally in H. destruct (body s1) as [s2 r2] eqn:Eb.
    destruct (Hb _ _ _ Eb) as (l & L1 & L2).
    assert (Hl : log s' = log s2) by (destruct (has_scope p args); inversion H; reflexivity).
    exists l. split; [rewrite Hl, L1, Elog; reflexivity|exact L2].
  - inversion H; subst. apply enter_scope_spec in E. destruct E as (_ & Elog & _).
    exists []. split; [rewrite Elog; now rewrite app_nil_r|constructor].
Qed.

(* direct navigation never runs a hook *)
Lemma LFrameM_goto_rec fuel : forall spec visited,
  LFrameM nav_event (goto_rec orc ctxkeys st fuel spec visited).
Proof.
  induction fuel as [|f IH]; intros spec visited; simpl; [apply LFrameM_raise|].
  apply LFrameM_bind; [apply LFrameM_lift|]. intros [pid args].
  destruct (get_passage st pid) as [p|]; [|apply LFrameM_raise].
  apply LFrameM_with_scope.
  destruct (str_in pid visited); [apply LFrameM_raise|].
  apply LFrameM_bind; [apply LFrameM_set_cur|]. intros _.
  apply LFrameM_bind; [apply LFrameM_get|]. intros s0.
  apply LFrameM_bind; [apply LFrameM_set_joinidx|]. intros _.
  apply LFrameM_bind; [apply LFrameM_execute_passage|]. intros _.
  apply LFrameM_bind; [apply LFrameM_render_passage|]. intros o.
  apply LFrameM_bind.
  - destruct (o_jump o) as [t|]; [|apply LFrameM_ret].
    apply LFrameM_bind; [apply IH|]. intros jo. apply LFrameM_ret.
  - intros o'. apply LFrameM_bind; [apply LFrameM_set_out|]. intros _. apply LFrameM_ret.
Qed.

Fixpoint hook_runs (l : list event) : list string :=
  match l with
  | [] => []
  | EvHookRun p :: r => p :: hook_runs r
  | _ :: r => hook_runs r
  end.

Lemma hook_runs_app a b : hook_runs (a ++ b) = hook_runs a ++ hook_runs b.
Proof. induction a as [|e r IH]; simpl; [reflexivity|]. destruct e; simpl; rewrite ?IH; reflexivity. Qed.

Lemma hook_runs_nav l : Forall nav_event l -> hook_runs l = [].
Proof. induction 1 as [|e r He Hr IH]; simpl; [reflexivity|]. destruct e; simpl in *; auto; contradiction. Qed.

Definition defined (p : string) : bool := match get_passage st p with Some _ => true | None => false end.

(* a successful hook run executes every hooked passage that exists exactly once, in list order *)
Lemma run_hooks_log l : forall s s' outs,
  run_hooks orc ctxkeys st l s = (s', Ok outs) ->
  exists lg, log s' = log s ++ lg /\ hook_runs lg = filter defined l.
Proof.
  induction l as [|p r IH]; intros s s' outs H; simpl in H.
  - inversion H; subst. exists []. split; [now rewrite app_nil_r|reflexivity].
  - cbn [filter]. destruct (get_passage st p) as [pp|] eqn:Ep.
    + assert (Hd : defined p = true) by (unfold defined; rewrite Ep; reflexivity). rewrite Hd.
      apply bind_inv_ok in H. destruct H as ([] & s1 & H1 & H).
      apply bind_inv_ok in H. destruct H as ([] & s2 & H2 & H).
      apply bind_inv_ok in H. destruct H as (o & s3 & H3 & H).
      apply bind_inv_ok in H. destruct H as (rest & s4 & H4 & H).
      inversion H; subst. clear H.
      inversion H1; subst. clear H1.
      destruct (LFrameM_execute_passage p _ _ _ H2) as (l2 & L2 & N2).
      destruct (LFrameM_render_passage p _ _ _ H3) as (l3 & L3 & N3).
      destruct (IH _ _ _ H4) as (l4 & L4 & N4).
      exists ([EvHookRun p] ++ l2 ++ l3 ++ l4). split.
      * rewrite L4, L3, L2. simpl. rewrite <- !app_assoc. reflexivity.
      * rewrite !hook_runs_app. simpl. rewrite (hook_runs_nav _ N2), (hook_runs_nav _ N3), N4.
        reflexivity.
    + assert (Hd : defined p = false) by (unfold defined; rewrite Ep; reflexivity). rewrite Hd.
      exact (IH _ _ _ H).
Qed.

End WithOracle.
