(* Lemmas for C04 (undo/redo), C02 (index handling) and the scope balance of every operation (C07/C15). *)
From Coq Require Import String Ascii List Bool ZArith Arith Lia.
From Bardic Require Import PyStr Value Compiled Engine EngineBase EngineNav.
Import ListNotations.
Local Open Scope list_scope.

Section WithOracle.
Variable orc : pyorc.
Variable ctxkeys : list string.
Variable st : story.

Definition valid_index (e : estate) (i : Z) : Prop :=
  (0 <= i < Z.of_nat (List.length (o_choices (current_out e))))%Z.

Definition wf_undo (e : estate) : Prop := List.length (undo_stack e) <= MAXUNDO.

Lemma push50_cons c l : push50 c l = c :: firstn 49 l.
Proof. reflexivity. Qed.

Lemma push50_length c l : List.length (push50 c l) = Nat.min (S (List.length l)) MAXUNDO.
Proof. unfold push50, MAXUNDO. rewrite firstn_length. simpl List.length. lia. Qed.

Lemma push50_id c l : List.length (c :: l) <= MAXUNDO -> push50 c l = c :: l.
Proof. intros H. unfold push50. apply firstn_all2. exact H. Qed.

(* ---- choose ---- *)
Lemma choose_bad_index e i :
  ~ valid_index e i -> choose orc ctxkeys st e i = (e, Exc IndexError).
Proof.
  unfold valid_index, choose. intros H.
  destruct ((i <? 0)%Z || (Z.of_nat (List.length (o_choices (current_out e))) <=? i)%Z) eqn:E; [reflexivity|].
  apply orb_false_iff in E. destruct E as [E1 E2].
  apply Z.ltb_ge in E1. apply Z.leb_gt in E2. lia.
Qed.

Lemma choose_valid e i :
  valid_index e i ->
  exists ch, nth_error (o_choices (current_out e)) (Z.to_nat i) = Some ch /\
    choose orc ctxkeys st e i =
    run_nav (choose_nav orc ctxkeys st ch (current_out e))
            (mkES (ec e) (push50 (ec e) (undo_stack e)) [] (escopes e) (elog e)).
Proof.
  unfold valid_index, choose. intros H.
  destruct ((i <? 0)%Z || (Z.of_nat (List.length (o_choices (current_out e))) <=? i)%Z) eqn:E.
  - apply orb_true_iff in E. destruct E as [E|E]; [apply Z.ltb_lt in E|apply Z.leb_le in E]; lia.
  - destruct (nth_error (o_choices (current_out e)) (Z.to_nat i)) as [ch|] eqn:En.
    + exists ch. split; reflexivity.
    + apply nth_error_None in En. lia.
Qed.

Lemma run_nav_stacks {A} (m : M A) e :
  undo_stack (fst (run_nav m e)) = undo_stack e /\ redo_stack (fst (run_nav m e)) = redo_stack e.
Proof. unfold run_nav. destruct (m _) as [s r]. split; reflexivity. Qed.

Lemma choose_stacks e i :
  valid_index e i ->
  undo_stack (fst (choose orc ctxkeys st e i)) = push50 (ec e) (undo_stack e) /\
  redo_stack (fst (choose orc ctxkeys st e i)) = [].
Proof.
  intros H. destruct (choose_valid e i H) as (ch & _ & ->).
  destruct (run_nav_stacks (choose_nav orc ctxkeys st ch (current_out e))
              (mkES (ec e) (push50 (ec e) (undo_stack e)) [] (escopes e) (elog e))) as [A B].
  split; assumption.
Qed.

(* undo after any accepted choice (whether it succeeded or failed half-way) restores the core exactly *)
Lemma undo_choose_lemma e i :
  valid_index e i ->
  let e1 := fst (choose orc ctxkeys st e i) in
  snd (undo e1) = true /\
  ec (fst (undo e1)) = ec e /\
  escopes (fst (undo e1)) = escopes e /\
  undo_stack (fst (undo e1)) = firstn 49 (undo_stack e) /\
  redo_stack (fst (undo e1)) = [ec e1].
Proof.
  intros H e1. destruct (choose_stacks e i H) as [Hu Hr]. fold e1 in Hu, Hr.
  pose proof (choose_scopes orc ctxkeys st e i) as Hs. fold e1 in Hs.
  unfold undo. rewrite Hu, push50_cons. simpl. rewrite Hr. repeat split; auto.
Qed.

Lemma redo_undo_lemma e :
  wf_undo e -> undo_stack e <> [] ->
  let e1 := fst (undo e) in
  snd (undo e) = true /\ snd (redo e1) = true /\
  ec (fst (redo e1)) = ec e /\ undo_stack (fst (redo e1)) = undo_stack e /\
  redo_stack (fst (redo e1)) = redo_stack e /\ escopes (fst (redo e1)) = escopes e.
Proof.
  unfold wf_undo. intros Hw Hne. destruct e as [c u r sc lg]; simpl in *.
  destruct u as [|p rest]; [contradiction|]. simpl.
  repeat split. apply push50_id. simpl in *.
  unfold MAXUNDO in *. lia.
Qed.

Lemma undo_empty e : undo_stack e = [] -> undo e = (e, false).
Proof. unfold undo. intros ->. reflexivity. Qed.
Lemma redo_empty e : redo_stack e = [] -> redo e = (e, false).
Proof. unfold redo. intros ->. reflexivity. Qed.

Lemma undo_length e : undo_stack e <> [] ->
  snd (undo e) = true /\ S (List.length (undo_stack (fst (undo e)))) = List.length (undo_stack e).
Proof. unfold undo. destruct (undo_stack e); [contradiction|]. intros _. split; reflexivity. Qed.

(* wf_undo is an invariant of every operation *)
Lemma wf_choose e i : wf_undo e -> wf_undo (fst (choose orc ctxkeys st e i)).
Proof.
  intros H. unfold wf_undo.
  destruct (Z_lt_dec i 0) as [Hi|Hi].
  - rewrite choose_bad_index; [exact H|unfold valid_index; lia].
  - destruct (Z_lt_dec i (Z.of_nat (List.length (o_choices (current_out e))))) as [Hj|Hj].
    + destruct (choose_stacks e i) as [-> _]; [unfold valid_index; lia|].
      rewrite push50_length. lia.
    + rewrite choose_bad_index; [exact H|unfold valid_index; lia].
Qed.

Lemma wf_undo_op e : wf_undo e -> wf_undo (fst (undo e)).
Proof.
  unfold wf_undo, undo. destruct (undo_stack e) eqn:E; simpl; intros H; [rewrite E; exact H|lia].
Qed.

Lemma wf_redo_op e : wf_undo e -> wf_undo (fst (redo e)).
Proof.
  unfold wf_undo, redo. destruct (redo_stack e); intros H; [exact H|].
  cbn [fst undo_stack]. rewrite push50_length. lia.
Qed.

Lemma wf_goto e spec : wf_undo e -> wf_undo (fst (goto_op orc ctxkeys st e spec)).
Proof.
  unfold wf_undo, goto_op. destruct (run_nav_stacks (goto orc ctxkeys st spec) e) as [-> _]. auto.
Qed.

(* undo/redo/reset/read never touch the scope stack *)
Lemma undo_scopes e : escopes (fst (undo e)) = escopes e.
Proof. unfold undo. destruct (undo_stack e); reflexivity. Qed.
Lemma redo_scopes e : escopes (fst (redo e)) = escopes e.
Proof. unfold redo. destruct (redo_stack e); reflexivity. Qed.

End WithOracle.
