(* Lemmas about Stdlib/Game.v (property C20). *)
From Coq Require Import ZArith List Bool String Ascii Lia.
From Bardic Require Import PyStr Game.
Import ListNotations.
Local Open Scope list_scope.
Local Open Scope Z_scope.

(* ---------------- Wallet ---------------- *)
Lemma wallet_new_nonneg g : 0 <= gold (wallet_new g).
Proof. unfold wallet_new; simpl; lia. Qed.

Lemma spend_spec w a :
  (spend w a = (mkWallet (gold w - a), true) /\ a <= gold w) \/
  (spend w a = (w, false) /\ gold w < a).
Proof.
  unfold spend, can_afford. destruct (gold w >=? a) eqn:E.
  - left. split; [reflexivity|lia].
  - right. split; [reflexivity|lia].
Qed.

Lemma spend_nonneg w a : 0 <= gold w -> 0 <= gold (fst (spend w a)).
Proof. intros H. destruct (spend_spec w a) as [[-> Hle]|[-> _]]; simpl; lia. Qed.

Lemma earn_nonneg w a : 0 <= gold w -> 0 <= gold (earn w a).
Proof. unfold earn; simpl; lia. Qed.

Lemma earn_ge w a : gold w <= gold (earn w a).
Proof. unfold earn; simpl; lia. Qed.

(* ---------------- Inventory ---------------- *)
Lemma current_weight_app l1 l2 mw :
  current_weight (mkInv (l1 ++ l2) mw) = current_weight (mkInv l1 mw) + current_weight (mkInv l2 mw).
Proof. unfold current_weight; simpl. induction l1 as [|i l1 IH]; simpl; lia. Qed.

Lemma inv_add_spec inv it :
  match inv_add inv it with
  | (inv', Ret true) =>
      iname it <> None /\ inv' = mkInv (items inv ++ [it]) (max_weight inv) /\
      current_weight inv + weight_of it <= max_weight inv /\
      current_weight inv' = current_weight inv + weight_of it
  | (inv', Ret false) => iname it <> None /\ inv' = inv /\ max_weight inv < current_weight inv + weight_of it
  | (inv', RaiseValueError) => iname it = None /\ inv' = inv
  end.
Proof.
  unfold inv_add. destruct (iname it) eqn:En; [|auto].
  destruct (current_weight inv + weight_of it <=? max_weight inv) eqn:E.
  - repeat split; try congruence; try lia.
    destruct inv as [l mw]; simpl. rewrite current_weight_app.
    unfold current_weight at 2; simpl. lia.
  - repeat split; try congruence; lia.
Qed.

Lemma remove_first_weight n l l' mw :
  remove_first n l = Some l' ->
  (forall i, In i l -> 0 <= weight_of i) ->
  current_weight (mkInv l' mw) <= current_weight (mkInv l mw) /\ (forall i, In i l' -> In i l).
Proof.
  revert l'. induction l as [|i l IH]; simpl; intros l' H Hw; [discriminate|].
  destruct (name_is n i).
  - inversion H; subst. split.
    + unfold current_weight; simpl. specialize (Hw i (or_introl eq_refl)). lia.
    + intros; auto.
  - destruct (remove_first n l) as [r|] eqn:E; [|discriminate]. inversion H; subst.
    destruct (IH r eq_refl) as [H1 H2]; [intros; apply Hw; auto|].
    split.
    + unfold current_weight in *; simpl in *. lia.
    + intros j [->|Hj]; auto.
Qed.

Lemma remove_first_some_iff n l : (exists l', remove_first n l = Some l') <-> existsb (name_is n) l = true.
Proof.
  induction l as [|i l IH]; simpl.
  - split; [intros [? H]; discriminate|discriminate].
  - destruct (name_is n i); simpl.
    + split; eauto.
    + rewrite <- IH. destruct (remove_first n l); split; intros [x H]; try discriminate; eauto.
Qed.

Lemma filter_weight (f : item -> bool) l mw :
  (forall i, In i l -> 0 <= weight_of i) ->
  current_weight (mkInv (filter f l) mw) <= current_weight (mkInv l mw).
Proof.
  unfold current_weight; simpl. induction l as [|i l IH]; simpl; intros Hw; [lia|].
  assert (0 <= weight_of i) by (apply Hw; auto).
  assert (forall j, In j l -> 0 <= weight_of j) by (intros; apply Hw; auto).
  destruct (f i); simpl; specialize (IH H0); lia.
Qed.

(* ---------------- Shop ---------------- *)
Lemma find_name_is n l it : List.find (name_is n) l = Some it -> In it l /\ name_is n it = true.
Proof. intros H. apply find_some in H. exact H. Qed.

Lemma name_is_has_name n it : name_is n it = true -> iname it <> None.
Proof. unfold name_is. destruct (iname it); congruence. Qed.

(* buy: an atomic exchange whenever the price is not negative *)
Definition buy_result (s : shop) (n : string) (w : wallet) (inv : inventory)
           (r : wallet * inventory * outcome bool) : Prop :=
  (exists it, find_item s n = Some it /\
     r = (mkWallet (gold w - get_buy_price s n),
          mkInv (items inv ++ [it]) (max_weight inv), Ret true) /\
     get_buy_price s n <= gold w /\
     current_weight inv + weight_of it <= max_weight inv)
  \/ (r = (w, inv, Ret false)).

Lemma buy_atomic_lemma s n w inv :
  0 <= get_buy_price s n -> buy_result s n w inv (buy s n w inv).
Proof.
  intros Hp. unfold buy_result, buy.
  destruct (find_item s n) as [it|] eqn:Ef; [|right; reflexivity].
  destruct (spend_spec w (get_buy_price s n)) as [[-> Hle]|[-> Hlt]]; simpl; [|right; reflexivity].
  pose proof (inv_add_spec inv it) as Ha.
  destruct (inv_add inv it) as [inv' [[|]|]].
  - destruct Ha as (_ & -> & Hc & _). left. exists it. repeat split; auto.
  - right. destruct w as [g]; unfold earn; simpl. do 3 f_equal. lia.
  - destruct Ha as [Hn _]. unfold find_item in Ef. apply find_name_is in Ef.
    destruct Ef as [_ Hnm]. apply name_is_has_name in Hnm. contradiction.
Qed.

(* sell: an atomic exchange *)
Definition sell_result (s : shop) (n : string) (w : wallet) (inv : inventory)
           (r : wallet * inventory * bool) : Prop :=
  (exists it l, inv_get inv n = Some it /\ remove_first n (items inv) = Some l /\
     r = (mkWallet (gold w + Z.max 0 (get_sell_price s (value_of it))),
          mkInv l (max_weight inv), true))
  \/ (r = (w, inv, false) /\ inv_has inv n = false).

Lemma find_none_existsb {A} (f : A -> bool) l : List.find f l = None -> existsb f l = false.
Proof. induction l as [|a l IH]; simpl; auto. destruct (f a); [discriminate|auto]. Qed.
Lemma find_some_existsb {A} (f : A -> bool) l x : List.find f l = Some x -> existsb f l = true.
Proof. induction l as [|a l IH]; simpl; [discriminate|]. destruct (f a); auto. Qed.

Lemma sell_atomic_lemma s n w inv : sell_result s n w inv (sell s n w inv).
Proof.
  unfold sell_result, sell, inv_get, inv_has, inv_remove.
  destruct (List.find (name_is n) (items inv)) as [it|] eqn:Ef.
  - pose proof (find_some_existsb _ _ _ Ef) as He.
    apply remove_first_some_iff in He. destruct He as [l Hl]. rewrite Hl.
    left. exists it, l. repeat split; auto.
  - right. split; [reflexivity|]. apply find_none_existsb; auto.
Qed.

(* ---------------- whole histories ---------------- *)
Ltac dmatch :=
  repeat match goal with
  | |- context [match ?e with _ => _ end] => destruct e
  end.

Lemma gstep_stock x o : stock (ws (fst (gstep x o))) = stock (ws x).
Proof. destruct o; simpl; dmatch; reflexivity. Qed.

Lemma grun_fst_cons x o ops : fst (grun x (o :: ops)) = fst (grun (fst (gstep x o)) ops).
Proof.
  simpl. destruct (gstep x o) as [x1 b]. simpl. destruct (grun x1 ops). reflexivity.
Qed.

Lemma grun_stock ops : forall x, stock (ws (fst (grun x ops))) = stock (ws x).
Proof.
  induction ops as [|o ops IH]; intros x; [reflexivity|].
  rewrite grun_fst_cons, IH. apply gstep_stock.
Qed.

Lemma buy_gold_nonneg s n w inv : 0 <= gold w -> 0 <= gold (fst (fst (buy s n w inv))).
Proof.
  intros H. unfold buy. destruct (find_item s n) as [it|]; [|exact H].
  destruct (spend_spec w (get_buy_price s n)) as [[-> Hle]|[-> Hlt]]; simpl; [|exact H].
  destruct (inv_add inv it) as [inv' [[|]|]]; simpl; try lia.
Qed.

Lemma sell_gold_nonneg s n w inv : 0 <= gold w -> 0 <= gold (fst (fst (sell s n w inv))).
Proof.
  intros H. unfold sell. destruct (inv_get inv n) as [it|]; [|exact H].
  destruct (inv_remove inv n) as [inv1 [|]]; simpl; lia.
Qed.

Lemma gstep_gold_nonneg x o : 0 <= gold (ww x) -> 0 <= gold (ww (fst (gstep x o))).
Proof.
  intros H. destruct o; simpl.
  - pose proof (spend_nonneg (ww x) a H). destruct (spend (ww x) a); exact H0.
  - lia.
  - lia.
  - destruct (inv_add (wi x) it) as [i [b|]]; exact H.
  - destruct (inv_remove (wi x) n); exact H.
  - exact H.
  - exact H.
  - pose proof (buy_gold_nonneg (ws x) n (ww x) (wi x) H).
    destruct (buy (ws x) n (ww x) (wi x)) as [[w i] [b|]]; exact H0.
  - pose proof (sell_gold_nonneg (ws x) n (ww x) (wi x) H).
    destruct (sell (ws x) n (ww x) (wi x)) as [[w i] b]; exact H0.
  - exact H.
Qed.

Lemma grun_gold_nonneg ops : forall x, 0 <= gold (ww x) -> 0 <= gold (ww (fst (grun x ops))).
Proof.
  induction ops as [|o ops IH]; intros x H; [exact H|].
  rewrite grun_fst_cons. apply IH, gstep_gold_nonneg, H.
Qed.

(* weight invariant over histories: items with non-negative weights *)
Definition weights_ok (l : list item) : Prop := forall i, In i l -> 0 <= weight_of i.
Definition op_weights_ok (o : gop) : Prop :=
  match o with OAdd it => 0 <= weight_of it | _ => True end.
Definition WInv (x : world) : Prop :=
  current_weight (wi x) <= max_weight (wi x) /\ weights_ok (items (wi x)) /\ weights_ok (stock (ws x)).

Lemma weights_ok_app l it : weights_ok l -> 0 <= weight_of it -> weights_ok (l ++ [it]).
Proof. intros H Hi j Hj. apply in_app_or in Hj. destruct Hj as [Hj|[<-|[]]]; auto. Qed.

Lemma gstep_WInv x o : WInv x -> op_weights_ok o -> WInv (fst (gstep x o)).
Proof.
  intros (Hc & Hi & Hs) Ho. destruct o; simpl in *.
  - destruct (spend (ww x) a); simpl; repeat split; auto.
  - repeat split; auto.
  - repeat split; auto.
  - pose proof (inv_add_spec (wi x) it) as Ha.
    destruct (inv_add (wi x) it) as [i [[|]|]]; simpl.
    + destruct Ha as (_ & -> & Hle & Hcw). repeat split; simpl; auto.
      * rewrite current_weight_app. unfold current_weight at 2; simpl.
        destruct (wi x) as [l mw]; simpl in *. unfold current_weight in *; simpl in *. lia.
      * apply weights_ok_app; auto.
    + destruct Ha as (_ & -> & _). repeat split; auto.
    + destruct Ha as (_ & ->). repeat split; auto.
  - unfold inv_remove. destruct (remove_first n (items (wi x))) as [l|] eqn:E; simpl.
    + destruct (remove_first_weight n _ l (max_weight (wi x)) E Hi) as [H1 H2].
      repeat split; simpl; auto.
      * destruct (wi x) as [l0 mw]; simpl in *. lia.
      * intros j Hj. apply Hi, H2, Hj.
    + repeat split; auto.
  - unfold inv_remove_all; simpl. repeat split; simpl; auto.
    + pose proof (filter_weight (fun i => negb (name_is n i)) (items (wi x)) (max_weight (wi x)) Hi).
      destruct (wi x) as [l0 mw]; simpl in *. lia.
    + intros j Hj. apply filter_In in Hj. apply Hi, Hj.
  - repeat split; simpl; auto.
    + unfold current_weight; simpl.
      assert (0 <= current_weight (wi x)).
      { unfold current_weight. induction (items (wi x)) as [|i l IH]; simpl; [lia|].
        assert (0 <= weight_of i) by (apply Hi; left; auto).
        assert (weights_ok l) by (intros j Hj; apply Hi; right; auto).
        specialize (IH H0). lia. }
      lia.
    + intros j [].
  - unfold buy. destruct (find_item (ws x) n) as [it|] eqn:Ef; simpl; [|repeat split; auto].
    destruct (spend (ww x) (get_buy_price (ws x) n)) as [w1 [|]]; simpl; [|repeat split; auto].
    pose proof (inv_add_spec (wi x) it) as Ha.
    unfold find_item in Ef. apply find_name_is in Ef. destruct Ef as [Hin Hnm].
    destruct (inv_add (wi x) it) as [i [[|]|]]; simpl.
    + destruct Ha as (_ & -> & Hle & Hcw). repeat split; simpl; auto.
      * rewrite current_weight_app. unfold current_weight at 2; simpl.
        destruct (wi x) as [l mw]; simpl in *. unfold current_weight in *; simpl in *. lia.
      * apply weights_ok_app; auto.
    + repeat split; auto.
    + repeat split; auto.
  - unfold sell. destruct (inv_get (wi x) n) as [it|]; simpl; [|repeat split; auto].
    unfold inv_remove. destruct (remove_first n (items (wi x))) as [l|] eqn:E; simpl.
    + destruct (remove_first_weight n _ l (max_weight (wi x)) E Hi) as [H1 H2].
      repeat split; simpl; auto.
      * destruct (wi x) as [l0 mw]; simpl in *. lia.
      * intros j Hj. apply Hi, H2, Hj.
    + repeat split; auto.
  - repeat split; auto.
Qed.

Lemma grun_WInv ops : forall x, WInv x -> Forall op_weights_ok ops -> WInv (fst (grun x ops)).
Proof.
  induction ops as [|o ops IH]; intros x H Ho; [exact H|].
  rewrite grun_fst_cons. inversion Ho; subst. apply IH; auto. apply gstep_WInv; auto.
Qed.

(* ---------------- Relationship ---------------- *)
Definition RInv (r : rel) : Prop :=
  0 <= trust r <= 100 /\ 0 <= comfort r <= 100 /\ -10 <= openness r <= 10.

Lemma clamp_range lo hi v : lo <= hi -> lo <= clamp lo hi v <= hi.
Proof. unfold clamp; lia. Qed.
Lemma clamp_id lo hi v : lo <= v <= hi -> clamp lo hi v = v.
Proof. unfold clamp; lia. Qed.

Lemma rel_new_RInv n t c o tp : RInv (rel_new n t c o tp).
Proof. unfold RInv, rel_new; simpl. repeat split; apply clamp_range; lia. Qed.

Lemma rstep_RInv r o : RInv r -> RInv (fst (rstep r o)).
Proof.
  intros (Ht & Hc & Ho). destruct o; unfold RInv; simpl; repeat split; try lia;
    try (apply clamp_range; lia).
Qed.

Lemma rrun_fst_cons r o ops : fst (rrun r (o :: ops)) = fst (rrun (fst (rstep r o)) ops).
Proof. simpl. destruct (rstep r o) as [r1 e]; simpl. destruct (rrun r1 ops); reflexivity. Qed.

Lemma rrun_RInv ops : forall r, RInv r -> RInv (fst (rrun r ops)).
Proof.
  induction ops as [|o ops IH]; intros r H; [exact H|].
  rewrite rrun_fst_cons. apply IH, rstep_RInv, H.
Qed.

Lemma add_trust_events r a :
  (In E60 (snd (add_trust r a)) <-> trust r < 60 <= trust (fst (add_trust r a))) /\
  (In E80 (snd (add_trust r a)) <-> trust r < 80 <= trust (fst (add_trust r a))) /\
  NoDup (snd (add_trust r a)).
Proof.
  unfold add_trust; simpl.
  destruct (trust r <? 60) eqn:A; destruct (60 <=? clamp 0 100 (trust r + a)) eqn:B;
  destruct (trust r <? 80) eqn:C; destruct (80 <=? clamp 0 100 (trust r + a)) eqn:D; simpl;
  repeat split; intros; try lia;
  repeat match goal with
  | H : _ \/ _ |- _ => destruct H
  | H : E60 = E80 |- _ => discriminate H
  | H : E80 = E60 |- _ => discriminate H
  | H : False |- _ => destruct H
  end; auto; try lia;
  repeat constructor; simpl; intuition discriminate.
Qed.

Lemma rel_roundtrip r : RInv r -> rel_from_dict (rel_to_dict r) = r.
Proof.
  intros (Ht & Hc & Ho). destruct r as [n t c o tp]; simpl in *.
  unfold rel_new. rewrite !clamp_id by lia. reflexivity.
Qed.

Lemma wallet_roundtrip w : 0 <= gold w -> wallet_from_dict (wallet_to_dict w) = w.
Proof. destruct w as [g]; unfold wallet_from_dict, wallet_to_dict, wallet_new; simpl; intros. f_equal; lia. Qed.

Lemma inv_roundtrip inv : inv_from_dict (inv_to_dict inv) = inv.
Proof. destruct inv; reflexivity. Qed.

Lemma shop_roundtrip s : shop_from_dict (shop_to_dict s) = s.
Proof. destruct s; reflexivity. Qed.

(* ---------------- dice ---------------- *)
Lemma roll_bounds draws : forall s m,
  Forall (fun d => 1 <= d <= s) draws ->
  Z.of_nat (List.length draws) + m <= roll_total draws m <= Z.of_nat (List.length draws) * s + m.
Proof.
  unfold roll_total. induction draws as [|d l IH]; intros s m H.
  - simpl; lia.
  - inversion H as [|? ? Hd Hl]; subst. specialize (IH s m Hl).
    cbn [fold_right List.length]. rewrite Nat2Z.inj_succ. nia.
Qed.
